/-
Lemmas on the cluster pipeline transition system (`Model/Pipeline.lean`), valid for every schedule:
termination measure, back-pressure invariant, absence of deadlock, conservation of clusters, and
"the recorded addresses are the layout of the written clusters in writing order".
-/
import JubakoModel.Model.Pipeline

namespace Jubako

/-! ### generic list helpers -/

theorem sum_map_set {α} (l : List α) (w : Nat) (x y : α) (f : α → Nat) (h : l[w]? = some y) :
    ((l.set w x).map f).sum + f y = (l.map f).sum + f x := by
  induction l generalizing w with
  | nil => simp at h
  | cons a l ih =>
    cases w with
    | zero =>
      simp at h; subst h; simp; omega
    | succ w =>
      simp at h
      have := ih w h
      simp only [List.set, List.map_cons, List.sum_cons]; omega

/-! ### step inversion -/

/-- case analysis on an enabled step -/
theorem pipe_step_elim (codec : Codec) (s s' : Pipe) (a : PAct) (h : s.step codec a = some s')
    (motive : Pipe → Prop)
    (sendC : ∀ c rest, s.todo = c :: rest → (c.compressed && codec.byte != 0) = true →
      s.count < s.maxQ →
      motive { s with todo := rest, dispatchQ := s.dispatchQ ++ [c], count := s.count + 1 })
    (sendR : ∀ c rest, s.todo = c :: rest → (c.compressed && codec.byte != 0) = false →
      motive { s with todo := rest, fusionQ := s.fusionQ ++ [.raw c] })
    (take : ∀ w c rest, s.workers[w]? = some .idle → s.dispatchQ = c :: rest →
      motive { s with workers := s.workers.set w (.busy c), dispatchQ := rest })
    (finish : ∀ w c, s.workers[w]? = some (.busy c) →
      motive { s with workers := s.workers.set w .sent,
                      fusionQ := s.fusionQ ++ [.compressed c (c.encode codec).1
                        (c.encode codec).2.1 (c.encode codec).2.2] })
    (release : ∀ w, s.workers[w]? = some .sent →
      motive { s with workers := s.workers.set w .idle, count := s.count - 1 })
    (writeR : ∀ c rest, s.fusionQ = .raw c :: rest →
      motive { s with fusionQ := rest,
                      out := s.out ++ ({ c with compressed := false }.encode codec).1,
                      addresses := s.addresses ++
                        [(c.idx, (s.base + s.out.length +
                            ({ c with compressed := false }.encode codec).2.1,
                          ({ c with compressed := false }.encode codec).2.2))],
                      done := s.done ++ [c] })
    (writeC : ∀ c bytes rel tlen rest, s.fusionQ = .compressed c bytes rel tlen :: rest →
      motive { s with fusionQ := rest, out := s.out ++ bytes,
                      addresses := s.addresses ++ [(c.idx, (s.base + s.out.length + rel, tlen))],
                      done := s.done ++ [c] }) :
    motive s' := by
  cases a with
  | mainSend =>
    simp only [Pipe.step] at h
    split at h
    · simp at h
    · rename_i c rest ht
      split at h
      · rename_i hc
        split at h
        · rename_i hlt
          simp at h; subst h; exact sendC c rest ht hc hlt
        · simp at h
      · rename_i hc
        simp at h; subst h
        exact sendR c rest ht (by simpa using hc)
  | take w =>
    simp only [Pipe.step] at h
    split at h
    · rename_i c rest hw hd
      simp at h; subst h; exact take w c rest hw hd
    · simp at h
  | finish w =>
    simp only [Pipe.step] at h
    split at h
    · rename_i c hw
      simp at h; subst h; exact finish w c hw
    · simp at h
  | release w =>
    simp only [Pipe.step] at h
    split at h
    · rename_i hw
      simp at h; subst h; exact release w hw
    · simp at h
  | write =>
    simp only [Pipe.step] at h
    split at h
    · simp at h
    · rename_i t rest hf
      cases t with
      | raw c =>
        simp at h; subst h; exact writeR c rest hf
      | compressed c bytes rel tlen =>
        simp at h; subst h; exact writeC c bytes rel tlen rest hf

/-! ### 1. the measure decreases -/

theorem pipe_measure_decreases (codec : Codec) (s s' : Pipe) (a : PAct)
    (h : s.step codec a = some s') : s'.measure < s.measure := by
  refine pipe_step_elim codec s s' a h (fun t => t.measure < s.measure) ?_ ?_ ?_ ?_ ?_ ?_ ?_
  · intro c rest ht hc hlt
    simp [Pipe.measure, ht]; omega
  · intro c rest ht hc
    simp [Pipe.measure, ht]; omega
  · intro w c rest hw hd
    have := sum_map_set s.workers w (.busy c) .idle Worker.weight hw
    simp [Pipe.measure, hd, Worker.weight] at this ⊢; omega
  · intro w c hw
    have := sum_map_set s.workers w .sent (.busy c) Worker.weight hw
    simp [Pipe.measure, Worker.weight] at this ⊢; omega
  · intro w hw
    have := sum_map_set s.workers w .idle .sent Worker.weight hw
    simp [Pipe.measure, Worker.weight] at this ⊢; omega
  · intro c rest hf
    simp [Pipe.measure, hf]
  · intro c bytes rel tlen rest hf
    simp [Pipe.measure, hf]

/-! ### 2. the back-pressure invariant -/

theorem pipe_step_maxQ (codec : Codec) (s s' : Pipe) (a : PAct) (h : s.step codec a = some s') :
    s'.maxQ = s.maxQ ∧ s'.workers.length = s.workers.length ∧ s'.base = s.base := by
  refine pipe_step_elim codec s s' a h
    (fun t => t.maxQ = s.maxQ ∧ t.workers.length = s.workers.length ∧ t.base = s.base)
    ?_ ?_ ?_ ?_ ?_ ?_ ?_ <;> intros <;> simp

theorem pipe_inv_init (cs : List Cluster) (n : Nat) : (Pipe.init cs n).Inv := by
  simp [Pipe.Inv, Pipe.init, Worker.holds]

theorem pipe_inv_step (codec : Codec) (s s' : Pipe) (a : PAct) (hi : s.Inv)
    (h : s.step codec a = some s') : s'.Inv := by
  obtain ⟨hc, hm⟩ := hi
  refine pipe_step_elim codec s s' a h (fun t => t.Inv) ?_ ?_ ?_ ?_ ?_ ?_ ?_
  · intro c rest ht hcc hlt
    simp [Pipe.Inv]; omega
  · intro c rest ht hcc
    exact ⟨hc, hm⟩
  · intro w c rest hw hd
    have := sum_map_set s.workers w (.busy c) .idle Worker.holds hw
    simp [Pipe.Inv, hd, Worker.holds] at this hc ⊢; omega
  · intro w c hw
    have := sum_map_set s.workers w .sent (.busy c) Worker.holds hw
    simp [Pipe.Inv, Worker.holds] at this hc ⊢; omega
  · intro w hw
    have := sum_map_set s.workers w .idle .sent Worker.holds hw
    simp [Pipe.Inv, Worker.holds] at this hc ⊢; omega
  · intro c rest hf
    exact ⟨hc, hm⟩
  · intro c bytes rel tlen rest hf
    exact ⟨hc, hm⟩

/-- induction principle for `run` -/
theorem pipe_run_induction (codec : Codec) (P : Pipe → Prop)
    (hstep : ∀ s s' a, P s → s.step codec a = some s' → P s')
    (s s' : Pipe) (as : List PAct) (hs : P s) (h : s.run codec as = some s') : P s' := by
  induction as generalizing s with
  | nil => simp [Pipe.run] at h; subst h; exact hs
  | cons a as ih =>
    simp only [Pipe.run] at h
    cases hst : s.step codec a with
    | none => simp [hst] at h
    | some s1 =>
      simp [hst] at h
      exact ih s1 (hstep s s1 a hs hst) h

theorem pipe_inv_run (codec : Codec) (s s' : Pipe) (as : List PAct) (hi : s.Inv)
    (h : s.run codec as = some s') : s'.Inv :=
  pipe_run_induction codec Pipe.Inv (fun s s' a hi h => pipe_inv_step codec s s' a hi h) s s' as hi h

theorem pipe_run_maxQ (codec : Codec) (s s' : Pipe) (as : List PAct)
    (h : s.run codec as = some s') :
    s'.maxQ = s.maxQ ∧ s'.workers.length = s.workers.length ∧ s'.base = s.base := by
  refine pipe_run_induction codec
    (fun t => t.maxQ = s.maxQ ∧ t.workers.length = s.workers.length ∧ t.base = s.base)
    ?_ s s' as ⟨rfl, rfl, rfl⟩ h
  intro t t' a ht hst
  have := pipe_step_maxQ codec t t' a hst
  omega

/-! ### 3. no deadlock -/

@[simp] theorem Worker.isIdle_idle : Worker.isIdle .idle = true := rfl
@[simp] theorem Worker.isIdle_busy (c : Cluster) : Worker.isIdle (.busy c) = false := rfl
@[simp] theorem Worker.isIdle_sent : Worker.isIdle .sent = false := rfl

theorem workers_idle_or (l : List Worker) :
    l.all Worker.isIdle = true ∨
      ∃ w : Nat, (∃ c, l[w]? = some (Worker.busy c)) ∨ l[w]? = some Worker.sent := by
  induction l with
  | nil => simp
  | cons x l ih =>
    cases x with
    | idle =>
      rcases ih with ih | ⟨w, ih⟩
      · left; simpa using ih
      · right; exact ⟨w + 1, by simpa using ih⟩
    | busy c => right; exact ⟨0, Or.inl ⟨c, rfl⟩⟩
    | sent => right; exact ⟨0, Or.inr rfl⟩

theorem workers_idle_holds (l : List Worker) (h : l.all Worker.isIdle = true) :
    (l.map Worker.holds).sum = 0 := by
  induction l with
  | nil => simp
  | cons x l ih =>
    cases x <;> simp [Worker.holds] at h ⊢
    exact ih (by simpa using h)

theorem workers_idle_head (l : List Worker) (h : l.all Worker.isIdle = true) (hl : 0 < l.length) :
    l[0]? = some Worker.idle := by
  cases l with
  | nil => simp at hl
  | cons x l => cases x <;> simp at h ⊢

theorem pipe_no_deadlock (codec : Codec) (s : Pipe) (hi : s.Inv) (hw : 0 < s.workers.length)
    (hq : 0 < s.maxQ) (hnf : s.final = false) : ∃ a s', s.step codec a = some s' := by
  cases hfq : s.fusionQ with
  | cons t rest =>
    refine ⟨.write, ?_⟩
    cases t <;> simp [Pipe.step, hfq]
  | nil =>
    rcases workers_idle_or s.workers with hidle | ⟨w, ⟨c, hb⟩ | hs⟩
    · cases hdq : s.dispatchQ with
      | cons c rest =>
        refine ⟨.take 0, ?_⟩
        simp [Pipe.step, hdq, workers_idle_head s.workers hidle hw]
      | nil =>
        have hcount : s.count = 0 := by
          have := hi.1
          rw [workers_idle_holds s.workers hidle, hdq] at this
          simpa using this
        cases htd : s.todo with
        | nil => simp [Pipe.final, htd, hdq, hfq, hidle] at hnf
        | cons c rest =>
          refine ⟨.mainSend, ?_⟩
          simp only [Pipe.step, htd]
          split
          · simp [hcount, hq]
          · simp
    · refine ⟨.finish w, ?_⟩
      simp [Pipe.step, hb]
    · refine ⟨.release w, ?_⟩
      simp [Pipe.step, hs]

/-! ### 4. termination bound -/

theorem pipe_run_length (codec : Codec) (s s' : Pipe) (as : List PAct)
    (h : s.run codec as = some s') : as.length + s'.measure ≤ s.measure := by
  induction as generalizing s with
  | nil => simp [Pipe.run] at h; subst h; simp
  | cons a as ih =>
    simp only [Pipe.run] at h
    cases hst : s.step codec a with
    | none => simp [hst] at h
    | some s1 =>
      simp [hst] at h
      have h1 := ih s1 h
      have h2 := pipe_measure_decreases codec s s1 a hst
      simp; omega

/-! ### 5. conservation of clusters -/

theorem pipe_all_perm_step (codec : Codec) (s s' : Pipe) (a : PAct)
    (h : s.step codec a = some s') : s'.all.Perm s.all := by
  refine pipe_step_elim codec s s' a h (fun t => t.all.Perm s.all) ?_ ?_ ?_ ?_ ?_ ?_ ?_
  · intro c rest ht hc hlt
    rw [List.perm_iff_count]; intro x
    simp [Pipe.all, ht, List.count_cons]; omega
  · intro c rest ht hc
    rw [List.perm_iff_count]; intro x
    simp [Pipe.all, ht, List.count_cons, WTask.cluster]; omega
  · intro w c rest hw hd
    rw [List.perm_iff_count]; intro x
    have := sum_map_set s.workers w (.busy c) .idle (fun y => List.count x y.clusters) hw
    simp [Pipe.all, hd, List.count_cons, List.count_flatten, Worker.clusters,
      Function.comp_def] at this ⊢
    omega
  · intro w c hw
    rw [List.perm_iff_count]; intro x
    have := sum_map_set s.workers w .sent (.busy c) (fun y => List.count x y.clusters) hw
    simp [Pipe.all, List.count_cons, List.count_flatten, Worker.clusters, WTask.cluster,
      Function.comp_def] at this ⊢
    omega
  · intro w hw
    rw [List.perm_iff_count]; intro x
    have := sum_map_set s.workers w .idle .sent (fun y => List.count x y.clusters) hw
    simp [Pipe.all, List.count_flatten, Worker.clusters, Function.comp_def] at this ⊢
    omega
  · intro c rest hf
    rw [List.perm_iff_count]; intro x
    simp [Pipe.all, hf, List.count_cons, WTask.cluster]; omega
  · intro c bytes rel tlen rest hf
    rw [List.perm_iff_count]; intro x
    simp [Pipe.all, hf, List.count_cons, WTask.cluster]; omega

theorem pipe_all_perm_run (codec : Codec) (s s' : Pipe) (as : List PAct)
    (h : s.run codec as = some s') : s'.all.Perm s.all :=
  pipe_run_induction codec (fun t => t.all.Perm s.all)
    (fun t t' a ht hst => (pipe_all_perm_step codec t t' a hst).trans ht) s s' as
    (List.Perm.refl _) h

theorem workers_idle_clusters (l : List Worker) (h : l.all Worker.isIdle = true) :
    (l.map Worker.clusters).flatten = [] := by
  induction l with
  | nil => simp
  | cons x l ih =>
    cases x <;> simp at h ⊢
    exact ⟨rfl, by simpa using ih (by simpa using h)⟩

theorem pipe_final_done (s : Pipe) (hf : s.final = true) : s.all = s.done := by
  simp only [Pipe.final, Bool.and_eq_true, List.isEmpty_iff] at hf
  obtain ⟨⟨⟨h1, h2⟩, h3⟩, h4⟩ := hf
  simp [Pipe.all, h1, h2, h3, workers_idle_clusters s.workers h4]

theorem pipe_init_all (cs : List Cluster) (n : Nat) : (Pipe.init cs n).all = cs := by
  simp [Pipe.all, Pipe.init, Worker.clusters]

theorem pipe_final_perm (codec : Codec) (cs : List Cluster) (n : Nat) (as : List PAct) (s' : Pipe)
    (h : (Pipe.init cs n).run codec as = some s') (hf : s'.final = true) : s'.done.Perm cs := by
  have := pipe_all_perm_run codec _ s' as h
  rwa [pipe_final_done s' hf, pipe_init_all] at this

/-! ### 6. the addresses are the layout of the written clusters, in writing order -/

theorem layoutClusters_cons (codec : Codec) (c : Cluster) (cs : List Cluster) (pos : Nat) :
    layoutClusters codec (c :: cs) pos =
      ((c.encode codec).1 ++ (layoutClusters codec cs (pos + (c.encode codec).1.length)).1,
       (c.idx, (pos + (c.encode codec).2.1, (c.encode codec).2.2)) ::
         (layoutClusters codec cs (pos + (c.encode codec).1.length)).2) := rfl

theorem layoutClusters_append_one (codec : Codec) (ws : List Cluster) (c : Cluster) (pos : Nat) :
    layoutClusters codec (ws ++ [c]) pos =
      ((layoutClusters codec ws pos).1 ++ (c.encode codec).1,
       (layoutClusters codec ws pos).2 ++
         [(c.idx, (pos + (layoutClusters codec ws pos).1.length + (c.encode codec).2.1,
                   (c.encode codec).2.2))]) := by
  induction ws generalizing pos with
  | nil => simp [layoutClusters_cons, layoutClusters]
  | cons w ws ih =>
    rw [List.cons_append, layoutClusters_cons, ih, layoutClusters_cons]
    simp [Nat.add_assoc]

def PipeLayoutInv (codec : Codec) (s : Pipe) : Prop :=
  s.base = 128 ∧
  (layoutClusters codec s.done 128) = (s.out, s.addresses) ∧
  (∀ t ∈ s.fusionQ, match t with
    | .raw c => c.compressed = false
    | .compressed c bytes rel tlen => (bytes, rel, tlen) = c.encode codec ∧ c.compressed = true) ∧
  (∀ w ∈ s.workers, ∀ c, w = .busy c → c.compressed = true) ∧
  (∀ c ∈ s.dispatchQ, c.compressed = true) ∧
  ClustersWF codec s.todo

theorem pipe_layout_init (codec : Codec) (cs : List Cluster) (n : Nat)
    (hwf : ClustersWF codec cs) : PipeLayoutInv codec (Pipe.init cs n) := by
  refine ⟨rfl, rfl, ?_, ?_, ?_, hwf⟩
  · simp [Pipe.init]
  · intro w hw c hc
    simp [Pipe.init] at hw
    rw [hw.2] at hc; cases hc
  · simp [Pipe.init]

theorem cluster_uncompress_eq (c : Cluster) (h : c.compressed = false) :
    { c with compressed := false } = c := by
  cases c; simp_all

theorem pipe_layout_step (codec : Codec) (s s' : Pipe) (a : PAct) (hi : PipeLayoutInv codec s)
    (h : s.step codec a = some s') : PipeLayoutInv codec s' := by
  obtain ⟨hb, hl, hfq, hwk, hdq, htd⟩ := hi
  refine pipe_step_elim codec s s' a h (fun t => PipeLayoutInv codec t) ?_ ?_ ?_ ?_ ?_ ?_ ?_
  · intro c rest ht hc hlt
    refine ⟨hb, hl, hfq, hwk, ?_, ?_⟩
    · intro x hx
      simp at hx
      rcases hx with hx | hx
      · exact hdq x hx
      · subst hx; simp at hc; exact hc.1
    · intro x hx; exact htd x (by simp [ht, hx])
  · intro c rest ht hc
    refine ⟨hb, hl, ?_, hwk, hdq, ?_⟩
    · intro t htq
      simp at htq
      rcases htq with htq | htq
      · exact hfq t htq
      · subst htq
        have hcw := htd c (by simp [ht])
        cases hcc : c.compressed with
        | false => exact hcc
        | true =>
          have := hcw hcc
          simp [hcc] at hc
          exact absurd hc this
    · intro x hx; exact htd x (by simp [ht, hx])
  · intro w c rest hw hd
    refine ⟨hb, hl, hfq, ?_, ?_, htd⟩
    · intro x hx c' hc'
      rcases List.mem_or_eq_of_mem_set hx with hx | hx
      · exact hwk x hx c' hc'
      · rw [hx] at hc'; cases hc'
        exact hdq c (by simp [hd])
    · intro x hx; exact hdq x (by simp [hd, hx])
  · intro w c hw
    refine ⟨hb, hl, ?_, ?_, hdq, htd⟩
    · intro t htq
      simp at htq
      rcases htq with htq | htq
      · exact hfq t htq
      · subst htq
        exact ⟨rfl, hwk _ (List.mem_of_getElem? hw) c rfl⟩
    · intro x hx c' hc'
      rcases List.mem_or_eq_of_mem_set hx with hx | hx
      · exact hwk x hx c' hc'
      · rw [hx] at hc'; cases hc'
  · intro w hw
    refine ⟨hb, hl, hfq, ?_, hdq, htd⟩
    intro x hx c' hc'
    rcases List.mem_or_eq_of_mem_set hx with hx | hx
    · exact hwk x hx c' hc'
    · rw [hx] at hc'; cases hc'
  · intro c rest hf
    have hc : c.compressed = false := hfq (.raw c) (by simp [hf])
    refine ⟨hb, ?_, ?_, hwk, hdq, htd⟩
    · rw [cluster_uncompress_eq c hc, layoutClusters_append_one, hl, hb]
    · intro t htq; exact hfq t (by simp [hf, htq])
  · intro c bytes rel tlen rest hf
    have hc := (hfq (.compressed c bytes rel tlen) (by simp [hf])).1
    refine ⟨hb, ?_, ?_, hwk, hdq, htd⟩
    · rw [layoutClusters_append_one, hl, hb, ← hc]
    · intro t htq; exact hfq t (by simp [hf, htq])

theorem pipe_layout_run (codec : Codec) (s s' : Pipe) (as : List PAct)
    (hi : PipeLayoutInv codec s) (h : s.run codec as = some s') : PipeLayoutInv codec s' :=
  pipe_run_induction codec (PipeLayoutInv codec)
    (fun s s' a hi h => pipe_layout_step codec s s' a hi h) s s' as hi h

theorem pipe_addresses (codec : Codec) (cs : List Cluster) (n : Nat) (as : List PAct) (s' : Pipe)
    (hwf : ClustersWF codec cs) (h : (Pipe.init cs n).run codec as = some s') :
    layoutClusters codec s'.done 128 = (s'.out, s'.addresses) :=
  (pipe_layout_run codec _ s' as (pipe_layout_init codec cs n hwf) h).2.1

end Jubako
