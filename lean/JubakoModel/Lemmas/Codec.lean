/- Codec round-trip lemmas for the L0/L1/L2 byte model. -/
import JubakoModel.Model.Pack
import JubakoModel.Lemmas.Slice

namespace Jubako

set_option linter.unusedSimpArgs false

/-! ### leBytes / leNat -/

theorem toNat_ofNat_u8 (x : Nat) : (UInt8.ofNat x).toNat = x % 256 := by
  simp [UInt8.toNat_ofNat']

theorem leBytes_length (v n : Nat) : (leBytes v n).length = n := by
  induction n generalizing v with
  | zero => simp [leBytes]
  | succ k ih => simp [leBytes, ih]

theorem leNat_leBytes (v n : Nat) : leNat (leBytes v n) = v % 256 ^ n := by
  induction n generalizing v with
  | zero => simp [leBytes, leNat, Nat.mod_one]
  | succ k ih =>
    simp only [leBytes, leNat, ih, toNat_ofNat_u8]
    rw [Nat.pow_succ, Nat.mul_comm (256 ^ k) 256, Nat.mod_mul]
    omega

theorem leNat_leBytes_of_lt (v n : Nat) (h : v < 256 ^ n) : leNat (leBytes v n) = v := by
  rw [leNat_leBytes, Nat.mod_eq_of_lt h]

theorem leNat_lt (bs : Bytes) : leNat bs < 256 ^ bs.length := by
  induction bs with
  | nil => simp [leNat]
  | cons b bs ih =>
    simp only [leNat, List.length_cons, Nat.pow_succ]
    have := b.toNat_lt
    omega

theorem leBytes_leNat (bs : Bytes) : leBytes (leNat bs) bs.length = bs := by
  induction bs with
  | nil => simp [leBytes]
  | cons b bs ih =>
    have hb := b.toNat_lt
    simp only [leNat, List.length_cons, leBytes]
    have h1 : (b.toNat + 256 * leNat bs) % 256 = b.toNat := by omega
    have h2 : (b.toNat + 256 * leNat bs) / 256 = leNat bs := by omega
    rw [h1, h2, ih]
    simp

/-! ### be32 -/

theorem be32_length (v : Nat) : (be32 v).length = 4 := by simp [be32]

theorem be32Nat_be32 (v : Nat) (h : v < 2 ^ 32) : be32Nat (be32 v) = v := by
  simp only [be32, be32Nat, toNat_ofNat_u8]
  omega

/-! ### blocks -/

theorem checkBlock_block (d : Bytes) : checkBlock (block d) = true := by
  have hlt : (crc32c d).toNat < 2 ^ 32 := UInt32.toNat_lt _
  simp only [checkBlock, block, List.length_append, be32_length, Nat.add_sub_cancel,
    List.take_left', List.drop_left', be32Nat_be32 _ hlt, beq_self_eq_true]

theorem block_length (d : Bytes) : (block d).length = d.length + 4 := by
  simp [block, be32_length]

theorem slice_mid (a b c : Bytes) : slice (a ++ b ++ c) a.length b.length = b := by
  simp [slice]

theorem readBlock_block (pre d post : Bytes) :
    readBlock (pre ++ block d ++ post) pre.length d.length = .ok d := by
  have hs : slice (pre ++ block d ++ post) pre.length (d.length + 4) = block d := by
    rw [← block_length, slice_mid]
  have hl : pre.length + d.length + 4 ≤ (pre ++ block d ++ post).length := by
    simp [block_length]; omega
  simp only [readBlock, hl, if_true, hs, checkBlock_block]
  simp [block]

/-! ### SizedOffset / ContentInfo -/

theorem sizedOffsetEncode_length (o s : Nat) : (sizedOffsetEncode o s).length = 8 := by
  simp [sizedOffsetEncode, leBytes_length]

theorem sizedOffset_roundtrip (o s : Nat) (ho : o < 2 ^ 48) (hs : s < 2 ^ 16) :
    sizedOffsetDecode (sizedOffsetEncode o s) = (o, s) := by
  simp only [sizedOffsetDecode, sizedOffsetEncode, leNat_leBytes]
  have h1 : (256 : Nat) ^ 8 = 18446744073709551616 := by decide
  rw [h1]
  refine Prod.ext ?_ ?_ <;> simp only <;> omega

theorem contentInfoEncode_length (c b : Nat) : (contentInfoEncode c b).length = 4 := by
  simp [contentInfoEncode, leBytes_length]

theorem contentInfo_roundtrip (c b : Nat) (hc : c < 2 ^ 20) (hb : b < 2 ^ 12) :
    contentInfoDecode (contentInfoEncode c b) = (c, b) := by
  simp only [contentInfoDecode, contentInfoEncode, leNat_leBytes]
  have h1 : (256 : Nat) ^ 4 = 4294967296 := by decide
  rw [h1]
  refine Prod.ext ?_ ?_ <;> simp only <;> omega

/-! ### neededBytes -/

theorem digits256_spec (fuel v : Nat) (h : v < fuel) : v < 256 ^ digits256 fuel v := by
  induction fuel generalizing v with
  | zero => omega
  | succ f ih =>
    simp only [digits256]
    split
    · simp; omega
    · have := ih (v / 256) (by omega)
      rw [Nat.add_comm, Nat.pow_succ]
      omega

theorem digits256_min (fuel v k : Nat) (h : v < fuel) (hk : v < 256 ^ k) :
    digits256 fuel v ≤ k := by
  induction fuel generalizing v k with
  | zero => omega
  | succ f ih =>
    simp only [digits256]
    split
    · omega
    · cases k with
      | zero => simp at hk; omega
      | succ k' =>
        rw [Nat.pow_succ] at hk
        have := ih (v / 256) k' (by omega) (by omega)
        omega

theorem neededBytes_spec (v : Nat) : v < 256 ^ (neededBytes v) ∧ 1 ≤ neededBytes v := by
  refine ⟨?_, by simp [neededBytes]; omega⟩
  have h := digits256_spec (v + 1) v (by omega)
  have hle : digits256 (v + 1) v ≤ neededBytes v := by simp [neededBytes]; omega
  exact Nat.lt_of_lt_of_le h (Nat.pow_le_pow_right (by omega) hle)

theorem neededBytes_min (v : Nat) (k : Nat) (hk : 1 ≤ k) (h : v < 256 ^ k) :
    neededBytes v ≤ k := by
  have := digits256_min (v + 1) v k (by omega) h
  simp only [neededBytes]
  omega

/-! ### PackKind -/

theorem PackKind.ofByte_byte (k : PackKind) : PackKind.ofByte k.byte = some k := by
  cases k <;> decide

/-! ### segment navigation -/

theorem zeros_length (n : Nat) : (zeros n).length = n := by simp [zeros]

theorem slice_skip (a b : Bytes) (off len : Nat) (h : a.length ≤ off) :
    slice (a ++ b) off len = slice b (off - a.length) len := by
  have := slice_append_right a b (off - a.length) len
  rwa [show a.length + (off - a.length) = off by omega] at this

theorem slice_here (a b : Bytes) (len : Nat) (h : a.length = len) :
    slice (a ++ b) 0 len = a := by
  subst h; exact slice_append_left a b

theorem slice_last (a : Bytes) (len : Nat) (h : a.length = len) : slice a 0 len = a := by
  subst h; exact slice_all a

theorem slice_cons_succ (x : UInt8) (a : Bytes) (off len : Nat) :
    slice (x :: a) (off + 1) len = slice a off len := by simp [slice]

theorem getD_skip (a b : Bytes) (n : Nat) (d : UInt8) (h : a.length ≤ n) :
    (a ++ b).getD n d = b.getD (n - a.length) d := by
  simp [List.getD_eq_getElem?_getD, List.getElem?_append_right h]

/-- Navigate into a right-nested append of segments of known lengths. -/
syntax "seg_simp" " [" Lean.Parser.Tactic.simpLemma,* "]" : tactic
macro_rules
  | `(tactic| seg_simp [$hs,*]) =>
    `(tactic| simp only [slice_skip, slice_here, slice_last, getD_skip, List.length_cons, List.length_nil,
      zeros_length, leBytes_length, sizedOffsetEncode_length, Nat.reduceAdd, Nat.reduceSub,
      Nat.reduceLeDiff, Nat.le_refl, $hs,*])

/-! ### PackHeader -/

theorem PackHeader.encode_length (h : PackHeader) (hw : h.WF) : h.encode.length = 60 := by
  obtain ⟨hvl, hul, -⟩ := hw
  simp [PackHeader.encode, zeros_length, leBytes_length, Consts.headerPad1, Consts.headerPad2,
    hvl, hul]

theorem PackHeader.decode_encode (h : PackHeader) (hw : h.WF)
    (hv : h.major = Consts.versionGateMajor ∧ h.minor = Consts.versionGateMinor) :
    PackHeader.decode h.encode = .ok h := by
  have hlen := PackHeader.encode_length h hw
  obtain ⟨kind, vendor, major, minor, uuid, flags, ps, cip⟩ := h
  obtain ⟨hvl, hul, hmaj, hmin, hfl, hps, hcp⟩ := hw
  obtain ⟨hv1, hv2⟩ := hv
  simp only at hvl hul hmaj hmin hfl hps hcp hv1 hv2
  have e : PackHeader.encode ⟨kind, vendor, major, minor, uuid, flags, ps, cip⟩ =
      [106, 98, 107, kind.byte] ++ (vendor ++ ([UInt8.ofNat major, UInt8.ofNat minor] ++ (uuid ++
      ([UInt8.ofNat flags] ++ (zeros 5 ++ (leBytes ps 8 ++ (leBytes cip 8 ++ zeros 12))))))) := by
    simp [PackHeader.encode, Consts.headerPad1, Consts.headerPad2]
  rw [e] at hlen ⊢
  generalize hbs : ([106, 98, 107, kind.byte] ++ (vendor ++ ([UInt8.ofNat major, UInt8.ofNat minor] ++
      (uuid ++ ([UInt8.ofNat flags] ++ (zeros 5 ++ (leBytes ps 8 ++ (leBytes cip 8 ++ zeros 12)))))))) =
      bs at hlen ⊢
  have h_take : bs.take 3 = [106, 98, 107] := by subst hbs; simp
  have h3 : bs.getD 3 0 = kind.byte := by subst hbs; simp
  have h8 : bs.getD 8 0 = UInt8.ofNat major := by
    subst hbs; seg_simp [hvl]; simp only [List.cons_append, List.getD_cons_zero]
  have h9 : bs.getD 9 0 = UInt8.ofNat minor := by
    subst hbs; seg_simp [hvl]
    simp only [List.cons_append, List.getD_cons_zero, List.getD_cons_succ]
  have h26 : bs.getD 26 0 = UInt8.ofNat flags := by
    subst hbs; seg_simp [hvl, hul]
    simp only [List.cons_append, List.getD_cons_zero, List.getD_cons_succ]
  have hven : slice bs 4 4 = vendor := by subst hbs; seg_simp [hvl, hul]
  have huu : slice bs 10 16 = uuid := by subst hbs; seg_simp [hvl, hul]
  have hp : slice bs 32 8 = leBytes ps 8 := by subst hbs; seg_simp [hvl, hul]
  have hc : slice bs 40 8 = leBytes cip 8 := by subst hbs; seg_simp [hvl, hul]
  have h256 : (256 : Nat) ^ 8 = 2 ^ 64 := by decide
  simp only [PackHeader.decode, hlen, h_take, h3, h8, h9, h26, hven, huu, hp, hc,
    PackKind.ofByte_byte, toNat_ofNat_u8, Nat.mod_eq_of_lt hmaj, Nat.mod_eq_of_lt hmin,
    Nat.mod_eq_of_lt hfl]
  simp [leNat_leBytes_of_lt _ 8 (h256 ▸ hps), leNat_leBytes_of_lt _ 8 (h256 ▸ hcp), hv1, hv2]

/-! ### PackInfo -/

theorem PackInfo.encodeFixed_length (p : PackInfo) (hw : p.WF) : p.encodeFixed.length = 38 := by
  obtain ⟨hul, -⟩ := hw
  simp [PackInfo.encodeFixed, leBytes_length, sizedOffsetEncode_length, hul]

theorem encodeLocation_length (loc : Bytes) (h : loc.length ≤ Consts.locationPad) :
    (encodeLocation loc).length = 214 := by
  simp only [Consts.locationPad] at h
  simp [encodeLocation, zeros_length, Consts.locationPad]
  omega

theorem PackInfo.encode_length (p : PackInfo) (hw : p.WF) : p.encode.length = 252 := by
  simp [PackInfo.encode, PackInfo.encodeFixed_length p hw, encodeLocation_length _ hw.2.2.2.2.2.2.2]

theorem PackInfo.decode_encode (p : PackInfo) (hw : p.WF) : PackInfo.decode p.encode = .ok p := by
  have hlen := PackInfo.encode_length p hw
  obtain ⟨uuid, ps, ⟨co, cs⟩, pid, kind, group, fid, loc⟩ := p
  obtain ⟨hul, hps, hco, hcs, hpid, hgr, hfid, hloc⟩ := hw
  simp only [Consts.locationPad] at hul hps hco hcs hpid hgr hfid hloc
  have e : PackInfo.encode ⟨uuid, ps, (co, cs), pid, kind, group, fid, loc⟩ =
      uuid ++ (leBytes ps 8 ++ (sizedOffsetEncode co cs ++ (leBytes pid 2 ++
      ([kind.byte, UInt8.ofNat group] ++ (leBytes fid 2 ++ ([UInt8.ofNat loc.length] ++
      (loc ++ zeros (213 - loc.length)))))))) := by
    simp [PackInfo.encode, PackInfo.encodeFixed, encodeLocation, Consts.locationPad]
  rw [e] at hlen ⊢
  generalize hbs : (uuid ++ (leBytes ps 8 ++ (sizedOffsetEncode co cs ++ (leBytes pid 2 ++
      ([kind.byte, UInt8.ofNat group] ++ (leBytes fid 2 ++ ([UInt8.ofNat loc.length] ++
      (loc ++ zeros (213 - loc.length))))))))) = bs at hlen ⊢
  have h34 : bs.getD 34 0 = kind.byte := by
    subst hbs; seg_simp [hul]
    simp only [List.cons_append, List.getD_cons_zero, List.getD_cons_succ]
  have h35 : bs.getD 35 0 = UInt8.ofNat group := by
    subst hbs; seg_simp [hul]
    simp only [List.cons_append, List.getD_cons_zero, List.getD_cons_succ]
  have h38 : bs.getD 38 0 = UInt8.ofNat loc.length := by
    subst hbs; seg_simp [hul]
    simp only [List.cons_append, List.getD_cons_zero, List.getD_cons_succ]
  have huu : slice bs 0 16 = uuid := by subst hbs; seg_simp [hul]
  have hp : slice bs 16 8 = leBytes ps 8 := by subst hbs; seg_simp [hul]
  have hc : slice bs 24 8 = sizedOffsetEncode co cs := by subst hbs; seg_simp [hul]
  have hpi : slice bs 32 2 = leBytes pid 2 := by subst hbs; seg_simp [hul]
  have hf : slice bs 36 2 = leBytes fid 2 := by subst hbs; seg_simp [hul]
  have hl : slice bs 39 loc.length = loc := by subst hbs; seg_simp [hul]
  have h8 : (256 : Nat) ^ 8 = 2 ^ 64 := by decide
  have h2 : (256 : Nat) ^ 2 = 2 ^ 16 := by decide
  have hll : loc.length % 256 = loc.length := by omega
  have hnp : ¬ loc.length > Consts.locationSkip := by simp only [Consts.locationSkip]; omega
  simp only [PackInfo.decode, hlen, h34, h35, h38, PackKind.ofByte_byte, toNat_ofNat_u8, hll,
    huu, hp, hc, hpi, hf, hl, Nat.mod_eq_of_lt hgr, sizedOffset_roundtrip co cs hco hcs,
    leNat_leBytes_of_lt _ 8 (h8 ▸ hps), leNat_leBytes_of_lt _ 2 (h2 ▸ hpid),
    leNat_leBytes_of_lt _ 2 (h2 ▸ hfid)]
  simp [hnp]

/-! ### CheckInfo / ManifestHeader -/

theorem CheckInfo.decode_encode (c : CheckInfo) (h : ∀ x, c = .blake3 x → x.length = 32) :
    CheckInfo.decode c.encode = .ok c := by
  cases c with
  | none => simp [CheckInfo.encode, CheckInfo.decode]
  | blake3 x =>
    have hx := h x rfl
    simp [CheckInfo.encode, CheckInfo.decode, hx, List.take_of_length_le (Nat.le_of_eq hx)]

theorem ManifestHeader.encode_length (m : ManifestHeader) (h4 : m.freeData.length = 24) :
    m.encode.length = 60 := by
  simp [ManifestHeader.encode, leBytes_length, sizedOffsetEncode_length, zeros_length, h4]

theorem ManifestHeader.decode_encode (m : ManifestHeader) (h1 : m.packCount < 2 ^ 16)
    (h2 : m.valueStore.1 < 2 ^ 48) (h3 : m.valueStore.2 < 2 ^ 16) (h4 : m.freeData.length = 24) :
    ManifestHeader.decode m.encode = .ok m := by
  have hlen := ManifestHeader.encode_length m h4
  obtain ⟨pc, ⟨vo, vs⟩, fd⟩ := m
  simp only at h1 h2 h3 h4
  have e : ManifestHeader.encode ⟨pc, (vo, vs), fd⟩ =
      leBytes pc 2 ++ (sizedOffsetEncode vo vs ++ (zeros 26 ++ fd)) := by
    simp [ManifestHeader.encode]
  rw [e] at hlen ⊢
  generalize hbs : (leBytes pc 2 ++ (sizedOffsetEncode vo vs ++ (zeros 26 ++ fd))) = bs at hlen ⊢
  have hp : slice bs 0 2 = leBytes pc 2 := by subst hbs; seg_simp [h4]
  have hv : slice bs 2 8 = sizedOffsetEncode vo vs := by subst hbs; seg_simp [h4]
  have hf : slice bs 36 24 = fd := by subst hbs; seg_simp [h4]
  have h16 : (256 : Nat) ^ 2 = 2 ^ 16 := by decide
  simp only [ManifestHeader.decode, hlen, hp, hv, hf, sizedOffset_roundtrip vo vs h2 h3,
    leNat_leBytes_of_lt _ 2 (h16 ▸ h1)]
  simp

end Jubako
