/-
Column statistics of the schema (`creator/directory_pack/schema/property.rs`: `ValueCounter`,
`PropertySize`) translated from the source on every run (Generated/FuncsStats.lean) are the statistics of
the writer model (`constantOf`, `listMax`, `neededBytes`).
-/
import JubakoModel.Model.DirWriter
import JubakoModel.Generated.FuncsStats
import JubakoModel.Lemmas.FuncsBytes
import JubakoModel.Lemmas.FuncsDir

namespace Jubako

open Generated in
theorem counter_many (xs : List Int) : xs.foldl valueCounterProcess SrcCounter.many = SrcCounter.many := by
  induction xs with
  | nil => rfl
  | cons x xs ih => simpa [List.foldl_cons, valueCounterProcess] using ih

open Generated in
theorem counter_one (x : Int) (xs : List Int) :
    xs.foldl valueCounterProcess (SrcCounter.one x) = if xs.all (· = x) then SrcCounter.one x else SrcCounter.many := by
  induction xs with
  | nil => simp
  | cons y ys ih =>
    simp only [List.foldl_cons, List.all_cons]
    by_cases h : y = x
    · subst h
      simp [valueCounterProcess, ih]
    · have hne : x ≠ y := fun e => h e.symm
      simp [valueCounterProcess, hne, h, counter_many]

/-- **`ValueCounter` folded over a column (translated `process`, then `Option::from`) is the model's
    `constantOf`**: `Some(v)` iff the column is not empty and all its values equal `v`. -/
theorem gen_valueCounter (col : List Int) :
    Generated.valueCounterDefault (col.foldl Generated.valueCounterProcess Generated.SrcCounter.none) = constantOf col := by
  cases col with
  | nil => rfl
  | cons x xs =>
    simp only [List.foldl_cons]
    have h0 : Generated.valueCounterProcess Generated.SrcCounter.none x = Generated.SrcCounter.one x := rfl
    rw [h0, counter_one, constantOf]
    by_cases h : xs.all (· = x) <;> simp [h, Generated.valueCounterDefault]

theorem int_max_cast (a v : Nat) : max (a : Int) (v : Int) = ((max a v : Nat) : Int) := by
  by_cases h : a ≤ v
  · rw [Nat.max_eq_right h, Int.max_eq_right (by omega)]
  · rw [Nat.max_eq_left (by omega), Int.max_eq_left (by omega)]

theorem size_fold (col : List Nat) (m : Nat) :
    (col.map (fun (v : Nat) => (v : Int))).foldl Generated.propertySizeProcess (Generated.SrcSize.auto (m : Int)) =
      Generated.SrcSize.auto ((col.foldl max m : Nat) : Int) := by
  induction col generalizing m with
  | nil => rfl
  | cons v vs ih =>
    simp only [List.map_cons, List.foldl_cons]
    have : Generated.propertySizeProcess (Generated.SrcSize.auto (m : Int)) (v : Int) =
        Generated.SrcSize.auto ((max m v : Nat) : Int) := by
      simp [Generated.propertySizeProcess, int_max_cast]
    rw [this, ih]

/-- **`PropertySize` folded over a column (translated `process`, then `ByteSize::from`) is the model's
    width rule `neededBytes (listMax column)`.** -/
theorem gen_propertySize (col : List Nat) :
    Generated.propertySizeBytes ((col.map (fun (v : Nat) => (v : Int))).foldl Generated.propertySizeProcess (Generated.SrcSize.auto 0)) =
      neededBytes (listMax col) := by
  have h := size_fold col 0
  simp only [Int.natCast_zero] at h
  rw [h]
  simp [Generated.propertySizeBytes, gen_neededBytes, listMax]

/-! ### `Property::process` folded over a column, then `Property::finalize` -/

/-- the statistics pass over a column: `process` for every value, in order (`none` = the source panics:
    a value whose type does not correspond to the property) -/
def processColumn (p : Generated.SrcSchemaProp) : List Generated.SrcValue → Option Generated.SrcSchemaProp
  | [] => some p
  | v :: vs => (Generated.schemaPropertyProcess p v).bind (fun p' => processColumn p' vs)

theorem constantOf_cast (col : List Nat) :
    (constantOf (col.map (fun (v : Nat) => (v : Int)))).map Int.toNat = constantOf col := by
  cases col with
  | nil => rfl
  | cons x xs =>
    simp only [List.map_cons, constantOf]
    have : (xs.map (fun (v : Nat) => (v : Int))).all (· = (x : Int)) = xs.all (· = x) := by
      induction xs with
      | nil => rfl
      | cons y ys ih => simp [List.all_cons, ih, Int.ofNat_inj]
    rw [this]
    by_cases h : xs.all (· = x) <;> simp [h]

theorem processColumn_uint (name : Bytes) (col : List Nat) (c : Generated.SrcCounter) (sz : Generated.SrcSize) :
    processColumn (.unsignedInt c sz name) (col.map (fun (v : Nat) => Generated.SrcValue.unsigned (v : Int))) =
      some (.unsignedInt ((col.map (fun (v : Nat) => (v : Int))).foldl Generated.valueCounterProcess c)
        ((col.map (fun (v : Nat) => (v : Int))).foldl Generated.propertySizeProcess sz) name) := by
  induction col generalizing c sz with
  | nil => rfl
  | cons v vs ih =>
    simp only [List.map_cons, processColumn, Generated.schemaPropertyProcess, Option.bind_some, List.foldl_cons]
    exact ih _ _

/-- **Unsigned columns, end to end at source level**: running the translated `Property::process` over the
    column and then the translated `Property::finalize` gives the layout property the writer model computes
    (`finalizeProp`): width `needed_bytes(max)`, stored as a default exactly when the column is constant. -/
theorem gen_finalize_uint (stores : List VStore) (keySize : Nat → Nat) (name : Bytes) (col : List Val)
    (hcol : ∀ v ∈ col, ∃ n, v = .u n) :
    ∃ p', processColumn (.unsignedInt .none (.auto 0) name) (col.map (fun v => Generated.SrcValue.unsigned (uintOf v : Int))) = some p' ∧
      (finalizeProp stores ⟨name, .uint⟩ col).toSrc = some (Generated.schemaPropertyFinalize keySize p') := by
  have hmap : col.map (fun v => Generated.SrcValue.unsigned (uintOf v : Int)) =
      (col.map uintOf).map (fun (v : Nat) => Generated.SrcValue.unsigned (v : Int)) := by simp [List.map_map, Function.comp_def]
  refine ⟨_, by rw [hmap]; exact processColumn_uint name (col.map uintOf) _ _, ?_⟩
  have hc := gen_valueCounter ((col.map uintOf).map (fun (v : Nat) => (v : Int)))
  have hs := gen_propertySize (col.map uintOf)
  simp only [Generated.schemaPropertyFinalize, hc, hs, constantOf_cast]
  unfold finalizeProp
  cases hconst : constantOf (col.map uintOf) with
  | none => simp [RawProp.toSrc]
  | some d => simp [RawProp.toSrc]

theorem size_fold_int (col : List Int) (sz : Generated.SrcSize) (f : Int → Int) :
    (col.map f).foldl Generated.propertySizeProcess sz = col.foldl (fun a v => Generated.propertySizeProcess a (f v)) sz := by
  induction col generalizing sz with
  | nil => rfl
  | cons v vs ih => simp [List.foldl_cons, ih]

theorem processColumn_sint (name : Bytes) (col : List Int) (c : Generated.SrcCounter) (sz : Generated.SrcSize) :
    processColumn (.signedInt c sz name) (col.map Generated.SrcValue.signed) =
      some (.signedInt (col.foldl Generated.valueCounterProcess c)
        ((col.map Generated.signedSizeKey).foldl Generated.propertySizeProcess sz) name) := by
  induction col generalizing c sz with
  | nil => rfl
  | cons v vs ih =>
    simp only [List.map_cons, processColumn, Generated.schemaPropertyProcess, Option.bind_some, List.foldl_cons]
    exact ih _ _

/-- **Signed columns, end to end at source level** (values within `i64`): width from the translated
    `signed_size_key`, default when constant. -/
theorem gen_finalize_sint (stores : List VStore) (keySize : Nat → Nat) (name : Bytes) (col : List Val)
    (hrange : ∀ v ∈ col, -(2 : Int) ^ 63 ≤ sintOf v ∧ sintOf v < (2 : Int) ^ 63) :
    ∃ p', processColumn (.signedInt .none (.auto 0) name) (col.map (fun v => Generated.SrcValue.signed (sintOf v))) = some p' ∧
      (finalizeProp stores ⟨name, .sint⟩ col).toSrc = some (Generated.schemaPropertyFinalize keySize p') := by
  have hmap : col.map (fun v => Generated.SrcValue.signed (sintOf v)) = (col.map sintOf).map Generated.SrcValue.signed := by
    simp [List.map_map, Function.comp_def]
  refine ⟨_, by rw [hmap]; exact processColumn_sint name (col.map sintOf) _ _, ?_⟩
  have hkeys : (col.map sintOf).map Generated.signedSizeKey =
      (col.map (fun v => signedSizeKey (sintOf v))).map (fun (n : Nat) => (n : Int)) := by
    simp only [List.map_map]
    apply List.map_congr_left
    intro v hv
    obtain ⟨h1, h2⟩ := hrange v hv
    simp [Function.comp_def, gen_signedSizeKey (sintOf v) h1 h2]
  have hc := gen_valueCounter (col.map sintOf)
  have hs := gen_propertySize (col.map (fun v => signedSizeKey (sintOf v)))
  simp only [Generated.schemaPropertyFinalize, hc, hkeys, hs]
  unfold finalizeProp
  cases hconst : constantOf (col.map sintOf) with
  | none => simp [RawProp.toSrc]
  | some d => simp [RawProp.toSrc]

theorem processColumn_content (name : Bytes) (col : List (Nat × Nat)) (c : Generated.SrcCounter) (ps cs : Generated.SrcSize) :
    processColumn (.contentAddress c ps cs name) (col.map (fun x => Generated.SrcValue.content ((x.1 : Int), (x.2 : Int)))) =
      some (.contentAddress ((col.map (fun x => (x.1 : Int))).foldl Generated.valueCounterProcess c)
        ((col.map (fun x => (x.1 : Int))).foldl Generated.propertySizeProcess ps)
        ((col.map (fun x => (x.2 : Int))).foldl Generated.propertySizeProcess cs) name) := by
  induction col generalizing c ps cs with
  | nil => rfl
  | cons v vs ih =>
    simp only [List.map_cons, processColumn, Generated.schemaPropertyProcess, Option.bind_some, List.foldl_cons]
    exact ih _ _ _

/-- **Content-address columns, end to end at source level**: pack-id and content-id widths, the pack id
    stored as a default exactly when it is the same for every entry. -/
theorem gen_finalize_content (stores : List VStore) (keySize : Nat → Nat) (name : Bytes) (col : List Val) :
    ∃ p', processColumn (.contentAddress .none (.auto 0) (.auto 0) name)
        (col.map (fun v => Generated.SrcValue.content ((packOf v : Int), (cidOf v : Int)))) = some p' ∧
      (finalizeProp stores ⟨name, .content⟩ col).toSrc = some (Generated.schemaPropertyFinalize keySize p') := by
  have hmap : col.map (fun v => Generated.SrcValue.content ((packOf v : Int), (cidOf v : Int))) =
      (col.map (fun v => (packOf v, cidOf v))).map (fun x => Generated.SrcValue.content ((x.1 : Int), (x.2 : Int))) := by
    simp [List.map_map, Function.comp_def]
  refine ⟨_, by rw [hmap]; exact processColumn_content name _ _ _ _, ?_⟩
  have e1 : (col.map (fun v => (packOf v, cidOf v))).map (fun x => (x.1 : Int)) = (col.map packOf).map (fun (n : Nat) => (n : Int)) := by
    simp [List.map_map, Function.comp_def]
  have e2 : (col.map (fun v => (packOf v, cidOf v))).map (fun x => (x.2 : Int)) = (col.map cidOf).map (fun (n : Nat) => (n : Int)) := by
    simp [List.map_map, Function.comp_def]
  have hc := gen_valueCounter ((col.map packOf).map (fun (n : Nat) => (n : Int)))
  have hp := gen_propertySize (col.map packOf)
  have hcs := gen_propertySize (col.map cidOf)
  simp only [Generated.schemaPropertyFinalize, e1, e2, hc, hp, hcs, constantOf_cast]
  unfold finalizeProp
  cases hconst : constantOf (col.map packOf) with
  | none => simp [RawProp.toSrc]
  | some d => simp [RawProp.toSrc]

theorem processColumn_array (name : Bytes) (fixed st : Nat) (col : List Nat) (sz : Generated.SrcSize) :
    processColumn (.array sz fixed st name) (col.map (fun (n : Nat) => Generated.SrcValue.array (n : Int))) =
      some (.array ((col.map (fun (n : Nat) => (n : Int))).foldl Generated.propertySizeProcess sz) fixed st name) := by
  induction col generalizing sz with
  | nil => rfl
  | cons v vs ih =>
    simp only [List.map_cons, processColumn, Generated.schemaPropertyProcess, Option.bind_some, List.foldl_cons]
    exact ih _

/-- **Array columns (inline prefix and / or value-store remainder), end to end at source level**: length
    field sized by the longest array, key size of the value store, inline prefix length. -/
theorem gen_finalize_array (stores : List VStore) (name : Bytes) (fixed st : Nat) (col : List Val)
    (hf : fixed < 256) (hind : ¬ (fixed = 0 ∧ (stores.getD st ⟨false, []⟩).indexed)) :
    ∃ p', processColumn (.array (.auto 0) fixed st name)
        (col.map (fun v => Generated.SrcValue.array (((arrayOf v).length : Nat) : Int))) = some p' ∧
      (finalizeProp stores ⟨name, .array fixed st⟩ col).toSrc =
        some (Generated.schemaPropertyFinalize (fun s => (stores.getD s ⟨false, []⟩).keySize) p') := by
  have hmap : col.map (fun v => Generated.SrcValue.array (((arrayOf v).length : Nat) : Int)) =
      (col.map (fun v => (arrayOf v).length)).map (fun (n : Nat) => Generated.SrcValue.array (n : Int)) := by
    simp [List.map_map, Function.comp_def]
  refine ⟨_, by rw [hmap]; exact processColumn_array name fixed st _ _, ?_⟩
  have hs := gen_propertySize (col.map (fun v => (arrayOf v).length))
  simp only [Generated.schemaPropertyFinalize, hs]
  unfold finalizeProp
  simp only []
  rw [if_neg hind]
  simp [RawProp.toSrc, Nat.mod_eq_of_lt hf]

end Jubako
