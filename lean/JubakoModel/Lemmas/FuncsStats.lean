/-
Column statistics of the schema (`creator/directory_pack/schema/property.rs`: `ValueCounter`,
`PropertySize`) translated from the source on every run (Generated/FuncsStats.lean) are the statistics of
the writer model (`constantOf`, `listMax`, `neededBytes`).
-/
import JubakoModel.Model.DirWriter
import JubakoModel.Generated.FuncsStats
import JubakoModel.Lemmas.FuncsBytes

namespace Jubako

open Generated in
theorem counter_many (xs : List Int) : xs.foldl valueCounterProcess SrcCounter.many = SrcCounter.many := by
  induction xs with
  | nil => rfl
  | cons x xs ih => simpa [List.foldl_cons, valueCounterProcess] using ih

open Generated in
theorem counter_one (x : Int) (xs : List Int) :
    xs.foldl valueCounterProcess (SrcCounter.one x) = if xs.all (· = x) then SrcCounter.one x else SrcCounter.many := by
  induction xs with
  | nil => simp
  | cons y ys ih =>
    simp only [List.foldl_cons, List.all_cons]
    by_cases h : y = x
    · subst h
      simp [valueCounterProcess, ih]
    · have hne : x ≠ y := fun e => h e.symm
      simp [valueCounterProcess, hne, h, counter_many]

/-- **`ValueCounter` folded over a column (translated `process`, then `Option::from`) is the model's
    `constantOf`**: `Some(v)` iff the column is not empty and all its values equal `v`. -/
theorem gen_valueCounter (col : List Int) :
    Generated.valueCounterDefault (col.foldl Generated.valueCounterProcess Generated.SrcCounter.none) = constantOf col := by
  cases col with
  | nil => rfl
  | cons x xs =>
    simp only [List.foldl_cons]
    have h0 : Generated.valueCounterProcess Generated.SrcCounter.none x = Generated.SrcCounter.one x := rfl
    rw [h0, counter_one, constantOf]
    by_cases h : xs.all (· = x) <;> simp [h, Generated.valueCounterDefault]

theorem int_max_cast (a v : Nat) : max (a : Int) (v : Int) = ((max a v : Nat) : Int) := by
  by_cases h : a ≤ v
  · rw [Nat.max_eq_right h, Int.max_eq_right (by omega)]
  · rw [Nat.max_eq_left (by omega), Int.max_eq_left (by omega)]

theorem size_fold (col : List Nat) (m : Nat) :
    (col.map (fun (v : Nat) => (v : Int))).foldl Generated.propertySizeProcess (Generated.SrcSize.auto (m : Int)) =
      Generated.SrcSize.auto ((col.foldl max m : Nat) : Int) := by
  induction col generalizing m with
  | nil => rfl
  | cons v vs ih =>
    simp only [List.map_cons, List.foldl_cons]
    have : Generated.propertySizeProcess (Generated.SrcSize.auto (m : Int)) (v : Int) =
        Generated.SrcSize.auto ((max m v : Nat) : Int) := by
      simp [Generated.propertySizeProcess, int_max_cast]
    rw [this, ih]

/-- **`PropertySize` folded over a column (translated `process`, then `ByteSize::from`) is the model's
    width rule `neededBytes (listMax column)`.** -/
theorem gen_propertySize (col : List Nat) :
    Generated.propertySizeBytes ((col.map (fun (v : Nat) => (v : Int))).foldl Generated.propertySizeProcess (Generated.SrcSize.auto 0)) =
      neededBytes (listMax col) := by
  have h := size_fold col 0
  simp only [Int.natCast_zero] at h
  rw [h]
  simp [Generated.propertySizeBytes, gen_neededBytes, listMax]

end Jubako
