/- Helper lemmas on `slice`. -/
import JubakoModel.Model.Bytes

namespace Jubako

theorem slice_length (bs : Bytes) (off len : Nat) (h : off + len ≤ bs.length) :
    (slice bs off len).length = len := by
  simp [slice]; omega

theorem slice_length_le (bs : Bytes) (off len : Nat) : (slice bs off len).length ≤ len := by
  simp [slice]; omega

theorem slice_slice (bs : Bytes) (a n off sz : Nat) (h : off + sz ≤ n) :
    slice (slice bs a n) off sz = slice bs (a + off) sz := by
  simp only [slice, List.drop_take, List.take_take, List.drop_drop]
  congr 1
  omega

theorem slice_append (bs : Bytes) (a m k : Nat) :
    slice bs a (m + k) = slice bs a m ++ slice bs (a + m) k := by
  simp only [slice]
  rw [List.take_add, List.drop_drop]

theorem slice_zero_len (bs : Bytes) (a : Nat) : slice bs a 0 = [] := by simp [slice]

theorem slice_take (bs : Bytes) (a n k : Nat) (h : k ≤ n) :
    (slice bs a n).take k = slice bs a k := by
  simp only [slice, List.take_take]; congr 1; omega

theorem slice_all (bs : Bytes) : slice bs 0 bs.length = bs := by simp [slice]

theorem slice_append_left (a b : Bytes) : slice (a ++ b) 0 a.length = a := by simp [slice]

theorem slice_append_right (a b : Bytes) (off len : Nat) :
    slice (a ++ b) (a.length + off) len = slice b off len := by
  simp only [slice]
  rw [List.drop_append, List.drop_of_length_le (by omega)]
  simp

end Jubako
