/-
The hand-written model functions are equal to the function bodies that tools/extract_funcs.py
translates out of the Rust source on every run (Generated/FuncsSearch.lean).  Each theorem here is an
obligation of the properties that use the model function: a change of the Rust body changes the
generated definition and breaks the proof.
-/
import JubakoModel.Model.Search
import JubakoModel.Generated.FuncsSearch

namespace Jubako

/-! ### `RangeTrait::find` -/

/-- the generated loop returns `some r` exactly when the model loop, given the same fuel, has decided `r`;
    with fuel above the window size both have decided -/
theorem gen_rangeFind_loop (cmpAt : Nat → Ordering) (ordered : Bool) (off count : Nat) :
    ∀ (fuel left right : Nat), right - left < fuel →
      Generated.rangeFind_loop cmpAt ordered off count (right - left) left right fuel =
        some (bsearchLoop (fun i => cmpAt (off + i)) fuel left right) := by
  intro fuel
  induction fuel with
  | zero => intro l r h; omega
  | succ f ih =>
    intro left right h
    unfold Generated.rangeFind_loop bsearchLoop
    by_cases hlr : left < right
    · simp only [hlr, if_true]
      cases hc : cmpAt (off + (left + (right - left) / 2)) with
      | lt =>
        simp only [reduceCtorEq, if_false, if_true]
        exact ih _ _ (by omega)
      | gt =>
        simp only [reduceCtorEq, if_false, if_true]
        exact ih _ _ (by omega)
      | eq => simp
    · simp [hlr]

theorem gen_rangeFind_linear_loop (cmpAt : Nat → Ordering) (ordered : Bool) (off count : Nat) :
    ∀ (fuel idx : Nat), count - idx < fuel →
      Generated.rangeFind_loop1 cmpAt ordered off count idx fuel =
        some (((List.range' idx (count - idx)).find? (fun i => cmpAt (off + i) == .eq))) := by
  intro fuel
  induction fuel with
  | zero => intro i h; omega
  | succ f ih =>
    intro idx h
    unfold Generated.rangeFind_loop1
    by_cases hi : idx < count
    · have hsplit : count - idx = (count - (idx + 1)) + 1 := by omega
      simp only [hi, if_true]
      rw [hsplit, List.range'_succ, List.find?_cons]
      cases hc : cmpAt (off + idx) with
      | eq => simp
      | lt =>
        simp only [reduceCtorEq, if_false]
        rw [ih (idx + 1) (by omega)]; rfl
      | gt =>
        simp only [reduceCtorEq, if_false]
        rw [ih (idx + 1) (by omega)]; rfl
    · have : count - idx = 0 := by omega
      simp [hi, this]

/-- **`RangeTrait::find` (both modes) terminates and is the model's `findOrdered` / `findLinear`**
    on the comparator shifted by the range's offset. -/
theorem gen_rangeFind (cmpAt : Nat → Ordering) (ordered : Bool) (off count : Nat) :
    Generated.rangeFind cmpAt ordered off count =
      some (if ordered then findOrdered (fun i => cmpAt (off + i)) count
            else findLinear (fun i => cmpAt (off + i)) count) := by
  unfold Generated.rangeFind
  cases ordered with
  | true =>
    simp only [if_true]
    have := gen_rangeFind_loop cmpAt true off count (count + 1) 0 (0 + count) (by omega)
    simpa [findOrdered] using this
  | false =>
    simp only [Bool.false_eq_true, if_false]
    have := gen_rangeFind_linear_loop cmpAt false off count (count + 1) 0 (by omega)
    simpa [findLinear, List.range_eq_range'] using this

/-! ### the window of an index -/

/-- `RangeTrait::get_entry` (translated on every run): relative id `k` of a window `(off, count)`
    designates store entry `off + k` exactly when `k < count` (the bound check is the translated
    `Idx::is_valid`); the store's own bound (`off + k < n`) is applied by `create_entry`. -/
theorem gen_rangeGetEntry (off count k : Nat) :
    Generated.rangeGetEntry off count k = if k < count then some (off + k) else none := by
  simp [Generated.rangeGetEntry, Generated.idxIsValid]

end Jubako
