/-
Lemmas on `RangeTrait::find` (`Model/Search.lean`): binary search vs. linear scan.

`MonoCmp` is stated exactly as requested (three implications over `i < j < count`); the
equivalent rank formulation is `monoCmp_iff_rank`.
-/
import JubakoModel.Model.Search

namespace Jubako

/-- verdicts are monotone over the window: once not-less, never less again; once greater,
    always greater -/
def MonoCmp (cmp : Nat → Ordering) (count : Nat) : Prop :=
  ∀ i j, i < j → j < count →
    (cmp i = .gt → cmp j = .gt) ∧ (cmp i = .eq → cmp j ≠ .lt) ∧ (cmp j = .lt → cmp i = .lt)

/-- `Less < Equal < Greater` -/
def ordRank : Ordering → Nat
  | .lt => 0
  | .eq => 1
  | .gt => 2

/-- the rank formulation of `MonoCmp` -/
theorem monoCmp_iff_rank (cmp : Nat → Ordering) (count : Nat) :
    MonoCmp cmp count ↔ ∀ i j, i ≤ j → j < count → ordRank (cmp i) ≤ ordRank (cmp j) := by
  constructor
  · intro hm i j hij hj
    rcases Nat.lt_or_ge i j with h | h
    · obtain ⟨h1, h2, h3⟩ := hm i j h hj
      cases hi : cmp i <;> cases hj' : cmp j <;> simp_all [ordRank]
    · have : i = j := by omega
      subst this; exact Nat.le_refl _
  · intro hr i j hij hj
    have := hr i j (Nat.le_of_lt hij) hj
    cases hi : cmp i <;> cases hj' : cmp j <;> simp_all [ordRank]

/-! ### 1. soundness -/

theorem bsearchLoop_sound (cmp : Nat → Ordering) :
    ∀ (fuel left right i : Nat), bsearchLoop cmp fuel left right = some i →
      left ≤ i ∧ i < right ∧ cmp i = .eq := by
  intro fuel
  induction fuel with
  | zero => intro left right i h; simp [bsearchLoop] at h
  | succ fuel ih =>
    intro left right i h
    unfold bsearchLoop at h
    by_cases hlr : left < right
    · simp only [hlr, if_true] at h
      cases hc : cmp (left + (right - left) / 2) with
      | lt =>
        rw [hc] at h
        have := ih _ _ _ h
        exact ⟨by omega, this.2.1, this.2.2⟩
      | gt =>
        rw [hc] at h
        have := ih _ _ _ h
        refine ⟨this.1, ?_, this.2.2⟩
        have : (right - left) / 2 < right - left := Nat.div_lt_self (by omega) (by omega)
        omega
      | eq =>
        rw [hc] at h
        simp only [Option.some.injEq] at h
        subst h
        refine ⟨by omega, ?_, hc⟩
        have : (right - left) / 2 < right - left := Nat.div_lt_self (by omega) (by omega)
        omega
    · simp [hlr] at h

theorem findOrdered_sound (cmp : Nat → Ordering) (count i : Nat)
    (h : findOrdered cmp count = some i) : i < count ∧ cmp i = .eq := by
  have := bsearchLoop_sound cmp _ _ _ _ h
  exact ⟨this.2.1, this.2.2⟩

/-! ### 2. completeness on monotone comparators -/

theorem bsearchLoop_complete (cmp : Nat → Ordering) (count : Nat) (hm : MonoCmp cmp count) :
    ∀ (fuel left right : Nat), right - left < fuel → right ≤ count →
      (∃ i, left ≤ i ∧ i < right ∧ cmp i = .eq) →
      ∃ j, bsearchLoop cmp fuel left right = some j := by
  intro fuel
  induction fuel with
  | zero => intro left right h; omega
  | succ fuel ih =>
    intro left right hf hrc ⟨i, hli, hir, hi⟩
    have hlr : left < right := by omega
    have hdiv : (right - left) / 2 < right - left := Nat.div_lt_self (by omega) (by omega)
    unfold bsearchLoop
    simp only [hlr, if_true]
    cases hc : cmp (left + (right - left) / 2) with
    | lt =>
      simp only
      apply ih _ _ (by omega) hrc
      refine ⟨i, ?_, hir, hi⟩
      -- `i ≤ mid` would force `cmp i = .lt`
      rcases Nat.lt_or_ge (left + (right - left) / 2) i with h | h
      · omega
      · exfalso
        rcases Nat.lt_or_ge i (left + (right - left) / 2) with h' | h'
        · have := (hm i _ h' (by omega)).2.2 hc
          rw [hi] at this; cases this
        · have : i = left + (right - left) / 2 := by omega
          rw [← this, hi] at hc; cases hc
    | gt =>
      simp only
      apply ih _ _ (by omega) (by omega)
      refine ⟨i, hli, ?_, hi⟩
      rcases Nat.lt_or_ge i (left + (right - left) / 2) with h | h
      · exact h
      · exfalso
        rcases Nat.lt_or_ge (left + (right - left) / 2) i with h' | h'
        · have := (hm _ i h' (by omega)).1 hc
          rw [hi] at this; cases this
        · have : i = left + (right - left) / 2 := by omega
          rw [← this, hi] at hc; cases hc
    | eq => exact ⟨_, rfl⟩

theorem findOrdered_complete (cmp : Nat → Ordering) (count : Nat) (hm : MonoCmp cmp count)
    (hex : ∃ i, i < count ∧ cmp i = .eq) : ∃ j, findOrdered cmp count = some j := by
  obtain ⟨i, hi, he⟩ := hex
  exact bsearchLoop_complete cmp count hm _ _ _ (by omega) (Nat.le_refl _)
    ⟨i, Nat.zero_le _, hi, he⟩

/-! ### 3. `none` characterisation -/

theorem findOrdered_none_iff (cmp : Nat → Ordering) (count : Nat) (hm : MonoCmp cmp count) :
    findOrdered cmp count = none ↔ ∀ i, i < count → cmp i ≠ .eq := by
  constructor
  · intro h i hi he
    obtain ⟨j, hj⟩ := findOrdered_complete cmp count hm ⟨i, hi, he⟩
    rw [h] at hj; cases hj
  · intro h
    cases hf : findOrdered cmp count with
    | none => rfl
    | some j =>
      have := findOrdered_sound cmp count j hf
      exact absurd this.2 (h j this.1)

theorem findOrdered_isSome_iff (cmp : Nat → Ordering) (count : Nat) (hm : MonoCmp cmp count) :
    (findOrdered cmp count).isSome ↔ ∃ i, i < count ∧ cmp i = .eq := by
  constructor
  · intro h
    obtain ⟨j, hj⟩ := Option.isSome_iff_exists.mp h
    exact ⟨j, findOrdered_sound cmp count j hj⟩
  · intro h
    obtain ⟨j, hj⟩ := findOrdered_complete cmp count hm h
    simp [hj]

/-! ### 4. linear scan -/

theorem findLinear_some_iff (cmp : Nat → Ordering) (count i : Nat) :
    findLinear cmp count = some i ↔ (i < count ∧ cmp i = .eq ∧ ∀ j, j < i → cmp j ≠ .eq) := by
  unfold findLinear
  rw [List.find?_range_eq_some]
  simp only [List.mem_range, beq_iff_eq, Bool.not_eq_true', beq_eq_false_iff_ne, ne_eq]
  constructor
  · rintro ⟨a, b, c⟩; exact ⟨b, a, c⟩
  · rintro ⟨a, b, c⟩; exact ⟨b, a, c⟩

theorem findLinear_none_iff (cmp : Nat → Ordering) (count : Nat) :
    findLinear cmp count = none ↔ ∀ i, i < count → cmp i ≠ .eq := by
  unfold findLinear
  rw [List.find?_range_eq_none]
  simp only [Bool.not_eq_true', beq_eq_false_iff_ne, ne_eq]

/-! ### 5. agreement -/

theorem find_agree_isSome (cmp : Nat → Ordering) (count : Nat) (hm : MonoCmp cmp count) :
    (findOrdered cmp count).isSome = (findLinear cmp count).isSome := by
  cases hl : findLinear cmp count with
  | none =>
    rw [(findOrdered_none_iff cmp count hm).mpr ((findLinear_none_iff cmp count).mp hl)]
  | some i =>
    obtain ⟨hi, he, _⟩ := (findLinear_some_iff cmp count i).mp hl
    obtain ⟨j, hj⟩ := findOrdered_complete cmp count hm ⟨i, hi, he⟩
    simp [hj]

theorem find_agree (cmp : Nat → Ordering) (count : Nat) (hm : MonoCmp cmp count)
    (hu : ∀ i j, i < count → j < count → cmp i = .eq → cmp j = .eq → i = j) :
    findOrdered cmp count = findLinear cmp count := by
  cases hl : findLinear cmp count with
  | none =>
    exact (findOrdered_none_iff cmp count hm).mpr ((findLinear_none_iff cmp count).mp hl)
  | some i =>
    obtain ⟨hi, he, _⟩ := (findLinear_some_iff cmp count i).mp hl
    obtain ⟨j, hj⟩ := findOrdered_complete cmp count hm ⟨i, hi, he⟩
    obtain ⟨hjc, hje⟩ := findOrdered_sound cmp count j hj
    rw [hj, hu j i hjc hi hje he]

/-! ### 6. sorted keys give a monotone comparator -/

/-- the two order facts the comparator needs (`ord a b ≠ .gt` reads `a ≤ b`) -/
structure OrdLaws {α} (ord : α → α → Ordering) : Prop where
  /-- `a ≤ b → b < c → a < c` -/
  le_lt_trans : ∀ a b c, ord a b ≠ .gt → ord b c = .lt → ord a c = .lt
  /-- `a ≤ b → a > c → b > c` -/
  le_gt_trans : ∀ a b c, ord a b ≠ .gt → ord a c = .gt → ord b c = .gt

theorem ordLaws_nat : OrdLaws (fun (a b : Nat) => compare a b) where
  le_lt_trans := by
    intro a b c h1 h2
    simp only [ne_eq, Nat.compare_eq_gt, Nat.compare_eq_lt] at *
    omega
  le_gt_trans := by
    intro a b c h1 h2
    simp only [ne_eq, Nat.compare_eq_gt] at *
    omega

theorem probeCmp_mono {α} (ord : α → α → Ordering) (hl : OrdLaws ord) (keys : List α)
    (dflt probe : α) (hs : keys.Pairwise (fun a b => ord a b ≠ .gt)) :
    MonoCmp (probeCmp ord keys dflt probe) keys.length := by
  intro i j hij hj
  have hi : i < keys.length := by omega
  have hle : ord keys[i] keys[j] ≠ .gt := List.pairwise_iff_getElem.mp hs i j hi hj hij
  have ei : keys.getD i dflt = keys[i] := by simp [List.getD, hi]
  have ej : keys.getD j dflt = keys[j] := by simp [List.getD, hj]
  simp only [probeCmp, ei, ej]
  refine ⟨hl.le_gt_trans _ _ _ hle, ?_, hl.le_lt_trans _ _ _ hle⟩
  intro he hlt
  rw [hl.le_lt_trans _ _ _ hle hlt] at he
  cases he

theorem find_sorted {α} (ord : α → α → Ordering) (hl : OrdLaws ord) (keys : List α)
    (dflt probe : α) (hs : keys.Pairwise (fun a b => ord a b ≠ .gt)) :
    (∃ i, i < keys.length ∧ ord (keys.getD i dflt) probe = .eq) ↔
      (findOrdered (probeCmp ord keys dflt probe) keys.length).isSome :=
  (findOrdered_isSome_iff _ _ (probeCmp_mono ord hl keys dflt probe hs)).symm

/-! ### 7. sub-windows -/

/-- monotonicity restricts to any sub-window -/
theorem MonoCmp.window {cmp : Nat → Ordering} {count : Nat} (hm : MonoCmp cmp count)
    (off cnt : Nat) (h : off + cnt ≤ count) : MonoCmp (fun i => cmp (off + i)) cnt := by
  intro i j hij hj
  exact hm (off + i) (off + j) (by omega) (by omega)

theorem probeCmp_window_mono {α} (ord : α → α → Ordering) (hl : OrdLaws ord) (keys : List α)
    (dflt probe : α) (hs : keys.Pairwise (fun a b => ord a b ≠ .gt))
    (off cnt : Nat) (h : off + cnt ≤ keys.length) :
    MonoCmp (fun i => probeCmp ord keys dflt probe (off + i)) cnt :=
  (probeCmp_mono ord hl keys dflt probe hs).window off cnt h

/-- binary search over a window of a sorted list finds a matching entry iff one exists -/
theorem find_sorted_window {α} (ord : α → α → Ordering) (hl : OrdLaws ord) (keys : List α)
    (dflt probe : α) (hs : keys.Pairwise (fun a b => ord a b ≠ .gt))
    (off cnt : Nat) (h : off + cnt ≤ keys.length) :
    (∃ i, i < cnt ∧ ord (keys.getD (off + i) dflt) probe = .eq) ↔
      (findOrdered (fun i => probeCmp ord keys dflt probe (off + i)) cnt).isSome :=
  (findOrdered_isSome_iff _ _ (probeCmp_window_mono ord hl keys dflt probe hs off cnt h)).symm

end Jubako
