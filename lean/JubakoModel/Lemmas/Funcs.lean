/-
The hand-written model functions are equal to the function bodies that tools/extract_funcs.py
translates out of the Rust source on every run (Generated/Funcs.lean).  Each theorem here is an
obligation of the properties that use the model function: a change of the Rust body changes the
generated definition and breaks the proof.

Where the Rust code relies on a range condition (fixed-width integers), the condition is an explicit
hypothesis and is stated in the theorem name's doc comment.
-/
import JubakoModel.Model.Bytes
import JubakoModel.Model.ContentPack
import JubakoModel.Model.DirWriter
import JubakoModel.Model.Search
import JubakoModel.Model.View
import JubakoModel.Model.Pack
import JubakoModel.Generated.Funcs
import JubakoModel.Lemmas.Codec

namespace Jubako

/-! ### `needed_bytes` -/

theorem gen_neededBytes_loop (fuel v nb : Nat) (h : v < fuel) :
    Generated.neededBytes_loop v nb fuel = some (max (nb + digits256 fuel v) 1) := by
  induction fuel generalizing v nb with
  | zero => omega
  | succ f ih =>
    unfold Generated.neededBytes_loop
    by_cases hv : v > 0
    · have h8 : v >>> 8 = v / 256 := by simp [Nat.shiftRight_eq_div_pow]
      have hlt : v / 256 < f := by
        have : v / 256 < v := Nat.div_lt_self hv (by decide)
        omega
      simp only [hv, if_true, h8]
      rw [ih (v / 256) (nb + 1) hlt]
      have hd : digits256 (f + 1) v = 1 + digits256 f (v / 256) := by
        simp [digits256, Nat.ne_of_gt hv]
      rw [hd]; congr 2; omega
    · have hv0 : v = 0 := by omega
      subst hv0
      simp [digits256]

/-- **`needed_bytes` terminates on every input and computes the model's `neededBytes`.** -/
theorem gen_neededBytes (v : Nat) : Generated.neededBytes v = some (neededBytes v) := by
  unfold Generated.neededBytes
  rw [gen_neededBytes_loop (v + 1) v 0 (by omega)]
  simp [neededBytes, Nat.max_comm]

/-! ### `SizedOffset`, `ContentInfo` bit packing -/

theorem gen_sizedOffsetPack (offset size : Nat) :
    sizedOffsetEncode offset size = leBytes (Generated.sizedOffsetPack offset size % 2 ^ 64) 8 := by
  simp [sizedOffsetEncode, Generated.sizedOffsetPack, Nat.shiftLeft_eq, Nat.and_two_pow_sub_one_eq_mod size 16]

theorem gen_sizedOffsetUnpack (bs : Bytes) :
    sizedOffsetDecode bs = ((Generated.sizedOffsetUnpack (leNat bs)).2, (Generated.sizedOffsetUnpack (leNat bs)).1) := by
  simp [sizedOffsetDecode, Generated.sizedOffsetUnpack, Nat.shiftRight_eq_div_pow,
    Nat.and_two_pow_sub_one_eq_mod (leNat bs) 16]

theorem gen_contentInfoPack (cluster blob : Nat) :
    contentInfoEncode cluster blob = leBytes (Generated.contentInfoPack cluster blob % 2 ^ 32) 4 := by
  simp [contentInfoEncode, Generated.contentInfoPack, Nat.shiftLeft_eq, Nat.and_two_pow_sub_one_eq_mod blob 12]

theorem gen_contentInfoUnpack (bs : Bytes) :
    contentInfoDecode bs = Generated.contentInfoUnpack (leNat bs) := by
  have h : leNat bs % 4096 % 65536 = leNat bs % 4096 :=
    Nat.mod_eq_of_lt (Nat.lt_of_lt_of_le (Nat.mod_lt _ (by decide)) (by decide))
  simp [contentInfoDecode, Generated.contentInfoUnpack, Nat.shiftRight_eq_div_pow,
    Nat.and_two_pow_sub_one_eq_mod (leNat bs) 12, h]

/-! ### the cluster split rule -/

theorem gen_clusterIsFull (c : Cluster) (size : Nat) :
    c.isFull size = Generated.clusterIsFull c.blobs.length c.compressed c.dataSize size := by
  unfold Cluster.isFull Generated.clusterIsFull
  by_cases h : c.blobs.length = Consts.maxBlobsPerCluster
  · simp [h]
  · have hne : (c.blobs.length == Consts.maxBlobsPerCluster) = false := by simpa using h
    simp only [hne, Bool.false_or, h, if_false]
    cases hc : c.compressed <;> cases hb : c.blobs with
    | nil => simp
    | cons x xs => simp

/-! ### signed width key -/

theorem gen_signedSizeKey (v : Int) (hlo : -(2 : Int) ^ 63 ≤ v) (hhi : v < (2 : Int) ^ 63) :
    (signedSizeKey v : Int) = Generated.signedSizeKey v := by
  unfold signedSizeKey Generated.signedSizeKey
  by_cases hv : v < 0
  · simp only [hv, if_true]
    by_cases hm : (-v - 1) * 2 ≤ 9223372036854775807
    · simp only [hm, if_true, Option.getD_some]
      have : (2 * (-v - 1)).toNat ≤ 2 ^ 63 - 1 := by omega
      rw [Nat.min_eq_left this]; omega
    · simp only [hm, if_false, Option.getD_none]
      have : ¬ (2 * (-v - 1)).toNat ≤ 2 ^ 63 - 1 := by omega
      rw [Nat.min_eq_right (by omega)]; omega
  · simp only [hv, if_false]
    by_cases hm : v * 2 ≤ 9223372036854775807
    · simp only [hm, if_true, Option.getD_some]
      have : (2 * v).toNat ≤ 2 ^ 63 - 1 := by omega
      rw [Nat.min_eq_left this]; omega
    · simp only [hm, if_false, Option.getD_none]
      rw [Nat.min_eq_right (by omega)]; omega

/-! ### `RangeTrait::find` -/

/-- the generated loop returns `some r` exactly when the model loop, given the same fuel, has decided `r`;
    with fuel above the window size both have decided -/
theorem gen_rangeFind_loop (cmpAt : Nat → Ordering) (ordered : Bool) (off count : Nat) :
    ∀ (fuel left right : Nat), right - left < fuel →
      Generated.rangeFind_loop cmpAt ordered off count (right - left) left right fuel =
        some (bsearchLoop (fun i => cmpAt (off + i)) fuel left right) := by
  intro fuel
  induction fuel with
  | zero => intro l r h; omega
  | succ f ih =>
    intro left right h
    unfold Generated.rangeFind_loop bsearchLoop
    by_cases hlr : left < right
    · simp only [hlr, if_true]
      cases hc : cmpAt (off + (left + (right - left) / 2)) with
      | lt =>
        simp only [reduceCtorEq, if_false, if_true]
        exact ih _ _ (by omega)
      | gt =>
        simp only [reduceCtorEq, if_false, if_true]
        exact ih _ _ (by omega)
      | eq => simp
    · simp [hlr]

theorem gen_rangeFind_linear_loop (cmpAt : Nat → Ordering) (ordered : Bool) (off count : Nat) :
    ∀ (fuel idx : Nat), count - idx < fuel →
      Generated.rangeFind_loop1 cmpAt ordered off count idx fuel =
        some (((List.range' idx (count - idx)).find? (fun i => cmpAt (off + i) == .eq))) := by
  intro fuel
  induction fuel with
  | zero => intro i h; omega
  | succ f ih =>
    intro idx h
    unfold Generated.rangeFind_loop1
    by_cases hi : idx < count
    · have hsplit : count - idx = (count - (idx + 1)) + 1 := by omega
      simp only [hi, if_true]
      rw [hsplit, List.range'_succ, List.find?_cons]
      cases hc : cmpAt (off + idx) with
      | eq => simp
      | lt =>
        simp only [reduceCtorEq, if_false]
        rw [ih (idx + 1) (by omega)]; rfl
      | gt =>
        simp only [reduceCtorEq, if_false]
        rw [ih (idx + 1) (by omega)]; rfl
    · have : count - idx = 0 := by omega
      simp [hi, this]

/-- **`RangeTrait::find` (both modes) terminates and is the model's `findOrdered` / `findLinear`**
    on the comparator shifted by the range's offset. -/
theorem gen_rangeFind (cmpAt : Nat → Ordering) (ordered : Bool) (off count : Nat) :
    Generated.rangeFind cmpAt ordered off count =
      some (if ordered then findOrdered (fun i => cmpAt (off + i)) count
            else findLinear (fun i => cmpAt (off + i)) count) := by
  unfold Generated.rangeFind
  cases ordered with
  | true =>
    simp only [if_true]
    have := gen_rangeFind_loop cmpAt true off count (count + 1) 0 (0 + count) (by omega)
    simpa [findOrdered] using this
  | false =>
    simp only [Bool.false_eq_true, if_false]
    have := gen_rangeFind_linear_loop cmpAt false off count (count + 1) 0 (by omega)
    simpa [findLinear, List.range_eq_range'] using this

/-! ### regions and streams -/

theorem gen_regionCutRel (r : Region) (off size : Nat) :
    ((r.cutRel off size).b, (r.cutRel off size).e) = Generated.regionCutRel r.b r.e off size := by
  simp [Region.cutRel, Generated.regionCutRel]

theorem gen_streamSizeLeft (s : Stream) : s.sizeLeft = Generated.streamSizeLeft s.r.b s.r.e s.cur := by
  simp [Stream.sizeLeft, Generated.streamSizeLeft]

theorem gen_streamSize (s : Stream) : s.size = Generated.streamSize s.r.b s.r.e s.cur := by
  simp [Stream.size, Region.size, Generated.streamSize]

theorem gen_streamOffset (s : Stream) : s.offset = Generated.streamOffset s.r.b s.r.e s.cur := by
  simp [Stream.offset, Generated.streamOffset]

/-! ### the manifest's masked check stream -/

/-- **one `ManifestCheckStream::read` call of the model is the translated body of the Rust `read`**:
    the translated function gives the number of bytes asked of the underlying source and whether
    they are delivered as zeros (the source itself is the model's: it returns what it has). -/
theorem gen_checkStreamRead (packOff n pos : Nat) (src : Bytes) (req : Nat) :
    checkStreamRead packOff n pos src req =
      (let r := Generated.checkStreamStep packInfoBlockSize packOff (packOff + n * packInfoBlockSize) pos req
       (if r.2 then zeros (src.take r.1).length else src.take r.1, src.drop r.1)) := by
  unfold checkStreamRead Generated.checkStreamStep
  by_cases h1 : pos < packOff
  · simp [h1]
  · by_cases h2 : pos ≥ packOff + n * packInfoBlockSize
    · simp [h1, h2]
    · by_cases h3 : (pos - packOff) % packInfoBlockSize < Consts.packInfoToCheck
      · simp [h1, h2, h3]
      · simp [h1, h2, h3]

end Jubako
