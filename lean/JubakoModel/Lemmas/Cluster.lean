/- Cluster tail codec: end offsets, blob extraction, tail round trip, cluster inside a file. -/
import JubakoModel.Model.ContentPack
import JubakoModel.Lemmas.Codec
import JubakoModel.Lemmas.DirCodec

namespace Jubako

set_option linter.unusedSimpArgs false
set_option maxRecDepth 8000

/-! ### 0. sums of blob lengths -/

/-- total length of the first `k` blobs -/
def lenSum (bs : List Bytes) : Nat := (bs.map List.length).sum

theorem lenSum_nil : lenSum [] = 0 := rfl

theorem lenSum_cons (b : Bytes) (bs : List Bytes) : lenSum (b :: bs) = b.length + lenSum bs := by
  simp [lenSum]

theorem lenSum_flatten (bs : List Bytes) : bs.flatten.length = lenSum bs := by
  simp [lenSum, List.length_flatten]

theorem lenSum_take_succ (bs : List Bytes) (k : Nat) (hk : k < bs.length) :
    lenSum (bs.take (k + 1)) = lenSum (bs.take k) + (bs.getD k []).length := by
  induction bs generalizing k with
  | nil => simp at hk
  | cons b bs ih =>
    cases k with
    | zero => simp [lenSum]
    | succ k =>
      have hk' : k < bs.length := by simpa using hk
      simp only [List.take_succ_cons, lenSum_cons, List.getD_cons_succ, ih k hk']
      omega

theorem lenSum_take_le (bs : List Bytes) (k : Nat) : lenSum (bs.take k) ≤ lenSum bs := by
  induction bs generalizing k with
  | nil => simp
  | cons b bs ih =>
    cases k with
    | zero => simp [lenSum]
    | succ k =>
      simp only [List.take_succ_cons, lenSum_cons]
      have := ih k
      omega

/-! ### 1. end offsets -/

theorem endOffsets_length (bs : List Bytes) (acc : Nat) :
    (endOffsets bs acc).length = bs.length := by
  induction bs generalizing acc with
  | nil => rfl
  | cons b bs ih => simp [endOffsets, ih]

theorem endOffsets_getElem? (bs : List Bytes) (acc k : Nat) (hk : k < bs.length) :
    (endOffsets bs acc)[k]? = some (acc + lenSum (bs.take (k + 1))) := by
  induction bs generalizing acc k with
  | nil => simp at hk
  | cons b bs ih =>
    cases k with
    | zero => simp [endOffsets, lenSum]
    | succ k =>
      have hk' : k < bs.length := by simpa using hk
      simp only [endOffsets, List.getElem?_cons_succ, List.take_succ_cons, lenSum_cons,
        ih _ _ hk']
      congr 1
      omega

theorem endOffsets_getD (bs : List Bytes) (acc k : Nat) (hk : k < bs.length) :
    (endOffsets bs acc).getD k 0 = acc + ((bs.take (k+1)).map List.length).sum := by
  rw [List.getD_eq_getElem?_getD, endOffsets_getElem? bs acc k hk]
  rfl

theorem endOffsets_last_acc (bs : List Bytes) (acc : Nat) (h : bs ≠ []) :
    (endOffsets bs acc).getLast? = some (acc + lenSum bs) := by
  have hl : 0 < bs.length := List.length_pos_iff.mpr h
  rw [List.getLast?_eq_getElem?, endOffsets_length,
    endOffsets_getElem? bs acc (bs.length - 1) (by omega)]
  rw [show bs.length - 1 + 1 = bs.length by omega, List.take_length]

theorem endOffsets_last (bs : List Bytes) (h : bs ≠ []) :
    (endOffsets bs 0).getLast? = some ((bs.map List.length).sum) := by
  rw [endOffsets_last_acc bs 0 h, Nat.zero_add]
  rfl

theorem endOffsets_le_total (bs : List Bytes) (acc : Nat) :
    ∀ o ∈ endOffsets bs acc, o ≤ acc + (bs.map List.length).sum := by
  induction bs generalizing acc with
  | nil => intro o ho; simp [endOffsets] at ho
  | cons b bs ih =>
    intro o ho
    simp only [endOffsets, List.mem_cons] at ho
    simp only [List.map_cons, List.sum_cons]
    rcases ho with rfl | ho
    · omega
    · have := ih _ o ho
      omega

/-- `(endOffsets bs 0).dropLast ++ [total] = endOffsets bs 0` -/
theorem endOffsets_dropLast_append (bs : List Bytes) (h : bs ≠ []) :
    (endOffsets bs 0).dropLast ++ [lenSum bs] = endOffsets bs 0 := by
  have hl := endOffsets_last_acc bs 0 h
  rw [Nat.zero_add] at hl
  obtain ⟨ys, hys⟩ := List.getLast?_eq_some_iff.mp hl
  rw [hys, List.dropLast_concat]

/-! ### 2. blob extraction from consecutive offsets -/

/-- the `k`-th bound (`0 :: end offsets`) is the total length of the first `k` blobs -/
theorem bounds_getD (bs : List Bytes) (k : Nat) (hk : k ≤ bs.length) :
    (0 :: endOffsets bs 0).getD k 0 = lenSum (bs.take k) := by
  cases k with
  | zero => simp [lenSum]
  | succ k =>
    rw [List.getD_cons_succ, List.getD_eq_getElem?_getD, endOffsets_getElem? bs 0 k (by omega)]
    simp

theorem slice_flatten (bs : List Bytes) (k : Nat) (hk : k < bs.length) :
    slice bs.flatten (lenSum (bs.take k)) (bs.getD k []).length = bs.getD k [] := by
  induction bs generalizing k with
  | nil => simp at hk
  | cons b bs ih =>
    cases k with
    | zero =>
      simp only [List.take_zero, lenSum_nil, List.getD_cons_zero, List.flatten_cons]
      exact slice_append_left b _
    | succ k =>
      have hk' : k < bs.length := by simpa using hk
      simp only [List.take_succ_cons, lenSum_cons, List.getD_cons_succ, List.flatten_cons]
      rw [slice_append_right]
      exact ih k hk'

theorem blob_slice (bs : List Bytes) (k : Nat) (hk : k < bs.length) :
    slice bs.flatten ((0 :: endOffsets bs 0).getD k 0)
      ((0 :: endOffsets bs 0).getD (k+1) 0 - (0 :: endOffsets bs 0).getD k 0) = bs.getD k [] := by
  rw [bounds_getD bs k (by omega), bounds_getD bs (k + 1) (by omega), lenSum_take_succ bs k hk,
    Nat.add_sub_cancel_left]
  exact slice_flatten bs k hk

/-! ### 3. the tail of a cluster -/

def Cluster.WFTail (c : Cluster) (compByte rawSize : Nat) : Prop :=
  1 ≤ c.blobs.length ∧ c.blobs.length < 65536 ∧ compByte ≤ 3 ∧ c.dataSize < 2^64 ∧
  rawSize < 2^64 ∧ (compByte = 0 → rawSize = c.dataSize)

theorem tailWidth_fits (d r : Nat) :
    d < 256 ^ tailWidth d r ∧ r < 256 ^ tailWidth d r ∧ 1 ≤ tailWidth d r := by
  have h := neededBytes_spec (max d r)
  unfold tailWidth
  generalize neededBytes (max d r) = w at h ⊢
  generalize 256 ^ w = p at h ⊢
  omega

theorem tailWidth_le_8 (d r : Nat) (hd : d < 2^64) (hr : r < 2^64) : tailWidth d r ≤ 8 := by
  unfold tailWidth
  exact neededBytes_le_8 _ (by omega)

/-! ### 4. tail round trip -/

theorem readUN_ok (bs : Bytes) (off n v : Nat) (hlen : off + n ≤ bs.length)
    (hs : slice bs off n = leBytes v n) (hv : v < 256 ^ n) : readUN bs off n = .ok v := by
  simp only [readUN, hlen, if_true, hs, leNat_leBytes_of_lt v n hv]

/-- the offsets loop of `ClusterTail.decode` -/
theorem decode_go_spec (bs : Bytes) (w data : Nat) (hw : 1 ≤ w) (rest : List Nat) (i : Nat)
    (acc : List Nat) (hb : bs.drop (4 + 2 * w + i * w) = (rest.map (fun o => leBytes o w)).flatten)
    (hr : ∀ o ∈ rest, o ≤ data ∧ o < 256 ^ w) :
    ClusterTail.decode.go bs w data i rest.length acc = .ok (acc.reverse ++ rest) := by
  induction rest generalizing i acc with
  | nil => simp [ClusterTail.decode.go]
  | cons o rest ih =>
    obtain ⟨ho1, ho2⟩ := hr o (List.mem_cons_self ..)
    simp only [List.map_cons, List.flatten_cons] at hb
    have hlen : 4 + 2 * w + i * w + w ≤ bs.length := by
      have := congrArg List.length hb
      rw [List.length_drop, List.length_append, leBytes_length] at this
      omega
    have hs : slice bs (4 + 2 * w + i * w) w = leBytes o w := by
      unfold slice
      rw [hb, List.take_left' (leBytes_length o w)]
    have hd : bs.drop (4 + 2 * w + (i + 1) * w) =
        (rest.map (fun o => leBytes o w)).flatten := by
      rw [show 4 + 2 * w + (i + 1) * w = (4 + 2 * w + i * w) + w by
        rw [Nat.add_mul]; omega]
      rw [← List.drop_drop, hb, List.drop_left' (leBytes_length o w)]
    have ih' := ih (i + 1) (o :: acc) hd (fun x hx => hr x (List.mem_cons_of_mem _ hx))
    rw [List.length_cons, ClusterTail.decode.go, readUN_ok bs _ w o hlen hs ho2]
    simp only [Outcome.ok_bind, ho1, if_true, ih', List.reverse_cons, List.append_assoc,
      List.singleton_append]

theorem slice_at (a b c : Bytes) (off len : Nat) (h1 : a.length = off) (h2 : b.length = len) :
    slice (a ++ (b ++ c)) off len = b := by
  subst h1; subst h2; simp [slice]

/-- decoding an encoded tail whose fields are in range -/
theorem clusterTail_decode_encode (t : ClusterTail) (hcomp : t.comp ≤ 3)
    (hw1 : 1 ≤ t.offsetSize) (hw8 : t.offsetSize ≤ 8) (hcount : t.blobCount < 65536)
    (hlen : t.offsets.length = t.blobCount - 1)
    (hraw : t.rawSize < 256 ^ t.offsetSize) (hdata : t.dataSize < 256 ^ t.offsetSize)
    (hoffs : ∀ o ∈ t.offsets, o ≤ t.dataSize) (hc : t.comp = 0 → t.rawSize = t.dataSize) :
    ClusterTail.decode t.encode = .ok t := by
  obtain ⟨comp, w, count, raw, data, offs⟩ := t
  simp only at hcomp hw1 hw8 hcount hlen hraw hdata hoffs hc
  generalize hF : (offs.map (fun o => leBytes o w)).flatten = F
  have e : ClusterTail.encode ⟨comp, w, count, raw, data, offs⟩ =
      [UInt8.ofNat comp, UInt8.ofNat w] ++ leBytes count 2 ++ leBytes raw w ++ leBytes data w ++ F := by
    simp only [ClusterTail.encode, hF]
  rw [e]
  generalize hbs : [UInt8.ofNat comp, UInt8.ofNat w] ++ leBytes count 2 ++ leBytes raw w ++
    leBytes data w ++ F = bs
  have hbl : bs.length = 4 + 2 * w + F.length := by
    subst hbs; simp [leBytes_length]; omega
  have h0 : bs.getD 0 0 = UInt8.ofNat comp := by subst hbs; simp
  have h1 : bs.getD 1 0 = UInt8.ofNat w := by subst hbs; simp
  have hcnt : slice bs 2 2 = leBytes count 2 := by
    subst hbs
    simp only [List.append_assoc]
    exact slice_at _ _ _ 2 2 rfl (leBytes_length _ _)
  have hrw : slice bs 4 w = leBytes raw w := by
    subst hbs
    simp only [List.append_assoc]
    rw [← List.append_assoc [UInt8.ofNat comp, UInt8.ofNat w]]
    exact slice_at _ _ _ 4 w (by simp [leBytes_length]) (leBytes_length _ _)
  have hdt : slice bs (4 + w) w = leBytes data w := by
    subst hbs
    simp only [List.append_assoc]
    rw [← List.append_assoc [UInt8.ofNat comp, UInt8.ofNat w],
      ← List.append_assoc ([UInt8.ofNat comp, UInt8.ofNat w] ++ leBytes count 2)]
    refine slice_at _ _ _ (4 + w) w (by simp [leBytes_length]; omega) (leBytes_length _ _)
  have hdr : bs.drop (4 + 2 * w + 0 * w) = (offs.map (fun o => leBytes o w)).flatten := by
    subst hbs
    rw [hF]
    exact List.drop_left' (by simp [leBytes_length]; omega)
  have hgo := decode_go_spec bs w data hw1 offs 0 [] hdr
    (fun o ho => ⟨hoffs o ho, Nat.lt_of_le_of_lt (hoffs o ho) hdata⟩)
  rw [hlen] at hgo
  have h256 : (256 : Nat) ^ 2 = 65536 := by decide
  have hcw : comp % 256 = comp := by omega
  have hww : w % 256 = w := by omega
  have hn1 : ¬ bs.length < 4 := by omega
  have hn2 : ¬ comp > 3 := by omega
  have hn3 : ¬ (w = 0 ∨ w > 8) := by omega
  have hn4 : ¬ (comp = 0 ∧ raw ≠ data) := by
    intro ⟨a, b⟩; exact b (hc a)
  unfold ClusterTail.decode
  simp only [hn1, h0, h1, toNat_ofNat_u8, hcw, hww, hn2, hn3, if_false, hcnt,
    leNat_leBytes_of_lt count 2 (by omega),
    readUN_ok bs 4 w raw (by omega) hrw hraw,
    readUN_ok bs (4 + w) w data (by omega) hdt hdata, Outcome.ok_bind, hgo, hn4]
  rfl

theorem Cluster.dataSize_eq (c : Cluster) : c.dataSize = lenSum c.blobs := rfl

theorem Cluster.data_length (c : Cluster) : c.data.length = c.dataSize := by
  rw [Cluster.data, lenSum_flatten, Cluster.dataSize_eq]

theorem clusterTail_roundtrip (c : Cluster) (compByte rawSize : Nat)
    (hw : c.WFTail compByte rawSize) :
    ClusterTail.decode (c.tail compByte rawSize).encode = .ok (c.tail compByte rawSize) := by
  obtain ⟨h1, h2, h3, h4, h5, h6⟩ := hw
  obtain ⟨hf1, hf2, hf3⟩ := tailWidth_fits c.dataSize rawSize
  refine clusterTail_decode_encode _ h3 hf3 (tailWidth_le_8 _ _ h4 h5) h2 ?_ hf2 hf1 ?_ h6
  · simp only [Cluster.tail, List.length_dropLast, endOffsets_length]
  · intro o ho
    have hm : o ∈ endOffsets c.blobs 0 := List.dropLast_subset _ ho
    have := endOffsets_le_total c.blobs 0 o hm
    simp only [Cluster.tail, Cluster.dataSize]
    omega

/-! ### 5. blobs from the decoded tail -/

theorem blobOf_tail (c : Cluster) (compByte rawSize : Nat) (hw : c.WFTail compByte rawSize)
    (k : Nat) (hk : k < c.blobs.length) :
    blobOf (c.tail compByte rawSize) c.data k = .ok (c.blobs.getD k []) := by
  obtain ⟨h1, -⟩ := hw
  have hne : c.blobs ≠ [] := by
    intro h; rw [h] at h1; simp at h1
  have hoffs : 0 :: (c.tail compByte rawSize).offsets ++ [(c.tail compByte rawSize).dataSize] =
      0 :: endOffsets c.blobs 0 := by
    simp only [Cluster.tail, Cluster.dataSize_eq, List.cons_append,
      endOffsets_dropLast_append c.blobs hne]
  have hb := bounds_getD c.blobs k (by omega)
  have he := bounds_getD c.blobs (k + 1) (by omega)
  have hs := lenSum_take_succ c.blobs k hk
  have hle := lenSum_take_le c.blobs (k + 1)
  have hdl : c.data.length = lenSum c.blobs := by rw [Cluster.data_length, Cluster.dataSize_eq]
  have hsl := blob_slice c.blobs k hk
  have hcount : (c.tail compByte rawSize).blobCount = c.blobs.length := rfl
  unfold blobOf
  simp only [hoffs, hcount, List.length_cons, endOffsets_length]
  rw [if_pos ⟨by omega, hk⟩, if_pos (by omega), if_pos (by omega)]
  exact congrArg Outcome.ok hsl

/-! ### 6. a cluster inside a file -/

/-- stored payload of a cluster -/
def Cluster.payload (codec : Codec) (c : Cluster) : Bytes :=
  if c.compressed then codec.compress c.data else c.data

theorem Cluster.payload_length (codec : Codec) (c : Cluster) :
    (c.payload codec).length =
      (if c.compressed then (codec.compress c.data).length else c.data.length) := by
  unfold Cluster.payload; split <;> rfl

theorem Cluster.encode_eq (codec : Codec) (c : Cluster) :
    c.encode codec =
      (c.payload codec ++
        block (c.tail (if c.compressed then codec.byte else 0) (c.payload codec).length).encode,
       (c.payload codec).length,
       (c.tail (if c.compressed then codec.byte else 0) (c.payload codec).length).encode.length) :=
  rfl

theorem clusterAt_encode (codec : Codec) (c : Cluster) (pre post : Bytes)
    (hw : c.WFTail (if c.compressed then codec.byte else 0)
      (if c.compressed then (codec.compress c.data).length else c.data.length)) :
    clusterAt (pre ++ (c.encode codec).1 ++ post)
        (pre.length + (c.encode codec).2.1, (c.encode codec).2.2) =
      .ok (c.tail (if c.compressed then codec.byte else 0) (c.encode codec).2.1, pre.length) := by
  rw [← Cluster.payload_length] at hw
  rw [Cluster.encode_eq]
  simp only
  generalize hp : c.payload codec = payload at hw ⊢
  generalize hcb : (if c.compressed then codec.byte else 0) = cb at hw ⊢
  have hrt := clusterTail_roundtrip c cb payload.length hw
  generalize ht : c.tail cb payload.length = t at hrt ⊢
  have hraw : t.rawSize = payload.length := by subst ht; rfl
  have hrb : readBlock (pre ++ (payload ++ block t.encode) ++ post)
      (pre.length + payload.length) t.encode.length = .ok t.encode := by
    have := readBlock_block (pre ++ payload) t.encode post
    rw [List.length_append] at this
    rw [← List.append_assoc pre payload]
    exact this
  unfold clusterAt
  simp only [hrb, hrt, Outcome.ok_bind, hraw]
  rw [if_neg (by omega), Nat.add_sub_cancel]

theorem payload_slice (codec : Codec) (c : Cluster) (pre post : Bytes) :
    slice (pre ++ (c.encode codec).1 ++ post) pre.length (c.encode codec).2.1 =
      (if c.compressed then codec.compress c.data else c.data) := by
  rw [Cluster.encode_eq]
  simp only
  show _ = c.payload codec
  generalize c.payload codec = payload
  rw [List.append_assoc, List.append_assoc]
  exact slice_at pre payload _ _ _ rfl rfl

end Jubako
