/-
C04, first sentence — part D: the packs the three writers produce verify in the sense
`ContainerPack::check` needs (`PackVerifies`), the creator-level manifest (`manifestCreate`), and the
one-file container assembled from created packs.
-/
import JubakoModel.Lemmas.VerifiesC

namespace Jubako

set_option linter.unusedSimpArgs false
set_option linter.unusedVariables false
set_option maxRecDepth 8000

/-! ### 1. framed packs verify -/

theorem packHeaderOf_framePack (H mask : Bytes → Bytes) (h : PackHeader) (body : Bytes) (hw : h.WF)
    (hv : h.major = Consts.versionGateMajor ∧ h.minor = Consts.versionGateMinor) :
    packHeaderOf (framePack H mask h body) = .ok h := by
  have hr := readBlock_block_head h.encode
    (body ++ (block (CheckInfo.blake3 (H (mask (block h.encode ++ body)))).encode ++
      packTail (block h.encode)))
  rw [PackHeader.encode_length h hw] at hr
  unfold packHeaderOf
  simp only [framePack, List.append_assoc]
  rw [hr, Outcome.ok_bind_eq, PackHeader.decode_encode h hw hv]

theorem framePack_length (H mask : Bytes → Bytes) (h : PackHeader) (body : Bytes) (hw : h.WF)
    (hH : ∀ x, (H x).length = 32) :
    (framePack H mask h body).length = 64 + body.length + 37 + 64 := by
  simp only [framePack, packTail, List.length_append, List.length_reverse, block_length,
    PackHeader.encode_length h hw, CheckInfo.encode, List.length_cons, hH]

/-- a framed pack whose header describes the layout and whose kind-specific open-and-check passes
    verifies -/
theorem PackVerifies.of_frame (H mask : Bytes → Bytes) (h : PackHeader) (body : Bytes) (hw : h.WF)
    (hv : h.major = Consts.versionGateMajor ∧ h.minor = Consts.versionGateMinor)
    (hcip : h.checkInfoPos = 64 + body.length) (hsz : h.packSize = h.checkInfoPos + 37 + 64)
    (hH : ∀ x, (H x).length = 32)
    (hk : kindOpenCheck H h.kind (framePack H mask h body) = .ok true) :
    PackVerifies H (framePack H mask h body) :=
  ⟨h, packHeaderOf_framePack H mask h body hw hv,
    by rw [framePack_length H mask h body hw hH, hsz, hcip], hk⟩

/-- **created content packs verify** (as `ContainerPack::check` sees them) -/
theorem PackVerifies.content (H : Bytes → Bytes) (codec : Codec) (m : ContentPackMeta)
    (arrival : List Cluster) (infos : List (Nat × Nat)) (hm : m.WF)
    (hc1 : infos.length < 2 ^ 32) (hc2 : arrival.length < 2 ^ 32)
    (hs : cfCheckPos codec arrival infos + 37 + 64 < 2 ^ 64)
    (hH : ∀ x, (H x).length = 32) :
    PackVerifies H (contentPackWrite H codec m arrival infos) := by
  have hoc := content_created_openCheck H codec m arrival infos hm hc1 hc2 hs hH
  rw [contentPackWrite_frame] at hoc ⊢
  exact PackVerifies.of_frame H id _ _ (cfHeader_WF codec m arrival infos hm hs) ⟨rfl, rfl⟩
    (cfCheckPos_body codec m arrival infos hm) rfl hH hoc

/-- **created directory packs verify** -/
theorem PackVerifies.directory (H : Bytes → Bytes) (vendor uuid freeData : Bytes) (d : DirIn)
    (hv : vendor.length = 4) (hu : uuid.length = 16) (hfd : freeData.length = 24)
    (hns : d.stores.length < 256) (hni : d.indexes.length < 2 ^ 32)
    (hsize : (dirPackWrite H vendor uuid freeData d).length < 2 ^ 48)
    (hH : ∀ x, (H x).length = 32) :
    PackVerifies H (dirPackWrite H vendor uuid freeData d) := by
  have hoc := directory_created_openCheck H vendor uuid freeData d hv hu hfd hns hni hsize hH
  have hlen := d.written_length H vendor uuid freeData hv hu hfd hH
  rw [dirPackWrite_frame] at hoc ⊢
  exact PackVerifies.of_frame H id _ _ (d.header_WF vendor uuid hv hu (by omega)) ⟨rfl, rfl⟩
    (d.checkPos_body vendor uuid freeData hfd) rfl hH hoc

/-- **created manifest packs verify** -/
theorem PackVerifies.manifest {H : Bytes → Bytes} {vendor uuid freeData checkBlocks : Bytes}
    {store : VStore} {infos : List PackInfo}
    (L : ManifestLimits vendor uuid freeData checkBlocks store infos)
    (hdir : infos.any (fun i => i.kind = .directory) = true) (hH : ∀ x, (H x).length = 32) :
    PackVerifies H (manifestWrite H vendor uuid freeData checkBlocks store infos) := by
  have hoc := manifest_created_openCheck (H := H) L hdir hH
  rw [manifestWrite_frame] at hoc ⊢
  exact PackVerifies.of_frame H _ _ _ (mwHeader_WF L) ⟨rfl, rfl⟩ (mwCheckPos_body L) rfl hH hoc

/-! ### 2. the creator-level manifest: `manifestCreate` -/

theorem checkInfoSOs_length (packs : List (PackData × Bytes)) (pos : Nat) :
    (checkInfoSOs packs pos).length = packs.length := by
  induction packs generalizing pos with
  | nil => rfl
  | cons p ps ih => simp [checkInfoSOs, ih]

theorem checkBlocksOf_cons (p : PackData × Bytes) (ps : List (PackData × Bytes)) :
    checkBlocksOf (p :: ps) = block p.1.checkInfo.encode ++ checkBlocksOf ps := by
  simp [checkBlocksOf]

/-- every recorded check-info region lies inside the check-info blocks and has the size of the
    block of one of the packs -/
theorem checkInfoSOs_spec (packs : List (PackData × Bytes)) (pos : Nat) :
    ∀ so ∈ checkInfoSOs packs pos, pos ≤ so.1 ∧
      so.1 + so.2 ≤ pos + (checkBlocksOf packs).length ∧
      ∃ p ∈ packs, so.2 = (block p.1.checkInfo.encode).length := by
  induction packs generalizing pos with
  | nil => intro so h; simp [checkInfoSOs] at h
  | cons p ps ih =>
    intro so h
    simp only [checkInfoSOs, List.mem_cons] at h
    rw [checkBlocksOf_cons, List.length_append]
    rcases h with rfl | h
    · exact ⟨Nat.le_refl _, by simp only; omega, p, List.mem_cons_self, rfl⟩
    · obtain ⟨h1, h2, q, hq, h3⟩ := ih _ so h
      exact ⟨by omega, by omega, q, List.mem_cons_of_mem _ hq, h3⟩

theorem manifestInfos_length (packs : List (PackData × Bytes)) :
    (manifestInfos packs).length = packs.length := by
  simp [manifestInfos, checkInfoSOs_length]

theorem manifestInfos_kinds (packs : List (PackData × Bytes)) :
    (manifestInfos packs).map (·.kind) = packs.map (·.1.kind) := by
  unfold manifestInfos
  rw [List.map_map]
  have : (packs.zip (checkInfoSOs packs 128)).map Prod.fst = packs :=
    List.map_fst_zip (by rw [checkInfoSOs_length]; exact Nat.le_refl _)
  conv => rhs; rw [← this, List.map_map]
  rfl

/-- the hypotheses under which `ManifestPackCreator::finalize` writes every field without
    overflow, in terms of the creator's inputs:
    * `packsWF` — per pack: uuid 16 bytes, `u64` size, `u16` id, locator ≤ 213 bytes, a blake3
      check info holds 32 bytes;
    * the others as in `ManifestLimits`. -/
structure ManifestCreateLimits (vendor uuid freeData : Bytes) (packs : List (PackData × Bytes)) :
    Prop where
  vendorLen : vendor.length = 4
  uuidLen : uuid.length = 16
  freeDataLen : freeData.length = 24
  packsWF : ∀ p ∈ packs, p.1.uuid.length = 16 ∧ p.1.packSize < 2 ^ 64 ∧ p.1.packId < 2 ^ 16 ∧
    p.2.length ≤ Consts.locationPad ∧ ∀ x, p.1.checkInfo = .blake3 x → x.length = 32
  count : packs.length < 2 ^ 16
  storeTail : (manifestStore packs).tailBytes.length < 2 ^ 16
  fileSize : mwCheckPos (checkBlocksOf packs) (manifestStore packs) (manifestInfos packs) + 37 + 64
    < 2 ^ 48

theorem ManifestCreateLimits.toLimits {vendor uuid freeData : Bytes}
    {packs : List (PackData × Bytes)} (L : ManifestCreateLimits vendor uuid freeData packs) :
    ManifestLimits vendor uuid freeData (checkBlocksOf packs) (manifestStore packs)
      (manifestInfos packs) := by
  refine ⟨L.vendorLen, L.uuidLen, L.freeDataLen, ?_, by rw [manifestInfos_length]; exact L.count,
    L.storeTail, L.fileSize⟩
  intro info hinfo
  unfold manifestInfos at hinfo
  obtain ⟨⟨p, so⟩, hz, rfl⟩ := List.mem_map.mp hinfo
  have hp : p ∈ packs := (List.of_mem_zip hz).1
  have hso : so ∈ checkInfoSOs packs 128 := (List.of_mem_zip hz).2
  obtain ⟨h1, h2, h3, h4, h5⟩ := L.packsWF p hp
  obtain ⟨s1, s2, q, hq, s3⟩ := checkInfoSOs_spec packs 128 so hso
  have hfs := L.fileSize
  have hcb : 128 + (checkBlocksOf packs).length ≤
      mwCheckPos (checkBlocksOf packs) (manifestStore packs) (manifestInfos packs) := by
    simp only [mwCheckPos, mwBase, mwMid, List.length_append]; omega
  have hsz : so.2 ≤ 37 := by
    rw [s3, block_length]
    obtain ⟨-, -, -, -, hq5⟩ := L.packsWF q hq
    cases hci : q.1.checkInfo with
    | none => simp [CheckInfo.encode]
    | blake3 x => simp [CheckInfo.encode, hq5 x hci]
  have hid : (manifestStore packs).idOf p.1.freeData < 2 ^ 16 := by
    have hix : (manifestStore packs).indexed = true := finalize_indexed true _
    have hmem : p.1.freeData ∈ (manifestStore packs).values := by
      rw [manifestStore, mem_finalize]
      exact List.mem_map.mpr ⟨p, hp, rfl⟩
    have hr := rankOf_lt p.1.freeData (manifestStore packs).values 0 hmem
    have hle := VStore.values_length_le_tail (manifestStore packs) hix
    have := L.storeTail
    unfold VStore.idOf
    rw [hix]
    simp only [if_true]
    omega
  exact ⟨h1, h2, by show so.1 < 2 ^ 48; omega, by show so.2 < 2 ^ 16; omega, h3,
    by show 0 < 256; decide, hid, h4⟩

theorem manifestInfos_any_directory (packs : List (PackData × Bytes))
    (h : packs.any (fun p => p.1.kind = .directory) = true) :
    (manifestInfos packs).any (fun i => i.kind = .directory) = true := by
  rw [List.any_eq_true] at h ⊢
  obtain ⟨p, hp, hk⟩ := h
  have : PackKind.directory ∈ (manifestInfos packs).map (·.kind) := by
    rw [manifestInfos_kinds]
    exact List.mem_map.mpr ⟨p, hp, by simpa using hk⟩
  obtain ⟨i, hi, hik⟩ := List.mem_map.mp this
  exact ⟨i, hi, by simpa using hik⟩

section Created

variable {H : Bytes → Bytes} {vendor uuid freeData : Bytes} {packs : List (PackData × Bytes)}

/-- **`ManifestPackCreator::finalize` round trip**: `ManifestPack::new` on the created manifest
    returns one pack info per `add_pack`, in order, carrying the pack data and the locator. -/
theorem manifestOpen_manifestCreate (L : ManifestCreateLimits vendor uuid freeData packs)
    (hdir : packs.any (fun p => p.1.kind = .directory) = true) :
    manifestOpen (manifestCreate H vendor uuid freeData packs) =
      .ok (mwHeader vendor uuid (checkBlocksOf packs) (manifestStore packs) (manifestInfos packs),
        mwMH freeData (checkBlocksOf packs) (manifestStore packs) (manifestInfos packs),
        manifestInfos packs) :=
  manifestOpen_manifestWrite L.toLimits (manifestInfos_any_directory packs hdir)

/-- **Manifests created by `ManifestPackCreator::finalize` verify.** -/
theorem manifestCreate_verifies (L : ManifestCreateLimits vendor uuid freeData packs)
    (hH : ∀ x, (H x).length = 32) :
    manifestCheck H (manifestCreate H vendor uuid freeData packs) = .ok true :=
  manifest_created_verifies L.toLimits hH

theorem manifestCreate_openCheck (L : ManifestCreateLimits vendor uuid freeData packs)
    (hdir : packs.any (fun p => p.1.kind = .directory) = true) (hH : ∀ x, (H x).length = 32) :
    manifestOpenCheck H (manifestCreate H vendor uuid freeData packs) = .ok true :=
  manifest_created_openCheck L.toLimits (manifestInfos_any_directory packs hdir) hH

theorem manifestCreate_layout (L : ManifestCreateLimits vendor uuid freeData packs) :
    ManifestLayout (manifestCreate H vendor uuid freeData packs)
      (mwHeader vendor uuid (checkBlocksOf packs) (manifestStore packs) (manifestInfos packs))
      (mwMH freeData (checkBlocksOf packs) (manifestStore packs) (manifestInfos packs))
      (mwBase (checkBlocksOf packs) (manifestStore packs)) (manifestInfos packs) :=
  manifestWrite_layout L.toLimits

/-- … and keep verifying after any history of `set_location` rewrites -/
theorem manifestCreate_verifies_after_relocations
    (L : ManifestCreateLimits vendor uuid freeData packs) (hH : ∀ x, (H x).length = 32)
    (ops : List (Bytes × Bytes)) (hl : ∀ op ∈ ops, op.2.length ≤ Consts.locationPad) :
    manifestCheck H (ops.foldl (fun (st : Bytes × List PackInfo) op =>
      (fileStep (mwBase (checkBlocksOf packs) (manifestStore packs)) st.2 st.1 op, specStep st.2 op))
      (manifestCreate H vendor uuid freeData packs, manifestInfos packs)).1 = .ok true :=
  manifest_created_verifies_after_relocations L.toLimits hH ops hl

end Created

end Jubako
