/-
The hand-written model functions are equal to the function bodies that tools/extract_funcs.py
translates out of the Rust source on every run (Generated/FuncsCheck.lean).  Each theorem here is an
obligation of the properties that use the model function: a change of the Rust body changes the
generated definition and breaks the proof.
-/
import JubakoModel.Model.Pack
import JubakoModel.Generated.FuncsCheck
import JubakoModel.Lemmas.FuncsBytes
import JubakoModel.Model.Crc
import JubakoModel.Lemmas.Codec

namespace Jubako

/-! ### the manifest's masked check stream -/

/-- **one `ManifestCheckStream::read` call of the model is the translated body of the Rust `read`**:
    the translated function gives the number of bytes asked of the underlying source and whether
    they are delivered as zeros (the source itself is the model's: it returns what it has). -/
theorem gen_checkStreamRead (packOff n pos : Nat) (src : Bytes) (req : Nat) :
    checkStreamRead packOff n pos src req =
      (let r := Generated.checkStreamStep packInfoBlockSize packOff (packOff + n * packInfoBlockSize) pos req
       (if r.2 then zeros (src.take r.1).length else src.take r.1, src.drop r.1)) := by
  unfold checkStreamRead Generated.checkStreamStep
  by_cases h1 : pos < packOff
  · simp [h1]
  · by_cases h2 : pos ≥ packOff + n * packInfoBlockSize
    · simp [h1, h2]
    · by_cases h3 : (pos - packOff) % packInfoBlockSize < Consts.packInfoToCheck
      · simp [h1, h2, h3]
      · simp [h1, h2, h3]

/-! ### declared pack sizes -/

/-- **The pack size each creator declares, translated from the four `finalize`/`write` bodies on every
    run, is `check position + check block + 64`** with the check block sizes translated from
    `CheckKind::block_size` / `BlockCheck::size`: 37 bytes (blake3) for content, directory and manifest
    packs, 5 bytes (no hash) for container packs — the numbers the writer models use
    (`ContentPack.lean`, `DirWriter.lean`, `ManifestWriter.lean`, `Container.lean`).  (D12 was a
    container pack size that left the 5 bytes out.) -/
theorem gen_packSizes (cip : Nat) :
    Generated.contentPackSize cip 64 = cip + 37 + 64 ∧
    Generated.directoryPackSize cip 64 = cip + 37 + 64 ∧
    Generated.manifestPackSize cip 64 = cip + 37 + 64 ∧
    Generated.containerPackSize cip 64 = cip + 5 + 64 := by
  simp [Generated.contentPackSize, Generated.directoryPackSize, Generated.manifestPackSize,
    Generated.containerPackSize, Generated.checkKindBlockSize, Generated.blockCheckSize]

/-- **The CRC check of a block is the source's**: `assert_slice_crc` (`bases/block.rs`) translated on every run —
    the CRC of everything but the last four bytes against those four bytes read big-endian, "corrupted" when
    they differ — is `checkBlock` of the model, for every byte string (the CRC-32C itself is the model's
    `crc32c`, whose parameters are read from the source on every run). -/
theorem gen_assertSliceCrc (full : Bytes) :
    Generated.assertSliceCrc (fun d => (crc32c d).toNat) be32Nat full =
      if checkBlock full then .ok () else .err .corrupted := by
  unfold Generated.assertSliceCrc checkBlock
  by_cases h : (crc32c (List.take (full.length - 4) full)).toNat = be32Nat (List.drop (full.length - 4) full)
  · simp [h]
  · simp [h]

theorem writesBytes_bytes (bs : Bytes) : writesBytes (bs.map (fun (b : UInt8) => (b.toNat, 1))) = bs := by
  induction bs with
  | nil => rfl
  | cons b bs ih =>
    have : writesBytes ((b :: bs).map (fun (b : UInt8) => (b.toNat, 1))) =
        leBytes b.toNat 1 ++ writesBytes (bs.map (fun (b : UInt8) => (b.toNat, 1))) := by
      simp [writesBytes]
    rw [this, ih]
    simp [leBytes]

/-- **The check block the creators write is the source's**: `CheckInfo::serialize` translated on every run writes
    the bytes of the model's `CheckInfo.encode` — `0` alone, or `1` followed by the 32 bytes of the hash. -/
theorem gen_checkInfoWrites (ci : CheckInfo) :
    writesBytes (Generated.checkInfoWrites (match ci with | CheckInfo.none => Option.none | CheckInfo.blake3 h => some h)) = ci.encode := by
  cases ci with
  | none => simp [Generated.checkInfoWrites, CheckInfo.encode, writesBytes, leBytes]
  | blake3 h =>
    simp only [Generated.checkInfoWrites, CheckInfo.encode, List.nil_append, writesBytes_append, writesBytes_bytes]
    simp [writesBytes, leBytes]

end Jubako
