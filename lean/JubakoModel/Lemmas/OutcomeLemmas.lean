/-
Generic facts about the `Outcome` monad used by the ties of translated readers: equality up to the text of
a panic (`Outcome.Same`), congruence through `bind`, `map'` through `bind`.
-/
import JubakoModel.Model.Bytes

namespace Jubako

/-- forget the text of a panic (the generated code carries none) -/
def Outcome.erase {α : Type} : Outcome α → Outcome α
  | .panic _ => .panic ""
  | o => o

/-- same outcome up to the text of a panic -/
def Outcome.Same {α : Type} (a b : Outcome α) : Prop := a.erase = b.erase

theorem Outcome.same_refl {α : Type} (a : Outcome α) : a.Same a := rfl

theorem Outcome.same_panic {α : Type} (s t : String) : (Outcome.panic s : Outcome α).Same (.panic t) := rfl

theorem Outcome.same_bind {α β : Type} (x : Outcome α) (f g : α → Outcome β) (h : ∀ a, (f a).Same (g a)) :
    (x.bind f).Same (x.bind g) := by
  cases x with
  | ok a => exact h a
  | _ => rfl

theorem Outcome.map'_bind {α β γ : Type} (x : Outcome α) (f : α → Outcome β) (g : β → γ) :
    (x.bind f).map' g = x.bind (fun a => (f a).map' g) := by
  cases x <;> rfl

theorem Outcome.bind_assoc' {α β γ : Type} (x : Outcome α) (f : α → Outcome β) (g : β → Outcome γ) :
    (x.bind f).bind g = x.bind (fun a => (f a).bind g) := by
  cases x <;> rfl

theorem Outcome.same_bind' {α β : Type} (x : Outcome α) (f g : α → Outcome β) (h : ∀ a, x = .ok a → (f a).Same (g a)) :
    (x.bind f).Same (x.bind g) := by
  cases x with
  | ok a => exact h a rfl
  | _ => rfl

@[simp] theorem Outcome.bind_ok {α β : Type} (a : α) (f : α → Outcome β) : (Outcome.ok a).bind f = f a := rfl
@[simp] theorem Outcome.bind_err {α β : Type} (k : ErrKind) (f : α → Outcome β) : (Outcome.err k : Outcome α).bind f = .err k := rfl
@[simp] theorem Outcome.bind_panic {α β : Type} (s : String) (f : α → Outcome β) : (Outcome.panic s : Outcome α).bind f = .panic s := rfl
@[simp] theorem Outcome.map'_ok {α β : Type} (a : α) (g : α → β) : (Outcome.ok a).map' g = .ok (g a) := rfl
@[simp] theorem Outcome.map'_err {α β : Type} (k : ErrKind) (g : α → β) : (Outcome.err k : Outcome α).map' g = .err k := rfl
@[simp] theorem Outcome.map'_panic {α β : Type} (s : String) (g : α → β) : (Outcome.panic s : Outcome α).map' g = .panic s := rfl

@[simp] theorem Outcome.same_self {α : Type} (a : Outcome α) : a.Same a ↔ True := ⟨fun _ => trivial, fun _ => rfl⟩

macro "same_close" : tactic =>
  `(tactic| repeat (first | exact Outcome.same_refl _ | exact Outcome.same_panic _ _ | (apply Outcome.same_bind; intro _)))

theorem Outcome.same_cases {α : Type} (a b : Outcome α) (h : a.Same b) :
    (∃ v, a = .ok v ∧ b = .ok v) ∨ (∃ k, a = .err k ∧ b = .err k) ∨ (∃ s t, a = .panic s ∧ b = .panic t) ∨
      (a = .hang ∧ b = .hang) ∨ (a = .fault ∧ b = .fault) := by
  cases a <;> cases b <;> simp_all [Outcome.Same, Outcome.erase]

theorem Outcome.map'_eq_bind {α β : Type} (x : Outcome α) (f : α → β) : x.map' f = x.bind (fun b => .ok (f b)) := by
  cases x <;> rfl

end Jubako
