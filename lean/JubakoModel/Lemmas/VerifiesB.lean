/-
C04, first sentence — part B: manifest packs.  `manifestWrite` (Model/ManifestWriter.lean) lays a
manifest out as `ManifestPackCreator::finalize` does; the file it produces
* satisfies `ManifestLayout` (so every C12 theorem of Lemmas/SetLocation.lean applies to it),
* is opened by `manifestOpen` to exactly the headers and pack infos written,
* passes `manifestCheck`, and keeps passing it after any history of `set_location` rewrites.
-/
import JubakoModel.Lemmas.VerifiesA

namespace Jubako

set_option linter.unusedSimpArgs false
set_option linter.unusedVariables false
set_option maxRecDepth 8000

/-! ### 1. `manifestOpen` in closed form, and on any file with the manifest layout -/

/-- one iteration of the pack-info loop of `ManifestPack::new` -/
def infoStep (f : Bytes) (base : Nat) (acc : List PackInfo) (k : Nat) : Outcome (List PackInfo) :=
  readBlock f (base + k * packInfoBlockSize) 252 >>= fun pb =>
  PackInfo.decode pb >>= fun info => pure (acc ++ [info])

/-- the end of `ManifestPack::new`: a directory pack info must be listed -/
def openFinish (h : PackHeader) (m : ManifestHeader) (infos : List PackInfo) :
    Outcome (PackHeader × ManifestHeader × List PackInfo) :=
  if infos.any (fun i => i.kind = .directory) then .ok (h, m, infos)
  else .panic "manifest_pack.rs: directory_pack_info.unwrap()"

theorem manifestOpen_eq (f : Bytes) :
    manifestOpen f =
      (openHeader f .manifest >>= fun h =>
       readBlock f 64 60 >>= fun mb =>
       ManifestHeader.decode mb >>= fun m =>
       if h.checkInfoPos < m.packCount * packInfoBlockSize then
         .panic "offset.rs: subtraction underflow"
       else
         (List.range m.packCount).foldlM
           (infoStep f (packInfosOffset h.checkInfoPos m.packCount)) [] >>= fun infos =>
         if m.valueStore ≠ (0, 0) then
           valueStoreOpen f m.valueStore >>= fun _ => openFinish h m infos
         else openFinish h m infos) := rfl

theorem infoStep_ok (f : Bytes) (base : Nat) (infos : List PackInfo)
    (hm : ManifestAt f base infos) (hw : ∀ p ∈ infos, p.WF) (acc : List PackInfo) (k : Nat)
    (hk : k < infos.length) : infoStep f base acc k = .ok (acc ++ [infos[k]]) := by
  unfold infoStep
  rw [packInfoBlockSize_eq, readBlock_info f base infos hm hw k hk, Outcome.ok_bind_eq,
    PackInfo.decode_encode _ (hw _ (List.getElem_mem hk)), Outcome.ok_bind_eq]
  rfl

theorem infoLoop_range' (f : Bytes) (base : Nat) (infos : List PackInfo)
    (hm : ManifestAt f base infos) (hw : ∀ p ∈ infos, p.WF) :
    ∀ (n k : Nat) (acc : List PackInfo), k + n ≤ infos.length →
      (List.range' k n).foldlM (infoStep f base) acc = .ok (acc ++ (infos.drop k).take n) := by
  intro n
  induction n with
  | zero => intro k acc _; simp [List.foldlM_nil]
  | succ n ih =>
    intro k acc hn
    have hk : k < infos.length := by omega
    rw [List.range'_succ, List.foldlM_cons, infoStep_ok f base infos hm hw _ k hk,
      Outcome.ok_bind_eq, ih (k + 1) _ (by omega), List.drop_eq_getElem_cons hk, List.take_succ_cons,
      List.append_assoc, List.singleton_append]

/-- the loop reads the pack infos back, in order -/
theorem infoLoop_ok (f : Bytes) (base : Nat) (infos : List PackInfo)
    (hm : ManifestAt f base infos) (hw : ∀ p ∈ infos, p.WF) :
    (List.range infos.length).foldlM (infoStep f base) [] = .ok infos := by
  rw [List.range_eq_range', infoLoop_range' f base infos hm hw _ 0 [] (by omega)]
  simp

/-- **`ManifestPack::new` on any file with the manifest layout** returns the two headers and the
    pack infos the layout speaks about, provided the value store the header points to (if any)
    opens and a directory pack is listed. -/
theorem manifestOpen_of_layout (f : Bytes) (h : PackHeader) (m : ManifestHeader) (base : Nat)
    (infos : List PackInfo) (S : ManifestLayout f h m base infos) (hk : h.kind = .manifest)
    (hvs : m.valueStore = (0, 0) ∨ ∃ r, valueStoreOpen f m.valueStore = .ok r)
    (hdir : infos.any (fun i => i.kind = .directory) = true) :
    manifestOpen f = .ok (h, m, infos) := by
  have e1 := PackHeader.decode_encode h S.hwf S.hver
  have e2 := ManifestHeader.decode_encode m S.mcount S.mvs1 S.mvs2 S.mfree
  have e3 : packInfosOffset h.checkInfoPos infos.length = base := by
    rw [packInfosOffset, packInfoBlockSize_eq, S.hbase]
  have hoh : openHeader f .manifest = .ok h := by
    unfold openHeader
    rw [S.hdr, Outcome.ok_bind_eq, e1, Outcome.ok_bind_eq, if_pos hk]
  have hfits : ¬ h.checkInfoPos < m.packCount * packInfoBlockSize := by
    rw [packInfoBlockSize_eq, S.count]; have := S.fits; omega
  have hfin : openFinish h m infos = .ok (h, m, infos) := by
    unfold openFinish; rw [if_pos hdir]
  rw [manifestOpen_eq, hoh, Outcome.ok_bind_eq, S.mhdr, Outcome.ok_bind_eq, e2, Outcome.ok_bind_eq,
    if_neg hfits, S.count, e3, infoLoop_ok f base infos S.infosAt S.wf, Outcome.ok_bind_eq]
  rcases hvs with h0 | ⟨r, hr⟩
  · rw [if_neg (by simp [h0]), hfin]
  · by_cases h0 : m.valueStore = (0, 0)
    · rw [if_neg (by simp [h0]), hfin]
    · rw [if_pos h0, hr, Outcome.ok_bind_eq, hfin]

/-! ### 2. the layout hypotheses, with bytes between the manifest header and the pack infos -/

theorem infoBlocks_length (infos : List PackInfo) (hw : ∀ p ∈ infos, p.WF) :
    (infos.flatMap fun p => block p.encode).length = infos.length * 256 := by
  induction infos with
  | nil => rfl
  | cons p ps ih =>
    rw [List.flatMap_cons, List.length_append, block_encode_length p (hw p List.mem_cons_self),
      ih (fun q hq => hw q (List.mem_cons_of_mem _ hq)), List.length_cons]
    omega

/-- `ManifestLayout.of_concat` with an arbitrary region `mid` (check-info blocks, value store)
    between the manifest header block and the pack infos — the layout of the real creator. -/
theorem ManifestLayout.of_concat_mid (h : PackHeader) (m : ManifestHeader) (mid : Bytes)
    (infos : List PackInfo) (post : Bytes) (hwf : h.WF)
    (hver : h.major = Consts.versionGateMajor ∧ h.minor = Consts.versionGateMinor)
    (mvs1 : m.valueStore.1 < 2 ^ 48) (mvs2 : m.valueStore.2 < 2 ^ 16)
    (mfree : m.freeData.length = 24) (hcount : m.packCount = infos.length)
    (hn : infos.length < 2 ^ 16)
    (hcip : h.checkInfoPos = 128 + mid.length + infos.length * 256)
    (hw : ∀ p ∈ infos, p.WF) :
    ManifestLayout (block h.encode ++ block m.encode ++ mid ++
      (infos.flatMap fun p => block p.encode) ++ post) h m (128 + mid.length) infos := by
  have l1 : (block h.encode).length = 64 := by rw [block_length, PackHeader.encode_length h hwf]
  have l2 : (block m.encode).length = 64 := by
    rw [block_length, ManifestHeader.encode_length m mfree]
  have l12 : (block h.encode ++ block m.encode ++ mid).length = 128 + mid.length := by
    rw [List.length_append, List.length_append, l1, l2]
  have hat := manifestAt_concat (block h.encode ++ block m.encode ++ mid) infos post hw
  rw [l12] at hat
  refine ⟨?_, hwf, hver, ?_, by omega, mvs1, mvs2, mfree, hcount, by omega, by omega,
    by omega, hat, hw⟩
  · have := readBlock_block [] h.encode
      (block m.encode ++ mid ++ (infos.flatMap fun p => block p.encode) ++ post)
    rw [PackHeader.encode_length h hwf] at this
    simpa only [List.nil_append, List.length_nil, List.append_assoc] using this
  · have := readBlock_block (block h.encode) m.encode
      (mid ++ (infos.flatMap fun p => block p.encode) ++ post)
    rw [ManifestHeader.encode_length m mfree, l1] at this
    simpa only [List.append_assoc] using this

/-! ### 3. the written manifest, segment by segment -/

/-- what sits between the manifest header block and the pack infos -/
def mwMid (checkBlocks : Bytes) (store : VStore) : Bytes := checkBlocks ++ store.encode.1

/-- position of the first pack info -/
def mwBase (checkBlocks : Bytes) (store : VStore) : Nat := 128 + (mwMid checkBlocks store).length

/-- position of the check block -/
def mwCheckPos (checkBlocks : Bytes) (store : VStore) (infos : List PackInfo) : Nat :=
  mwBase checkBlocks store + infos.length * 256

/-- the manifest header `manifestWrite` writes -/
def mwMH (freeData checkBlocks : Bytes) (store : VStore) (infos : List PackInfo) : ManifestHeader :=
  ⟨infos.length, (128 + checkBlocks.length + store.encode.2.1, store.encode.2.2), freeData⟩

/-- the pack header `manifestWrite` writes -/
def mwHeader (vendor uuid checkBlocks : Bytes) (store : VStore) (infos : List PackInfo) :
    PackHeader :=
  ⟨PackKind.manifest, vendor, Consts.versionMajor, Consts.versionMinor, uuid, 0,
    mwCheckPos checkBlocks store infos + 37 + 64, mwCheckPos checkBlocks store infos⟩

theorem manifestWrite_frame (H : Bytes → Bytes) (vendor uuid freeData checkBlocks : Bytes)
    (store : VStore) (infos : List PackInfo) :
    manifestWrite H vendor uuid freeData checkBlocks store infos =
      framePack H (manifestMask (mwBase checkBlocks store) infos.length)
        (mwHeader vendor uuid checkBlocks store infos)
        (block (mwMH freeData checkBlocks store infos).encode ++ mwMid checkBlocks store ++
          infos.flatMap (fun p => block p.encode)) := rfl

/-- check block and mirrored tail -/
def mwTrailer (H : Bytes → Bytes) (vendor uuid freeData checkBlocks : Bytes) (store : VStore)
    (infos : List PackInfo) : Bytes :=
  block (CheckInfo.blake3 (H (manifestMask (mwBase checkBlocks store) infos.length
    (block (mwHeader vendor uuid checkBlocks store infos).encode ++
      (block (mwMH freeData checkBlocks store infos).encode ++ mwMid checkBlocks store ++
        infos.flatMap (fun p => block p.encode)))))).encode ++
  (block (mwHeader vendor uuid checkBlocks store infos).encode).reverse

theorem manifestWrite_eq (H : Bytes → Bytes) (vendor uuid freeData checkBlocks : Bytes)
    (store : VStore) (infos : List PackInfo) :
    manifestWrite H vendor uuid freeData checkBlocks store infos =
      block (mwHeader vendor uuid checkBlocks store infos).encode ++
        block (mwMH freeData checkBlocks store infos).encode ++ mwMid checkBlocks store ++
        (infos.flatMap fun p => block p.encode) ++
        mwTrailer H vendor uuid freeData checkBlocks store infos := by
  rw [manifestWrite_frame]
  simp only [framePack, packTail, mwTrailer, List.append_assoc]

/-- the hypotheses under which a manifest is written without any field overflowing:
    * `vendorLen`, `uuidLen`, `freeDataLen` — fixed-size arrays in the code;
    * `infosWF` — field widths of a pack info (uuid 16 bytes, `u64` size, 48+16-bit `SizedOffset`,
      `u16` id, `u8` group, `u16` free-data id, location ≤ 213 bytes);
    * `count` — the pack count is a `u16`;
    * `storeTail` — the `SizedOffset` of the value store keeps 16 bits for the size of the tail;
    * `storeCount` — the key count of an indexed store is a `u64` (implied by `storeTail`);
    * `fileSize` — that `SizedOffset` keeps 48 bits for the offset. -/
structure ManifestLimits (vendor uuid freeData checkBlocks : Bytes) (store : VStore)
    (infos : List PackInfo) : Prop where
  vendorLen : vendor.length = 4
  uuidLen : uuid.length = 16
  freeDataLen : freeData.length = 24
  infosWF : ∀ p ∈ infos, p.WF
  count : infos.length < 2 ^ 16
  storeTail : store.tailBytes.length < 2 ^ 16
  fileSize : mwCheckPos checkBlocks store infos + 37 + 64 < 2 ^ 48

section Written

variable {H : Bytes → Bytes} {vendor uuid freeData checkBlocks : Bytes} {store : VStore}
  {infos : List PackInfo}

theorem mwHeader_WF (L : ManifestLimits vendor uuid freeData checkBlocks store infos) :
    (mwHeader vendor uuid checkBlocks store infos).WF := by
  have := L.fileSize
  refine ⟨L.vendorLen, L.uuidLen, ?_, ?_, ?_, ?_, ?_⟩
  · show Consts.versionMajor < 256; decide
  · show Consts.versionMinor < 256; decide
  · show 0 < 256; decide
  · show mwCheckPos checkBlocks store infos + 37 + 64 < 2 ^ 64; omega
  · show mwCheckPos checkBlocks store infos < 2 ^ 64; omega

theorem mw_vs_le (checkBlocks : Bytes) (store : VStore) (infos : List PackInfo) :
    128 + checkBlocks.length + store.encode.2.1 ≤ mwCheckPos checkBlocks store infos := by
  have := VStore.encode_fst_length store
  simp only [mwCheckPos, mwBase, mwMid, List.length_append]
  omega

/-- **Created manifests have the manifest layout** of Lemmas/SetLocation.lean. -/
theorem manifestWrite_layout (L : ManifestLimits vendor uuid freeData checkBlocks store infos) :
    ManifestLayout (manifestWrite H vendor uuid freeData checkBlocks store infos)
      (mwHeader vendor uuid checkBlocks store infos) (mwMH freeData checkBlocks store infos)
      (mwBase checkBlocks store) infos := by
  rw [manifestWrite_eq]
  have hle := mw_vs_le checkBlocks store infos
  have hfs := L.fileSize
  exact ManifestLayout.of_concat_mid _ _ _ _ _ (mwHeader_WF L) ⟨rfl, rfl⟩
    (by show 128 + checkBlocks.length + store.encode.2.1 < 2 ^ 48; omega)
    (by show store.encode.2.2 < 2 ^ 16; rw [VStore.encode_eq]; exact L.storeTail)
    L.freeDataLen rfl L.count rfl L.infosWF

theorem manifestWrite_length (L : ManifestLimits vendor uuid freeData checkBlocks store infos)
    (hH : ∀ x, (H x).length = 32) :
    (manifestWrite H vendor uuid freeData checkBlocks store infos).length =
      mwCheckPos checkBlocks store infos + 37 + 64 := by
  rw [manifestWrite_eq]
  simp only [List.length_append, block_length, PackHeader.encode_length _ (mwHeader_WF L),
    ManifestHeader.encode_length (mwMH freeData checkBlocks store infos) L.freeDataLen,
    infoBlocks_length infos L.infosWF, mwTrailer, List.length_reverse, CheckInfo.encode,
    List.length_cons, hH, mwCheckPos, mwBase]

/-- the value store written between the headers and the pack infos opens -/
theorem valueStoreOpen_manifestWrite (L : ManifestLimits vendor uuid freeData checkBlocks store infos) :
    valueStoreOpen (manifestWrite H vendor uuid freeData checkBlocks store infos)
      (mwMH freeData checkBlocks store infos).valueStore = .ok (store.tail, store.data) := by
  have hle := mw_vs_le checkBlocks store infos
  have hfs := L.fileSize
  have hel := PackHeader.encode_length _ (mwHeader_WF L)
  have hml := ManifestHeader.encode_length (mwMH freeData checkBlocks store infos) L.freeDataLen
  have hvo := valueStoreOpen_encode store
    (block (mwHeader vendor uuid checkBlocks store infos).encode ++
      block (mwMH freeData checkBlocks store infos).encode ++ checkBlocks)
    ((infos.flatMap fun p => block p.encode) ++
      mwTrailer H vendor uuid freeData checkBlocks store infos)
    (by
      intro hi
      have := VStore.values_length_le_tail store hi
      have := L.storeTail
      omega)
    (by
      have : store.encode.2.1 = store.dataSize + 4 := by rw [VStore.encode_eq]
      omega)
  rw [manifestWrite_eq]
  simp only [List.length_append, block_length, hel, hml] at hvo
  simp only [mwMid, List.append_assoc] at hvo ⊢
  exact hvo

/-- **Round trip of the manifest**: `ManifestPack::new` on the written file returns the two headers
    written and exactly the pack infos given to the writer, in order. -/
theorem manifestOpen_manifestWrite (L : ManifestLimits vendor uuid freeData checkBlocks store infos)
    (hdir : infos.any (fun i => i.kind = .directory) = true) :
    manifestOpen (manifestWrite H vendor uuid freeData checkBlocks store infos) =
      .ok (mwHeader vendor uuid checkBlocks store infos, mwMH freeData checkBlocks store infos,
        infos) :=
  manifestOpen_of_layout _ _ _ _ _ (manifestWrite_layout L) rfl
    (Or.inr ⟨_, valueStoreOpen_manifestWrite L⟩) hdir

theorem mwCheckPos_body (L : ManifestLimits vendor uuid freeData checkBlocks store infos) :
    (mwHeader vendor uuid checkBlocks store infos).checkInfoPos =
      64 + (block (mwMH freeData checkBlocks store infos).encode ++ mwMid checkBlocks store ++
          infos.flatMap (fun p => block p.encode)).length := by
  show mwCheckPos checkBlocks store infos = _
  simp only [List.length_append, block_length,
    ManifestHeader.encode_length (mwMH freeData checkBlocks store infos) L.freeDataLen,
    infoBlocks_length infos L.infosWF, mwCheckPos, mwBase]
  omega

/-- `Pack::check` with the manifest's mask on a created manifest -/
theorem manifestWrite_packCheck (L : ManifestLimits vendor uuid freeData checkBlocks store infos)
    (hH : ∀ x, (H x).length = 32) :
    packCheck H (manifestMask (mwBase checkBlocks store) infos.length)
      (manifestWrite H vendor uuid freeData checkBlocks store infos) = .ok true := by
  rw [manifestWrite_frame]
  exact c04_created_verifies H _ _ _ (mwHeader_WF L) ⟨rfl, rfl⟩ (mwCheckPos_body L) rfl hH

/-- **Created manifests verify.** -/
theorem manifest_created_verifies (L : ManifestLimits vendor uuid freeData checkBlocks store infos)
    (hH : ∀ x, (H x).length = 32) :
    manifestCheck H (manifestWrite H vendor uuid freeData checkBlocks store infos) = .ok true := by
  unfold manifestCheck
  rw [(manifestWrite_layout L).manifestMaskOf_eq, Outcome.ok_bind_eq]
  exact manifestWrite_packCheck L hH

/-- `ManifestPack::new` then `check` on a created manifest -/
theorem manifest_created_openCheck (L : ManifestLimits vendor uuid freeData checkBlocks store infos)
    (hdir : infos.any (fun i => i.kind = .directory) = true) (hH : ∀ x, (H x).length = 32) :
    manifestOpenCheck H (manifestWrite H vendor uuid freeData checkBlocks store infos) = .ok true := by
  unfold manifestOpenCheck
  rw [manifestOpen_manifestWrite L hdir, Outcome.ok_bind_eq]
  exact manifest_created_verifies L hH

/-- **Created manifests keep verifying under relocation**: after any history of `set_location`
    rewrites (each one `fileStep`, i.e. exactly what the tool `setLocationAt` computes —
    `setLocationAt_eq_fileStep`) with locations of at most 213 bytes, the manifest check of the
    rewritten file still answers `true`. -/
theorem manifest_created_verifies_after_relocations
    (L : ManifestLimits vendor uuid freeData checkBlocks store infos)
    (hH : ∀ x, (H x).length = 32) (ops : List (Bytes × Bytes))
    (hl : ∀ op ∈ ops, op.2.length ≤ Consts.locationPad) :
    manifestCheck H (ops.foldl (fun (st : Bytes × List PackInfo) op =>
      (fileStep (mwBase checkBlocks store) st.2 st.1 op, specStep st.2 op))
      (manifestWrite H vendor uuid freeData checkBlocks store infos, infos)).1 = .ok true := by
  rw [manifestCheck_histories H _ _ _ _ _ (manifestWrite_layout L) ops hl]
  exact manifest_created_verifies L hH

/-- one run of the tool on a created manifest is the abstract step, and the result verifies -/
theorem manifest_created_set_location (L : ManifestLimits vendor uuid freeData checkBlocks store infos)
    (hH : ∀ x, (H x).length = 32) (u loc : Bytes) (hl : loc.length ≤ Consts.locationPad) :
    ∃ f', setLocationAt (manifestWrite H vendor uuid freeData checkBlocks store infos) 0 u loc =
        .ok (f', oldLocation infos u) ∧
      manifestCheck H f' = .ok true ∧
      ManifestLayout f' (mwHeader vendor uuid checkBlocks store infos)
        (mwMH freeData checkBlocks store infos) (mwBase checkBlocks store)
        (specStep infos (u, loc)) := by
  have S := manifestWrite_layout (H := H) L
  refine ⟨_, setLocationAt_eq_fileStep _ u loc _ _ _ _ S hl, ?_, (S.step (u, loc) hl).1⟩
  rw [manifestCheck_fileStep H _ _ _ _ _ S u loc hl]
  exact manifest_created_verifies L hH

end Written

end Jubako
