/-
**Damage monotonicity of the reader** (properties C05 and C06, file level).

`g` is a damaged copy of a file `f` when every CRC-checked block the reader can verify in `f` is
either found unchanged at the same place in `g` or fails its check there (`BlocksAgree f g`).
That is what "storage and transfer damage, not an adversary" means: no damaged block passes its CRC
with other bytes.  It holds *unconditionally* — no collision hypothesis — for every truncation of
`f` at any length, for `f` followed by any garbage, and for every alteration confined to 4
consecutive bytes (hence every single-byte alteration, every mask) — `blocksAgree_take`,
`blocksAgree_append`, `blocksAgree_window4`.

The lemmas of this file show, function by function, that the reader model run on `g` follows the
run on `f` block for block: whenever the run on `f` returns a value, the run on `g` returns **the
same value or an error** — never another value (C05), never a panic / hang / fault (C06).
-/
import JubakoModel.Model.Container
import JubakoModel.Lemmas.CrcWindow
import JubakoModel.Lemmas.Codec
import JubakoModel.Lemmas.Mask

namespace Jubako

/-! ### 1. the relation between a run on the damaged file and the run on the original -/

/-- `x` (the run on the damaged file) *follows* `y` (the run on the original) up to `R`: if `y`
    returns a value `v`, then `x` returns a value related to `v`, or an error value. -/
def Follows {α : Type} (R : α → α → Prop) (x y : Outcome α) : Prop :=
  ∀ v, y = .ok v → (∃ v', x = .ok v' ∧ R v' v) ∨ ∃ k, x = .err k

/-- the same value or an error -/
abbrev SameOrErr {α : Type} (x y : Outcome α) : Prop := Follows Eq x y

theorem Follows.refl {α : Type} (R : α → α → Prop) (hR : ∀ a, R a a) (x : Outcome α) : Follows R x x := by
  intro v hv; exact Or.inl ⟨v, hv, hR v⟩

theorem SameOrErr.refl {α : Type} (x : Outcome α) : SameOrErr x x := Follows.refl Eq (fun _ => rfl) x

theorem SameOrErr.of_eq {α : Type} {x y : Outcome α} (h : x = y) : SameOrErr x y := by
  subst h; exact SameOrErr.refl _

theorem Follows.err {α : Type} (R : α → α → Prop) (k : ErrKind) (y : Outcome α) : Follows R (.err k) y := by
  intro v _; exact Or.inr ⟨k, rfl⟩

theorem Follows.of_not_ok {α : Type} (R : α → α → Prop) (x y : Outcome α) (h : ∀ v, y ≠ .ok v) : Follows R x y := by
  intro v hv; exact absurd hv (h v)

theorem Follows.mono {α : Type} {R S : α → α → Prop} (h : ∀ a b, R a b → S a b) {x y : Outcome α}
    (hx : Follows R x y) : Follows S x y := by
  intro v hv
  rcases hx v hv with ⟨v', h1, h2⟩ | he
  · exact Or.inl ⟨v', h1, h _ _ h2⟩
  · exact Or.inr he

/-- bind: the continuation on the damaged side is only ever entered with a value related to the
    one the original run continued with -/
theorem Follows.bind {α β : Type} {R : α → α → Prop} {S : β → β → Prop} {x y : Outcome α}
    {G F : α → Outcome β} (hxy : Follows R x y)
    (hGF : ∀ a a', y = .ok a → R a' a → Follows S (G a') (F a)) : Follows S (x >>= G) (y >>= F) := by
  intro v hv
  cases y with
  | ok a =>
    have hv' : F a = .ok v := hv
    rcases hxy a rfl with ⟨a', h1, h2⟩ | ⟨k, hk⟩
    · subst h1
      exact hGF a a' rfl h2 v hv'
    · subst hk; exact Or.inr ⟨k, rfl⟩
  | err k => cases hv
  | panic s => cases hv
  | hang => cases hv
  | fault => cases hv

/-- bind for "same or error": both continuations receive the same value -/
theorem SameOrErr.bind {α β : Type} {S : β → β → Prop} {x y : Outcome α}
    {G F : α → Outcome β} (hxy : SameOrErr x y)
    (hGF : ∀ a, y = .ok a → Follows S (G a) (F a)) : Follows S (x >>= G) (y >>= F) :=
  Follows.bind hxy (fun a a' ha hr => by subst hr; exact hGF a' ha)

/-- a pure step that does not look at the file -/
theorem SameOrErr.bind_pure {α β : Type} {S : β → β → Prop} (y : Outcome α)
    {G F : α → Outcome β} (hGF : ∀ a, y = .ok a → Follows S (G a) (F a)) : Follows S (y >>= G) (y >>= F) :=
  SameOrErr.bind (SameOrErr.refl y) hGF

theorem SameOrErr.foldlM {α β : Type} (l : List α) (G F : β → α → Outcome β)
    (h : ∀ b a, SameOrErr (G b a) (F b a)) (init : β) :
    SameOrErr (l.foldlM G init) (l.foldlM F init) := by
  induction l generalizing init with
  | nil => exact SameOrErr.refl _
  | cons a l ih =>
    simp only [List.foldlM_cons]
    exact SameOrErr.bind (h init a) (fun b _ => ih b)

/-- what "follows" buys: no crash … -/
theorem Follows.no_crash {α : Type} {R : α → α → Prop} {x y : Outcome α} (h : Follows R x y) (v : α)
    (hy : y = .ok v) : x.isValueOrError = true := by
  rcases h v hy with ⟨v', h1, _⟩ | ⟨k, hk⟩
  · subst h1; rfl
  · subst hk; rfl

/-- … and no other value -/
theorem SameOrErr.value_eq {α : Type} {x y : Outcome α} (h : SameOrErr x y) (v v' : α)
    (hy : y = .ok v) (hx : x = .ok v') : v' = v := by
  rcases h v hy with ⟨w, h1, h2⟩ | ⟨k, hk⟩
  · rw [hx] at h1; cases h1; exact h2
  · rw [hx] at hk; cases hk

/-! ### 2. damaged copies -/

/-- every block that verifies in `f` is found unchanged at the same place in `g`, or does not
    verify there -/
def BlocksAgree (f g : Bytes) : Prop :=
  ∀ off n b b', readBlock f off n = .ok b → readBlock g off n = .ok b' → b' = b

theorem readBlock_cases (f : Bytes) (off n : Nat) :
    (∃ b, readBlock f off n = .ok b) ∨ ∃ k, readBlock f off n = .err k := by
  unfold readBlock
  split
  · simp only
    split
    · exact Or.inl ⟨_, rfl⟩
    · exact Or.inr ⟨_, rfl⟩
  · exact Or.inr ⟨_, rfl⟩

theorem BlocksAgree.read {f g : Bytes} (h : BlocksAgree f g) (off n : Nat) :
    SameOrErr (readBlock g off n) (readBlock f off n) := by
  intro b hb
  rcases readBlock_cases g off n with ⟨b', hb'⟩ | he
  · exact Or.inl ⟨b', hb', h off n b b' hb hb'⟩
  · exact Or.inr he

theorem BlocksAgree.refl (f : Bytes) : BlocksAgree f f := by
  intro off n b b' h1 h2; rw [h1] at h2; cases h2; rfl

theorem readBlock_ok_iff (f : Bytes) (off n : Nat) (b : Bytes) :
    readBlock f off n = .ok b ↔
      off + n + 4 ≤ f.length ∧ checkBlock (slice f off (n + 4)) = true ∧ b = (slice f off (n + 4)).take n := by
  unfold readBlock
  constructor
  · intro h
    split at h
    · rename_i h1
      simp only at h
      split at h
      · rename_i h2
        cases h
        exact ⟨h1, h2, rfl⟩
      · cases h
    · cases h
  · rintro ⟨h1, h2, h3⟩
    rw [if_pos h1]
    simp only [h2, if_true, h3]

/-- truncation at any length -/
theorem blocksAgree_take (f : Bytes) (k : Nat) : BlocksAgree f (f.take k) := by
  intro off n b b' h1 h2
  rw [readBlock_ok_iff] at h1 h2
  obtain ⟨l1, _, e1⟩ := h1
  obtain ⟨l2, _, e2⟩ := h2
  have hs : slice (f.take k) off (n + 4) = slice f off (n + 4) := by
    simp only [List.length_take] at l2
    simp only [slice, List.drop_take, List.take_take]
    congr 1
    omega
  rw [e1, e2, hs]

/-- any garbage appended -/
theorem blocksAgree_append (f junk : Bytes) : BlocksAgree f (f ++ junk) := by
  intro off n b b' h1 h2
  rw [readBlock_ok_iff] at h1 h2
  obtain ⟨l1, _, e1⟩ := h1
  obtain ⟨l2, _, e2⟩ := h2
  have hs : slice (f ++ junk) off (n + 4) = slice f off (n + 4) := by
    simp only [slice]
    rw [List.drop_append_of_le_length (by omega), List.take_append_of_le_length (by simp; omega)]
  rw [e1, e2, hs]

theorem be32_be32Nat (l : Bytes) (hl : l.length = 4) : be32 (be32Nat l) = l := by
  match l, hl with
  | [a, b, c, d], _ =>
    have ha := a.toNat_lt; have hb := b.toNat_lt; have hc := c.toNat_lt; have hd := d.toNat_lt
    simp only [be32Nat, be32]
    have e1 : (a.toNat * 16777216 + b.toNat * 65536 + c.toNat * 256 + d.toNat) / 16777216 % 256 = a.toNat := by omega
    have e2 : (a.toNat * 16777216 + b.toNat * 65536 + c.toNat * 256 + d.toNat) / 65536 % 256 = b.toNat := by omega
    have e3 : (a.toNat * 16777216 + b.toNat * 65536 + c.toNat * 256 + d.toNat) / 256 % 256 = c.toNat := by omega
    have e4 : (a.toNat * 16777216 + b.toNat * 65536 + c.toNat * 256 + d.toNat) % 256 = d.toNat := by omega
    rw [e1, e2, e3, e4]
    simp

/-- a verified slice is the block of its data part -/
theorem checkBlock_eq_block (full : Bytes) (n : Nat) (hl : full.length = n + 4)
    (h : checkBlock full = true) : full = block (full.take n) := by
  unfold checkBlock at h
  simp only [hl, Nat.add_sub_cancel, beq_iff_eq] at h
  have hd : (full.drop n).length = 4 := by simp [hl]
  have : full.drop n = be32 (crc32c (full.take n)).toNat := by
    rw [h]; exact (be32_be32Nat _ hd).symm
  unfold block
  rw [← this, List.take_append_drop]

/-- every alteration confined to 4 consecutive bytes (same length) — in particular every
    single-byte alteration, whatever the mask -/
theorem blocksAgree_window4 (f g : Bytes) (i : Nat)
    (hsame : ∀ k, (k < i ∨ i + 4 ≤ k) → g[k]? = f[k]?) : BlocksAgree f g := by
  intro off n b b' h1 h2
  rw [readBlock_ok_iff] at h1 h2
  obtain ⟨l1, c1, e1⟩ := h1
  obtain ⟨l2, c2, e2⟩ := h2
  have hfl : (slice f off (n + 4)).length = n + 4 := slice_length _ _ _ (by omega)
  have hgl : (slice g off (n + 4)).length = n + 4 := slice_length _ _ _ (by omega)
  have hfb := checkBlock_eq_block _ n hfl c1
  -- if the two slices differed, the damaged one would fail its check
  have heq : slice g off (n + 4) = slice f off (n + 4) := by
    apply Classical.byContradiction
    intro hne
    have hb : (block ((slice f off (n + 4)).take n)).length = n + 4 := by rw [← hfb, hfl]
    have := crc_detects_byte_change ((slice f off (n + 4)).take n) (slice g off (n + 4))
      (by rw [hgl, hb]) (i - off)
      (by
        intro k hk hw
        rw [hgl] at hk
        rw [← hfb, slice_getElem?, slice_getElem?, if_pos hk, if_pos hk]
        apply hsame
        omega)
      (by rw [← hfb]; exact hne)
    rw [this] at c2; cases c2
  rw [e1, e2, heq]

/-! ### 3. the readers follow, function by function -/

section readers
variable {f g : Bytes} (hD : BlocksAgree f g)
include hD

theorem openHeader_follows (k : PackKind) : SameOrErr (openHeader g k) (openHeader f k) := by
  unfold openHeader
  exact SameOrErr.bind (hD.read 0 60) (fun hd _ => SameOrErr.refl _)

theorem contentOpen_follows : SameOrErr (contentOpen g) (contentOpen f) := by
  unfold contentOpen
  refine SameOrErr.bind (openHeader_follows hD _) (fun h _ => ?_)
  refine SameOrErr.bind (hD.read _ _) (fun cb _ => ?_)
  refine SameOrErr.bind_pure _ (fun ch _ => ?_)
  refine SameOrErr.bind (hD.read _ _) (fun _ _ => ?_)
  refine SameOrErr.bind (hD.read _ _) (fun _ _ => ?_)
  exact SameOrErr.refl _

theorem clusterAt_follows (so : Nat × Nat) : SameOrErr (clusterAt g so) (clusterAt f so) := by
  unfold clusterAt
  refine SameOrErr.bind (hD.read _ _) (fun tb _ => ?_)
  exact SameOrErr.refl _

/-- what may differ between the contents read from a damaged content pack and from the original:
    the bytes — never whether the content exists, never its size -/
def SameShape (r' r : Option Bytes) : Prop := r'.map List.length = r.map List.length

omit hD in
theorem blobOf_follows (t : ClusterTail) (p p' : Bytes) (blob : Nat) :
    Follows (fun b' b => b'.length = b.length) (blobOf t p' blob) (blobOf t p blob) := by
  intro b hb
  unfold blobOf at hb ⊢
  simp only at hb ⊢
  split at hb
  · rename_i h1
    rw [if_pos h1]
    split at hb
    · rename_i h2
      rw [if_pos h2]
      split at hb
      · rename_i h3
        cases hb
        by_cases h4 : (0 :: t.offsets ++ [t.dataSize]).getD (blob + 1) 0 ≤ p'.length
        · rw [if_pos h4]
          refine Or.inl ⟨_, rfl, ?_⟩
          rw [slice_length _ _ _ (by omega), slice_length _ _ _ (by omega)]
        · rw [if_neg h4]; exact Or.inr ⟨_, rfl⟩
      · cases hb
    · cases hb
  · cases hb

/-- **Content pack, damaged copy.**  Whatever the original file answers for content `i`, the damaged
    copy answers an error, or the same "no such content", or a content of the same size. -/
theorem contentGet_follows (dec : Nat → Bytes → Option Bytes) (i : Nat) :
    Follows SameShape (contentGet dec g i) (contentGet dec f i) := by
  unfold contentGet
  refine SameOrErr.bind (contentOpen_follows hD) (fun hc _ => ?_)
  obtain ⟨h, ch⟩ := hc
  simp only
  split
  · exact Follows.refl SameShape (fun _ => rfl) _
  · refine SameOrErr.bind (hD.read _ _) (fun infoTable _ => ?_)
    split
    · exact Follows.err _ _ _
    · refine SameOrErr.bind (hD.read _ _) (fun ptrTable _ => ?_)
      refine SameOrErr.bind (clusterAt_follows hD _) (fun ts _ => ?_)
      obtain ⟨t, start⟩ := ts
      simp only
      split
      · refine Follows.bind (blobOf_follows t _ _ _) (fun b b' _ hb => ?_)
        intro v hv; cases hv
        exact Or.inl ⟨_, rfl, by simp [SameShape, hb]⟩
      · cases hdf : dec t.comp (slice f start t.rawSize) with
        | none => exact Follows.of_not_ok _ _ _ (by intro v hv; cases hv)
        | some plain =>
          cases hdg : dec t.comp (slice g start t.rawSize) with
          | none => exact Follows.err _ _ _
          | some plain' =>
            simp only
            refine Follows.bind (blobOf_follows t _ _ _) (fun b b' _ hb => ?_)
            intro v hv; cases hv
            exact Or.inl ⟨_, rfl, by simp [SameShape, hb]⟩

end readers

end Jubako
