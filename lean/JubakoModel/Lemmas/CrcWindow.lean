/-
Burst-error detection of the block CRC (`Model/Crc.lean`): any alteration confined to four
consecutive bytes of a block `data ‖ be32 (crc32c data)` is detected by `checkBlock`.

All proofs are direct (no `bv_decide`): the bit step is GF(2)-linear for every polynomial and
injective for every odd polynomial; on registers below `2^24` a byte step is a plain shift, which
lets four byte-feeds be rewritten as `crcStep8^4 (state ^^^ beWord a b c d)`.
-/
import JubakoModel.Lemmas.Codec

namespace Jubako

/-! ### one bit step -/

theorem shr31_eq_one_iff (c : UInt32) : c >>> 31 = 1 ↔ c.toBitVec.msb = true := by
  rw [← UInt32.toBitVec_inj, BitVec.msb_eq_decide]
  simp only [UInt32.toBitVec_shiftRight, decide_eq_true_eq]
  rw [← BitVec.toNat_inj]
  have := c.toNat_lt
  simp [BitVec.toNat_ushiftRight, Nat.shiftRight_eq_div_pow]
  omega

theorem stepBit_eq (p c : UInt32) :
    crcStepBit p c = (c <<< 1) ^^^ (if c.toBitVec.msb then p else 0) := by
  unfold crcStepBit
  by_cases h : c.toBitVec.msb = true
  · rw [if_pos ((shr31_eq_one_iff c).2 h), if_pos h]
  · rw [if_neg (fun h' => h ((shr31_eq_one_iff c).1 h')), if_neg h]; simp

theorem stepBit_xor' (p a b : UInt32) :
    crcStepBit p (a ^^^ b) = crcStepBit p a ^^^ crcStepBit p b := by
  rw [stepBit_eq, stepBit_eq, stepBit_eq]
  have hm : (a ^^^ b).toBitVec.msb = (a.toBitVec.msb ^^ b.toBitVec.msb) := by
    simp [BitVec.msb_xor]
  have hs : (a ^^^ b) <<< 1 = a <<< 1 ^^^ b <<< 1 := by
    apply UInt32.toBitVec_inj.1
    simp [BitVec.shiftLeft_xor_distrib]
  rw [hm, hs]
  cases a.toBitVec.msb <;> cases b.toBitVec.msb <;> simp
  · ac_rfl
  · ac_rfl
  · have : a <<< 1 ^^^ p ^^^ (b <<< 1 ^^^ p) = p ^^^ p ^^^ (a <<< 1 ^^^ b <<< 1) := by ac_rfl
    rw [this, UInt32.xor_self, UInt32.zero_xor]

theorem stepBit_zero' (p : UInt32) : crcStepBit p 0 = 0 := by
  rw [stepBit_eq]; simp

theorem stepBit_lsb (p c : UInt32) (hp : p.toBitVec.getLsbD 0 = true) :
    (crcStepBit p c).toBitVec.getLsbD 0 = c.toBitVec.msb := by
  rw [stepBit_eq]
  cases c.toBitVec.msb <;> simp [hp]

theorem stepBit_inj' (p a b : UInt32) (hp : p.toBitVec.getLsbD 0 = true)
    (h : crcStepBit p a = crcStepBit p b) : a = b := by
  have hm : a.toBitVec.msb = b.toBitVec.msb := by
    rw [← stepBit_lsb p a hp, ← stepBit_lsb p b hp, h]
  rw [stepBit_eq, stepBit_eq, hm] at h
  have hs : a <<< 1 = b <<< 1 := by
    have := congrArg (· ^^^ (if b.toBitVec.msb = true then p else 0)) h
    simpa [UInt32.xor_assoc] using this
  apply UInt32.toBitVec_inj.1
  have hs' := congrArg UInt32.toBitVec hs
  simp only [UInt32.toBitVec_shiftLeft] at hs'
  apply BitVec.eq_of_getLsbD_eq
  intro i hi
  by_cases h31 : i = 31
  · subst h31
    simpa [BitVec.msb_eq_getLsbD_last] using hm
  · have := congrArg (fun v => v.getLsbD (i+1)) hs'
    simp [BitVec.getLsbD_shiftLeft] at this
    have hlt : i + 1 < 32 := by omega
    simpa [hlt] using this

theorem stepBit_small (p x : UInt32) (h : x.toNat < 2 ^ 31) :
    (crcStepBit p x).toNat = 2 * x.toNat := by
  have hm : x.toBitVec.msb = false := by
    rw [BitVec.msb_eq_decide]; simp; exact h
  rw [stepBit_eq, hm]
  simp [UInt32.toNat_shiftLeft, Nat.shiftLeft_eq]
  omega

theorem step8_xor' (p a b : UInt32) :
    crcStep8 p (a ^^^ b) = crcStep8 p a ^^^ crcStep8 p b := by
  simp only [crcStep8, stepBit_xor']

theorem step8_zero' (p : UInt32) : crcStep8 p 0 = 0 := by
  simp only [crcStep8, stepBit_zero']

theorem step8_inj' (p a b : UInt32) (hp : p.toBitVec.getLsbD 0 = true)
    (h : crcStep8 p a = crcStep8 p b) : a = b := by
  unfold crcStep8 at h
  iterate 8 replace h := stepBit_inj' p _ _ hp h
  exact h

theorem step8_small (p x : UInt32) (h : x.toNat < 2 ^ 24) :
    (crcStep8 p x).toNat = 256 * x.toNat := by
  unfold crcStep8
  have h1 := stepBit_small p x (by omega)
  have h2 := stepBit_small p _ (by omega : (crcStepBit p x).toNat < 2^31)
  have h3 := stepBit_small p _ (by omega : (crcStepBit p (crcStepBit p x)).toNat < 2^31)
  have h4 := stepBit_small p _ (by omega : (crcStepBit p (crcStepBit p (crcStepBit p x))).toNat < 2^31)
  have h5 := stepBit_small p _ (by omega : (crcStepBit p (crcStepBit p (crcStepBit p (crcStepBit p x)))).toNat < 2^31)
  have h6 := stepBit_small p _ (by omega : (crcStepBit p (crcStepBit p (crcStepBit p (crcStepBit p (crcStepBit p x))))).toNat < 2^31)
  have h7 := stepBit_small p _ (by omega : (crcStepBit p (crcStepBit p (crcStepBit p (crcStepBit p (crcStepBit p (crcStepBit p x)))))).toNat < 2^31)
  have h8 := stepBit_small p _ (by omega : (crcStepBit p (crcStepBit p (crcStepBit p (crcStepBit p (crcStepBit p (crcStepBit p (crcStepBit p x))))))).toNat < 2^31)
  omega

theorem step8_byte (p : UInt32) (b : UInt8) :
    crcStep8 p (b.toUInt32) = b.toUInt32 <<< 8 ∧
    crcStep8 p (b.toUInt32 <<< 8) = b.toUInt32 <<< 16 ∧
    crcStep8 p (b.toUInt32 <<< 16) = b.toUInt32 <<< 24 := by
  have hb := b.toNat_lt
  refine ⟨?_, ?_, ?_⟩ <;> apply UInt32.toNat_inj.1 <;> rw [step8_small] <;>
    simp [UInt32.toNat_shiftLeft, Nat.shiftLeft_eq] <;> omega

/-! ### four bytes -/

/-- the 32-bit word whose big-endian bytes are `a b c d` -/
def beWord (a b c d : UInt8) : UInt32 :=
  (a.toUInt32 <<< 24) ^^^ ((b.toUInt32 <<< 16) ^^^ ((c.toUInt32 <<< 8) ^^^ d.toUInt32))

theorem shl_xor_eq_add (y x k : Nat) (h : x < 2 ^ k) : (y <<< k) ^^^ x = y <<< k + x := by
  rw [Nat.shiftLeft_add_eq_or_of_lt h]
  apply Nat.eq_of_testBit_eq
  intro i
  simp only [Nat.testBit_xor, Nat.testBit_or, Nat.testBit_shiftLeft]
  by_cases hi : k ≤ i
  · have : x.testBit i = false :=
      Nat.testBit_lt_two_pow (Nat.lt_of_lt_of_le h (Nat.pow_le_pow_right (by omega) hi))
    simp [this]
  · simp [hi]

theorem beWord_toNat (a b c d : UInt8) :
    (beWord a b c d).toNat = a.toNat * 16777216 + b.toNat * 65536 + c.toNat * 256 + d.toNat := by
  have ha := a.toNat_lt; have hb := b.toNat_lt; have hc := c.toNat_lt; have hd := d.toNat_lt
  have e1 : c.toNat <<< 8 ^^^ d.toNat = c.toNat <<< 8 + d.toNat := shl_xor_eq_add _ _ _ (by omega)
  have e2 : b.toNat <<< 16 ^^^ (c.toNat <<< 8 + d.toNat) = b.toNat <<< 16 + (c.toNat <<< 8 + d.toNat) :=
    shl_xor_eq_add _ _ _ (by simp only [Nat.shiftLeft_eq]; omega)
  have e3 : a.toNat <<< 24 ^^^ (b.toNat <<< 16 + (c.toNat <<< 8 + d.toNat))
      = a.toNat <<< 24 + (b.toNat <<< 16 + (c.toNat <<< 8 + d.toNat)) :=
    shl_xor_eq_add _ _ _ (by simp only [Nat.shiftLeft_eq]; omega)
  have m1 : a.toNat <<< 24 % 4294967296 = a.toNat <<< 24 := by simp only [Nat.shiftLeft_eq]; omega
  have m2 : b.toNat <<< 16 % 4294967296 = b.toNat <<< 16 := by simp only [Nat.shiftLeft_eq]; omega
  have m3 : c.toNat <<< 8 % 4294967296 = c.toNat <<< 8 := by simp only [Nat.shiftLeft_eq]; omega
  simp only [beWord, UInt32.toNat_xor, UInt32.toNat_shiftLeft, UInt8.toNat_toUInt32]
  simp only [UInt32.reduceToNat, Nat.reduceMod, Nat.reducePow, m1, m2, m3, e1, e2, e3]
  simp only [Nat.shiftLeft_eq]
  omega

theorem feed4_eq (p s : UInt32) (a b c d : UInt8) :
    crcFeed p s [a, b, c, d]
      = crcStep8 p (crcStep8 p (crcStep8 p (crcStep8 p (s ^^^ beWord a b c d)))) := by
  obtain ⟨hb1, hb2, hb3⟩ := step8_byte p b
  obtain ⟨hc1, hc2, hc3⟩ := step8_byte p c
  obtain ⟨hd1, hd2, hd3⟩ := step8_byte p d
  simp only [crcFeed, List.foldl_cons, List.foldl_nil, crcByte, beWord]
  rw [← hb3, ← hc3, ← hc2, ← hd3, ← hd2, ← hd1]
  simp only [← step8_xor', UInt32.xor_assoc]

/-! ### bytes and lists -/

theorem polyU_lsb : crcPolyU.toBitVec.getLsbD 0 = true := by decide

theorem u8_shl24_xor (b b' : UInt8) :
    (b ^^^ b').toUInt32 <<< 24 = (b.toUInt32 <<< 24) ^^^ (b'.toUInt32 <<< 24) := by
  apply UInt32.toBitVec_inj.1
  simp [BitVec.shiftLeft_xor_distrib]

theorem crcByte_xor' (p c c' : UInt32) (b b' : UInt8) :
    crcByte p (c ^^^ c') (b ^^^ b') = crcByte p c b ^^^ crcByte p c' b' := by
  simp only [crcByte, u8_shl24_xor, ← step8_xor']
  generalize b.toUInt32 <<< 24 = x
  generalize b'.toUInt32 <<< 24 = y
  congr 1
  ac_rfl

theorem crcByte_zero' (p : UInt32) : crcByte p 0 0 = 0 := by
  simp [crcByte, step8_zero']

theorem crcByte_inj_state' (p : UInt32) (hp : p.toBitVec.getLsbD 0 = true) (b : UInt8)
    (c c' : UInt32) (h : crcByte p c b = crcByte p c' b) : c = c' := by
  have := step8_inj' p _ _ hp h
  have h2 := congrArg (· ^^^ (b.toUInt32 <<< 24)) this
  simpa [UInt32.xor_assoc] using h2

def xorBytes : Bytes → Bytes → Bytes := List.zipWith (· ^^^ ·)

theorem crcFeed_nil (p c : UInt32) : crcFeed p c [] = c := rfl
theorem crcFeed_cons (p c : UInt32) (b : UInt8) (bs : Bytes) :
    crcFeed p c (b :: bs) = crcFeed p (crcByte p c b) bs := rfl

theorem crcFeed_append (p c : UInt32) (a b : Bytes) :
    crcFeed p c (a ++ b) = crcFeed p (crcFeed p c a) b := by
  simp [crcFeed, List.foldl_append]

theorem crcFeed_xor' (p c c' : UInt32) (a e : Bytes) (h : a.length = e.length) :
    crcFeed p (c ^^^ c') (xorBytes a e) = crcFeed p c a ^^^ crcFeed p c' e := by
  induction a generalizing c c' e with
  | nil => cases e with
    | nil => rfl
    | cons _ _ => simp at h
  | cons x a ih => cases e with
    | nil => simp at h
    | cons y e =>
      simp only [List.length_cons, Nat.add_right_cancel_iff] at h
      simp only [xorBytes, List.zipWith_cons_cons, crcFeed_cons, crcByte_xor']
      exact ih _ _ _ h

theorem crcFeed_zeros' (p : UInt32) (n : Nat) : crcFeed p 0 (List.replicate n 0) = 0 := by
  induction n with
  | zero => rfl
  | succ n ih => rw [List.replicate_succ, crcFeed_cons, crcByte_zero', ih]

theorem crcFeed_inj_state' (p : UInt32) (hp : p.toBitVec.getLsbD 0 = true) (bs : Bytes)
    (c c' : UInt32) (h : crcFeed p c bs = crcFeed p c' bs) : c = c' := by
  induction bs generalizing c c' with
  | nil => exact h
  | cons b bs ih => exact crcByte_inj_state' p hp b _ _ (ih _ _ h)

theorem crcFeed_zeros_eq_zero_iff' (p : UInt32) (hp : p.toBitVec.getLsbD 0 = true) (n : Nat)
    (c : UInt32) : crcFeed p c (List.replicate n 0) = 0 ↔ c = 0 := by
  constructor
  · intro h
    rw [← crcFeed_zeros' p n] at h
    exact crcFeed_inj_state' p hp _ _ _ h
  · rintro rfl; exact crcFeed_zeros' p n

theorem feed4_zero_iff' (p : UInt32) (hp : p.toBitVec.getLsbD 0 = true) (s : UInt32)
    (l : Bytes) (hl : l.length = 4) : crcFeed p s l = 0 ↔ s.toNat = be32Nat l := by
  match l, hl with
  | [a, b, c, d], _ =>
    rw [feed4_eq, be32Nat, ← beWord_toNat, UInt32.toNat_inj]
    constructor
    · intro h
      have h0 : crcStep8 p (crcStep8 p (crcStep8 p (crcStep8 p 0))) = 0 := by
        simp only [step8_zero']
      rw [← h0] at h
      have := step8_inj' p _ _ hp (step8_inj' p _ _ hp (step8_inj' p _ _ hp (step8_inj' p _ _ hp h)))
      have h2 := congrArg (· ^^^ beWord a b c d) this
      simpa [UInt32.xor_assoc] using h2
    · rintro rfl
      simp only [UInt32.xor_self, step8_zero']

/-! ### specialisations to the Jubako polynomial -/

theorem stepBit_xor (a b : UInt32) :
    crcStepBit crcPolyU (a ^^^ b) = crcStepBit crcPolyU a ^^^ crcStepBit crcPolyU b :=
  stepBit_xor' _ a b

theorem stepBit_zero : crcStepBit crcPolyU 0 = 0 := stepBit_zero' _

theorem stepBit_inj (a b : UInt32) (h : crcStepBit crcPolyU a = crcStepBit crcPolyU b) : a = b :=
  stepBit_inj' _ a b polyU_lsb h

theorem stepBit_eq_zero_iff (a : UInt32) : crcStepBit crcPolyU a = 0 ↔ a = 0 := by
  constructor
  · intro h; rw [← stepBit_zero] at h; exact stepBit_inj _ _ h
  · rintro rfl; exact stepBit_zero

theorem crcByte_xor (c c' : UInt32) (b b' : UInt8) :
    crcByte crcPolyU (c ^^^ c') (b ^^^ b') = crcByte crcPolyU c b ^^^ crcByte crcPolyU c' b' :=
  crcByte_xor' _ c c' b b'

theorem crcByte_zero : crcByte crcPolyU 0 0 = 0 := crcByte_zero' _

theorem crcFeed_xor (c c' : UInt32) (a e : Bytes) (h : a.length = e.length) :
    crcFeed crcPolyU (c ^^^ c') (xorBytes a e) = crcFeed crcPolyU c a ^^^ crcFeed crcPolyU c' e :=
  crcFeed_xor' _ c c' a e h

theorem crcFeed_zeros (n : Nat) : crcFeed crcPolyU 0 (List.replicate n 0) = 0 :=
  crcFeed_zeros' _ n

theorem crcFeed_inj_state (bs : Bytes) (c c' : UInt32)
    (h : crcFeed crcPolyU c bs = crcFeed crcPolyU c' bs) : c = c' :=
  crcFeed_inj_state' _ polyU_lsb bs c c' h

theorem crcFeed_zeros_eq_zero_iff (n : Nat) (c : UInt32) :
    crcFeed crcPolyU c (List.replicate n 0) = 0 ↔ c = 0 :=
  crcFeed_zeros_eq_zero_iff' _ polyU_lsb n c

/-! ### the check as a residue -/

theorem feed4_zero_inj (w : Bytes) (hl : w.length = 4) (h : crcFeed crcPolyU 0 w = 0) :
    w = [0, 0, 0, 0] := by
  have h' := (feed4_zero_iff' crcPolyU polyU_lsb 0 w hl).1 h
  match w, hl with
  | [a, b, c, d], _ =>
    simp only [be32Nat, UInt32.toNat_zero] at h'
    have ha : a = 0 := UInt8.toNat_inj.1 (by simp; omega)
    have hb : b = 0 := UInt8.toNat_inj.1 (by simp; omega)
    have hc : c = 0 := UInt8.toNat_inj.1 (by simp; omega)
    have hd : d = 0 := UInt8.toNat_inj.1 (by simp; omega)
    rw [ha, hb, hc, hd]

theorem feed_be32_zero_iff (c : UInt32) (v : Nat) (hv : v < 2 ^ 32) :
    crcFeed crcPolyU c (be32 v) = 0 ↔ c.toNat = v := by
  rw [feed4_zero_iff' crcPolyU polyU_lsb c _ (be32_length v), be32Nat_be32 v hv]

theorem checkBlock_iff (full : Bytes) (h : 4 ≤ full.length) :
    checkBlock full = true ↔ crcFeed crcPolyU crcInitU full = 0 := by
  have hd : (full.drop (full.length - 4)).length = 4 := by simp; omega
  conv => rhs; rw [← List.take_append_drop (full.length - 4) full, crcFeed_append]
  rw [feed4_zero_iff' crcPolyU polyU_lsb _ _ hd]
  simp [checkBlock, crc32c]

/-! ### window -/

theorem eq_replicate_of_getElem? (l : Bytes) (h : ∀ k, k < l.length → l[k]? = some 0) :
    l = List.replicate l.length 0 := by
  apply List.ext_getElem?
  intro k
  by_cases hk : k < l.length
  · rw [h k hk]; simp [hk]
  · simp [hk]

theorem crcFeed_short_zero (w : Bytes) (hl : w.length ≤ 4) (h : crcFeed crcPolyU 0 w = 0) :
    w = List.replicate w.length 0 := by
  have h4 : crcFeed crcPolyU 0 (w ++ List.replicate (4 - w.length) 0) = 0 := by
    rw [crcFeed_append, h, crcFeed_zeros']
  have := feed4_zero_inj _ (by simp; omega) h4
  have h2 := congrArg (List.take w.length) this
  rw [List.take_left' rfl] at h2
  have h3 : ([0, 0, 0, 0] : Bytes) = List.replicate 4 0 := rfl
  rw [h3, List.take_replicate, Nat.min_eq_left hl] at h2
  exact h2

theorem crcFeed_window_zero (e : Bytes) (i : Nat)
    (hwin : ∀ k, k < e.length → (k < i ∨ i + 4 ≤ k) → e[k]? = some 0)
    (h : crcFeed crcPolyU 0 e = 0) : ∀ k, k < e.length → e[k]? = some 0 := by
  induction i generalizing e with
  | zero =>
    have hdz : e.drop 4 = List.replicate (e.drop 4).length 0 := by
      apply eq_replicate_of_getElem?
      intro k hk
      rw [List.getElem?_drop]
      rw [List.length_drop] at hk
      exact hwin (4 + k) (by omega) (Or.inr (by omega))
    rw [← List.take_append_drop 4 e, crcFeed_append, hdz,
      crcFeed_zeros_eq_zero_iff' crcPolyU polyU_lsb] at h
    have ht := crcFeed_short_zero _ (by simp; omega) h
    intro k hk
    by_cases hk4 : k < 4
    · have : (e.take 4)[k]? = e[k]? := by rw [List.getElem?_take]; simp [hk4]
      rw [← this, ht]
      simp [List.getElem?_replicate]; omega
    · exact hwin k hk (Or.inr (by omega))
  | succ i ih =>
    cases e with
    | nil => intro k hk; simp at hk
    | cons x e' =>
      have hx : x = 0 := by
        have := hwin 0 (by simp) (Or.inl (by omega))
        simpa using this
      subst hx
      rw [crcFeed_cons, crcByte_zero'] at h
      have hw' : ∀ k, k < e'.length → (k < i ∨ i + 4 ≤ k) → e'[k]? = some 0 := by
        intro k hk hc
        have := hwin (k + 1) (by simp; omega) (by omega)
        simpa using this
      have := ih e' hw' h
      intro k hk
      cases k with
      | zero => simp
      | succ k => simpa using this k (by simpa using hk)

/-! ### main theorems -/

theorem crc_detects_window4 (d : Bytes) (e : Bytes) (he : e.length = (block d).length) (i : Nat)
    (hwin : ∀ k, k < e.length → (k < i ∨ i + 4 ≤ k) → e[k]? = some 0)
    (hnz : ∃ k, e[k]? ≠ some 0 ∧ k < e.length) :
    checkBlock (xorBytes (block d) e) = false := by
  have hlen : (xorBytes (block d) e).length = (block d).length := by simp [xorBytes, he]
  have h4 : 4 ≤ (xorBytes (block d) e).length := by rw [hlen, block_length]; omega
  cases hcb : checkBlock (xorBytes (block d) e) with
  | false => rfl
  | true =>
    exfalso
    rw [checkBlock_iff _ h4] at hcb
    have hb : crcFeed crcPolyU crcInitU (block d) = 0 :=
      (checkBlock_iff _ (by rw [block_length]; omega)).1 (checkBlock_block d)
    have hx := crcFeed_xor crcInitU 0 (block d) e he.symm
    rw [UInt32.xor_zero, hcb, hb, UInt32.zero_xor] at hx
    obtain ⟨k, hk, hkl⟩ := hnz
    exact hk (crcFeed_window_zero e i hwin hx.symm k hkl)

theorem xorBytes_cancel (a b : Bytes) (h : a.length = b.length) :
    xorBytes a (xorBytes a b) = b := by
  induction a generalizing b with
  | nil => cases b with
    | nil => rfl
    | cons _ _ => simp at h
  | cons x a ih => cases b with
    | nil => simp at h
    | cons y b =>
      simp only [List.length_cons, Nat.add_right_cancel_iff] at h
      have := ih b h
      simp only [xorBytes] at this ⊢
      simp only [List.zipWith_cons_cons, this, ← UInt8.xor_assoc, UInt8.xor_self, UInt8.zero_xor]

theorem crc_detects_byte_change (d : Bytes) (alt : Bytes) (hl : alt.length = (block d).length)
    (i : Nat)
    (hsame : ∀ k, k < alt.length → (k < i ∨ i + 4 ≤ k) → alt[k]? = (block d)[k]?)
    (hdiff : alt ≠ block d) : checkBlock alt = false := by
  have hel : (xorBytes (block d) alt).length = (block d).length := by simp [xorBytes, hl]
  have hget : ∀ k (hk : k < alt.length),
      (xorBytes (block d) alt)[k]? = some ((block d)[k]'(hl ▸ hk) ^^^ alt[k]) := by
    intro k hk
    rw [List.getElem?_eq_getElem (by rw [hel, ← hl]; exact hk)]
    simp [xorBytes, List.getElem_zipWith]
  rw [← xorBytes_cancel (block d) alt hl.symm]
  apply crc_detects_window4 d _ hel i
  · intro k hk hc
    have hk' : k < alt.length := by rw [hel, ← hl] at hk; exact hk
    have := hsame k hk' hc
    rw [List.getElem?_eq_getElem hk', List.getElem?_eq_getElem (hl ▸ hk')] at this
    rw [hget k hk', Option.some.inj this, UInt8.xor_self]
  · refine Classical.byContradiction fun hcon => hdiff ?_
    apply List.ext_getElem hl
    intro k h1 h2
    have hz : (xorBytes (block d) alt)[k]? = some 0 :=
      Classical.byContradiction fun hne => hcon ⟨k, hne, by rw [hel]; exact h2⟩
    rw [hget k h1] at hz
    have := Option.some.inj hz
    exact (UInt8.xor_eq_zero_iff.1 this).symm

end Jubako
