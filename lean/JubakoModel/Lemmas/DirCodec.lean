/- Directory pack codecs: column widths (unsigned / two's complement), padding, p-strings and the
   property headers of an entry-store layout. -/
import JubakoModel.Model.DirWriter
import JubakoModel.Lemmas.Codec

namespace Jubako

set_option linter.unusedSimpArgs false
set_option maxRecDepth 8000

/-! ### 1. unsigned column width -/

theorem foldl_max_spec (l : List Nat) (a : Nat) :
    a ≤ l.foldl max a ∧ ∀ x ∈ l, x ≤ l.foldl max a := by
  induction l generalizing a with
  | nil => simp
  | cons y ys ih =>
    simp only [List.foldl_cons, List.mem_cons]
    have h := ih (max a y)
    refine ⟨by omega, ?_⟩
    intro x hx
    rcases hx with rfl | hx
    · omega
    · exact h.2 x hx

theorem le_listMax (l : List Nat) (x : Nat) (h : x ∈ l) : x ≤ listMax l :=
  (foldl_max_spec l 0).2 x h

theorem uint_column_fits (col : List Nat) (v : Nat) (h : v ∈ col) :
    v < 256 ^ neededBytes (listMax col) :=
  Nat.lt_of_le_of_lt (le_listMax col v h) (neededBytes_spec (listMax col)).1

theorem uint_roundtrip (col : List Nat) (v : Nat) (h : v ∈ col) :
    leNat (leBytes v (neededBytes (listMax col))) = v :=
  leNat_leBytes_of_lt _ _ (uint_column_fits col v h)

theorem uint_narrow_alters (v n : Nat) (h : 256 ^ n ≤ v) : leNat (leBytes v n) ≠ v := by
  rw [leNat_leBytes]
  have : v % 256 ^ n < 256 ^ n := Nat.mod_lt _ (Nat.pow_pos (by omega))
  omega

/-! ### 2. two's complement -/

def fitsSigned (v : Int) (n : Nat) : Prop :=
  -(2 ^ (8 * n - 1) : Int) ≤ v ∧ v < (2 ^ (8 * n - 1) : Int)

theorem le8_cases (n : Nat) (hn : 1 ≤ n) (hn8 : n ≤ 8) :
    n = 1 ∨ n = 2 ∨ n = 3 ∨ n = 4 ∨ n = 5 ∨ n = 6 ∨ n = 7 ∨ n = 8 := by omega

theorem sint_roundtrip (v : Int) (n : Nat) (hn : 1 ≤ n) (hn8 : n ≤ 8) (hf : fitsSigned v n) :
    signExtend (leNat (leBytesInt v n)) n = v := by
  rw [leBytesInt, leNat_leBytes]
  unfold fitsSigned at hf
  unfold signExtend
  rcases le8_cases n hn hn8 with rfl | rfl | rfl | rfl | rfl | rfl | rfl | rfl <;>
    simp only [Nat.reduceMul, Nat.reduceSub, Nat.reducePow, Int.reducePow, Int.reduceNeg,
      Nat.reduceEqDiff, if_false, ite_false] at hf ⊢ <;>
    split <;> omega

theorem sint_narrow_alters (v : Int) (n : Nat) (hn : 1 ≤ n) (hn8 : n ≤ 8)
    (hr : -(2 ^ 63 : Int) ≤ v ∧ v < 2 ^ 63) (hf : ¬ fitsSigned v n) :
    signExtend (leNat (leBytesInt v n)) n ≠ v := by
  -- the i64-range hypothesis is not needed: a sign-extended `n`-byte value always fits `n` bytes
  have _ := hr
  rw [leBytesInt, leNat_leBytes]
  unfold fitsSigned at hf
  unfold signExtend
  rcases le8_cases n hn hn8 with rfl | rfl | rfl | rfl | rfl | rfl | rfl | rfl <;>
    simp only [Nat.reduceMul, Nat.reduceSub, Nat.reducePow, Int.reducePow, Int.reduceNeg,
      Nat.reduceEqDiff, if_false, ite_false] at hf ⊢ <;>
    split <;> omega

/-! ### 3. the signed width key -/

theorem fitsSigned_mono (v : Int) (k k' : Nat) (hk : k ≤ k') (hf : fitsSigned v k) :
    fitsSigned v k' := by
  unfold fitsSigned at hf ⊢
  have h : (2 : Nat) ^ (8 * k - 1) ≤ 2 ^ (8 * k' - 1) := Nat.pow_le_pow_right (by omega) (by omega)
  have h' : ((2 ^ (8 * k - 1) : Nat) : Int) ≤ ((2 ^ (8 * k' - 1) : Nat) : Int) := Int.ofNat_le.mpr h
  rw [Int.natCast_pow, Int.natCast_pow] at h'
  simp only [Int.cast_ofNat_Int] at h'
  omega

theorem neededBytes_mono (a b : Nat) (h : a ≤ b) : neededBytes a ≤ neededBytes b :=
  neededBytes_min a _ (neededBytes_spec b).2 (Nat.lt_of_le_of_lt h (neededBytes_spec b).1)

/-! ### 4. -/

theorem neededBytes_le_8 (v : Nat) (h : v < 2 ^ 64) : neededBytes v ≤ 8 :=
  neededBytes_min v 8 (by omega) (by
    have h8 : (256 : Nat) ^ 8 = 2 ^ 64 := by decide
    omega)

theorem signedSizeKey_lt (v : Int) : signedSizeKey v < 2 ^ 63 := by
  simp only [signedSizeKey]
  omega

theorem signedSizeKey_fits (v : Int) (hr : -(2 ^ 63 : Int) ≤ v ∧ v < 2 ^ 63) :
    fitsSigned v (neededBytes (signedSizeKey v)) := by
  obtain ⟨h1, h2⟩ := neededBytes_spec (signedSizeKey v)
  have h3 := neededBytes_le_8 (signedSizeKey v) (by have := signedSizeKey_lt v; omega)
  generalize neededBytes (signedSizeKey v) = k at h1 h2 h3
  unfold fitsSigned
  simp only [signedSizeKey] at h1
  rcases le8_cases k h2 h3 with rfl | rfl | rfl | rfl | rfl | rfl | rfl | rfl <;>
    simp only [Nat.reduceMul, Nat.reduceSub, Nat.reducePow, Int.reducePow, Int.reduceNeg] at h1 hr ⊢ <;>
    split at h1 <;> omega

theorem signedSizeKey_min (v : Int) (hr : -(2 ^ 63 : Int) ≤ v ∧ v < 2 ^ 63) (n : Nat) (hn : 1 ≤ n)
    (hf : fitsSigned v n) : neededBytes (signedSizeKey v) ≤ n := by
  -- the i64-range hypothesis is not needed
  have _ := hr
  by_cases h8 : 8 ≤ n
  · have := neededBytes_le_8 (signedSizeKey v) (by have := signedSizeKey_lt v; omega)
    omega
  · apply neededBytes_min _ _ hn
    unfold fitsSigned at hf
    simp only [signedSizeKey]
    rcases le8_cases n hn (by omega) with rfl | rfl | rfl | rfl | rfl | rfl | rfl | rfl <;>
      simp only [Nat.reduceMul, Nat.reduceSub, Nat.reducePow, Int.reducePow, Int.reduceNeg] at hf ⊢ <;>
      split <;> omega

theorem sint_column_fits (col : List Int) (hr : ∀ x ∈ col, -(2 ^ 63 : Int) ≤ x ∧ x < 2 ^ 63)
    (v : Int) (h : v ∈ col) : fitsSigned v (neededBytes (listMax (col.map signedSizeKey))) :=
  fitsSigned_mono v _ _
    (neededBytes_mono _ _ (le_listMax _ _ (List.mem_map_of_mem h)))
    (signedSizeKey_fits v (hr v h))

/-! ### 5. padding -/

theorem paddingProps_size (n : Nat) : propsSize (paddingProps n) = n := by
  fun_induction paddingProps n with
  | case1 => simp [propsSize]
  | case2 n h ih => simp only [propsSize, List.map_cons, List.sum_cons] at ih ⊢; omega
  | case3 n h => simp [propsSize]

theorem paddingProps_kind (n : Nat) :
    ∀ p ∈ paddingProps n, p.kind = .padding ∧ 1 ≤ p.size ∧ p.size ≤ 16 := by
  fun_induction paddingProps n with
  | case1 => simp
  | case2 n h ih =>
    intro p hp
    rcases List.mem_cons.mp hp with rfl | hp
    · simp
    · exact ih p hp
  | case3 n h =>
    intro p hp
    rcases List.mem_singleton.mp hp with rfl
    simp only [true_and]
    omega

/-! ### 6. p-string -/

theorem pstring_roundtrip (s rest : Bytes) (h : s.length ≤ 255) :
    pstringDecode (pstringEncode s ++ rest) = some (s, rest) := by
  have hm : s.length % 256 = s.length := by omega
  simp [pstringEncode, pstringDecode, toNat_ofNat_u8, hm]

/-! ### 7. property headers -/

@[simp] theorem Outcome.ok_bind {α β} (a : α) (f : α → Outcome β) : (Outcome.ok a >>= f) = f a := rfl

@[simp] theorem Outcome.pure_eq_ok {α} (a : α) : (pure a : Outcome α) = Outcome.ok a := rfl

theorem takeLE_append (a b : Bytes) (n : Nat) (h : a.length = n) :
    takeLE (a ++ b) n = .ok (leNat a, b) := by
  subst h
  simp [takeLE]

theorem takeLE_leBytes (v n : Nat) (b : Bytes) :
    takeLE (leBytes v n ++ b) n = .ok (v % 256 ^ n, b) := by
  rw [takeLE_append _ _ _ (leBytes_length v n), leNat_leBytes]

theorem takeLE_one (x : UInt8) (b : Bytes) : takeLE (x :: b) 1 = .ok (x.toNat, b) := by
  simp [takeLE, leNat]

theorem takePString_encode (s rest : Bytes) (h : s.length ≤ 255) :
    takePString (pstringEncode s ++ rest) = .ok (s, rest) := by
  simp [takePString, pstring_roundtrip s rest h]

theorem rawProp_roundtrip_padding (size : Nat) (rest : Bytes) (h1 : 1 ≤ size) (h16 : size ≤ 16) :
    RawProp.decode ((⟨size, [], .padding⟩ : RawProp).encode ++ rest) = .ok (⟨size, [], .padding⟩, rest) := by
  have e1 : (size - 1) % 256 / 16 = 0 := by omega
  have e2 : (size - 1) % 16 + 1 = size := by omega
  simp [RawProp.encode, RawProp.decode, toNat_ofNat_u8, e1, e2]

theorem rawProp_roundtrip_variantId (name rest : Bytes) (hn : name.length ≤ 255) :
    RawProp.decode ((⟨1, name, .variantId⟩ : RawProp).encode ++ rest) = .ok (⟨1, name, .variantId⟩, rest) := by
  simp [RawProp.encode, RawProp.decode, toNat_ofNat_u8, takePString_encode _ _ hn]

theorem rawProp_roundtrip_uint (sz : Nat) (name rest : Bytes) (hn : name.length ≤ 255)
    (h1 : 1 ≤ sz) (h8 : sz ≤ 8) :
    RawProp.decode ((⟨sz, name, .uint sz none⟩ : RawProp).encode ++ rest) =
      .ok (⟨sz, name, .uint sz none⟩, rest) := by
  rcases le8_cases sz h1 h8 with rfl | rfl | rfl | rfl | rfl | rfl | rfl | rfl <;>
    simp [RawProp.encode, RawProp.decode, toNat_ofNat_u8, takePString_encode _ _ hn]

theorem rawProp_roundtrip_uint_default (sz d : Nat) (name rest : Bytes) (hn : name.length ≤ 255)
    (h1 : 1 ≤ sz) (h8 : sz ≤ 8) (hd : d < 256 ^ sz) :
    RawProp.decode ((⟨0, name, .uint sz (some d)⟩ : RawProp).encode ++ rest) =
      .ok (⟨0, name, .uint sz (some d)⟩, rest) := by
  have hm := Nat.mod_eq_of_lt hd
  rcases le8_cases sz h1 h8 with rfl | rfl | rfl | rfl | rfl | rfl | rfl | rfl <;>
    simp [RawProp.encode, RawProp.decode, toNat_ofNat_u8, takePString_encode _ _ hn,
      takeLE_leBytes, List.append_assoc] <;> simpa using hm

theorem rawProp_roundtrip_sint (sz : Nat) (name rest : Bytes) (hn : name.length ≤ 255)
    (h1 : 1 ≤ sz) (h8 : sz ≤ 8) :
    RawProp.decode ((⟨sz, name, .sint sz none⟩ : RawProp).encode ++ rest) =
      .ok (⟨sz, name, .sint sz none⟩, rest) := by
  rcases le8_cases sz h1 h8 with rfl | rfl | rfl | rfl | rfl | rfl | rfl | rfl <;>
    simp [RawProp.encode, RawProp.decode, toNat_ofNat_u8, takePString_encode _ _ hn]

theorem takeLE_leBytesInt (v : Int) (n : Nat) (b : Bytes) :
    takeLE (leBytesInt v n ++ b) n = .ok (leNat (leBytesInt v n), b) :=
  takeLE_append _ _ _ (by simp [leBytesInt, leBytes_length])

theorem rawProp_roundtrip_sint_default (sz : Nat) (d : Int) (name rest : Bytes)
    (hn : name.length ≤ 255) (h1 : 1 ≤ sz) (h8 : sz ≤ 8) (hd : fitsSigned d sz) :
    RawProp.decode ((⟨0, name, .sint sz (some d)⟩ : RawProp).encode ++ rest) =
      .ok (⟨0, name, .sint sz (some d)⟩, rest) := by
  have hm := sint_roundtrip d sz h1 h8 hd
  rcases le8_cases sz h1 h8 with rfl | rfl | rfl | rfl | rfl | rfl | rfl | rfl <;>
    simp [RawProp.encode, RawProp.decode, toNat_ofNat_u8, takePString_encode _ _ hn,
      takeLE_leBytesInt, List.append_assoc, hm]

theorem le4_cases (n : Nat) (hn : 1 ≤ n) (hn4 : n ≤ 4) : n = 1 ∨ n = 2 ∨ n = 3 ∨ n = 4 := by omega

theorem rawProp_roundtrip_content (ps cs : Nat) (name rest : Bytes) (hn : name.length ≤ 255)
    (hps : ps = 1 ∨ ps = 2) (h1 : 1 ≤ cs) (h4 : cs ≤ 4) :
    RawProp.decode ((⟨ps + cs, name, .content ps cs none⟩ : RawProp).encode ++ rest) =
      .ok (⟨ps + cs, name, .content ps cs none⟩, rest) := by
  rcases hps with rfl | rfl <;> rcases le4_cases cs h1 h4 with rfl | rfl | rfl | rfl <;>
    simp [RawProp.encode, RawProp.decode, toNat_ofNat_u8, takePString_encode _ _ hn]

theorem rawProp_roundtrip_content_default (ps cs d : Nat) (name rest : Bytes)
    (hn : name.length ≤ 255) (hps : ps = 1 ∨ ps = 2) (h1 : 1 ≤ cs) (h4 : cs ≤ 4)
    (hd : d < 256 ^ ps) :
    RawProp.decode ((⟨cs, name, .content ps cs (some d)⟩ : RawProp).encode ++ rest) =
      .ok (⟨cs, name, .content ps cs (some d)⟩, rest) := by
  rcases hps with rfl | rfl <;> rcases le4_cases cs h1 h4 with rfl | rfl | rfl | rfl <;>
    simp [RawProp.encode, RawProp.decode, toNat_ofNat_u8, takePString_encode _ _ hn,
      takeLE_leBytes, List.append_assoc] <;> simp at hd <;> omega

theorem rawProp_roundtrip_array (ls fixed ks st : Nat) (name rest : Bytes)
    (hn : name.length ≤ 255) (hl1 : 1 ≤ ls) (hl3 : ls ≤ 3) (hfx : fixed ≤ 31)
    (hk1 : 1 ≤ ks) (hk7 : ks ≤ 7) (hst : st < 256) :
    RawProp.decode ((⟨ls + fixed + ks, name, .array (some ls) fixed (some (ks, st)) none⟩ : RawProp).encode
        ++ rest) =
      .ok (⟨ls + fixed + ks, name, .array (some ls) fixed (some (ks, st)) none⟩, rest) := by
  have e1 : (ks * 32 + fixed) % 256 % 32 = fixed := by omega
  have e2 : (ks * 32 + fixed) % 256 / 32 = ks := by omega
  have e3 : st % 256 = st := by omega
  have e4 : ¬ ks = 0 := by omega
  have e5 : 32 ≤ (ks * 32 + fixed) % 256 := by omega
  have hls : ls = 1 ∨ ls = 2 ∨ ls = 3 := by omega
  rcases hls with rfl | rfl | rfl <;>
    simp [RawProp.encode, RawProp.decode, toNat_ofNat_u8, takePString_encode _ _ hn,
      takeLE_one, e1, e2, e3, e4, e5]

theorem rawProp_roundtrip_indirect_array (ks st : Nat) (name rest : Bytes)
    (hn : name.length ≤ 255) (hk1 : 1 ≤ ks) (hk7 : ks ≤ 7) (hst : st < 256) :
    RawProp.decode ((⟨ks, name, .array none 0 (some (ks, st)) none⟩ : RawProp).encode ++ rest) =
      .ok (⟨ks, name, .array none 0 (some (ks, st)) none⟩, rest) := by
  have e1 : (ks * 32) % 256 % 32 = 0 := by omega
  have e2 : (ks * 32) % 256 / 32 = ks := by omega
  have e3 : st % 256 = st := by omega
  have e4 : ¬ ks = 0 := by omega
  have e5 : 32 ≤ (ks * 32) % 256 := by omega
  simp [RawProp.encode, RawProp.decode, toNat_ofNat_u8, takePString_encode _ _ hn,
    takeLE_one, e1, e2, e3, e4, e5]

/-- The property headers the creator writes (`finalizeProp`, `paddingProps`, the `VariantId`
    property), with the side conditions under which `RawProp.encode` loses nothing.

    Remarks on the side conditions (each one is necessary):
    * padding: the header of a padding property has no name field, the parser gives it the empty
      name, so `p.name = []` is required (`name.length ≤ 255` alone is not enough);
    * every integer width is `1 ≤ sz ≤ 8` (3 bits of the info byte hold `sz - 1`);
    * arrays: `1 ≤ ks ≤ 7` (3 bits of the complement byte; `ks = 0` means "no value store") and
      `st < 256` (the store index is one byte). -/
def RawProp.Writable (p : RawProp) : Prop :=
  p.name.length ≤ 255 ∧
  match p.kind with
  | .padding => p.name = [] ∧ 1 ≤ p.size ∧ p.size ≤ 16
  | .variantId => p.size = 1
  | .uint sz none => 1 ≤ sz ∧ sz ≤ 8 ∧ p.size = sz
  | .uint sz (some d) => 1 ≤ sz ∧ sz ≤ 8 ∧ p.size = 0 ∧ d < 256 ^ sz
  | .sint sz none => 1 ≤ sz ∧ sz ≤ 8 ∧ p.size = sz
  | .sint sz (some d) => 1 ≤ sz ∧ sz ≤ 8 ∧ p.size = 0 ∧ fitsSigned d sz
  | .content ps cs none => (ps = 1 ∨ ps = 2) ∧ 1 ≤ cs ∧ cs ≤ 4 ∧ p.size = ps + cs
  | .content ps cs (some d) => (ps = 1 ∨ ps = 2) ∧ 1 ≤ cs ∧ cs ≤ 4 ∧ p.size = cs ∧ d < 256 ^ ps
  | .array (some ls) fixed (some (ks, st)) none =>
    1 ≤ ls ∧ ls ≤ 3 ∧ fixed ≤ 31 ∧ 1 ≤ ks ∧ ks ≤ 7 ∧ st < 256 ∧ p.size = ls + fixed + ks
  | .array none fixed (some (ks, st)) none =>
    fixed = 0 ∧ 1 ≤ ks ∧ ks ≤ 7 ∧ st < 256 ∧ p.size = ks
  | _ => False

theorem rawProp_roundtrip (p : RawProp) (rest : Bytes) (hw : p.Writable) :
    RawProp.decode (p.encode ++ rest) = .ok (p, rest) := by
  obtain ⟨size, name, kind⟩ := p
  obtain ⟨hn, hw⟩ := hw
  simp only at hn hw
  cases kind with
  | padding =>
    obtain ⟨rfl, h1, h16⟩ := hw
    exact rawProp_roundtrip_padding size rest h1 h16
  | variantId =>
    simp only at hw; subst hw
    exact rawProp_roundtrip_variantId name rest hn
  | uint sz dflt =>
    cases dflt with
    | none =>
      obtain ⟨h1, h8, rfl⟩ := hw
      exact rawProp_roundtrip_uint _ name rest hn h1 h8
    | some d =>
      obtain ⟨h1, h8, rfl, hd⟩ := hw
      exact rawProp_roundtrip_uint_default sz d name rest hn h1 h8 hd
  | sint sz dflt =>
    cases dflt with
    | none =>
      obtain ⟨h1, h8, rfl⟩ := hw
      exact rawProp_roundtrip_sint _ name rest hn h1 h8
    | some d =>
      obtain ⟨h1, h8, rfl, hd⟩ := hw
      exact rawProp_roundtrip_sint_default sz d name rest hn h1 h8 hd
  | content ps cs dflt =>
    cases dflt with
    | none =>
      obtain ⟨hps, h1, h4, rfl⟩ := hw
      exact rawProp_roundtrip_content ps cs name rest hn hps h1 h4
    | some d =>
      obtain ⟨hps, h1, h4, rfl, hd⟩ := hw
      exact rawProp_roundtrip_content_default ps _ d name rest hn hps h1 h4 hd
  | array lenSize fixed dep dflt =>
    cases dflt with
    | some x => cases lenSize <;> cases dep <;> simp at hw
    | none =>
      cases dep with
      | none => cases lenSize <;> simp at hw
      | some kst =>
        obtain ⟨ks, st⟩ := kst
        cases lenSize with
        | none =>
          obtain ⟨rfl, hk1, hk7, hst, rfl⟩ := hw
          exact rawProp_roundtrip_indirect_array _ st name rest hn hk1 hk7 hst
        | some ls =>
          obtain ⟨hl1, hl3, hfx, hk1, hk7, hst, rfl⟩ := hw
          exact rawProp_roundtrip_array ls fixed ks st name rest hn hl1 hl3 hfx hk1 hk7 hst
  | deportedInt sg sz st id => simp at hw

-- NOT PROVED: nothing left out (items 1–7 are all proved; all ten property shapes of item 7).
-- Deviations from the requested statements:
--  * `RawProp.Writable`, padding shape: additionally requires `p.name = []` (the parser gives a
--    padding property the empty name, so the round trip is false for a named padding property);
--  * `.uint/.sint sz (some d)` shapes carry `1 ≤ sz ≤ 8`, array shapes carry `1 ≤ ks ≤ 7`, `st < 256`
--    (and the indirect array shape too), content-with-default carries `ps ∈ {1,2}`, `1 ≤ cs ≤ 4`;
--  * `sint_narrow_alters` and `signedSizeKey_min` keep the i64-range hypothesis `hr` in their
--    signature but do not need it.

end Jubako
