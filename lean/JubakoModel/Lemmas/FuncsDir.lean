/-
The hand-written model functions are equal to the function bodies that tools/extract_funcs.py
translates out of the Rust source on every run (Generated/FuncsDir.lean).  Each theorem here is an
obligation of the properties that use the model function: a change of the Rust body changes the
generated definition and breaks the proof.
-/
import JubakoModel.Model.DirWriter
import JubakoModel.Model.DirLayout
import JubakoModel.Generated.FuncsDir
import JubakoModel.Lemmas.FuncsBytes
import JubakoModel.Lemmas.Codec

namespace Jubako

/-! ### signed width key -/

theorem gen_signedSizeKey (v : Int) (hlo : -(2 : Int) ^ 63 ≤ v) (hhi : v < (2 : Int) ^ 63) :
    (signedSizeKey v : Int) = Generated.signedSizeKey v := by
  unfold signedSizeKey Generated.signedSizeKey
  by_cases hv : v < 0
  · simp only [hv, if_true]
    by_cases hm : (-v - 1) * 2 ≤ 9223372036854775807
    · simp only [hm, if_true, Option.getD_some]
      have : (2 * (-v - 1)).toNat ≤ 2 ^ 63 - 1 := by omega
      rw [Nat.min_eq_left this]; omega
    · simp only [hm, if_false, Option.getD_none]
      have : ¬ (2 * (-v - 1)).toNat ≤ 2 ^ 63 - 1 := by omega
      rw [Nat.min_eq_right (by omega)]; omega
  · simp only [hv, if_false]
    by_cases hm : v * 2 ≤ 9223372036854775807
    · simp only [hm, if_true, Option.getD_some]
      have : (2 * v).toNat ≤ 2 ^ 63 - 1 := by omega
      rw [Nat.min_eq_left this]; omega
    · simp only [hm, if_false, Option.getD_none]
      rw [Nat.min_eq_right (by omega)]; omega

/-! ### value store tails as sequences of serializer writes -/

theorem ofNat_mod_u8 (n : Nat) : UInt8.ofNat (n % 256) = UInt8.ofNat n := by
  apply UInt8.toNat_inj.mp
  rw [toNat_ofNat_u8, toNat_ofNat_u8, Nat.mod_mod]

theorem endOffsets_dropLast (l : List Bytes) (acc : Nat) :
    (endOffsets l acc).dropLast = endOffsets l.dropLast acc := by
  induction l generalizing acc with
  | nil => rfl
  | cons x xs ih =>
    cases xs with
    | nil => rfl
    | cons y ys =>
      simp only [endOffsets, List.dropLast_cons_cons]
      rw [← ih (acc + x.length)]
      simp [endOffsets]

theorem tail_fold (w : Nat) (l : List Bytes) (out : List (Nat × Nat)) (off : Nat) :
    (l.foldl (fun (p : List (Nat × Nat) × Nat) (idx : Bytes) =>
        (p.1 ++ [(p.2 + idx.length, w)], p.2 + idx.length)) (out, off)).1 =
      out ++ (endOffsets l off).map (fun o => (o, w)) := by
  induction l generalizing out off with
  | nil => simp [endOffsets]
  | cons x xs ih =>
    simp only [List.foldl_cons, endOffsets, List.map_cons]
    rw [ih]
    simp

/-- **The value-store tails of the model are the byte images of the writes of the two
    `serialize_tail` bodies (`creator/directory_pack/value_store.rs`) translated on every run**:
    plain `[0x00, data size : u64]`; indexed `[0x01, count : u64, width : u8, data size, end offsets of
    all values but the last]` with width `needed_bytes(data size)`. -/
theorem gen_vstoreTail (s : VStore) :
    s.tailBytes = writesBytes (if s.indexed then Generated.indexedStoreTailWrites s.values s.dataSize
                               else Generated.plainStoreTailWrites s.dataSize) := by
  unfold VStore.tailBytes
  cases hi : s.indexed with
  | false =>
    simp [Generated.plainStoreTailWrites, writesBytes, leBytes]
  | true =>
    simp only [if_true, Generated.indexedStoreTailWrites, gen_neededBytes, Option.getD_some]
    by_cases hv : s.values = []
    · simp [hv, writesBytes, endOffsets, leBytes, ofNat_mod_u8]
    · simp only [hv, not_false_eq_true, if_true]
      have hf := tail_fold (neededBytes s.dataSize) s.values.dropLast
        ([] ++ [(1, 1)] ++ [(s.values.length, 8)] ++ [(neededBytes s.dataSize, 1)] ++ [(s.dataSize, neededBytes s.dataSize)]) 0
      have hfun : (fun (x : List (Nat × Nat) × Nat) (idx : List UInt8) =>
            match x with
            | (out, offset) => (out ++ [(offset + idx.length, neededBytes s.dataSize)], offset + idx.length))
          = (fun (p : List (Nat × Nat) × Nat) (idx : Bytes) =>
            (p.1 ++ [(p.2 + idx.length, neededBytes s.dataSize)], p.2 + idx.length)) := by
        funext x idx; rfl
      simp only [hfun]
      rw [hf, endOffsets_dropLast]
      simp [writesBytes, leBytes, List.map_map, Function.comp_def, ofNat_mod_u8]

/-! ### index tail -/

/-- **The index tail of the model is the byte image of the writes of `Index::serialize_tail`
    (`creator/directory_pack/mod.rs`) translated on every run**, with the field widths taken from the
    struct definition and the type table of the source: store id, entry count, first entry (4 bytes
    each), free data (4), index key (1), name as a p-string. -/
theorem gen_indexTail (i : IndexInfo) (hfd : i.freeData.length = 4) (hn : i.name.length < 256) :
    i.encode = writesBytes (Generated.indexTailWrites i.storeId i.count i.offset i.freeData i.key i.name) := by
  have h1 : leBytes (leNat i.freeData) 4 = i.freeData := by rw [← hfd]; exact leBytes_leNat _
  have h2 : leBytes (leNat i.name) i.name.length = i.name := leBytes_leNat _
  have l1 : ∀ v, leBytes v 1 = [UInt8.ofNat v] := by intro v; simp [leBytes, ofNat_mod_u8]
  simp only [IndexInfo.encode, Generated.indexTailWrites, writesBytes, List.nil_append, List.map_append, List.map_cons,
    List.map_nil, List.flatten_append, List.flatten_cons, List.flatten_nil, h1, h2, l1, pstringEncode, List.append_nil]
  simp

/-! ### the layout header: one property -/

/-- the source-side value (`enum Property` of `creator/directory_pack/layout/property.rs`, mirrored by the
    generated `SrcProperty`) the creator builds for a property of the model's layout -/
def RawProp.toSrc (p : RawProp) : Option Generated.SrcProperty :=
  match p.kind with
  | .padding => some (.padding p.size)
  | .variantId => some (.variantId p.name)
  | .uint sz dflt => some (.unsignedInt sz dflt p.name)
  | .sint sz dflt => some (.signedInt sz dflt p.name)
  | .content ps cs dflt => some (.contentAddress cs ps dflt p.name)
  | .array lenSize fixedLen dep _ => some (.array lenSize fixedLen dep p.name)
  | .deportedInt _ _ _ _ => none

/-- what the format can hold in a property header: byte sizes are `ByteSize` values (1..8), a padding
    covers 1..16 bytes, content ids take at most 4 bytes, pack ids 1 or 2, an inline prefix at most 31 -/
def RawProp.HeaderWF (p : RawProp) : Prop :=
  match p.kind with
  | .padding => 1 ≤ p.size ∧ p.size ≤ 256
  | .variantId => True
  | .uint sz _ => 1 ≤ sz ∧ sz ≤ 8
  | .sint sz _ => 1 ≤ sz ∧ sz ≤ 8
  | .content ps cs _ => 1 ≤ cs ∧ cs ≤ 4 ∧ (ps = 1 ∨ ps = 2)
  | .array lenSize fixedLen dep _ =>
    (∀ s, lenSize = some s → s ≤ 8) ∧ (∀ s i, dep = some (s, i) → s ≤ 7) ∧ fixedLen ≤ 31
  | .deportedInt _ _ _ _ => True

theorem leBytes_one (v : Nat) : leBytes v 1 = [UInt8.ofNat v] := by simp [leBytes, ofNat_mod_u8]

theorem writes_pstring (nm : Bytes) :
    writesBytes [(nm.length, 1), (leNat nm, nm.length)] = pstringEncode nm := by
  simp [writesBytes, leBytes_one, leBytes_leNat, pstringEncode]

/-- **The property header the model writes is the byte image of the writes of `Property::serialize`
    translated on every run** (key-type byte with its size / default / two-byte-pack-id bits, default
    values, key size and inline length of arrays, value-store index, name as p-string), for every
    property kind the creator writes, within the ranges the format can hold. -/
theorem gen_propertyHeader (p : RawProp) (src : Generated.SrcProperty) (hs : p.toSrc = some src) (hw : p.HeaderWF) :
    p.encode = writesBytes (Generated.propertyWrites src) := by
  obtain ⟨size, name, kind⟩ := p
  cases kind with
  | padding =>
    simp only [RawProp.toSrc, Option.some.injEq] at hs; subst hs
    simp only [RawProp.HeaderWF] at hw
    simp [RawProp.encode, Generated.propertyWrites, writesBytes, leBytes_one]
  | variantId =>
    simp only [RawProp.toSrc, Option.some.injEq] at hs; subst hs
    simp only [RawProp.encode, Generated.propertyWrites, List.nil_append]
    rw [show ([(128 % 256, 1)] ++ [(name.length, 1), (leNat name, name.length)] : List (Nat × Nat)) =
      [(128 % 256, 1)] ++ [(name.length, 1), (leNat name, name.length)] from rfl, writesBytes_append, writes_pstring]
    simp [writesBytes, leBytes_one]
  | uint sz dflt =>
    simp only [RawProp.toSrc, Option.some.injEq] at hs; subst hs
    simp only [RawProp.HeaderWF] at hw
    have hm : sz % 256 = sz := Nat.mod_eq_of_lt (by omega)
    cases dflt with
    | none =>
      simp only [RawProp.encode, Generated.propertyWrites, List.nil_append, hm]
      rw [writesBytes_append, writes_pstring]
      simp [writesBytes, leBytes_one]
    | some dv =>
      simp only [RawProp.encode, Generated.propertyWrites, List.nil_append, hm]
      rw [writesBytes_append, writes_pstring, writesBytes_append]
      simp [writesBytes, leBytes_one]
  | sint sz dflt =>
    simp only [RawProp.toSrc, Option.some.injEq] at hs; subst hs
    simp only [RawProp.HeaderWF] at hw
    have hm : sz % 256 = sz := Nat.mod_eq_of_lt (by omega)
    cases dflt with
    | none =>
      simp only [RawProp.encode, Generated.propertyWrites, List.nil_append, hm]
      rw [writesBytes_append, writes_pstring]
      simp [writesBytes, leBytes_one]
    | some dv =>
      simp only [RawProp.encode, Generated.propertyWrites, List.nil_append, hm]
      rw [writesBytes_append, writes_pstring, writesBytes_append]
      simp [writesBytes, leBytes_one, leBytesInt]
  | content ps cs dflt =>
    simp only [RawProp.toSrc, Option.some.injEq] at hs; subst hs
    simp only [RawProp.HeaderWF] at hw
    obtain ⟨h1, h2, h3⟩ := hw
    have hm : cs % 256 = cs := Nat.mod_eq_of_lt (by omega)
    have hor : (16 % 256 + (cs - 1)) ||| 4 = 16 + (cs - 1) + 4 := by
      have : cs = 1 ∨ cs = 2 ∨ cs = 3 ∨ cs = 4 := by omega
      rcases this with rfl | rfl | rfl | rfl <;> decide
    rcases h3 with rfl | rfl <;> cases dflt with
    | none =>
      simp only [RawProp.encode, Generated.propertyWrites, List.nil_append, hm, hor]
      rw [writesBytes_append, writes_pstring]
      simp [writesBytes, leBytes_one]
    | some dv =>
      simp only [RawProp.encode, Generated.propertyWrites, List.nil_append, hm, hor]
      rw [writesBytes_append, writes_pstring, writesBytes_append]
      simp [writesBytes, leBytes_one]
  | array lenSize fixedLen dep dflt =>
    simp only [RawProp.toSrc, Option.some.injEq] at hs; subst hs
    simp only [RawProp.HeaderWF] at hw
    obtain ⟨h1, h2, h3⟩ := hw
    cases lenSize with
    | none =>
      cases dep with
      | none =>
        simp only [RawProp.encode, Generated.propertyWrites, List.nil_append]
        rw [writesBytes_append, writes_pstring]
        simp [writesBytes, leBytes_one]
      | some si =>
        obtain ⟨s, i⟩ := si
        have hs7 : s % 256 = s := Nat.mod_eq_of_lt (by have := h2 s i rfl; omega)
        simp only [RawProp.encode, Generated.propertyWrites, List.nil_append, hs7]
        rw [writesBytes_append, writes_pstring, writesBytes_append]
        simp [writesBytes, leBytes_one, Nat.shiftLeft_eq]
    | some ls =>
      have hl : ls % 256 = ls := Nat.mod_eq_of_lt (by have := h1 ls rfl; omega)
      cases dep with
      | none =>
        simp only [RawProp.encode, Generated.propertyWrites, List.nil_append, hl]
        rw [writesBytes_append, writes_pstring]
        simp [writesBytes, leBytes_one]
      | some si =>
        obtain ⟨s, i⟩ := si
        have hs7 : s % 256 = s := Nat.mod_eq_of_lt (by have := h2 s i rfl; omega)
        simp only [RawProp.encode, Generated.propertyWrites, List.nil_append, hl, hs7]
        rw [writesBytes_append, writes_pstring, writesBytes_append]
        simp [writesBytes, leBytes_one, Nat.shiftLeft_eq]
  | deportedInt a b c e => simp [RawProp.toSrc] at hs

/-! ### the layout header of an entry store, the entry-store tail -/

theorem props_writes (ps : List RawProp) (ss : List Generated.SrcProperty)
    (hs : ps.map RawProp.toSrc = ss.map some) (hw : ∀ p ∈ ps, p.HeaderWF) :
    (ps.map RawProp.encode).flatten = writesBytes (ss.flatMap Generated.propertyWrites) := by
  induction ps generalizing ss with
  | nil =>
    cases ss with
    | nil => simp [writesBytes]
    | cons s ss => simp at hs
  | cons p ps ih =>
    cases ss with
    | nil => simp at hs
    | cons s ss =>
      simp only [List.map_cons, List.cons.injEq] at hs
      obtain ⟨h1, h2⟩ := hs
      simp only [List.map_cons, List.flatten_cons, List.flatMap_cons, writesBytes_append]
      rw [gen_propertyHeader p s h1 (hw p List.mem_cons_self), ih ss h2 (fun q hq => hw q (List.mem_cons_of_mem _ hq))]

theorem flatMap_flatMap_flatten {α β} (vs : List (List α)) (f : α → List β) :
    (vs.flatMap fun v => v.flatMap f) = vs.flatten.flatMap f := by
  induction vs with
  | nil => rfl
  | cons v vs ih => simp only [List.flatMap_cons, List.flatten_cons, List.flatMap_append, ih]

/-- **The entry-store tail of the model (kind, entry count, flag, layout header: entry size, variant count,
    property count, every property header) is the byte image of the writes of `EntryStore::serialize_tail`,
    `Entry::serialize` and `Property::serialize` translated on every run.**  (The property count is the
    model's: `key_count()` contains a closure and is not translated.) -/
theorem gen_entryStoreTail (l : LayoutOut) (n : Nat) (srcC : List Generated.SrcProperty)
    (srcV : List (List Generated.SrcProperty))
    (hc : l.common.map RawProp.toSrc = srcC.map some)
    (hv : l.variants.flatten.map RawProp.toSrc = srcV.flatten.map some)
    (hlen : srcV.length = l.variants.length)
    (hw : ∀ p ∈ l.common ++ l.variants.flatten, p.HeaderWF) (hn : n < 2 ^ 32) :
    entryStoreTail l n = writesBytes (Generated.entryStoreTailWrites n
      (Generated.entryLayoutWrites l.entrySize (l.common ++ l.variants.flatten).length srcC srcV)) := by
  have h1 := props_writes l.common srcC hc (fun p hp => hw p (List.mem_append_left _ hp))
  have h2 := props_writes l.variants.flatten srcV.flatten hv (fun p hp => hw p (List.mem_append_right _ hp))
  have hfm := flatMap_flatMap_flatten srcV Generated.propertyWrites
  have hn' : n % 4294967296 = n := Nat.mod_eq_of_lt (by simpa using hn)
  simp only [entryStoreTail, Generated.entryStoreTailWrites, Generated.entryLayoutWrites, List.nil_append, hn',
    writesBytes_append, List.map_append, List.flatten_append, h1, h2, hfm, hlen]
  simp [writesBytes, leBytes_one, ofNat_mod_u8]

/-- **The key size of a value store is the source's**: `PlainValueStore::key_size` (`needed_bytes` of the data
    size) and `IndexedValueStore::key_size` (`needed_bytes` of the number of values) translated on every run
    are `VStore.keySize` of the writer model. -/
theorem gen_keySize (s : VStore) :
    s.keySize = if s.indexed then Generated.indexedStoreKeySize s.values.length else Generated.plainStoreKeySize s.dataSize := by
  unfold VStore.keySize Generated.indexedStoreKeySize Generated.plainStoreKeySize
  simp [gen_neededBytes]

end Jubako
