/-
Lookups of the container reader translated from the source on every run (Generated/FuncsLookup.lean):
the manifest's lookup of a content pack by id, the chained locator.
-/
import JubakoModel.Model.Container
import JubakoModel.Generated.FuncsLookup

namespace Jubako

/-- `ManifestPack::get_content_pack_info` is "the first pack info carrying the id" — the lookup of the
    reader model (`contentInfos.find? (·.packId == packId)`) -/
theorem gen_manifestLookup (infos : List PackInfo) (packId : Nat) :
    (infos.find? (fun i => i.packId == packId)).map (·.packId) =
      Generated.manifestPackInfoById (infos.map (·.packId)) packId := by
  unfold Generated.manifestPackInfoById
  induction infos with
  | nil => rfl
  | cons i rest ih =>
    simp only [List.find?_cons, List.map_cons]
    by_cases h : i.packId = packId
    · simp [h]
    · have hb : (i.packId == packId) = false := by simpa using h
      simp only [hb, h, decide_false]
      exact ih

theorem gen_chainedLocate_loop {α : Type} (answers : List (Option α)) :
    ∀ (fuel idx : Nat), answers.length - idx < fuel →
      Generated.chainedLocate_loop answers idx fuel = some ((answers.drop idx).findSome? id) := by
  intro fuel
  induction fuel with
  | zero => intro idx h; omega
  | succ f ih =>
    intro idx h
    unfold Generated.chainedLocate_loop
    by_cases hi : idx < answers.length
    · simp only [hi, if_true]
      have hd : answers.drop idx = answers[idx] :: answers.drop (idx + 1) := (List.drop_eq_getElem_cons hi)
      have hg : answers.getD idx none = answers[idx] := by simp [List.getD, List.getElem?_eq_getElem hi]
      rw [hd, hg]
      cases ha : answers[idx] with
      | none =>
        simp only [Option.isSome_none, Bool.false_eq_true, if_false, List.findSome?_cons, id]
        exact ih (idx + 1) (by omega)
      | some r => simp [List.findSome?_cons]
    · have : answers.drop idx = [] := List.drop_eq_nil_of_le (by omega)
      simp [hi, this]

/-- **`ChainedLocator::locate` (translated on every run) answers with the first locator, in chain order,
    that finds the pack** — the enclosing container first, then the recorded location, as in the reader
    model's `locate`; it terminates for every chain. -/
theorem gen_chainedLocate {α : Type} (answers : List (Option α)) :
    Generated.chainedLocate answers = some (answers.findSome? id) := by
  unfold Generated.chainedLocate
  simpa using gen_chainedLocate_loop answers (answers.length + 1) 0 (by omega)

/-- the reader model's `locate` is the translated chain over [the file at hand, the recorded location] -/
theorem locate_is_chain (fs : FS) (entryFile : String) (entryPacks : List PackAt) (uuid : Bytes) (location : String)
    (r : Option Located) (hfs : fsLocate fs uuid location = .ok r) :
    Outcome.ok <$> Generated.chainedLocate
        [(entryPacks.find? (fun p => p.uuid == uuid)).map (fun p => (⟨entryFile, p⟩ : Located)), r] =
      some (locate fs entryFile entryPacks uuid location) := by
  rw [gen_chainedLocate]
  unfold locate
  cases h : entryPacks.find? (fun p => p.uuid == uuid) with
  | none => cases r <;> simp [hfs]
  | some p => simp

/-! ### `Container::check` -/

/-- the verdict over the content packs: every pack that could be located verifies -/
def locatedAllOk (packs : List (Option Bool)) : Bool := packs.all (fun p => p.getD true)

theorem gen_containerCheck_loop (m d : Bool) (packs : List (Option Bool)) :
    ∀ (fuel idx : Nat), packs.length - idx < fuel →
      Generated.containerCheck_loop m d packs idx fuel = some (locatedAllOk (packs.drop idx)) := by
  intro fuel
  induction fuel with
  | zero => intro idx h; omega
  | succ f ih =>
    intro idx h
    unfold Generated.containerCheck_loop
    by_cases hi : idx < packs.length
    · simp only [hi, if_true]
      have hd : packs.drop idx = packs[idx] :: packs.drop (idx + 1) := List.drop_eq_getElem_cons hi
      have hg : packs.getD idx none = packs[idx] := by simp [List.getD, List.getElem?_eq_getElem hi]
      rw [hd, hg]
      cases ha : packs[idx] with
      | none =>
        simp only [locatedAllOk, List.all_cons, Option.getD_none, Bool.true_and]
        exact ih (idx + 1) (by omega)
      | some r =>
        cases r with
        | true =>
          simp only [locatedAllOk, List.all_cons, Option.getD_some, Bool.true_and, not_true_eq_false, if_false]
          exact ih (idx + 1) (by omega)
        | false => simp [locatedAllOk]
    · have : packs.drop idx = [] := List.drop_eq_nil_of_le (by omega)
      simp [hi, this, locatedAllOk]

/-- **`Container::check` (translated on every run) terminates and answers: the manifest verifies, the
    directory pack verifies, and every content pack that can be located verifies** — a pack that cannot be
    located is skipped, and the loop goes on to the packs listed after it. -/
theorem gen_containerCheck (m d : Bool) (packs : List (Option Bool)) :
    Generated.containerCheck m d packs = some (m && d && locatedAllOk packs) := by
  unfold Generated.containerCheck
  cases m <;> cases d <;> simp
  simpa using gen_containerCheck_loop true true packs (packs.length + 1) 0 (by omega)

/-- what the reader model does for one listed pack during `containerCheck`: `none` = not located (skipped),
    `some b` = located, re-opened blindly, verdict `b` -/
def packCheckStep (H : Bytes → Bytes) (fs : FS) (c : ContainerView) (info : PackInfo) : Outcome (Option Bool) :=
  match locate fs c.entryFile c.entryPacks info.uuid (locationString info.location) with
  | .ok none => .ok none
  | .ok (some l) =>
    match blindOpen (bytesOfLocated fs l) with
    | .ok packs =>
      match packsCheck H (bytesOfLocated fs l) packs with
      | .ok b => .ok (some b)
      | .err k => .err k
      | .panic s => .panic s
      | .hang => .hang
      | .fault => .fault
    | .err k => .err k
    | .panic s => .panic s
    | .hang => .hang
    | .fault => .fault
  | .err k => .err k
  | .panic s => .panic s
  | .hang => .hang
  | .fault => .fault

/-- one step of the fold of the reader model's `containerCheck` -/
def ccStep (H : Bytes → Bytes) (fs : FS) (c : ContainerView) (acc : Bool) (info : PackInfo) : Outcome Bool :=
  if !acc then (pure false : Outcome Bool) else do
    match ← locate fs c.entryFile c.entryPacks info.uuid (locationString info.location) with
    | none => pure true
    | some l =>
      let g := bytesOfLocated fs l
      let packs ← blindOpen g
      packsCheck H g packs

theorem ccStep_eval (H : Bytes → Bytes) (fs : FS) (c : ContainerView) (acc : Bool) (info : PackInfo) (v : Option Bool)
    (h : packCheckStep H fs c info = .ok v) : ccStep H fs c acc info = .ok (acc && v.getD true) := by
  unfold ccStep
  cases acc with
  | false => simp [pure]
  | true =>
    simp only [Bool.not_true, Bool.false_eq_true, if_false, Bool.true_and]
    unfold packCheckStep at h
    cases hl : locate fs c.entryFile c.entryPacks info.uuid (locationString info.location) with
    | ok r =>
      cases r with
      | none =>
        simp only [hl] at h
        have hv : v = none := by cases v <;> simp_all
        subst hv
        simp [bind, Outcome.bind, pure]
      | some l =>
        simp only [hl] at h
        cases hb : blindOpen (bytesOfLocated fs l) with
        | ok packs =>
          simp only [hb] at h
          cases hp : packsCheck H (bytesOfLocated fs l) packs with
          | ok bb =>
            simp only [hp] at h
            have hv : v = some bb := by cases v <;> simp_all
            subst hv
            simp [bind, Outcome.bind, hb, hp]
          | err k => simp [hp] at h
          | panic s => simp [hp] at h
          | hang => simp [hp] at h
          | fault => simp [hp] at h
        | err k => simp [hb] at h
        | panic s => simp [hb] at h
        | hang => simp [hb] at h
        | fault => simp [hb] at h
    | err k => simp [hl] at h
    | panic s => simp [hl] at h
    | hang => simp [hl] at h
    | fault => simp [hl] at h

theorem containerCheck_fold (H : Bytes → Bytes) (fs : FS) (c : ContainerView) :
    ∀ (infos : List PackInfo) (vs : List (Option Bool)) (acc : Bool),
      infos.map (packCheckStep H fs c) = vs.map Outcome.ok →
      infos.foldlM (ccStep H fs c) acc = .ok (acc && locatedAllOk vs) := by
  intro infos
  induction infos with
  | nil =>
    intro vs acc h
    cases vs with
    | nil => simp [locatedAllOk, pure]
    | cons v vs => simp at h
  | cons info rest ih =>
    intro vs acc h
    cases vs with
    | nil => simp at h
    | cons v vs =>
      simp only [List.map_cons, List.cons.injEq] at h
      obtain ⟨h1, h2⟩ := h
      rw [List.foldlM_cons, ccStep_eval H fs c acc info v h1]
      show (rest.foldlM (ccStep H fs c) (acc && v.getD true)) = _
      rw [ih vs (acc && v.getD true) h2]
      simp [locatedAllOk, Bool.and_assoc]

/-- **The reader model's `containerCheck`, whenever every part answers, is the translated `Container::check`
    over the verdicts of the parts**: manifest, directory pack, and for every listed content pack "not
    located" or the verdict of the file it was located in. -/
theorem containerCheck_is_source_check (H : Bytes → Bytes) (fs : FS) (c : ContainerView) (m d : Bool)
    (vs : List (Option Bool))
    (hm : manifestCheck H c.manifest = .ok m) (hd : packCheck H id c.dirPack = .ok d)
    (hv : (c.infos.filter (fun i => i.kind ≠ .directory)).map (packCheckStep H fs c) = vs.map Outcome.ok) :
    some (containerCheck H fs c) = Outcome.ok <$> Generated.containerCheck m d vs := by
  rw [gen_containerCheck]
  unfold containerCheck
  simp only [hm, hd, bind, Outcome.bind]
  cases m with
  | false => simp
  | true =>
    cases d with
    | false => simp
    | true =>
      simp only [Bool.not_true, Bool.false_eq_true, if_false]
      have := containerCheck_fold H fs c _ vs true hv
      simp only [Bool.true_and] at this
      show some (List.foldlM (ccStep H fs c) true (c.infos.filter (fun i => i.kind ≠ .directory))) = _
      rw [this]; simp

/-! ### where the pack infos of a manifest sit -/

/-- run the translated `PackOffsetsIter::next` until it answers `None` -/
def drainOffsets (B : Nat) : Nat → Nat → Nat → List Nat
  | 0, _, _ => []
  | fuel + 1, off, left =>
    match Generated.packOffsetsNext B off left with
    | (some o, off', left') => o :: drainOffsets B fuel off' left'
    | (none, _, _) => []

theorem drainOffsets_eq (B left : Nat) : ∀ off fuel, left < fuel →
    drainOffsets B fuel off left = (List.range left).map (fun k => off + k * B) := by
  induction left with
  | zero =>
    intro off fuel h
    obtain ⟨f, rfl⟩ : ∃ f, fuel = f + 1 := ⟨fuel - 1, by omega⟩
    simp [drainOffsets, Generated.packOffsetsNext]
  | succ n ih =>
    intro off fuel h
    obtain ⟨f, rfl⟩ : ∃ f, fuel = f + 1 := ⟨fuel - 1, by omega⟩
    simp only [drainOffsets, Generated.packOffsetsNext, Nat.add_sub_cancel, ne_eq, Nat.add_eq_zero_iff, Nat.succ_ne_zero,
      and_false, not_false_eq_true, if_true]
    rw [ih _ f (by omega), List.range_succ_eq_map]
    simp [List.map_map, Function.comp_def, Nat.add_mul, Nat.add_assoc, Nat.add_comm]
    intro a _; omega

/-- **The offsets at which the reader looks for the pack infos of a manifest are the source's**:
    `PackOffsetsIter::new` and `next` (`reader/manifest_pack.rs`) translated on every run enumerate exactly
    `packInfosOffset checkInfoPos count + k * 256` for `k < count` — the offsets `manifestOpen`, `setLocation`
    and the masked check stream of the model use — and then stop. -/
theorem gen_packOffsets (cip count : Nat) :
    drainOffsets packInfoBlockSize (count + 1) (Generated.packOffsetsNew packInfoBlockSize cip count).1
        (Generated.packOffsetsNew packInfoBlockSize cip count).2 =
      (List.range count).map (fun k => packInfosOffset cip count + k * packInfoBlockSize) := by
  rw [show (Generated.packOffsetsNew packInfoBlockSize cip count).2 = count from rfl, drainOffsets_eq _ count _ _ (by omega)]
  rfl

/-! ### `FsLocator::locate` -/

/-- **`FsLocator::locate` translated on every run is `fsLocate` of the container model**: nothing is opened
    unless the recorded location names a regular file; the file is then opened blindly (as a container pack
    or a single pack) and the pack is looked up by uuid; an error of the open is passed on; a file without that
    uuid answers "not here". -/
theorem gen_fsLocate (fs : FS) (uuid : Bytes) (location : String) :
    fsLocate fs uuid location =
      Generated.fsLocatorLocate (decide (location ≠ "" ∧ (fs.get location).isSome)) (Outcome.ok ((fs.get location).getD []))
        (fun f => blindOpen f)
        (fun packs => (packs.find? (fun p => p.uuid == uuid)).map (fun p => (⟨location, p⟩ : Located))) := by
  unfold fsLocate Generated.fsLocatorLocate
  by_cases h : location = ""
  · simp [h]
  · cases hf : fs.get location with
    | none => simp [h]
    | some f => simp [h, bind, Outcome.bind]

/-! ### `Container::_get_pack` -/

/-- the three answers of `get_pack` out of the source's `Option<MayMissPack<_>>` -/
def lookupOfSrc : Option (Sum PackInfo Bytes) → PackLookup
  | none => .unknown
  | some (.inl info) => .missing info
  | some (.inr b) => .found b

/-- **Getting a pack follows the source**: past the bound on pack ids (`get_pack`), `containerGetPack` of the
    container model is `Container::_get_pack` as translated from `reader/jubako.rs` on every run, applied to
    the model's manifest lookup and locator chain — an id the manifest does not list is "unknown", a pack the
    locators do not find is "missing" with its pack info, a found one is handed over; an error of the locator is
    passed on. -/
theorem gen_containerGetPack (fs : FS) (c : ContainerView) (packId : Nat) :
    containerGetPack fs c packId =
      (if packId ≥ (((c.infos.filter (fun i => i.kind ≠ .directory)).map (·.packId)).foldl max 0) + 1 then .ok .unknown
       else
        (Generated.containerGetPackInner
          (fun id => (c.infos.filter (fun i => i.kind ≠ .directory)).find? (fun i => i.packId == id))
          (fun info => (locate fs c.entryFile c.entryPacks info.uuid (locationString info.location)).map'
            (fun o => o.map (bytesOfLocated fs)))
          (fun b => Outcome.ok b) packId).map' lookupOfSrc) := by
  unfold containerGetPack Generated.containerGetPackInner
  simp only []
  split
  · rfl
  · cases hfind : List.find? (fun i => i.packId == packId) (List.filter (fun i => decide (i.kind ≠ PackKind.directory)) c.infos) with
    | none => rfl
    | some info =>
      simp only [bind]
      cases hl : locate fs c.entryFile c.entryPacks info.uuid (locationString info.location) with
      | ok o => cases o <;> rfl
      | _ => rfl

end Jubako
