/-
Lookups of the container reader translated from the source on every run (Generated/FuncsLookup.lean):
the manifest's lookup of a content pack by id, the chained locator.
-/
import JubakoModel.Model.Container
import JubakoModel.Generated.FuncsLookup

namespace Jubako

/-- `ManifestPack::get_content_pack_info` is "the first pack info carrying the id" — the lookup of the
    reader model (`contentInfos.find? (·.packId == packId)`) -/
theorem gen_manifestLookup (infos : List PackInfo) (packId : Nat) :
    (infos.find? (fun i => i.packId == packId)).map (·.packId) =
      Generated.manifestPackInfoById (infos.map (·.packId)) packId := by
  unfold Generated.manifestPackInfoById
  induction infos with
  | nil => rfl
  | cons i rest ih =>
    simp only [List.find?_cons, List.map_cons]
    by_cases h : i.packId = packId
    · simp [h]
    · have hb : (i.packId == packId) = false := by simpa using h
      simp only [hb, h, decide_false]
      exact ih

theorem gen_chainedLocate_loop {α : Type} (answers : List (Option α)) :
    ∀ (fuel idx : Nat), answers.length - idx < fuel →
      Generated.chainedLocate_loop answers idx fuel = some ((answers.drop idx).findSome? id) := by
  intro fuel
  induction fuel with
  | zero => intro idx h; omega
  | succ f ih =>
    intro idx h
    unfold Generated.chainedLocate_loop
    by_cases hi : idx < answers.length
    · simp only [hi, if_true]
      have hd : answers.drop idx = answers[idx] :: answers.drop (idx + 1) := (List.drop_eq_getElem_cons hi)
      have hg : answers.getD idx none = answers[idx] := by simp [List.getD, List.getElem?_eq_getElem hi]
      rw [hd, hg]
      cases ha : answers[idx] with
      | none =>
        simp only [Option.isSome_none, Bool.false_eq_true, if_false, List.findSome?_cons, id]
        exact ih (idx + 1) (by omega)
      | some r => simp [List.findSome?_cons]
    · have : answers.drop idx = [] := List.drop_eq_nil_of_le (by omega)
      simp [hi, this]

/-- **`ChainedLocator::locate` (translated on every run) answers with the first locator, in chain order,
    that finds the pack** — the enclosing container first, then the recorded location, as in the reader
    model's `locate`; it terminates for every chain. -/
theorem gen_chainedLocate {α : Type} (answers : List (Option α)) :
    Generated.chainedLocate answers = some (answers.findSome? id) := by
  unfold Generated.chainedLocate
  simpa using gen_chainedLocate_loop answers (answers.length + 1) 0 (by omega)

/-- the reader model's `locate` is the translated chain over [the file at hand, the recorded location] -/
theorem locate_is_chain (fs : FS) (entryFile : String) (entryPacks : List PackAt) (uuid : Bytes) (location : String)
    (r : Option Located) (hfs : fsLocate fs uuid location = .ok r) :
    Outcome.ok <$> Generated.chainedLocate
        [(entryPacks.find? (fun p => p.uuid == uuid)).map (fun p => (⟨entryFile, p⟩ : Located)), r] =
      some (locate fs entryFile entryPacks uuid location) := by
  rw [gen_chainedLocate]
  unfold locate
  cases h : entryPacks.find? (fun p => p.uuid == uuid) with
  | none => cases r <;> simp [hfs]
  | some p => simp

end Jubako
