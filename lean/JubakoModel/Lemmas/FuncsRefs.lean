/-
The statements of `EntryStore::sort` (`creator/directory_pack/entry_store.rs`), extracted from the source on
every run (Generated/FuncsRefs.lean), are the step sequence of the deferred-value model (Model/Refs.lean).
-/
import JubakoModel.Model.Refs
import JubakoModel.Model.MultiStore
import JubakoModel.Generated.FuncsRefs

namespace Jubako

/-- **The statements of `EntryStore::sort` are the steps of the model**: a renumbering first, and one after
    every sort — the first sort under `if let Some(keys)`, the second in the `while !sorted` loop: the sequence
    of kinds of `finalizeSteps [p, q]`, whatever the two passes leave. -/
theorem gen_entryStoreSortShape (p q : List Nat) :
    (finalizeSteps [p, q]).map FinStep.kind = Generated.entryStoreSortShape := rfl

/-- in the extracted sequence every sort is immediately followed by a renumbering, and it starts with one -/
theorem sortShape_renumbers_after_every_sort :
    Generated.entryStoreSortShape.head? = some .setIdx ∧
    (∀ i, Generated.entryStoreSortShape[i]? = some SortStmt.sort → Generated.entryStoreSortShape[i + 1]? = some SortStmt.setIdx) := by
  refine ⟨rfl, ?_⟩
  intro i h
  have : i < 5 := by
    rcases Nat.lt_or_ge i 5 with hlt | hge
    · exact hlt
    · have hn : Generated.entryStoreSortShape[i]? = none := by
        apply List.getElem?_eq_none
        simpa [Generated.entryStoreSortShape] using hge
      rw [hn] at h
      cases h
  have hi : i = 0 ∨ i = 1 ∨ i = 2 ∨ i = 3 ∨ i = 4 := by omega
  rcases hi with rfl | rfl | rfl | rfl | rfl <;> simp_all [Generated.entryStoreSortShape]

/-- **The schedule `c15_multi_store` is proved over is the source's**: the two loops of
    `DirectoryPackCreator::finalize` over the entry stores, extracted from the source on every run — first every
    store is sorted, then every store is finalised (sized), eagerly (`collect`) — expand to `finalizeRepaired`
    followed by the writes; no store is sized before another is sorted. -/
theorem gen_directoryFinalizePhases (k : Nat) :
    (Generated.directoryFinalizePhases.map (MPhase.acts k)).flatten ++ (List.range k).map MAct.write = finalizeRepaired k := by
  simp [Generated.directoryFinalizePhases, MPhase.acts, finalizeRepaired]

end Jubako
