/-
Directory pack, file-level round trip — part A (layer L3): value stores.

`valueStoreTailDecode (VStore.tailBytes s) = VStore.tail s`, `valueStoreGet` on the parsed store
returns the value whose id the creator stored (`VStore.idOf`), for plain and indexed stores, and
`valueStoreOpen` finds an encoded store inside a file.
-/
import JubakoModel.Lemmas.ContentFile
import JubakoModel.Lemmas.Order

namespace Jubako

set_option linter.unusedSimpArgs false
set_option linter.unusedVariables false
set_option maxRecDepth 8000

/-! ### 0. small general facts -/

theorem getD_of_lt {α : Type} (l : List α) (i : Nat) (d : α) (h : i < l.length) :
    l.getD i d = l[i] := by
  rw [List.getD_eq_getElem?_getD, List.getElem?_eq_getElem h]; rfl

theorem pow256_8 : (256 : Nat) ^ 8 = 2 ^ 64 := by decide

theorem VStore.dataSize_eq (s : VStore) : s.dataSize = lenSum s.values := rfl

theorem VStore.data_length (s : VStore) : s.data.length = s.dataSize := by
  rw [VStore.data, lenSum_flatten, VStore.dataSize_eq]

/-! ### 1. ranks and offsets -/

theorem rankOf_lt (x : Bytes) (l : List Bytes) (acc : Nat) (h : x ∈ l) :
    rankOf x l acc < acc + l.length := by
  induction l generalizing acc with
  | nil => simp at h
  | cons y ys ih =>
    simp only [rankOf, List.length_cons]
    split
    · omega
    · rename_i hne
      have hx : x ∈ ys := by
        rcases List.mem_cons.1 h with h | h
        · exact absurd h.symm hne
        · exact h
      have := ih (acc + 1) hx
      omega

theorem rankOf_acc (x : Bytes) (l : List Bytes) (acc : Nat) :
    rankOf x l acc = acc + rankOf x l 0 := by
  induction l generalizing acc with
  | nil => simp [rankOf]
  | cons y ys ih =>
    simp only [rankOf]
    split
    · omega
    · rw [ih (acc + 1), ih (0 + 1)]; omega

theorem getD_rankOf (x : Bytes) (l : List Bytes) (h : x ∈ l) : l.getD (rankOf x l 0) [] = x := by
  induction l with
  | nil => simp at h
  | cons y ys ih =>
    simp only [rankOf]
    split
    · rename_i he; simp [he]
    · rename_i hne
      have hx : x ∈ ys := by
        rcases List.mem_cons.1 h with h | h
        · exact absurd h.symm hne
        · exact h
      rw [rankOf_acc, show 0 + 1 + rankOf x ys 0 = rankOf x ys 0 + 1 by omega, List.getD_cons_succ]
      exact ih hx

/-- the byte offset the plain store hands out is the total length of the values before the rank -/
theorem offsetOf_eq (x : Bytes) (l : List Bytes) (acc : Nat) :
    offsetOf x l acc = acc + lenSum (l.take (rankOf x l 0)) := by
  induction l generalizing acc with
  | nil => simp [offsetOf, lenSum]
  | cons y ys ih =>
    simp only [offsetOf, rankOf]
    split
    · simp [lenSum]
    · rw [ih, rankOf_acc x ys (0 + 1), show 0 + 1 + rankOf x ys 0 = rankOf x ys 0 + 1 by omega,
        List.take_succ_cons, lenSum_cons]
      omega

theorem lenSum_take_add_le (l : List Bytes) (k : Nat) (hk : k < l.length) :
    lenSum (l.take k) + (l.getD k []).length ≤ lenSum l := by
  rw [← lenSum_take_succ l k hk]; exact lenSum_take_le l (k + 1)

/-! ### 2. reading a value back from the parsed store -/

/-- what `valueStoreTailDecode` returns for the tail of `s` -/
def VStore.tail (s : VStore) : ValueStoreTail :=
  if s.indexed then ⟨true, s.dataSize, 0 :: endOffsets s.values 0⟩ else ⟨false, s.dataSize, []⟩

/-- **L3, sized read** (`Array` with an explicit length): the id stored by the creator gives the
    value back, in a plain store (id = byte offset) and in an indexed one (id = rank). -/
theorem valueStoreGet_sized (s : VStore) (x : Bytes) (hx : x ∈ s.values) :
    valueStoreGet (s.tail, s.data) (s.idOf x) (some x.length) = .ok x := by
  have hr := rankOf_lt x s.values 0 hx
  have hg := getD_rankOf x s.values hx
  have hle := lenSum_take_add_le s.values _ (by omega : rankOf x s.values 0 < s.values.length)
  have hsl := slice_flatten s.values _ (by omega : rankOf x s.values 0 < s.values.length)
  rw [hg] at hle hsl
  have hdl : s.data.length = lenSum s.values := by rw [VStore.data_length, VStore.dataSize_eq]
  unfold valueStoreGet VStore.tail VStore.idOf
  cases hi : s.indexed with
  | false =>
    simp only [Bool.false_eq_true, if_false, offsetOf_eq, Nat.zero_add]
    rw [if_pos (by omega)]
    exact congrArg Outcome.ok hsl
  | true =>
    simp only [if_true, List.length_cons, endOffsets_length]
    rw [if_neg (by omega), bounds_getD s.values _ (by omega), if_pos (by omega)]
    exact congrArg Outcome.ok hsl

/-- **L3, unsized read** (`IndirectArray`: the length comes from the next offset of an indexed
    store) -/
theorem valueStoreGet_unsized (s : VStore) (hix : s.indexed = true) (x : Bytes) (hx : x ∈ s.values) :
    valueStoreGet (s.tail, s.data) (s.idOf x) none = .ok x := by
  have hr := rankOf_lt x s.values 0 hx
  have hk : rankOf x s.values 0 < s.values.length := by omega
  have hg := getD_rankOf x s.values hx
  have hle := lenSum_take_add_le s.values _ hk
  have hsl := slice_flatten s.values _ hk
  have hsucc := lenSum_take_succ s.values _ hk
  rw [hg] at hle hsl hsucc
  have hdl : s.data.length = lenSum s.values := by rw [VStore.data_length, VStore.dataSize_eq]
  unfold valueStoreGet VStore.tail VStore.idOf
  simp only [hix, if_true, List.length_cons, endOffsets_length]
  rw [if_neg (by omega), bounds_getD s.values _ (by omega), bounds_getD s.values _ (by omega),
    hsucc, if_pos (by omega)]
  simp only [Nat.add_sub_cancel_left]
  rw [if_pos (by omega)]
  exact congrArg Outcome.ok hsl

/-- ids fit the key width the creator derives for the store -/
theorem VStore.idOf_lt (s : VStore) (x : Bytes) (hx : x ∈ s.values) :
    s.idOf x < 256 ^ s.keySize := by
  unfold VStore.idOf VStore.keySize
  cases hi : s.indexed with
  | true =>
    simp only [if_true]
    have := rankOf_lt x s.values 0 hx
    have := (neededBytes_spec s.values.length).1
    omega
  | false =>
    simp only [Bool.false_eq_true, if_false]
    have hr := rankOf_lt x s.values 0 hx
    have := lenSum_take_le s.values (rankOf x s.values 0)
    have := (neededBytes_spec s.dataSize).1
    rw [offsetOf_eq, VStore.dataSize_eq] at *
    omega

/-! ### 3. the tail codec -/

theorem vstail_go_spec (bs : Bytes) (w ds : Nat) (hw : 1 ≤ w) (rest : List Nat) (i : Nat)
    (acc : List Nat) (hb : bs.drop (10 + w + i * w) = (rest.map (fun o => leBytes o w)).flatten)
    (hr : ∀ o ∈ rest, o ≤ ds ∧ o < 256 ^ w) :
    valueStoreTailDecode.go bs w ds i rest.length acc = .ok (acc.reverse ++ rest) := by
  induction rest generalizing i acc with
  | nil => simp [valueStoreTailDecode.go]
  | cons o rest ih =>
    obtain ⟨ho1, ho2⟩ := hr o (List.mem_cons_self ..)
    simp only [List.map_cons, List.flatten_cons] at hb
    have hlen : 10 + w + i * w + w ≤ bs.length := by
      have := congrArg List.length hb
      rw [List.length_drop, List.length_append, leBytes_length] at this
      omega
    have hs : slice bs (10 + w + i * w) w = leBytes o w := by
      unfold slice
      rw [hb, List.take_left' (leBytes_length o w)]
    have hd : bs.drop (10 + w + (i + 1) * w) = (rest.map (fun o => leBytes o w)).flatten := by
      rw [show 10 + w + (i + 1) * w = (10 + w + i * w) + w by rw [Nat.add_mul]; omega]
      rw [← List.drop_drop, hb, List.drop_left' (leBytes_length o w)]
    have ih' := ih (i + 1) (o :: acc) hd (fun x hx => hr x (List.mem_cons_of_mem _ hx))
    rw [List.length_cons, valueStoreTailDecode.go, readUN_ok bs _ w o hlen hs ho2]
    simp only [Outcome.ok_bind, ho1, if_true, ih', List.reverse_cons, List.append_assoc,
      List.singleton_append]

theorem VStore.tailBytes_length (s : VStore) :
    s.tailBytes.length =
      if s.indexed then 10 + neededBytes s.dataSize * s.values.length +
        (if s.values.length = 0 then neededBytes s.dataSize else 0) else 9 := by
  unfold VStore.tailBytes
  cases hi : s.indexed with
  | false => simp [leBytes_length]
  | true =>
    have := flatten_fixed_length (endOffsets s.values 0).dropLast
      (fun o => leBytes o (neededBytes s.dataSize)) (neededBytes s.dataSize)
      (fun x => leBytes_length _ _)
    simp only [if_true, List.length_append, List.length_cons, List.length_nil, leBytes_length, this,
      List.length_dropLast, endOffsets_length]
    split
    · rename_i h0; rw [h0]; simp
    · rename_i h0
      have : neededBytes s.dataSize * (s.values.length - 1) + neededBytes s.dataSize =
          neededBytes s.dataSize * s.values.length := by
        rw [← Nat.mul_succ]; congr 1; omega
      omega

/-- **L3, tail codec.**  Hypotheses: the number of values (indexed store) and the data size are
    `u64` fields. -/
theorem valueStoreTailDecode_tailBytes (s : VStore)
    (hn : s.indexed = true → s.values.length < 2 ^ 64)
    (hd : s.dataSize < 2 ^ 64) : valueStoreTailDecode s.tailBytes = .ok s.tail := by
  unfold VStore.tailBytes VStore.tail
  cases hi : s.indexed with
  | false =>
    simp only [Bool.false_eq_true, if_false]
    have hr : readUN ([0] ++ leBytes s.dataSize 8) 1 8 = .ok s.dataSize := by
      apply readUN_ok _ _ _ _ (by simp [leBytes_length]) _ (by rw [pow256_8]; exact hd)
      simp [slice, leBytes_length]
      exact List.take_of_length_le (by simp [leBytes_length])
    simp only [List.singleton_append] at hr ⊢
    simp only [valueStoreTailDecode, if_true, hr, Outcome.ok_bind]
  | true =>
    have hn := hn hi
    simp only [if_true]
    have hw1 := (neededBytes_spec s.dataSize).2
    have hwf := (neededBytes_spec s.dataSize).1
    have hw8 := neededBytes_le_8 s.dataSize hd
    generalize hw : neededBytes s.dataSize = w at hw1 hwf hw8
    generalize hF : ((endOffsets s.values 0).dropLast.map (fun o => leBytes o w)).flatten = F
    generalize hbs : [1] ++ leBytes s.values.length 8 ++ [UInt8.ofNat w] ++ leBytes s.dataSize w ++ F = bs
    have hbl : bs.length = 10 + w + F.length := by
      subst hbs; simp [leBytes_length]; omega
    have hcnt : slice bs 1 8 = leBytes s.values.length 8 := by
      subst hbs
      simp only [List.append_assoc]
      exact slice_at _ _ _ 1 8 rfl (leBytes_length _ _)
    have hosz : slice bs 9 1 = leBytes w 1 := by
      subst hbs
      simp only [List.append_assoc]
      rw [← List.append_assoc [1]]
      refine slice_at _ _ _ 9 1 (by simp [leBytes_length]) ?_ |>.trans ?_
      · rfl
      · have : w % 256 = w := by omega
        simp [leBytes, this]
    have hds : slice bs 10 w = leBytes s.dataSize w := by
      subst hbs
      simp only [List.append_assoc]
      rw [← List.append_assoc [1], ← List.append_assoc ([1] ++ leBytes s.values.length 8)]
      exact slice_at _ _ _ 10 w (by simp [leBytes_length]) (leBytes_length _ _)
    have hdr : bs.drop (10 + w + 0 * w) =
        ((endOffsets s.values 0).dropLast.map (fun o => leBytes o w)).flatten := by
      subst hbs
      rw [hF]
      exact List.drop_left' (by simp [leBytes_length]; omega)
    have hgo := vstail_go_spec bs w s.dataSize hw1 (endOffsets s.values 0).dropLast 0 [] hdr (by
      intro o ho
      have hm : o ∈ endOffsets s.values 0 := List.dropLast_subset _ ho
      have := endOffsets_le_total s.values 0 o hm
      have hds' : s.dataSize = (s.values.map List.length).sum := rfl
      constructor <;> omega)
    rw [List.length_dropLast, endOffsets_length] at hgo
    have hk : bs = 1 :: bs.tail := by subst hbs; rfl
    have h1 : (1 : UInt8) ≠ 0 := by decide
    rw [hk]
    simp only [valueStoreTailDecode, h1, if_false, if_true]
    rw [← hk]
    rw [readUN_ok bs 1 8 s.values.length (by omega) hcnt (by rw [pow256_8]; exact hn),
      readUN_ok bs 9 1 w (by omega) hosz (by omega)]
    simp only [Outcome.ok_bind]
    rw [if_neg (by omega), readUN_ok bs 10 w s.dataSize (by omega) hds hwf]
    simp only [Outcome.ok_bind, hgo, List.reverse_nil, List.nil_append]
    congr 2
    by_cases h0 : s.values.length = 0
    · have : s.values = [] := List.eq_nil_of_length_eq_zero h0
      simp [this, endOffsets, VStore.dataSize]
    · have hne : s.values ≠ [] := by intro h; rw [h] at h0; exact h0 rfl
      rw [if_neg h0, List.cons_append, VStore.dataSize_eq, endOffsets_dropLast_append s.values hne]

/-! ### 4. a store inside a file -/

theorem VStore.encode_eq (s : VStore) :
    s.encode = (block s.data ++ block s.tailBytes, s.dataSize + 4, s.tailBytes.length) := by
  simp only [VStore.encode, block_length, VStore.data_length]

theorem VStore.encode_fst_length (s : VStore) :
    s.encode.1.length = s.encode.2.1 + (s.encode.2.2 + 4) := by
  rw [VStore.encode_eq]; simp only [List.length_append, block_length, VStore.data_length]

/-- **L3, in a file**: `valueStoreOpen` at the tail position of an encoded store returns the parsed
    tail and the data region. -/
theorem valueStoreOpen_encode (s : VStore) (pre post : Bytes)
    (hn : s.indexed = true → s.values.length < 2 ^ 64) (hd : s.dataSize < 2 ^ 64) :
    valueStoreOpen (pre ++ (s.encode.1 ++ post)) (pre.length + s.encode.2.1, s.encode.2.2) =
      .ok (s.tail, s.data) := by
  rw [VStore.encode_eq]
  simp only
  have hdl := VStore.data_length s
  have ht : readBlock (pre ++ (block s.data ++ block s.tailBytes ++ post))
      (pre.length + (s.dataSize + 4)) s.tailBytes.length = .ok s.tailBytes := by
    have := readBlock_block' (pre ++ block s.data) s.tailBytes post
    rw [List.length_append, block_length, hdl] at this
    simpa only [List.append_assoc] using this
  have hdb : readBlock (pre ++ (block s.data ++ block s.tailBytes ++ post)) pre.length s.dataSize =
      .ok s.data := by
    have := readBlock_block' pre s.data (block s.tailBytes ++ post)
    rw [hdl] at this
    simpa only [List.append_assoc] using this
  have htd : s.tail.dataSize = s.dataSize := by
    unfold VStore.tail; split <;> rfl
  unfold valueStoreOpen
  simp only [ht, Outcome.ok_bind, valueStoreTailDecode_tailBytes s hn hd, htd]
  rw [if_neg (by omega), show pre.length + (s.dataSize + 4) - s.dataSize - 4 = pre.length by omega,
    hdb]
  rfl

end Jubako
