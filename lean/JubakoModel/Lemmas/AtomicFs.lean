/-
Lemmas on the file-system discipline model (`Model/AtomicFs.lean`): for every disciplined trace,
every crash point and every initial file system, a final path holds either its old content or the
complete content of the temporary renamed onto it, and the entry-point is renamed last.
-/
import JubakoModel.Model.AtomicFs

namespace Jubako

/-! ## 1. `FSt` algebra -/

namespace FSt

theorem get_remove_same (fs : FSt) (p : FPath) : (fs.remove p).get p = none := by
  simp [get, remove, List.find?_eq_none]

theorem get_remove_other {fs : FSt} {p q : FPath} (h : q ≠ p) :
    (fs.remove p).get q = fs.get q := by
  simp only [get, remove, List.find?_filter]
  congr 2
  funext e
  by_cases h3 : e.1 = q
  · simp [h3, h]
  · simp [h3]

theorem get_set_same (fs : FSt) (p : FPath) (c : List Nat) : (fs.set p c).get p = some c := by
  simp [get, set]

theorem get_set_other {fs : FSt} {p q : FPath} {c : List Nat} (h : q ≠ p) :
    (fs.set p c).get q = fs.get q := by
  have h' : ¬ p = q := fun hh => h hh.symm
  rw [← get_remove_other (fs := fs) h]
  simp [get, set, h']

theorem run_append (fs : FSt) (a b : List FsOp) : fs.run (a ++ b) = (fs.run a).run b := by
  simp [run, List.foldl_append]

theorem run_cons (fs : FSt) (op : FsOp) (b : List FsOp) :
    fs.run (op :: b) = (fs.apply op).run b := rfl

theorem run_nil (fs : FSt) : fs.run [] = fs := rfl

end FSt

/-! ## trace helpers -/

theorem allWritesTo_append (p : FPath) (a b : List FsOp) :
    allWritesTo p (a ++ b) = allWritesTo p a ++ allWritesTo p b := by
  simp [allWritesTo, List.filterMap_append]

theorem renamesOf_append (a b : List FsOp) : renamesOf (a ++ b) = renamesOf a ++ renamesOf b := by
  simp [renamesOf, List.filterMap_append]

@[simp] theorem allWritesTo_nil (p : FPath) : allWritesTo p [] = [] := rfl
@[simp] theorem renamesOf_nil : renamesOf [] = [] := rfl

@[simp] theorem allWritesTo_create (p q : FPath) : allWritesTo p [.create q] = [] := rfl
@[simp] theorem allWritesTo_rename (p s d : FPath) : allWritesTo p [.rename s d] = [] := rfl
@[simp] theorem allWritesTo_unlink (p q : FPath) : allWritesTo p [.unlink q] = [] := rfl
theorem allWritesTo_write_same (p : FPath) (tok : Nat) : allWritesTo p [.write p tok] = [tok] := by
  simp [allWritesTo]
theorem allWritesTo_write_other {p q : FPath} (tok : Nat) (h : q ≠ p) :
    allWritesTo p [.write q tok] = [] := by
  simp [allWritesTo, h]

@[simp] theorem renamesOf_create (q : FPath) : renamesOf [.create q] = [] := rfl
@[simp] theorem renamesOf_write (q : FPath) (tok : Nat) : renamesOf [.write q tok] = [] := rfl
@[simp] theorem renamesOf_unlink (q : FPath) : renamesOf [.unlink q] = [] := rfl
@[simp] theorem renamesOf_rename (s d : FPath) : renamesOf [.rename s d] = [(s, d)] := rfl

theorem mem_renamesOf {t : List FsOp} {s d : FPath} :
    (s, d) ∈ renamesOf t ↔ FsOp.rename s d ∈ t := by
  simp only [renamesOf, List.mem_filterMap]
  constructor
  · rintro ⟨op, hop, h⟩
    cases op <;> simp at h
    obtain ⟨rfl, rfl⟩ := h
    exact hop
  · intro h
    exact ⟨_, h, rfl⟩

theorem mem_allWritesTo {t : List FsOp} {p : FPath} {tok : Nat} :
    tok ∈ allWritesTo p t ↔ FsOp.write p tok ∈ t := by
  simp only [allWritesTo, List.mem_filterMap]
  constructor
  · rintro ⟨op, hop, h⟩
    cases op <;> simp at h
    obtain ⟨rfl, rfl⟩ := h
    exact hop
  · intro h
    exact ⟨_, h, by simp⟩

/-! ## the discipline checker -/

section Checker

variable {isTemp : FPath → Bool} {entry : FPath} {oldPaths : List FPath}

/-- the initial state of the checker -/
def DiscSt.init : DiscSt := ⟨[], [], [], false⟩

theorem discStep_create {s s' : DiscSt} {p : FPath}
    (h : discStep isTemp entry oldPaths s (.create p) = some s') :
    isTemp p = true ∧ p ∉ oldPaths ∧ p ∉ s.created ∧
      s' = { s with live := p :: s.live, created := p :: s.created } := by
  simp only [discStep] at h
  split at h
  · rename_i hc
    simp at hc h
    exact ⟨hc.1, hc.2.1, hc.2.2, h.symm⟩
  · simp at h

theorem discStep_write {s s' : DiscSt} {p : FPath} {tok : Nat}
    (h : discStep isTemp entry oldPaths s (.write p tok) = some s') :
    p ∈ s.live ∧ s' = s := by
  simp only [discStep] at h
  split at h
  · rename_i hc
    simp at hc h
    exact ⟨hc, h.symm⟩
  · simp at h

theorem discStep_rename {s s' : DiscSt} {src dst : FPath}
    (h : discStep isTemp entry oldPaths s (.rename src dst) = some s') :
    src ∈ s.live ∧ isTemp dst = false ∧ s.entryDone = false ∧ dst ∉ s.renamedFinals ∧
      s' = { s with live := s.live.filter (· != src), renamedFinals := dst :: s.renamedFinals,
                    entryDone := dst == entry } := by
  simp only [discStep] at h
  split at h
  · rename_i hc
    simp at hc h
    exact ⟨hc.1, hc.2.1, hc.2.2.1, hc.2.2.2, h.symm⟩
  · simp at h

theorem discStep_unlink {s s' : DiscSt} {p : FPath}
    (h : discStep isTemp entry oldPaths s (.unlink p) = some s') :
    p ∈ s.live ∧ s' = { s with live := s.live.filter (· != p) } := by
  simp only [discStep] at h
  split at h
  · rename_i hc
    simp at hc h
    exact ⟨hc, h.symm⟩
  · simp at h

theorem discRun_cons {s s' : DiscSt} {op : FsOp} {rest : List FsOp}
    (h : discRun isTemp entry oldPaths s (op :: rest) = some s') :
    ∃ s1, discStep isTemp entry oldPaths s op = some s1 ∧
      discRun isTemp entry oldPaths s1 rest = some s' := by
  simp only [discRun] at h
  cases h1 : discStep isTemp entry oldPaths s op with
  | none => rw [h1] at h; simp at h
  | some s1 => rw [h1] at h; exact ⟨s1, rfl, by simpa using h⟩

theorem discRun_append (s : DiscSt) (a b : List FsOp) :
    discRun isTemp entry oldPaths s (a ++ b) =
      (discRun isTemp entry oldPaths s a).bind (fun s' => discRun isTemp entry oldPaths s' b) := by
  induction a generalizing s with
  | nil => simp [discRun]
  | cons op a ih =>
    simp only [List.cons_append, discRun]
    cases discStep isTemp entry oldPaths s op with
    | none => simp
    | some s1 => simp [ih]

/-- a successful run of the checker splits at every position -/
theorem discRun_split {s s' : DiscSt} {t : List FsOp}
    (h : discRun isTemp entry oldPaths s t = some s') (k : Nat) :
    ∃ sk, discRun isTemp entry oldPaths s (t.take k) = some sk ∧
      discRun isTemp entry oldPaths sk (t.drop k) = some s' := by
  have h2 : discRun isTemp entry oldPaths s (t.take k ++ t.drop k) = some s' := by
    rw [List.take_append_drop]; exact h
  rw [discRun_append] at h2
  cases hq : discRun isTemp entry oldPaths s (t.take k) with
  | none => rw [hq] at h2; simp at h2
  | some sk => rw [hq] at h2; exact ⟨sk, rfl, by simpa using h2⟩

theorem discipline_iff {t : List FsOp} :
    Discipline isTemp entry oldPaths t = true ↔
      ∃ s, discRun isTemp entry oldPaths DiscSt.init t = some s := by
  simp [Discipline, DiscSt.init, Option.isSome_iff_exists]

/-! ## 2. prefixes of disciplined traces are disciplined -/

theorem discipline_take (isTemp : FPath → Bool) (entry : FPath) (oldPaths : List FPath)
    (t : List FsOp) (k : Nat) (h : Discipline isTemp entry oldPaths t = true) :
    Discipline isTemp entry oldPaths (t.take k) = true := by
  rw [discipline_iff] at h ⊢
  obtain ⟨s, hs⟩ := h
  obtain ⟨sk, hk, _⟩ := discRun_split hs k
  exact ⟨sk, hk⟩

/-! ## what an accepted suffix cannot do -/

/-- a temporary that was created and is no longer live (renamed or unlinked) stays so, and is
    never written again -/
theorem discRun_dead {s s' : DiscSt} {rest : List FsOp} {p : FPath}
    (h : discRun isTemp entry oldPaths s rest = some s')
    (hc : p ∈ s.created) (hl : p ∉ s.live) :
    p ∈ s'.created ∧ p ∉ s'.live ∧ allWritesTo p rest = [] := by
  induction rest generalizing s with
  | nil => simp [discRun] at h; subst h; exact ⟨hc, hl, rfl⟩
  | cons op rest ih =>
    obtain ⟨s1, h1, h2⟩ := discRun_cons h
    have key : p ∈ s1.created ∧ p ∉ s1.live ∧ allWritesTo p [op] = [] := by
      cases op with
      | create q =>
        obtain ⟨_, _, hq, rfl⟩ := discStep_create h1
        have : p ≠ q := fun hh => hq (hh ▸ hc)
        simp [hc, hl, this]
      | write q tok =>
        obtain ⟨hq, rfl⟩ := discStep_write h1
        have : q ≠ p := fun hh => hl (hh ▸ hq)
        exact ⟨hc, hl, allWritesTo_write_other tok this⟩
      | rename src dst =>
        obtain ⟨_, _, _, _, rfl⟩ := discStep_rename h1
        simp [hc, hl]
      | unlink q =>
        obtain ⟨_, rfl⟩ := discStep_unlink h1
        simp [hc, hl]
    obtain ⟨a, b, c⟩ := ih h2 key.1 key.2.1
    refine ⟨a, b, ?_⟩
    have : op :: rest = [op] ++ rest := rfl
    rw [this, allWritesTo_append, key.2.2, c]; rfl

/-- once the entry-point has been renamed, no further rename is accepted -/
theorem discRun_entryDone {s s' : DiscSt} {rest : List FsOp}
    (h : discRun isTemp entry oldPaths s rest = some s') (he : s.entryDone = true) :
    renamesOf rest = [] := by
  induction rest generalizing s with
  | nil => rfl
  | cons op rest ih =>
    obtain ⟨s1, h1, h2⟩ := discRun_cons h
    have key : s1.entryDone = true ∧ renamesOf [op] = [] := by
      cases op with
      | create q => obtain ⟨_, _, _, rfl⟩ := discStep_create h1; exact ⟨he, rfl⟩
      | write q tok => obtain ⟨_, rfl⟩ := discStep_write h1; exact ⟨he, rfl⟩
      | rename src dst =>
        obtain ⟨_, _, hf, _⟩ := discStep_rename h1
        rw [he] at hf; cases hf
      | unlink q => obtain ⟨_, rfl⟩ := discStep_unlink h1; exact ⟨he, rfl⟩
    have : op :: rest = [op] ++ rest := rfl
    rw [this, renamesOf_append, key.2, ih h2 key.1]; rfl

/-- `created` only grows, and contains every path the accepted operations create -/
theorem discRun_created {s s' : DiscSt} {rest : List FsOp}
    (h : discRun isTemp entry oldPaths s rest = some s') :
    (∀ p, p ∈ s.created → p ∈ s'.created) ∧ (∀ p, FsOp.create p ∈ rest → p ∈ s'.created) := by
  induction rest generalizing s with
  | nil => simp [discRun] at h; subst h; simp
  | cons op rest ih =>
    obtain ⟨s1, h1, h2⟩ := discRun_cons h
    obtain ⟨ih1, ih2⟩ := ih h2
    have key : (∀ p, p ∈ s.created → p ∈ s1.created) ∧
        (∀ p, op = FsOp.create p → p ∈ s1.created) := by
      cases op with
      | create q =>
        obtain ⟨_, _, _, rfl⟩ := discStep_create h1
        refine ⟨fun p hp => List.mem_cons_of_mem _ hp, ?_⟩
        intro p hp; cases hp; exact List.mem_cons_self
      | write q tok => obtain ⟨_, rfl⟩ := discStep_write h1; simp
      | rename src dst => obtain ⟨_, _, _, _, rfl⟩ := discStep_rename h1; simp
      | unlink q => obtain ⟨_, rfl⟩ := discStep_unlink h1; simp
    refine ⟨fun p hp => ih1 p (key.1 p hp), ?_⟩
    intro p hp
    rcases List.mem_cons.mp hp with hp | hp
    · exact ih1 p (key.2 p hp.symm)
    · exact ih2 p hp

end Checker

/-! ## the joint invariant of checker state, file system and processed prefix -/

/-- `ds` is the checker state and `fs` the file system after the prefix `pre` of the trace -/
structure FsInv (isTemp : FPath → Bool) (entry : FPath) (old : FSt) (pre : List FsOp)
    (ds : DiscSt) (fs : FSt) : Prop where
  /-- a live temporary holds exactly the writes it received so far -/
  live : ∀ p, p ∈ ds.live → p ∈ ds.created ∧ fs.get p = some (allWritesTo p pre)
  created : ∀ p, p ∈ ds.created → isTemp p = true
  /-- a temporary of this run that is no longer live does not exist -/
  dead : ∀ p, p ∈ ds.created → p ∉ ds.live → fs.get p = none
  fresh : ∀ p, p ∉ ds.created → allWritesTo p pre = []
  /-- a renamed final holds every write its temporary received so far (and the temporary is dead,
      so it will not receive any more) -/
  ren : ∀ s d, (s, d) ∈ renamesOf pre →
    isTemp d = false ∧ d ∈ ds.renamedFinals ∧ s ∈ ds.created ∧ s ∉ ds.live ∧
      fs.get d = some (allWritesTo s pre)
  untouched : ∀ d, isTemp d = false → d ∉ ds.renamedFinals → fs.get d = old.get d
  finals : ∀ d, d ∈ ds.renamedFinals → ∃ s, (s, d) ∈ renamesOf pre
  entryDone : ∀ s, (s, entry) ∈ renamesOf pre → ds.entryDone = true

section Invariant

variable {isTemp : FPath → Bool} {entry : FPath} {oldPaths : List FPath} {old : FSt}

theorem fsInv_init : FsInv isTemp entry old [] DiscSt.init old := by
  refine ⟨?_, ?_, ?_, ?_, ?_, ?_, ?_, ?_⟩ <;> simp [DiscSt.init]

theorem ne_of_isTemp {isTemp : FPath → Bool} {p d : FPath} (hp : isTemp p = true)
    (hd : isTemp d = false) : d ≠ p := by
  intro h; rw [h, hp] at hd; cases hd

theorem fsInv_step {pre : List FsOp} {ds ds' : DiscSt} {fs : FSt} {op : FsOp}
    (I : FsInv isTemp entry old pre ds fs)
    (h : discStep isTemp entry oldPaths ds op = some ds') :
    FsInv isTemp entry old (pre ++ [op]) ds' (fs.apply op) := by
  cases op with
  | create p =>
    obtain ⟨hT, _, hnc, rfl⟩ := discStep_create h
    have hfs : fs.apply (.create p) = fs.set p [] := rfl
    rw [hfs]
    refine ⟨?_, ?_, ?_, ?_, ?_, ?_, ?_, ?_⟩
    · intro q hq
      simp only [List.mem_cons] at hq ⊢
      rw [allWritesTo_append, allWritesTo_create, List.append_nil]
      rcases hq with rfl | hq
      · exact ⟨Or.inl rfl, by rw [FSt.get_set_same, I.fresh q hnc]⟩
      · obtain ⟨hc, hg⟩ := I.live q hq
        have hne : q ≠ p := fun hh => hnc (hh ▸ hc)
        exact ⟨Or.inr hc, by rw [FSt.get_set_other hne, hg]⟩
    · intro q hq
      simp only [List.mem_cons] at hq
      rcases hq with rfl | hq
      · exact hT
      · exact I.created q hq
    · intro q hq hnl
      simp only [List.mem_cons, not_or] at hq hnl
      rcases hq with rfl | hq
      · exact absurd rfl hnl.1
      · rw [FSt.get_set_other hnl.1]; exact I.dead q hq hnl.2
    · intro q hq
      simp only [List.mem_cons, not_or] at hq
      rw [allWritesTo_append, allWritesTo_create, List.append_nil]
      exact I.fresh q hq.2
    · intro s d hsd
      rw [renamesOf_append, renamesOf_create, List.append_nil] at hsd
      obtain ⟨h1, h2, h3, h4, h5⟩ := I.ren s d hsd
      have hne : d ≠ p := ne_of_isTemp hT h1
      have hne2 : s ≠ p := fun hh => hnc (hh ▸ h3)
      refine ⟨h1, h2, List.mem_cons_of_mem _ h3, ?_, ?_⟩
      · simp only [List.mem_cons, not_or]; exact ⟨hne2, h4⟩
      · rw [FSt.get_set_other hne, allWritesTo_append, allWritesTo_create, List.append_nil]
        exact h5
    · intro d hd hnr
      rw [FSt.get_set_other (ne_of_isTemp hT hd)]
      exact I.untouched d hd hnr
    · intro d hd
      rw [renamesOf_append, renamesOf_create, List.append_nil]
      exact I.finals d hd
    · intro s hs
      rw [renamesOf_append, renamesOf_create, List.append_nil] at hs
      exact I.entryDone s hs
  | write p tok =>
    obtain ⟨hlive, rfl⟩ := discStep_write h
    obtain ⟨hpc, hpg⟩ := I.live p hlive
    have hT := I.created p hpc
    have hfs : fs.apply (.write p tok) = fs.set p (allWritesTo p pre ++ [tok]) := by
      simp [FSt.apply, hpg]
    rw [hfs]
    refine ⟨?_, ?_, ?_, ?_, ?_, ?_, ?_, ?_⟩
    · intro q hq
      obtain ⟨hc, hg⟩ := I.live q hq
      refine ⟨hc, ?_⟩
      rw [allWritesTo_append]
      by_cases hqp : q = p
      · subst hqp
        rw [FSt.get_set_same, allWritesTo_write_same]
      · have : p ≠ q := fun hh => hqp hh.symm
        rw [FSt.get_set_other hqp, allWritesTo_write_other tok this, List.append_nil, hg]
    · exact I.created
    · intro q hq hnl
      have hne : q ≠ p := fun hh => hnl (hh ▸ hlive)
      rw [FSt.get_set_other hne]; exact I.dead q hq hnl
    · intro q hq
      have hne : p ≠ q := fun hh => hq (hh ▸ hpc)
      rw [allWritesTo_append, allWritesTo_write_other tok hne, List.append_nil]
      exact I.fresh q hq
    · intro s d hsd
      rw [renamesOf_append, renamesOf_write, List.append_nil] at hsd
      obtain ⟨h1, h2, h3, h4, h5⟩ := I.ren s d hsd
      have hne : d ≠ p := ne_of_isTemp hT h1
      have hne2 : p ≠ s := fun hh => h4 (hh ▸ hlive)
      refine ⟨h1, h2, h3, h4, ?_⟩
      rw [FSt.get_set_other hne, allWritesTo_append, allWritesTo_write_other tok hne2,
        List.append_nil]
      exact h5
    · intro d hd hnr
      rw [FSt.get_set_other (ne_of_isTemp hT hd)]
      exact I.untouched d hd hnr
    · intro d hd
      rw [renamesOf_append, renamesOf_write, List.append_nil]
      exact I.finals d hd
    · intro s hs
      rw [renamesOf_append, renamesOf_write, List.append_nil] at hs
      exact I.entryDone s hs
  | rename src dst =>
    obtain ⟨hlive, hdT, hed, hnr, rfl⟩ := discStep_rename h
    obtain ⟨hsc, hsg⟩ := I.live src hlive
    have hT := I.created src hsc
    have hds : dst ≠ src := ne_of_isTemp hT hdT
    have hfs : fs.apply (.rename src dst) = (fs.remove src).set dst (allWritesTo src pre) := by
      simp [FSt.apply, hsg]
    rw [hfs]
    refine ⟨?_, ?_, ?_, ?_, ?_, ?_, ?_, ?_⟩
    · intro q hq
      simp only [List.mem_filter, bne_iff_ne, ne_eq] at hq
      obtain ⟨hc, hg⟩ := I.live q hq.1
      have hqd : q ≠ dst := (ne_of_isTemp (I.created q hc) hdT).symm
      refine ⟨hc, ?_⟩
      rw [FSt.get_set_other hqd, FSt.get_remove_other hq.2, allWritesTo_append,
        allWritesTo_rename, List.append_nil, hg]
    · exact I.created
    · intro q hq hnl
      simp only [List.mem_filter, bne_iff_ne, ne_eq, not_and, Classical.not_not] at hnl
      have hqd : q ≠ dst := (ne_of_isTemp (I.created q hq) hdT).symm
      rw [FSt.get_set_other hqd]
      by_cases hqs : q = src
      · subst hqs; exact FSt.get_remove_same fs q
      · rw [FSt.get_remove_other hqs]
        exact I.dead q hq (fun hl => hqs (hnl hl))
    · intro q hq
      rw [allWritesTo_append, allWritesTo_rename, List.append_nil]
      exact I.fresh q hq
    · intro s d hsd
      rw [renamesOf_append, renamesOf_rename, List.mem_append, List.mem_singleton] at hsd
      rw [allWritesTo_append, allWritesTo_rename, List.append_nil]
      rcases hsd with hsd | hsd
      · obtain ⟨h1, h2, h3, h4, h5⟩ := I.ren s d hsd
        have hdd : d ≠ dst := fun hh => hnr (hh ▸ h2)
        have hdsrc : d ≠ src := ne_of_isTemp hT h1
        refine ⟨h1, List.mem_cons_of_mem _ h2, h3, ?_, ?_⟩
        · simp only [List.mem_filter, not_and]; exact fun hh => absurd hh h4
        · rw [FSt.get_set_other hdd, FSt.get_remove_other hdsrc]; exact h5
      · simp only [Prod.mk.injEq] at hsd
        obtain ⟨rfl, rfl⟩ := hsd
        refine ⟨hdT, List.mem_cons_self, hsc, ?_, FSt.get_set_same _ _ _⟩
        simp [List.mem_filter]
    · intro d hd hnr'
      simp only [List.mem_cons, not_or] at hnr'
      rw [FSt.get_set_other hnr'.1, FSt.get_remove_other (ne_of_isTemp hT hd)]
      exact I.untouched d hd hnr'.2
    · intro d hd
      simp only [List.mem_cons] at hd
      rw [renamesOf_append, renamesOf_rename]
      rcases hd with rfl | hd
      · exact ⟨src, by simp⟩
      · obtain ⟨s, hs⟩ := I.finals d hd
        exact ⟨s, List.mem_append_left _ hs⟩
    · intro s hs
      rw [renamesOf_append, renamesOf_rename, List.mem_append, List.mem_singleton] at hs
      rcases hs with hs | hs
      · have := I.entryDone s hs
        rw [this] at hed; cases hed
      · simp only [Prod.mk.injEq] at hs
        simp [hs.2]
  | unlink p =>
    obtain ⟨hlive, rfl⟩ := discStep_unlink h
    obtain ⟨hpc, _⟩ := I.live p hlive
    have hT := I.created p hpc
    have hfs : fs.apply (.unlink p) = fs.remove p := rfl
    rw [hfs]
    refine ⟨?_, ?_, ?_, ?_, ?_, ?_, ?_, ?_⟩
    · intro q hq
      simp only [List.mem_filter, bne_iff_ne, ne_eq] at hq
      obtain ⟨hc, hg⟩ := I.live q hq.1
      refine ⟨hc, ?_⟩
      rw [FSt.get_remove_other hq.2, allWritesTo_append, allWritesTo_unlink, List.append_nil, hg]
    · exact I.created
    · intro q hq hnl
      simp only [List.mem_filter, bne_iff_ne, ne_eq, not_and, Classical.not_not] at hnl
      by_cases hqs : q = p
      · subst hqs; exact FSt.get_remove_same fs q
      · rw [FSt.get_remove_other hqs]
        exact I.dead q hq (fun hl => hqs (hnl hl))
    · intro q hq
      rw [allWritesTo_append, allWritesTo_unlink, List.append_nil]
      exact I.fresh q hq
    · intro s d hsd
      rw [renamesOf_append, renamesOf_unlink, List.append_nil] at hsd
      obtain ⟨h1, h2, h3, h4, h5⟩ := I.ren s d hsd
      refine ⟨h1, h2, h3, ?_, ?_⟩
      · simp only [List.mem_filter, not_and]; exact fun hh => absurd hh h4
      · rw [FSt.get_remove_other (ne_of_isTemp hT h1), allWritesTo_append, allWritesTo_unlink,
          List.append_nil]
        exact h5
    · intro d hd hnr
      rw [FSt.get_remove_other (ne_of_isTemp hT hd)]
      exact I.untouched d hd hnr
    · intro d hd
      rw [renamesOf_append, renamesOf_unlink, List.append_nil]
      exact I.finals d hd
    · intro s hs
      rw [renamesOf_append, renamesOf_unlink, List.append_nil] at hs
      exact I.entryDone s hs

theorem fsInv_run {rest pre : List FsOp} {ds ds' : DiscSt} {fs : FSt}
    (I : FsInv isTemp entry old pre ds fs)
    (h : discRun isTemp entry oldPaths ds rest = some ds') :
    FsInv isTemp entry old (pre ++ rest) ds' (fs.run rest) := by
  induction rest generalizing pre ds fs with
  | nil =>
    simp [discRun] at h; subst h
    simpa [FSt.run_nil] using I
  | cons op rest ih =>
    obtain ⟨s1, h1, h2⟩ := discRun_cons h
    have := ih (fsInv_step I h1) h2
    rw [List.append_assoc] at this
    exact this

/-- the invariant holds after every accepted trace -/
theorem fsInv_of_discRun {t : List FsOp} {ds : DiscSt}
    (h : discRun isTemp entry oldPaths DiscSt.init t = some ds) :
    FsInv isTemp entry old t ds (old.run t) := by
  have := fsInv_run (old := old) fsInv_init h
  simpa using this

end Invariant

/-! ## the theorems

Setting: `old` is any initial file system, `oldPaths := old.files.map (·.1)`, `t` a trace with
`Discipline isTemp entry oldPaths t = true`, `k` any crash point.  None of the optional hypotheses
(`∀ p ∈ oldPaths, isTemp p = false`, `isTemp entry = false`, `oldPaths.Nodup`) is needed: in this
model `create` truncates, and a rename onto `entry` is only accepted when `isTemp entry = false`.
In fact nothing below depends on the third argument of `Discipline` being the paths of `old`; the
theorems are stated with `old.files.map (·.1)` because that is the intended reading. -/

section Main

variable {isTemp : FPath → Bool} {entry : FPath} {old : FSt} {t : List FsOp}

/-- the checker state after `k` operations, the invariant there, and the accepted remainder -/
theorem discipline_at (hd : Discipline isTemp entry (old.files.map (·.1)) t = true) (k : Nat) :
    ∃ ds dsf, discRun isTemp entry (old.files.map (·.1)) DiscSt.init (t.take k) = some ds ∧
      discRun isTemp entry (old.files.map (·.1)) ds (t.drop k) = some dsf ∧
      FsInv isTemp entry old (t.take k) ds (old.run (t.take k)) := by
  obtain ⟨dsf, hf⟩ := discipline_iff.mp hd
  obtain ⟨ds, h1, h2⟩ := discRun_split hf k
  exact ⟨ds, dsf, h1, h2, fsInv_of_discRun h1⟩

/-- a temporary renamed within the first `k` operations has received all its writes -/
theorem allWritesTo_take_of_renamed
    (hd : Discipline isTemp entry (old.files.map (·.1)) t = true) (k : Nat) (src dst : FPath)
    (h : (src, dst) ∈ renamesOf (t.take k)) :
    allWritesTo src (t.take k) = allWritesTo src t := by
  obtain ⟨ds, dsf, _, h2, I⟩ := discipline_at hd k
  obtain ⟨_, _, hc, hl, _⟩ := I.ren src dst h
  obtain ⟨_, _, hw⟩ := discRun_dead h2 hc hl
  have : allWritesTo src t = allWritesTo src (t.take k ++ t.drop k) := by
    rw [List.take_append_drop]
  rw [this, allWritesTo_append, hw, List.append_nil]

/-! ### 5. all-or-nothing per final path -/

theorem atomic_final (hd : Discipline isTemp entry (old.files.map (·.1)) t = true)
    (k : Nat) (d : FPath) (hdt : isTemp d = false) :
    (old.run (t.take k)).get d = old.get d ∨
      ∃ src, (src, d) ∈ renamesOf (t.take k) ∧
        (old.run (t.take k)).get d = some (allWritesTo src t) := by
  obtain ⟨ds, dsf, _, _, I⟩ := discipline_at hd k
  by_cases hr : d ∈ ds.renamedFinals
  · right
    obtain ⟨src, hs⟩ := I.finals d hr
    refine ⟨src, hs, ?_⟩
    rw [← allWritesTo_take_of_renamed hd k src d hs]
    exact (I.ren src d hs).2.2.2.2
  · left
    exact I.untouched d hdt hr

/-! ### 6. the entry-point is renamed last -/

theorem entry_last (hd : Discipline isTemp entry (old.files.map (·.1)) t = true)
    (k : Nat) (src : FPath) (h : (src, entry) ∈ renamesOf (t.take k)) :
    ∀ s' d', (s', d') ∈ renamesOf t →
      (s', d') ∈ renamesOf (t.take k) ∧
        (old.run (t.take k)).get d' = some (allWritesTo s' t) := by
  intro s' d' hsd
  obtain ⟨ds, dsf, _, h2, I⟩ := discipline_at hd k
  have hnone := discRun_entryDone h2 (I.entryDone src h)
  have hmem : (s', d') ∈ renamesOf (t.take k) := by
    have : renamesOf t = renamesOf (t.take k ++ t.drop k) := by rw [List.take_append_drop]
    rw [this, renamesOf_append, hnone, List.append_nil] at hsd
    exact hsd
  refine ⟨hmem, ?_⟩
  rw [← allWritesTo_take_of_renamed hd k s' d' hmem]
  exact (I.ren s' d' hmem).2.2.2.2

/-- every rename of a disciplined trace goes from a temporary to a non-temporary path (so
    `isTemp entry = false` follows from the entry-point being renamed; no hypothesis needed) -/
theorem renamed_not_temp (hd : Discipline isTemp entry (old.files.map (·.1)) t = true)
    (s d : FPath) (h : (s, d) ∈ renamesOf t) : isTemp d = false ∧ isTemp s = true := by
  obtain ⟨ds, hf⟩ := discipline_iff.mp hd
  have I : FsInv isTemp entry old t ds (old.run t) := fsInv_of_discRun hf
  obtain ⟨h1, _, h3, _, _⟩ := I.ren s d h
  exact ⟨h1, I.created s h3⟩

/-- two renames onto the same final path carry the same complete content (the checker in fact
    rejects a second rename onto `d`; this is the consequence relevant to `atomic_final`: the
    content found at `d` does not depend on the choice of `src`) -/
theorem rename_target_unique (hd : Discipline isTemp entry (old.files.map (·.1)) t = true)
    (k : Nat) (s₁ s₂ d : FPath) (h₁ : (s₁, d) ∈ renamesOf (t.take k))
    (h₂ : (s₂, d) ∈ renamesOf (t.take k)) : allWritesTo s₁ t = allWritesTo s₂ t := by
  obtain ⟨ds, dsf, _, _, I⟩ := discipline_at hd k
  have e₁ := (I.ren s₁ d h₁).2.2.2.2
  have e₂ := (I.ren s₂ d h₂).2.2.2.2
  rw [allWritesTo_take_of_renamed hd k s₁ d h₁] at e₁
  rw [allWritesTo_take_of_renamed hd k s₂ d h₂] at e₂
  rw [e₁] at e₂
  exact Option.some.inj e₂

/-! ### 3. a temporary receives all its writes before it is renamed -/

theorem allWritesTo_take_of_rename_at
    (hd : Discipline isTemp entry (old.files.map (·.1)) t = true) (i : Nat) (src dst : FPath)
    (hi : t[i]? = some (.rename src dst)) :
    allWritesTo src (t.take i) = allWritesTo src t := by
  have hmem : (src, dst) ∈ renamesOf (t.take (i + 1)) := by
    rw [List.take_add_one, hi, renamesOf_append]
    exact List.mem_append_right _ (by simp)
  rw [← allWritesTo_take_of_renamed hd (i + 1) src dst hmem, List.take_add_one, hi,
    allWritesTo_append]
  simp

theorem writes_before_rename (hd : Discipline isTemp entry (old.files.map (·.1)) t = true) :
    ∀ (i j : Nat) (src dst : FPath) (tok : Nat),
      t[i]? = some (FsOp.rename src dst) → t[j]? = some (FsOp.write src tok) → j < i := by
  intro i j src dst tok hi hj
  have hall := allWritesTo_take_of_rename_at hd i src dst hi
  -- `t = take i ++ drop i`, and the writes to `src` of `drop i` are empty
  have hsplit : allWritesTo src t = allWritesTo src (t.take i) ++ allWritesTo src (t.drop i) := by
    rw [← allWritesTo_append, List.take_append_drop]
  have hnil : allWritesTo src (t.drop i) = [] := by
    rw [← hall] at hsplit
    exact List.self_eq_append_right.mp hsplit
  by_cases hji : j < i
  · exact hji
  · exfalso
    have hmem : FsOp.write src tok ∈ t.drop i := by
      have hj' : (t.drop i)[j - i]? = some (.write src tok) := by
        rw [List.getElem?_drop]
        have : i + (j - i) = j := by omega
        rw [this]; exact hj
      exact List.mem_of_getElem? hj'
    have := mem_allWritesTo.mpr hmem
    rw [hnil] at this
    cases this

/-- writes only ever touch temporaries of this run (the written path satisfies `isTemp`, is live
    at that point, hence is never a final path) -/
theorem write_is_temp (hd : Discipline isTemp entry (old.files.map (·.1)) t = true)
    (j : Nat) (p : FPath) (tok : Nat) (hj : t[j]? = some (.write p tok)) : isTemp p = true := by
  obtain ⟨ds, dsf, _, h2, I⟩ := discipline_at hd j
  have hlt : j < t.length := by
    rcases Nat.lt_or_ge j t.length with h | h
    · exact h
    · rw [List.getElem?_eq_none h] at hj; cases hj
  have hdrop : t.drop j = .write p tok :: t.drop (j + 1) := by
    rw [List.drop_eq_getElem_cons hlt]
    congr 1
    rw [List.getElem?_eq_getElem hlt] at hj
    exact Option.some.inj hj
  rw [hdrop] at h2
  obtain ⟨s1, h3, _⟩ := discRun_cons h2
  obtain ⟨hl, _⟩ := discStep_write h3
  exact I.created p (I.live p hl).1

/-! ### 4. the content of a live temporary -/

theorem temp_content (_hd : Discipline isTemp entry (old.files.map (·.1)) t = true) (k : Nat)
    (ds : DiscSt)
    (hk : discRun isTemp entry (old.files.map (·.1)) ⟨[], [], [], false⟩ (t.take k) = some ds) :
    ∀ p, p ∈ ds.live →
      isTemp p = true ∧ (old.run (t.take k)).get p = some (allWritesTo p (t.take k)) := by
  intro p hp
  have I : FsInv isTemp entry old (t.take k) ds (old.run (t.take k)) := fsInv_of_discRun hk
  obtain ⟨hc, hg⟩ := I.live p hp
  exact ⟨I.created p hc, hg⟩

/-! ### 7. error return: every still-live temporary unlinked -/

theorem no_stray_temps (_hd : Discipline isTemp entry (old.files.map (·.1)) t = true)
    (dsf : DiscSt)
    (hrun : discRun isTemp entry (old.files.map (·.1)) ⟨[], [], [], false⟩ t = some dsf)
    (hfin : dsf.live = []) :
    ∀ p, isTemp p = true → p ∈ dsf.created → (old.run t).get p = none := by
  intro p _ hp
  have I : FsInv isTemp entry old t dsf (old.run t) := fsInv_of_discRun hrun
  exact I.dead p hp (by rw [hfin]; simp)

/-- "created by this run" is what it says: every `create p` of the trace puts `p` in the final
    `created` set (and `p` is a temporary), so `no_stray_temps` covers every file the run created -/
theorem created_of_create (dsf : DiscSt)
    (hrun : discRun isTemp entry (old.files.map (·.1)) ⟨[], [], [], false⟩ t = some dsf) :
    ∀ p, FsOp.create p ∈ t → p ∈ dsf.created ∧ isTemp p = true := by
  intro p hp
  have I : FsInv isTemp entry old t dsf (old.run t) := fsInv_of_discRun hrun
  have := (discRun_created hrun).2 p hp
  exact ⟨this, I.created p this⟩

end Main

/-! ## 8. non-vacuity -/

section Example

def exIsTemp : FPath → Bool := fun p => p.startsWith ".tmp"

def exTrace : List FsOp :=
  [.create ".tmpA", .write ".tmpA" 1, .write ".tmpA" 2, .rename ".tmpA" "out.jbkc",
   .create ".tmpB", .write ".tmpB" 3, .rename ".tmpB" "out.jbk"]

/-- the same operations with the entry-point renamed first -/
def exTraceBad : List FsOp :=
  [.create ".tmpA", .write ".tmpA" 1, .write ".tmpA" 2,
   .create ".tmpB", .write ".tmpB" 3, .rename ".tmpB" "out.jbk", .rename ".tmpA" "out.jbkc"]

/-- the example trace is accepted (no pre-existing path) -/
theorem exTrace_disciplined : Discipline exIsTemp "out.jbk" [] exTrace = true := by
  simp [Discipline, discRun, discStep, exIsTemp, exTrace]

/-- renaming the entry-point first is rejected -/
theorem exTraceBad_rejected : Discipline exIsTemp "out.jbk" [] exTraceBad = false := by
  simp [Discipline, discRun, discStep, exIsTemp, exTraceBad]

/-- so the main theorems apply to it: at every crash point `out.jbk` is absent or complete -/
example (k : Nat) :
    ((FSt.mk []).run (exTrace.take k)).get "out.jbk" = none ∨
      ((FSt.mk []).run (exTrace.take k)).get "out.jbk" = some [3] := by
  have hd : Discipline exIsTemp "out.jbk" ((FSt.mk []).files.map (·.1)) exTrace = true :=
    exTrace_disciplined
  rcases atomic_final hd k "out.jbk" (by simp [exIsTemp]) with h | ⟨src, hs, h⟩
  · left; rw [h]; rfl
  · right
    rw [h]
    have hs' : (src, "out.jbk") ∈ renamesOf exTrace := by
      have : renamesOf exTrace = renamesOf (exTrace.take k ++ exTrace.drop k) := by
        rw [List.take_append_drop]
      rw [this, renamesOf_append]; exact List.mem_append_left _ hs
    simp [renamesOf, exTrace] at hs'
    subst hs'
    simp [allWritesTo, exTrace]

end Example

end Jubako
