/-
File-level round trip of the content pack: `contentGet` on the bytes `contentPackWrite` produces
returns the bytes of the i-th inserted item, for every item list and every arrival order of the
clusters.
-/
import JubakoModel.Model.ContentSpec
import JubakoModel.Lemmas.Creator
import JubakoModel.Lemmas.Cluster
import JubakoModel.Lemmas.Container

namespace Jubako

set_option linter.unusedSimpArgs false
set_option linter.unusedVariables false
set_option maxRecDepth 8000

/-! ### 1. the written file, segment by segment -/

/-- bytes of the clusters laid out in order -/
def cfBytes (codec : Codec) (cs : List Cluster) : Bytes :=
  (cs.map (fun c => (c.encode codec).1)).flatten

/-- (cluster id, (tail position, tail size)) of the clusters laid out in order from `pos` -/
def cfAddrs (codec : Codec) : List Cluster → Nat → List (Nat × (Nat × Nat))
  | [], _ => []
  | c :: cs, pos =>
    (c.idx, (pos + (c.encode codec).2.1, (c.encode codec).2.2)) ::
      cfAddrs codec cs (pos + (c.encode codec).1.length)

theorem layoutClusters_eq (codec : Codec) (cs : List Cluster) (pos : Nat) :
    layoutClusters codec cs pos = (cfBytes codec cs, cfAddrs codec cs pos) := by
  induction cs generalizing pos with
  | nil => rfl
  | cons c cs ih =>
    simp only [layoutClusters, ih, cfBytes, cfAddrs, List.map_cons, List.flatten_cons]

theorem cfBytes_nil (codec : Codec) : cfBytes codec [] = [] := rfl

theorem cfBytes_cons (codec : Codec) (c : Cluster) (cs : List Cluster) :
    cfBytes codec (c :: cs) = (c.encode codec).1 ++ cfBytes codec cs := by
  simp [cfBytes]

theorem cfBytes_append (codec : Codec) (a b : List Cluster) :
    cfBytes codec (a ++ b) = cfBytes codec a ++ cfBytes codec b := by
  simp [cfBytes]

/-- data of the cluster pointer table -/
def cfPtrData (codec : Codec) (arrival : List Cluster) : Bytes :=
  ((List.range arrival.length).map (fun i =>
    sizedOffsetEncode (lookupAddr (cfAddrs codec arrival 128) i).1
      (lookupAddr (cfAddrs codec arrival 128) i).2)).flatten

/-- data of the content info table -/
def cfInfoData (infos : List (Nat × Nat)) : Bytes :=
  (infos.map (fun i => contentInfoEncode i.1 i.2)).flatten

def cfClusterPtrPos (codec : Codec) (arrival : List Cluster) : Nat :=
  128 + (cfBytes codec arrival).length

def cfContentPtrPos (codec : Codec) (arrival : List Cluster) : Nat :=
  cfClusterPtrPos codec arrival + (block (cfPtrData codec arrival)).length

def cfCheckPos (codec : Codec) (arrival : List Cluster) (infos : List (Nat × Nat)) : Nat :=
  cfContentPtrPos codec arrival + (block (cfInfoData infos)).length

/-- the content header `contentPackWrite` writes -/
def cfCH (codec : Codec) (m : ContentPackMeta) (arrival : List Cluster) (infos : List (Nat × Nat)) :
    ContentHeader :=
  ⟨cfContentPtrPos codec arrival, cfClusterPtrPos codec arrival, infos.length, arrival.length,
    m.freeData⟩

/-- the pack header `contentPackWrite` writes -/
def cfHeader (codec : Codec) (m : ContentPackMeta) (arrival : List Cluster)
    (infos : List (Nat × Nat)) : PackHeader :=
  ⟨PackKind.content, m.vendor, Consts.versionMajor, Consts.versionMinor, m.uuid, 0,
    cfCheckPos codec arrival infos + 37 + 64, cfCheckPos codec arrival infos⟩

/-- everything after the info table: check block and mirrored tail -/
def cfTrailer (H : Bytes → Bytes) (codec : Codec) (m : ContentPackMeta) (arrival : List Cluster)
    (infos : List (Nat × Nat)) : Bytes :=
  block (CheckInfo.blake3 (H (block (cfHeader codec m arrival infos).encode ++
    (block (cfCH codec m arrival infos).encode ++ cfBytes codec arrival ++
      block (cfPtrData codec arrival) ++ block (cfInfoData infos))))).encode ++
  (block (cfHeader codec m arrival infos).encode).reverse

theorem contentPackWrite_eq (H : Bytes → Bytes) (codec : Codec) (m : ContentPackMeta)
    (arrival : List Cluster) (infos : List (Nat × Nat)) :
    contentPackWrite H codec m arrival infos =
      block (cfHeader codec m arrival infos).encode ++
        (block (cfCH codec m arrival infos).encode ++ (cfBytes codec arrival ++
          (block (cfPtrData codec arrival) ++ (block (cfInfoData infos) ++
            cfTrailer H codec m arrival infos)))) := by
  unfold contentPackWrite
  rw [layoutClusters_eq]
  simp only [framePack, packTail, cfTrailer, cfHeader, cfCH, cfCheckPos, cfContentPtrPos,
    cfClusterPtrPos, cfPtrData, cfInfoData, List.append_assoc, id]

/-! ### 2. fixed-width tables -/

theorem flatten_fixed_length {α : Type} (l : List α) (f : α → Bytes) (k : Nat)
    (hf : ∀ x, (f x).length = k) : ((l.map f).flatten).length = k * l.length := by
  induction l with
  | nil => simp
  | cons a l ih =>
    simp only [List.map_cons, List.flatten_cons, List.length_append, ih, hf, List.length_cons]
    rw [Nat.mul_add]; omega

theorem slice_flatten_fixed {α : Type} (l : List α) (f : α → Bytes) (k : Nat)
    (hf : ∀ x, (f x).length = k) (i : Nat) (d : α) (hi : i < l.length) :
    slice ((l.map f).flatten) (k * i) k = f (l.getD i d) := by
  induction l generalizing i with
  | nil => simp at hi
  | cons a l ih =>
    cases i with
    | zero =>
      simp only [List.map_cons, List.flatten_cons, Nat.mul_zero, List.getD_cons_zero]
      exact slice_here _ _ _ (hf a)
    | succ i =>
      have hi' : i < l.length := by simpa using hi
      simp only [List.map_cons, List.flatten_cons, List.getD_cons_succ]
      rw [slice_skip _ _ _ _ (by rw [hf, Nat.mul_succ]; omega), hf,
        show k * (i + 1) - k = k * i by rw [Nat.mul_succ]; omega]
      exact ih i hi'

theorem cfInfoData_length (infos : List (Nat × Nat)) :
    (cfInfoData infos).length = 4 * infos.length :=
  flatten_fixed_length infos _ 4 (fun x => contentInfoEncode_length x.1 x.2)

theorem cfInfoData_slice (infos : List (Nat × Nat)) (i : Nat) (hi : i < infos.length) :
    slice (cfInfoData infos) (4 * i) 4 =
      contentInfoEncode (infos.getD i (0, 0)).1 (infos.getD i (0, 0)).2 :=
  slice_flatten_fixed infos _ 4 (fun x => contentInfoEncode_length x.1 x.2) i (0, 0) hi

theorem cfPtrData_length (codec : Codec) (arrival : List Cluster) :
    (cfPtrData codec arrival).length = 8 * arrival.length := by
  have := flatten_fixed_length (List.range arrival.length) (fun i =>
    sizedOffsetEncode (lookupAddr (cfAddrs codec arrival 128) i).1
      (lookupAddr (cfAddrs codec arrival 128) i).2) 8 (fun x => sizedOffsetEncode_length _ _)
  rw [List.length_range] at this
  exact this

theorem cfPtrData_slice (codec : Codec) (arrival : List Cluster) (cl : Nat)
    (hcl : cl < arrival.length) :
    slice (cfPtrData codec arrival) (8 * cl) 8 =
      sizedOffsetEncode (lookupAddr (cfAddrs codec arrival 128) cl).1
        (lookupAddr (cfAddrs codec arrival 128) cl).2 := by
  have := slice_flatten_fixed (List.range arrival.length) (fun i =>
    sizedOffsetEncode (lookupAddr (cfAddrs codec arrival 128) i).1
      (lookupAddr (cfAddrs codec arrival 128) i).2) 8 (fun x => sizedOffsetEncode_length _ _)
    cl 0 (by rw [List.length_range]; exact hcl)
  unfold cfPtrData
  rw [this]
  have hg : (List.range arrival.length).getD cl 0 = cl := by
    rw [List.getD_eq_getElem?_getD, List.getElem?_range hcl]; rfl
  rw [hg]

/-! ### 3. content header codec -/

theorem ContentHeader.encode_length (h : ContentHeader) (hf : h.freeData.length = 24) :
    h.encode.length = 60 := by
  simp [ContentHeader.encode, leBytes_length, zeros_length, hf]

theorem ContentHeader.decode_encode (h : ContentHeader) (h1 : h.contentPtrPos < 2 ^ 64)
    (h2 : h.clusterPtrPos < 2 ^ 64) (h3 : h.contentCount < 2 ^ 32) (h4 : h.clusterCount < 2 ^ 32)
    (hf : h.freeData.length = 24) : ContentHeader.decode h.encode = .ok h := by
  have hlen := ContentHeader.encode_length h hf
  obtain ⟨cp, kp, cc, kc, fd⟩ := h
  simp only at h1 h2 h3 h4 hf
  have e : ContentHeader.encode ⟨cp, kp, cc, kc, fd⟩ =
      leBytes cp 8 ++ (leBytes kp 8 ++ (leBytes cc 4 ++ (leBytes kc 4 ++ (zeros 12 ++ fd)))) := by
    simp [ContentHeader.encode]
  rw [e] at hlen ⊢
  generalize hbs : (leBytes cp 8 ++ (leBytes kp 8 ++ (leBytes cc 4 ++ (leBytes kc 4 ++
    (zeros 12 ++ fd))))) = bs at hlen ⊢
  have s1 : slice bs 0 8 = leBytes cp 8 := by subst hbs; seg_simp [hf]
  have s2 : slice bs 8 8 = leBytes kp 8 := by subst hbs; seg_simp [hf]
  have s3 : slice bs 16 4 = leBytes cc 4 := by subst hbs; seg_simp [hf]
  have s4 : slice bs 20 4 = leBytes kc 4 := by subst hbs; seg_simp [hf]
  have s5 : slice bs 36 24 = fd := by subst hbs; seg_simp [hf]
  have h8 : (256 : Nat) ^ 8 = 2 ^ 64 := by decide
  have h32 : (256 : Nat) ^ 4 = 2 ^ 32 := by decide
  simp only [ContentHeader.decode, hlen, s1, s2, s3, s4, s5,
    leNat_leBytes_of_lt _ 8 (h8 ▸ h1), leNat_leBytes_of_lt _ 8 (h8 ▸ h2),
    leNat_leBytes_of_lt _ 4 (h32 ▸ h3), leNat_leBytes_of_lt _ 4 (h32 ▸ h4)]
  simp

/-! ### 4. opening the written file -/

/-- field sizes the pack header / content header encodings require -/
def ContentPackMeta.WF (m : ContentPackMeta) : Prop :=
  m.vendor.length = 4 ∧ m.uuid.length = 16 ∧ m.freeData.length = 24

theorem cfHeader_WF (codec : Codec) (m : ContentPackMeta) (arrival : List Cluster)
    (infos : List (Nat × Nat)) (hm : m.WF)
    (hs : cfCheckPos codec arrival infos + 37 + 64 < 2 ^ 64) :
    (cfHeader codec m arrival infos).WF := by
  refine ⟨hm.1, hm.2.1, ?_, ?_, ?_, hs, ?_⟩
  · show Consts.versionMajor < 256; decide
  · show Consts.versionMinor < 256; decide
  · show 0 < 256; decide
  show cfCheckPos codec arrival infos < 2 ^ 64
  omega

theorem cfCheckPos_eq (codec : Codec) (arrival : List Cluster) (infos : List (Nat × Nat)) :
    cfCheckPos codec arrival infos =
      128 + (cfBytes codec arrival).length + (8 * arrival.length + 4) + (4 * infos.length + 4) := by
  simp only [cfCheckPos, cfContentPtrPos, cfClusterPtrPos, block_length, cfPtrData_length,
    cfInfoData_length]

theorem contentPackWrite_length (H : Bytes → Bytes) (codec : Codec) (m : ContentPackMeta)
    (arrival : List Cluster) (infos : List (Nat × Nat)) (hm : m.WF) :
    (contentPackWrite H codec m arrival infos).length =
      cfCheckPos codec arrival infos + (cfTrailer H codec m arrival infos).length := by
  have hel : (cfHeader codec m arrival infos).encode.length = 60 := by
    simp [PackHeader.encode, cfHeader, zeros_length, leBytes_length, Consts.headerPad1,
      Consts.headerPad2, hm.1, hm.2.1]
  rw [contentPackWrite_eq, cfCheckPos_eq]
  simp only [List.length_append, block_length, hel,
    ContentHeader.encode_length (cfCH codec m arrival infos) hm.2.2, cfPtrData_length,
    cfInfoData_length]
  omega

theorem cfCheckPos_le_length (H : Bytes → Bytes) (codec : Codec) (m : ContentPackMeta)
    (arrival : List Cluster) (infos : List (Nat × Nat)) (hm : m.WF) :
    cfCheckPos codec arrival infos ≤ (contentPackWrite H codec m arrival infos).length := by
  rw [contentPackWrite_length H codec m arrival infos hm]; omega

/-- `ContentPack::new` on the written file returns the two headers that were written, and the two
    tables read back -/
theorem contentOpen_contentPackWrite (H : Bytes → Bytes) (codec : Codec) (m : ContentPackMeta)
    (arrival : List Cluster) (infos : List (Nat × Nat)) (hm : m.WF)
    (hc1 : infos.length < 2 ^ 32) (hc2 : arrival.length < 2 ^ 32)
    (hs : cfCheckPos codec arrival infos + 37 + 64 < 2 ^ 64) :
    contentOpen (contentPackWrite H codec m arrival infos) =
        .ok (cfHeader codec m arrival infos, cfCH codec m arrival infos) ∧
    readBlock (contentPackWrite H codec m arrival infos) (cfContentPtrPos codec arrival)
        (4 * infos.length) = .ok (cfInfoData infos) ∧
    readBlock (contentPackWrite H codec m arrival infos) (cfClusterPtrPos codec arrival)
        (8 * arrival.length) = .ok (cfPtrData codec arrival) := by
  have hWF := cfHeader_WF codec m arrival infos hm hs
  have hel := PackHeader.encode_length _ hWF
  have hcl := ContentHeader.encode_length (cfCH codec m arrival infos) hm.2.2
  have hcp := cfCheckPos_eq codec arrival infos
  rw [contentPackWrite_eq]
  generalize hT : cfTrailer H codec m arrival infos = T
  generalize hHB : block (cfHeader codec m arrival infos).encode = HB
  generalize hCB : block (cfCH codec m arrival infos).encode = CB
  have hHBl : HB.length = 64 := by rw [← hHB, block_length, hel]
  have hCBl : CB.length = 64 := by rw [← hCB, block_length, hcl]
  -- the info table
  have hinfo : readBlock (HB ++ (CB ++ (cfBytes codec arrival ++ (block (cfPtrData codec arrival) ++
      (block (cfInfoData infos) ++ T))))) (cfContentPtrPos codec arrival) (4 * infos.length) =
      .ok (cfInfoData infos) := by
    have := readBlock_block' (HB ++ (CB ++ (cfBytes codec arrival ++ block (cfPtrData codec arrival))))
      (cfInfoData infos) T
    simp only [List.length_append, hHBl, hCBl, cfInfoData_length, List.append_assoc] at this
    rw [show cfContentPtrPos codec arrival =
      64 + (64 + ((cfBytes codec arrival).length + (block (cfPtrData codec arrival)).length)) by
        simp only [cfContentPtrPos, cfClusterPtrPos]; omega]
    exact this
  have hptr : readBlock (HB ++ (CB ++ (cfBytes codec arrival ++ (block (cfPtrData codec arrival) ++
      (block (cfInfoData infos) ++ T))))) (cfClusterPtrPos codec arrival) (8 * arrival.length) =
      .ok (cfPtrData codec arrival) := by
    have := readBlock_block' (HB ++ (CB ++ cfBytes codec arrival))
      (cfPtrData codec arrival) (block (cfInfoData infos) ++ T)
    simp only [List.length_append, hHBl, hCBl, cfPtrData_length, List.append_assoc] at this
    rw [show cfClusterPtrPos codec arrival = 64 + (64 + (cfBytes codec arrival).length) by
        simp only [cfClusterPtrPos]; omega]
    exact this
  refine ⟨?_, hinfo, hptr⟩
  have hoh := openHeader_block (cfHeader codec m arrival infos) (CB ++ (cfBytes codec arrival ++
    (block (cfPtrData codec arrival) ++ (block (cfInfoData infos) ++ T)))) hWF ⟨rfl, rfl⟩
  rw [show (cfHeader codec m arrival infos).kind = PackKind.content from rfl, hHB] at hoh
  have hcb : readBlock (HB ++ (CB ++ (cfBytes codec arrival ++ (block (cfPtrData codec arrival) ++
      (block (cfInfoData infos) ++ T))))) 64 60 = .ok (cfCH codec m arrival infos).encode := by
    have := readBlock_block' HB (cfCH codec m arrival infos).encode (cfBytes codec arrival ++
      (block (cfPtrData codec arrival) ++ (block (cfInfoData infos) ++ T)))
    rw [hCB, hHBl, hcl] at this
    exact this
  have hch : ContentHeader.decode (cfCH codec m arrival infos).encode =
      .ok (cfCH codec m arrival infos) := by
    apply ContentHeader.decode_encode _ _ _ hc1 hc2 hm.2.2
    · show cfContentPtrPos codec arrival < 2 ^ 64
      simp only [cfCheckPos] at hs; omega
    · show cfClusterPtrPos codec arrival < 2 ^ 64
      simp only [cfCheckPos, cfContentPtrPos] at hs; omega
  unfold contentOpen
  rw [hoh, Outcome.ok_bind_eq, hcb, Outcome.ok_bind_eq, hch, Outcome.ok_bind_eq]
  rw [show (cfCH codec m arrival infos).contentPtrPos = cfContentPtrPos codec arrival from rfl,
    show (cfCH codec m arrival infos).contentCount = infos.length from rfl,
    show (cfCH codec m arrival infos).clusterPtrPos = cfClusterPtrPos codec arrival from rfl,
    show (cfCH codec m arrival infos).clusterCount = arrival.length from rfl,
    hinfo, Outcome.ok_bind_eq, hptr, Outcome.ok_bind_eq]

/-! ### 5. where a cluster lands -/

theorem lookupAddr_cfAddrs (codec : Codec) (l1 : List Cluster) (c : Cluster) (l2 : List Cluster)
    (pos : Nat) (hn : ∀ x ∈ l1, x.idx ≠ c.idx) :
    lookupAddr (cfAddrs codec (l1 ++ c :: l2) pos) c.idx =
      (pos + (cfBytes codec l1).length + (c.encode codec).2.1, (c.encode codec).2.2) := by
  induction l1 generalizing pos with
  | nil =>
    simp [lookupAddr, cfAddrs, cfBytes]
  | cons a l1 ih =>
    have hne : a.idx ≠ c.idx := hn a (List.mem_cons_self ..)
    have ih' := ih (pos + (a.encode codec).1.length) (fun x hx => hn x (List.mem_cons_of_mem _ hx))
    unfold lookupAddr at ih' ⊢
    simp only [List.cons_append, cfAddrs, List.find?_cons, beq_iff_eq, hne, cfBytes_cons,
      List.length_append]
    have hf : (a.idx == c.idx) = false := by simpa using hne
    rw [hf]
    simp only [Nat.add_assoc] at ih' ⊢
    exact ih'

theorem ClusterTail.encode_length (t : ClusterTail) :
    t.encode.length = 4 + 2 * t.offsetSize + t.offsets.length * t.offsetSize := by
  have := flatten_fixed_length t.offsets (fun o => leBytes o t.offsetSize) t.offsetSize
    (fun x => leBytes_length _ _)
  simp only [ClusterTail.encode, List.length_append, List.length_cons, List.length_nil,
    leBytes_length, this]
  rw [Nat.mul_comm t.offsetSize]
  omega

theorem Cluster.tail_encode_length_lt (c : Cluster) (cb raw : Nat) (hd : c.dataSize < 2 ^ 64)
    (hr : raw < 2 ^ 64) (hb : c.blobs.length ≤ 4095) :
    (c.tail cb raw).encode.length < 2 ^ 16 := by
  rw [ClusterTail.encode_length]
  have hw := tailWidth_le_8 c.dataSize raw hd hr
  have hl : (c.tail cb raw).offsets.length ≤ 4094 := by
    simp only [Cluster.tail, List.length_dropLast, endOffsets_length]; omega
  have hos : (c.tail cb raw).offsetSize = tailWidth c.dataSize raw := rfl
  rw [hos]
  have := Nat.mul_le_mul hl hw
  omega

theorem Cluster.encode_fst_length (codec : Codec) (c : Cluster) :
    (c.encode codec).1.length = (c.encode codec).2.1 + ((c.encode codec).2.2 + 4) := by
  rw [Cluster.encode_eq]
  simp only [List.length_append, block_length]

/-! ### 6. reading a content out of the written file -/

theorem contentGet_write_core (H : Bytes → Bytes) (codec : Codec) (hcodec : codec.Sound)
    (m : ContentPackMeta) (hm : m.WF) (arrival : List Cluster) (infos : List (Nat × Nat))
    (hnd : (arrival.map (·.idx)).Nodup)
    (hidx : ∀ c ∈ arrival, c.idx < arrival.length)
    (hbl : ∀ c ∈ arrival, 1 ≤ c.blobs.length ∧ c.blobs.length ≤ 4095)
    (hds : ∀ c ∈ arrival, c.dataSize < 2 ^ 64)
    (hbyte : codec.byte ≤ 3)
    (hcb : ∀ c ∈ arrival, c.compressed = true → codec.byte ≠ 0)
    (hcount : infos.length < 2 ^ 32) (hncl : arrival.length ≤ 2 ^ 20)
    (hsize : (contentPackWrite H codec m arrival infos).length < 2 ^ 48)
    (i : Nat) (hi : i < infos.length) (c : Cluster) (hc : c ∈ arrival)
    (hci : c.idx = (infos.getD i (0, 0)).1) (d : Bytes)
    (hblob : c.blobs[(infos.getD i (0, 0)).2]? = some d) :
    contentGet (fun _ => codec.decompress) (contentPackWrite H codec m arrival infos) i =
      .ok (some d) := by
  have hcpl := cfCheckPos_le_length H codec m arrival infos hm
  obtain ⟨hopen, hinfo, hptr⟩ := contentOpen_contentPackWrite H codec m arrival infos hm hcount
    (by omega) (by omega)
  have hsl := cfInfoData_slice infos i hi
  generalize hinf : infos.getD i (0, 0) = info at hci hblob hsl
  obtain ⟨ci, k⟩ := info
  simp only at hci hblob hsl
  subst hci
  obtain ⟨hk, hkd⟩ := List.getElem?_eq_some_iff.1 hblob
  obtain ⟨hb1, hb2⟩ := hbl c hc
  have hcidx := hidx c hc
  -- content info decodes
  have hdi : contentInfoDecode (slice (cfInfoData infos) (4 * i) 4) = (c.idx, k) := by
    rw [hsl]; exact contentInfo_roundtrip _ _ (by omega) (by omega)
  -- position of the cluster
  obtain ⟨l1, l2, harr⟩ := List.append_of_mem hc
  have hne : ∀ x ∈ l1, x.idx ≠ c.idx := by
    have := hnd
    rw [harr, List.map_append, List.map_cons, List.nodup_append] at this
    intro x hx
    exact this.2.2 x.idx (List.mem_map_of_mem hx) c.idx (List.mem_cons_self ..)
  have hso : lookupAddr (cfAddrs codec arrival 128) c.idx =
      (128 + (cfBytes codec l1).length + (c.encode codec).2.1, (c.encode codec).2.2) := by
    rw [harr]; exact lookupAddr_cfAddrs codec l1 c l2 128 hne
  have hcbs : cfBytes codec arrival =
      cfBytes codec l1 ++ ((c.encode codec).1 ++ cfBytes codec l2) := by
    rw [harr, cfBytes_append, cfBytes_cons]
  have hWF := cfHeader_WF codec m arrival infos hm (by omega)
  have hel := PackHeader.encode_length _ hWF
  have hcl := ContentHeader.encode_length (cfCH codec m arrival infos) hm.2.2
  have hf : contentPackWrite H codec m arrival infos =
      (block (cfHeader codec m arrival infos).encode ++
        (block (cfCH codec m arrival infos).encode ++ cfBytes codec l1)) ++ (c.encode codec).1 ++
      (cfBytes codec l2 ++ (block (cfPtrData codec arrival) ++ (block (cfInfoData infos) ++
            cfTrailer H codec m arrival infos))) := by
    rw [contentPackWrite_eq, hcbs]
    simp only [List.append_assoc]
  generalize hA : (block (cfHeader codec m arrival infos).encode ++
        (block (cfCH codec m arrival infos).encode ++ cfBytes codec l1)) = A at hf
  generalize hZ : (cfBytes codec l2 ++ (block (cfPtrData codec arrival) ++ (block (cfInfoData infos) ++
            cfTrailer H codec m arrival infos))) = Z at hf
  have hAl : A.length = 128 + (cfBytes codec l1).length := by
    rw [← hA]; simp only [List.length_append, block_length, hel, hcl]; omega
  rw [← hAl] at hso
  have hflen : (contentPackWrite H codec m arrival infos).length =
      A.length + ((c.encode codec).2.1 + ((c.encode codec).2.2 + 4)) + Z.length := by
    rw [hf, List.length_append, List.length_append, Cluster.encode_fst_length]
  have hplen : (c.encode codec).2.1 =
      (if c.compressed then (codec.compress c.data).length else c.data.length) := by
    rw [Cluster.encode_eq]; exact Cluster.payload_length codec c
  have hdsc := hds c hc
  have hw : c.WFTail (if c.compressed then codec.byte else 0)
      (if c.compressed then (codec.compress c.data).length else c.data.length) := by
    rw [← hplen]
    refine ⟨hb1, by omega, ?_, hdsc, by omega, ?_⟩
    · split <;> omega
    · intro h0
      cases hcc : c.compressed with
      | true => rw [hcc] at h0; exact absurd h0 (hcb c hc hcc)
      | false => rw [hplen, hcc]; exact Cluster.data_length c
  have htl : (c.encode codec).2.2 < 2 ^ 16 :=
    Cluster.tail_encode_length_lt c _ _ hdsc (show (c.encode codec).2.1 < 2 ^ 64 by omega) hb2
  have hsod : sizedOffsetDecode (slice (cfPtrData codec arrival) (8 * c.idx) 8) =
      (A.length + (c.encode codec).2.1, (c.encode codec).2.2) := by
    rw [cfPtrData_slice codec arrival c.idx hcidx, hso]
    exact sizedOffset_roundtrip _ _ (by omega) htl
  have hcat := clusterAt_encode codec c A Z hw
  have hpay := payload_slice codec c A Z
  rw [← hf] at hcat hpay
  generalize hF : contentPackWrite H codec m arrival infos = F at hopen hinfo hptr hcat hpay
  unfold contentGet
  rw [hopen]
  simp only [Outcome.ok_bind]
  rw [show (cfCH codec m arrival infos).contentPtrPos = cfContentPtrPos codec arrival from rfl,
    show (cfCH codec m arrival infos).contentCount = infos.length from rfl,
    show (cfCH codec m arrival infos).clusterPtrPos = cfClusterPtrPos codec arrival from rfl,
    show (cfCH codec m arrival infos).clusterCount = arrival.length from rfl,
    if_neg (by omega), hinfo]
  simp only [Outcome.ok_bind, hdi]
  rw [if_neg (by omega), hptr]
  simp only [Outcome.ok_bind, hsod, hcat]
  rw [show (c.tail (if c.compressed = true then codec.byte else 0) (c.encode codec).2.1).rawSize =
    (c.encode codec).2.1 from rfl, hpay,
    show (c.tail (if c.compressed = true then codec.byte else 0) (c.encode codec).2.1).comp =
    (if c.compressed = true then codec.byte else 0) from rfl,
    show (c.tail (if c.compressed = true then codec.byte else 0) (c.encode codec).2.1).dataSize =
    c.dataSize from rfl]
  have hbo := blobOf_tail c _ _ hw k hk
  rw [← hplen] at hbo
  have hget : c.blobs.getD k [] = d := by
    rw [List.getD_eq_getElem?_getD, hblob]; rfl
  rw [hget] at hbo
  cases hcc : c.compressed with
  | false =>
    rw [hcc] at hbo
    simp only [Bool.false_eq_true, if_false, if_true] at hbo
    simp only [Bool.false_eq_true, if_false, if_true, hbo, Outcome.ok_bind]
  | true =>
    rw [hcc] at hbo
    simp only [if_true] at hbo
    have hnz := hcb c hc hcc
    simp only [if_true, hnz, if_false, hcodec c.data, Cluster.data_length, Nat.lt_irrefl]
    rw [← Cluster.data_length, List.take_length, hbo]
    simp only [Outcome.ok_bind]

theorem contentGet_write_none (H : Bytes → Bytes) (codec : Codec) (m : ContentPackMeta) (hm : m.WF)
    (arrival : List Cluster) (infos : List (Nat × Nat))
    (hcount : infos.length < 2 ^ 32) (hncl : arrival.length ≤ 2 ^ 20)
    (hsize : (contentPackWrite H codec m arrival infos).length < 2 ^ 48)
    (dec : Nat → Bytes → Option Bytes) (i : Nat) (hi : infos.length ≤ i) :
    contentGet dec (contentPackWrite H codec m arrival infos) i = .ok none := by
  have hcpl := cfCheckPos_le_length H codec m arrival infos hm
  obtain ⟨hopen, -, -⟩ := contentOpen_contentPackWrite H codec m arrival infos hm hcount
    (by omega) (by omega)
  unfold contentGet
  rw [hopen]
  simp only [Outcome.ok_bind]
  rw [show (cfCH codec m arrival infos).contentCount = infos.length from rfl, if_pos hi]

/-! ### 7. two more invariants of the creator: where compressed clusters come from, how big
    clusters are -/

/-- total number of bytes inserted -/
def totalSize (items : List Item) : Nat := (items.map (fun it => it.data.length)).sum

theorem totalSize_append (a b : List Item) : totalSize (a ++ b) = totalSize a + totalSize b := by
  simp [totalSize]

structure CreatorSizeInv (s : Creator) (items : List Item) : Prop where
  comp_origin : ∀ c ∈ s.allClusters, c.compressed = true → ∃ it ∈ items, it.comp = true
  data_le : ∀ c ∈ s.allClusters, c.dataSize ≤ totalSize items

theorem creatorSizeInv_init : CreatorSizeInv Creator.init [] := by
  constructor <;> simp [Creator.init, Creator.allClusters]

theorem creatorSizeInv_add (s : Creator) (items : List Item) (it : Item) (h : CreatorInv s items)
    (h2 : CreatorSizeInv s items) : CreatorSizeInv (s.add it).1 (items ++ [it]) := by
  have hts : totalSize (items ++ [it]) = totalSize items + it.data.length := by
    simp [totalSize]
  rcases add_step s it h.raw_kind h.comp_kind with
    ⟨-, -, hperm⟩ | ⟨c, l1, l2, hall, hall', -, hkind, -, -⟩
  · have hmem : ∀ x, x ∈ (s.add it).1.allClusters ↔
        x ∈ s.allClusters ∨ x = ⟨s.next, it.comp, [it.data]⟩ := by
      intro x; rw [hperm.mem_iff]; simp
    constructor
    · intro x hx hxc
      rcases (hmem x).1 hx with hx | rfl
      · obtain ⟨j, hj, hjc⟩ := h2.comp_origin x hx hxc
        exact ⟨j, List.mem_append_left _ hj, hjc⟩
      · exact ⟨it, by simp, hxc⟩
    · intro x hx
      rw [hts]
      rcases (hmem x).1 hx with hx | rfl
      · have := h2.data_le x hx; omega
      · simp [Cluster.dataSize]
  · have hmem : ∀ x, x ∈ s.allClusters ↔ x ∈ l1 ∨ x = c ∨ x ∈ l2 := by
      intro x; rw [hall]; simp
    have hmem' : ∀ x, x ∈ (s.add it).1.allClusters ↔
        x ∈ l1 ∨ x = { c with blobs := c.blobs ++ [it.data] } ∨ x ∈ l2 := by
      intro x; rw [hall']; simp
    have hcin : c ∈ s.allClusters := (hmem c).2 (Or.inr (Or.inl rfl))
    constructor
    · intro x hx hxc
      rcases (hmem' x).1 hx with hx | rfl | hx
      · obtain ⟨j, hj, hjc⟩ := h2.comp_origin x ((hmem x).2 (Or.inl hx)) hxc
        exact ⟨j, List.mem_append_left _ hj, hjc⟩
      · refine ⟨it, by simp, ?_⟩
        rw [← hkind]; exact hxc
      · obtain ⟨j, hj, hjc⟩ := h2.comp_origin x ((hmem x).2 (Or.inr (Or.inr hx))) hxc
        exact ⟨j, List.mem_append_left _ hj, hjc⟩
    · intro x hx
      rw [hts]
      rcases (hmem' x).1 hx with hx | rfl | hx
      · have := h2.data_le x ((hmem x).2 (Or.inl hx)); omega
      · have := h2.data_le c hcin
        simp [Cluster.dataSize] at this ⊢
        omega
      · have := h2.data_le x ((hmem x).2 (Or.inr (Or.inr hx))); omega

theorem creatorSizeInv_addAll_gen (s : Creator) (pre items : List Item) (h : CreatorInv s pre)
    (h2 : CreatorSizeInv s pre) : CreatorSizeInv (s.addAll items) (pre ++ items) := by
  induction items generalizing s pre with
  | nil => simpa [addAll_nil] using h2
  | cons it items ih =>
    rw [addAll_cons]
    have := ih _ _ (creatorInv_add s pre it h) (creatorSizeInv_add s pre it h h2)
    simpa using this

theorem creatorSizeInv_addAll (items : List Item) :
    CreatorSizeInv (Creator.init.addAll items) items := by
  simpa using creatorSizeInv_addAll_gen Creator.init [] items creatorInv_init creatorSizeInv_init

/-! ### 8. the file-level round trip -/

/-- the reader's decompressor built from the codec: the compression byte of the tail selects the
    algorithm; the model has one codec per pack -/
def Codec.decompress' (codec : Codec) : Nat → Bytes → Option Bytes := fun _ => codec.decompress

/-- **File-level round trip of the content pack.**  For every insertion sequence `items`, and every
    order `arrival` in which the finalized clusters reach the writer, reading content `i` out of the
    bytes of the written pack returns exactly the bytes of the `i`-th inserted item.

    The composition is the one the correspondence check (`cp.encode`) runs: clusters and infos from
    `Creator.finalize`, file from `contentPackWrite`.

    Hypotheses, and the limit of the real code each corresponds to:
    * `hcodec` — the decompressor inverts the compressor;
    * `hbyte`, `hcomp` — the pack's compression byte is one of none/lz4/lzma/zstd (0..3), and a pack
      created with `Compression::None` (byte 0) never sends an item to a compressed cluster
      (`detect_compression` returns false);
    * `hm` — vendor 4 bytes, uuid 16 bytes, free data 24 bytes (fixed-size arrays in the code);
    * `hcount` — the content count is a `u32` in the content pack header;
    * `hncl` — a cluster id is 20 bits in a `ContentInfo` (`cluster << 12 | blob`);
    * `hdata` — sizes are `u64` (`data_size` of a cluster tail is at most 8 bytes);
    * `hsize` — a `SizedOffset` keeps 48 bits for the offset: every cluster tail must sit below
      2^48 in the pack. -/
theorem contentGet_contentPackWrite (H : Bytes → Bytes) (codec : Codec) (hcodec : codec.Sound)
    (hbyte : codec.byte ≤ 3) (m : ContentPackMeta) (hm : m.WF)
    (items : List Item) (arrival : List Cluster)
    (hp : arrival.Perm ((Creator.init.addAll items).finalize).1)
    (hcomp : codec.byte = 0 → ∀ it ∈ items, it.comp = false)
    (hcount : items.length < 2 ^ 32)
    (hncl : arrival.length ≤ 2 ^ 20)
    (hdata : totalSize items < 2 ^ 64)
    (hsize : (contentPackWrite H codec m arrival ((Creator.init.addAll items).finalize).2).length
      < 2 ^ 48)
    (i : Nat) (hi : i < items.length) :
    contentGet codec.decompress'
        (contentPackWrite H codec m arrival ((Creator.init.addAll items).finalize).2) i =
      .ok (some (items[i]).data) := by
  have inv := creatorInv_addAll items
  have inv2 := creatorSizeInv_addAll items
  obtain ⟨he1, he2⟩ := inv.finalize_eq
  rw [he1] at hp
  rw [he2] at hsize ⊢
  generalize hs : Creator.init.addAll items = s at inv inv2 hp hsize ⊢
  have hmem : ∀ c, c ∈ arrival ↔ c ∈ s.allClusters := fun c => hp.mem_iff
  obtain ⟨c, hc, hci, hblob, -⟩ := inv.located i hi
  have hgd : (items.getD i ⟨[], false⟩) = items[i] := by
    rw [List.getD_eq_getElem?_getD, List.getElem?_eq_getElem hi]; rfl
  rw [hgd] at hblob
  refine contentGet_write_core H codec hcodec m hm arrival s.infos ?_ ?_ ?_ ?_ hbyte ?_
    (by rw [inv.infos_len]; exact hcount) hncl hsize i (by rw [inv.infos_len]; exact hi) c
    ((hmem c).2 hc) hci _ hblob
  · exact (hp.map _).nodup_iff.2 inv.ids_nodup
  · intro x hx
    rw [hp.length_eq, inv.count]
    exact inv.ids_lt x ((hmem x).1 hx)
  · intro x hx
    have := inv.nonempty x ((hmem x).1 hx)
    simpa only [Consts.maxBlobsPerCluster] using this
  · intro x hx
    have := inv2.data_le x ((hmem x).1 hx)
    omega
  · intro x hx hxc h0
    obtain ⟨it, hit, hitc⟩ := inv2.comp_origin x ((hmem x).1 hx) hxc
    rw [hcomp h0 it hit] at hitc
    exact Bool.noConfusion hitc

/-- … and beyond the inserted contents the reader answers "no such content" -/
theorem contentGet_contentPackWrite_none (H : Bytes → Bytes) (codec : Codec)
    (m : ContentPackMeta) (hm : m.WF) (items : List Item) (arrival : List Cluster)
    (hcount : items.length < 2 ^ 32)
    (hncl : arrival.length ≤ 2 ^ 20)
    (hsize : (contentPackWrite H codec m arrival ((Creator.init.addAll items).finalize).2).length
      < 2 ^ 48)
    (i : Nat) (hi : items.length ≤ i) :
    contentGet codec.decompress'
        (contentPackWrite H codec m arrival ((Creator.init.addAll items).finalize).2) i =
      .ok none := by
  have hl := (creator_roundtrip items).1
  exact contentGet_write_none H codec m hm arrival _ (by rw [hl]; exact hcount) hncl hsize _ i
    (by rw [hl]; exact hi)

/-- the same statement with the arrival order given as a permutation of `allClusters` and the
    infos read off the creator state (`finalize` keeps everything: `finalize_eq_all`) -/
theorem contentGet_contentPackWrite_allClusters (H : Bytes → Bytes) (codec : Codec)
    (hcodec : codec.Sound) (hbyte : codec.byte ≤ 3) (m : ContentPackMeta) (hm : m.WF)
    (items : List Item) (arrival : List Cluster)
    (hp : arrival.Perm (Creator.init.addAll items).allClusters)
    (hcomp : codec.byte = 0 → ∀ it ∈ items, it.comp = false)
    (hcount : items.length < 2 ^ 32)
    (hncl : arrival.length ≤ 2 ^ 20)
    (hdata : totalSize items < 2 ^ 64)
    (hsize : (contentPackWrite H codec m arrival (Creator.init.addAll items).infos).length < 2 ^ 48)
    (i : Nat) (hi : i < items.length) :
    contentGet codec.decompress'
        (contentPackWrite H codec m arrival (Creator.init.addAll items).infos) i =
      .ok (some (items[i]).data) := by
  obtain ⟨he1, he2⟩ := finalize_eq_all items
  rw [← he1] at hp
  rw [← he2] at hsize ⊢
  exact contentGet_contentPackWrite H codec hcodec hbyte m hm items arrival hp hcomp hcount hncl
    hdata hsize i hi

/-! ### 9. non-vacuity: every hypothesis of the round trip holds on a concrete pack -/

namespace ContentFileExample

/-- a codec that is not the identity -/
def codec : Codec := ⟨1, List.reverse, fun b => some b.reverse⟩
def pmeta : ContentPackMeta := ⟨[1, 2, 3, 4], List.replicate 16 7, List.replicate 24 9⟩
/-- a raw cluster with two blobs (one empty) and a compressed cluster -/
def items : List Item := [⟨[1, 2], false⟩, ⟨[3, 4, 5], true⟩, ⟨[], false⟩]
def hash : Bytes → Bytes := fun _ => List.replicate 32 0
/-- the clusters reach the writer in the reverse of the hand-over order -/
def arrival : List Cluster := ((Creator.init.addAll items).finalize).1.reverse

theorem codec_sound : codec.Sound := by intro d; simp [codec]
theorem pmeta_wf : pmeta.WF := ⟨rfl, rfl, rfl⟩
theorem arrival_perm : arrival.Perm ((Creator.init.addAll items).finalize).1 := List.reverse_perm _
theorem arrival_not_identity : arrival ≠ ((Creator.init.addAll items).finalize).1 := by decide

theorem size_ok :
    (contentPackWrite hash codec pmeta arrival ((Creator.init.addAll items).finalize).2).length
      < 2 ^ 48 := by
  rw [contentPackWrite_length _ _ _ _ _ pmeta_wf, cfCheckPos_eq]
  simp only [cfTrailer, List.length_append, List.length_reverse, block_length, CheckInfo.encode,
    List.length_cons, hash, List.length_replicate]
  decide

/-- all hypotheses of `contentGet_contentPackWrite` are met: the compressed item reads back -/
example :
    contentGet codec.decompress'
        (contentPackWrite hash codec pmeta arrival ((Creator.init.addAll items).finalize).2) 1 =
      .ok (some [3, 4, 5]) :=
  contentGet_contentPackWrite hash codec codec_sound (by decide) pmeta pmeta_wf items arrival
    arrival_perm (by decide) (by decide) (by decide) (by decide) size_ok 1 (by decide)

example :
    contentGet codec.decompress'
        (contentPackWrite hash codec pmeta arrival ((Creator.init.addAll items).finalize).2) 3 =
      .ok none :=
  contentGet_contentPackWrite_none hash codec pmeta pmeta_wf items arrival (by decide) (by decide)
    size_ok 3 (by decide)

end ContentFileExample

end Jubako
