/-
`open_as_container_pack` (`reader/jubako.rs`) translated from the source on every run
(Generated/FuncsOpen.lean) is `blindOpen` of the container model.
-/
import JubakoModel.Model.Container
import JubakoModel.Generated.FuncsOpen
import JubakoModel.Lemmas.NoCrash

namespace Jubako

theorem Outcome.bind_ok'' {α β : Type} (a : α) (g : α → Outcome β) : (Outcome.ok a).bind g = g a := rfl

theorem Outcome.bind_assoc'' {α β γ : Type} (x : Outcome α) (f : α → Outcome β) (g : β → Outcome γ) :
    (x.bind f).bind g = x.bind (fun a => (f a).bind g) := by
  cases x <;> rfl

/-- **The blind open of the container model is the source's** (`open_as_container_pack` translated on every
    run, applied to the model's header parses, cut and container-pack open): a version mismatch of the header
    at 0 is reported first; a valid header at 0 wins; otherwise — unless the file is too small for a pack — the
    mirrored last 64 bytes are tried, a declared size beyond the file is a format error, and the pack starts at
    `file size − declared size`; a container pack is opened as such, any other pack becomes a one-pack
    container under its uuid. -/
theorem gen_blindOpen (f : Bytes) :
    blindOpen f =
      Generated.openAsContainerPack f.length
        (if f.length < 60 then .err .format else PackHeader.decode (f.take 60))
        (do let hd ← readBlock f 0 60; PackHeader.decode hd)
        (do let hd ← readBlock (slice f (f.length - 64) 64).reverse 0 60; PackHeader.decode hd)
        (fun origin size => if origin + size ≤ f.length then .ok (origin, size) else .err .format)
        (fun r => containerPackOpen f r.1 r.2)
        (fun r uuid => [⟨uuid, r.1, r.2⟩]) := by
  unfold blindOpen Generated.openAsContainerPack
  simp only [bind, Outcome.bind_assoc'']
  generalize (if f.length < 60 then Outcome.err ErrKind.format else PackHeader.decode (f.take 60)) = unchecked
  have hcNC : ((readBlock f 0 60).bind fun hd => PackHeader.decode hd).isValueOrError = true :=
    bind_no_crash _ _ (readBlock_no_crash _ _ _) (fun hd => packHeader_decode_no_crash hd)
  generalize ((readBlock f 0 60).bind fun hd => PackHeader.decode hd) = checked at hcNC
  generalize readBlock (slice f (f.length - 64) 64).reverse 0 60 = tb
  have body : ∀ (h : PackHeader) (origin : Nat),
      (if origin + h.packSize ≤ f.length then
          if h.kind = .container then containerPackOpen f origin h.packSize else .ok [⟨h.uuid, origin, h.packSize⟩]
        else .err .format) =
      (match h.kind with
        | PackKind.container =>
          ((if origin + h.packSize ≤ f.length then Outcome.ok (origin, h.packSize) else .err .format).bind fun r1 =>
            (containerPackOpen f r1.1 r1.2).bind fun r2 => .ok r2)
        | _ =>
          ((if origin + h.packSize ≤ f.length then Outcome.ok (origin, h.packSize) else .err .format).bind fun r3 =>
            .ok [⟨h.uuid, r3.1, r3.2⟩])) := by
    intro h origin
    by_cases hb : origin + h.packSize ≤ f.length
    · cases hk : h.kind <;> simp [hb, Outcome.bind] <;> (cases containerPackOpen f origin h.packSize <;> rfl)
    · cases hk : h.kind <;> simp [hb, Outcome.bind]
  have tailEq : (match (tb.bind fun hd => (PackHeader.decode hd).bind fun h =>
          if f.length < h.packSize then Outcome.err ErrKind.format else Outcome.ok (h, f.length - h.packSize) :
          Outcome (PackHeader × Nat)) with
      | Outcome.ok (h, origin) =>
        if origin + h.packSize ≤ f.length then
          if h.kind = PackKind.container then containerPackOpen f origin h.packSize else Outcome.ok [{ uuid := h.uuid, origin := origin, size := h.packSize }]
        else Outcome.err ErrKind.format
      | Outcome.err k => Outcome.err k
      | Outcome.panic s => Outcome.panic s
      | Outcome.hang => Outcome.hang
      | Outcome.fault => Outcome.fault) =
      (tb.bind fun hd => (PackHeader.decode hd).bind fun pack_header =>
            if pack_header.packSize > f.length then .err .format
            else
              (match pack_header.kind with
              | PackKind.container =>
                ((if (f.length - pack_header.packSize) + pack_header.packSize ≤ f.length then Outcome.ok (f.length - pack_header.packSize, pack_header.packSize) else .err .format).bind fun r1 =>
                  (containerPackOpen f r1.1 r1.2).bind fun r2 => .ok r2)
              | _ =>
                ((if (f.length - pack_header.packSize) + pack_header.packSize ≤ f.length then Outcome.ok (f.length - pack_header.packSize, pack_header.packSize) else .err .format).bind fun r3 =>
                  .ok [⟨pack_header.uuid, r3.1, r3.2⟩]))) := by
    cases tb with
    | ok hd =>
      simp only [Outcome.bind_ok'']
      cases PackHeader.decode hd with
      | ok h =>
        simp only [Outcome.bind_ok'']
        by_cases hs : f.length < h.packSize
        · have : h.packSize > f.length := hs
          simp [hs]
        · have : ¬ h.packSize > f.length := hs
          simp only [hs, this, if_false, body h (f.length - h.packSize)]
      | _ => rfl
    | _ => rfl
  have rest : ∀ (c : Outcome PackHeader), c.isValueOrError = true → (match
        (match c with
          | Outcome.ok h => Outcome.ok (h, 0)
          | e =>
            if f.length < 64 then Outcome.map' (fun h => (h, 0)) e
            else tb.bind fun hd => (PackHeader.decode hd).bind fun h =>
              if f.length < h.packSize then Outcome.err ErrKind.format else Outcome.ok (h, f.length - h.packSize) :
          Outcome (PackHeader × Nat)) with
      | Outcome.ok (h, origin) =>
        if origin + h.packSize ≤ f.length then
          if h.kind = PackKind.container then containerPackOpen f origin h.packSize else Outcome.ok [{ uuid := h.uuid, origin := origin, size := h.packSize }]
        else Outcome.err ErrKind.format
      | Outcome.err k => Outcome.err k
      | Outcome.panic s => Outcome.panic s
      | Outcome.hang => Outcome.hang
      | Outcome.fault => Outcome.fault) =
      (match c with
      | .ok pack_header =>
        (match pack_header.kind with
        | PackKind.container =>
          ((if 0 + pack_header.packSize ≤ f.length then Outcome.ok (0, pack_header.packSize) else .err .format).bind fun r1 =>
            (containerPackOpen f r1.1 r1.2).bind fun r2 => .ok r2)
        | _ =>
          ((if 0 + pack_header.packSize ≤ f.length then Outcome.ok (0, pack_header.packSize) else .err .format).bind fun r3 =>
            .ok [⟨pack_header.uuid, r3.1, r3.2⟩]))
      | .err e =>
        (if f.length < 64 then .err e
        else
          tb.bind fun hd => (PackHeader.decode hd).bind fun pack_header =>
            if pack_header.packSize > f.length then .err .format
            else
              (match pack_header.kind with
              | PackKind.container =>
                ((if (f.length - pack_header.packSize) + pack_header.packSize ≤ f.length then Outcome.ok (f.length - pack_header.packSize, pack_header.packSize) else .err .format).bind fun r1 =>
                  (containerPackOpen f r1.1 r1.2).bind fun r2 => .ok r2)
              | _ =>
                ((if (f.length - pack_header.packSize) + pack_header.packSize ≤ f.length then Outcome.ok (f.length - pack_header.packSize, pack_header.packSize) else .err .format).bind fun r3 =>
                  .ok [⟨pack_header.uuid, r3.1, r3.2⟩])))
      | .panic s => .panic s
      | .hang => .hang
      | .fault => .fault) := by
    intro c hcc
    cases c with
    | ok h => simp only [body h 0]
    | err e =>
      by_cases h64 : f.length < 64
      · simp [h64, Outcome.map']
      · simp only [h64, if_false]
        exact tailEq
    | panic s => simp [Outcome.isValueOrError] at hcc
    | hang => simp [Outcome.isValueOrError] at hcc
    | fault => simp [Outcome.isValueOrError] at hcc
  cases unchecked with
  | err k => cases k <;> first | rfl | exact rest checked hcNC
  | ok h => exact rest checked hcNC
  | panic s => exact rest checked hcNC
  | hang => exact rest checked hcNC
  | fault => exact rest checked hcNC

end Jubako
