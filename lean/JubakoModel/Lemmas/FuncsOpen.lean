/-
`open_as_container_pack` (`reader/jubako.rs`) translated from the source on every run
(Generated/FuncsOpen.lean) is `blindOpen` of the container model.
-/
import JubakoModel.Model.Container
import JubakoModel.Generated.FuncsOpen
import JubakoModel.Lemmas.NoCrash

set_option linter.unusedSimpArgs false

namespace Jubako

theorem Outcome.bind_ok'' {α β : Type} (a : α) (g : α → Outcome β) : (Outcome.ok a).bind g = g a := rfl

theorem Outcome.bind_assoc'' {α β γ : Type} (x : Outcome α) (f : α → Outcome β) (g : β → Outcome γ) :
    (x.bind f).bind g = x.bind (fun a => (f a).bind g) := by
  cases x <;> rfl

/-- **The blind open of the container model is the source's** (`open_as_container_pack` translated on every
    run, applied to the model's header parses, cut and container-pack open): a version mismatch of the header
    at 0 is reported first; a valid header at 0 wins; otherwise — unless the file is too small for a pack — the
    mirrored last 64 bytes are tried, a declared size beyond the file is a format error, and the pack starts at
    `file size − declared size`; a container pack is opened as such, any other pack becomes a one-pack
    container under its uuid. -/
theorem gen_blindOpen (f : Bytes) :
    blindOpen f =
      Generated.openAsContainerPack f.length
        (if f.length < 60 then .err .format else PackHeader.decode (f.take 60))
        (do let hd ← readBlock f 0 60; PackHeader.decode hd)
        (do let hd ← readBlock (slice f (f.length - 64) 64).reverse 0 60; PackHeader.decode hd)
        (fun origin size => if origin + size ≤ f.length then .ok (origin, size) else .err .format)
        (fun r => containerPackOpen f r.1 r.2)
        (fun r uuid => [⟨uuid, r.1, r.2⟩]) := by
  unfold blindOpen Generated.openAsContainerPack
  simp only [bind, Outcome.bind_assoc'']
  generalize (if f.length < 60 then Outcome.err ErrKind.format else PackHeader.decode (f.take 60)) = unchecked
  have hcNC : ((readBlock f 0 60).bind fun hd => PackHeader.decode hd).isValueOrError = true :=
    bind_no_crash _ _ (readBlock_no_crash _ _ _) (fun hd => packHeader_decode_no_crash hd)
  generalize ((readBlock f 0 60).bind fun hd => PackHeader.decode hd) = checked at hcNC
  generalize readBlock (slice f (f.length - 64) 64).reverse 0 60 = tb
  have body : ∀ (h : PackHeader) (origin : Nat),
      (if origin + h.packSize ≤ f.length then
          if h.kind = .container then containerPackOpen f origin h.packSize else .ok [⟨h.uuid, origin, h.packSize⟩]
        else .err .format) =
      (match h.kind with
        | PackKind.container =>
          ((if origin + h.packSize ≤ f.length then Outcome.ok (origin, h.packSize) else .err .format).bind fun r1 =>
            (containerPackOpen f r1.1 r1.2).bind fun r2 => .ok r2)
        | _ =>
          ((if origin + h.packSize ≤ f.length then Outcome.ok (origin, h.packSize) else .err .format).bind fun r3 =>
            .ok [⟨h.uuid, r3.1, r3.2⟩])) := by
    intro h origin
    by_cases hb : origin + h.packSize ≤ f.length
    · cases hk : h.kind <;> simp [hb, Outcome.bind] <;> (cases containerPackOpen f origin h.packSize <;> rfl)
    · cases hk : h.kind <;> simp [hb, Outcome.bind]
  have tailEq : (match (tb.bind fun hd => (PackHeader.decode hd).bind fun h =>
          if f.length < h.packSize then Outcome.err ErrKind.format else Outcome.ok (h, f.length - h.packSize) :
          Outcome (PackHeader × Nat)) with
      | Outcome.ok (h, origin) =>
        if origin + h.packSize ≤ f.length then
          if h.kind = PackKind.container then containerPackOpen f origin h.packSize else Outcome.ok [{ uuid := h.uuid, origin := origin, size := h.packSize }]
        else Outcome.err ErrKind.format
      | Outcome.err k => Outcome.err k
      | Outcome.panic s => Outcome.panic s
      | Outcome.hang => Outcome.hang
      | Outcome.fault => Outcome.fault) =
      (tb.bind fun hd => (PackHeader.decode hd).bind fun pack_header =>
            if pack_header.packSize > f.length then .err .format
            else
              (match pack_header.kind with
              | PackKind.container =>
                ((if (f.length - pack_header.packSize) + pack_header.packSize ≤ f.length then Outcome.ok (f.length - pack_header.packSize, pack_header.packSize) else .err .format).bind fun r1 =>
                  (containerPackOpen f r1.1 r1.2).bind fun r2 => .ok r2)
              | _ =>
                ((if (f.length - pack_header.packSize) + pack_header.packSize ≤ f.length then Outcome.ok (f.length - pack_header.packSize, pack_header.packSize) else .err .format).bind fun r3 =>
                  .ok [⟨pack_header.uuid, r3.1, r3.2⟩]))) := by
    cases tb with
    | ok hd =>
      simp only [Outcome.bind_ok'']
      cases PackHeader.decode hd with
      | ok h =>
        simp only [Outcome.bind_ok'']
        by_cases hs : f.length < h.packSize
        · have : h.packSize > f.length := hs
          simp [hs]
        · have : ¬ h.packSize > f.length := hs
          simp only [hs, this, if_false, body h (f.length - h.packSize)]
      | _ => rfl
    | _ => rfl
  have rest : ∀ (c : Outcome PackHeader), c.isValueOrError = true → (match
        (match c with
          | Outcome.ok h => Outcome.ok (h, 0)
          | e =>
            if f.length < 64 then Outcome.map' (fun h => (h, 0)) e
            else tb.bind fun hd => (PackHeader.decode hd).bind fun h =>
              if f.length < h.packSize then Outcome.err ErrKind.format else Outcome.ok (h, f.length - h.packSize) :
          Outcome (PackHeader × Nat)) with
      | Outcome.ok (h, origin) =>
        if origin + h.packSize ≤ f.length then
          if h.kind = PackKind.container then containerPackOpen f origin h.packSize else Outcome.ok [{ uuid := h.uuid, origin := origin, size := h.packSize }]
        else Outcome.err ErrKind.format
      | Outcome.err k => Outcome.err k
      | Outcome.panic s => Outcome.panic s
      | Outcome.hang => Outcome.hang
      | Outcome.fault => Outcome.fault) =
      (match c with
      | .ok pack_header =>
        (match pack_header.kind with
        | PackKind.container =>
          ((if 0 + pack_header.packSize ≤ f.length then Outcome.ok (0, pack_header.packSize) else .err .format).bind fun r1 =>
            (containerPackOpen f r1.1 r1.2).bind fun r2 => .ok r2)
        | _ =>
          ((if 0 + pack_header.packSize ≤ f.length then Outcome.ok (0, pack_header.packSize) else .err .format).bind fun r3 =>
            .ok [⟨pack_header.uuid, r3.1, r3.2⟩]))
      | .err e =>
        (if f.length < 64 then .err e
        else
          tb.bind fun hd => (PackHeader.decode hd).bind fun pack_header =>
            if pack_header.packSize > f.length then .err .format
            else
              (match pack_header.kind with
              | PackKind.container =>
                ((if (f.length - pack_header.packSize) + pack_header.packSize ≤ f.length then Outcome.ok (f.length - pack_header.packSize, pack_header.packSize) else .err .format).bind fun r1 =>
                  (containerPackOpen f r1.1 r1.2).bind fun r2 => .ok r2)
              | _ =>
                ((if (f.length - pack_header.packSize) + pack_header.packSize ≤ f.length then Outcome.ok (f.length - pack_header.packSize, pack_header.packSize) else .err .format).bind fun r3 =>
                  .ok [⟨pack_header.uuid, r3.1, r3.2⟩])))
      | .panic s => .panic s
      | .hang => .hang
      | .fault => .fault) := by
    intro c hcc
    cases c with
    | ok h => simp only [body h 0]
    | err e =>
      by_cases h64 : f.length < 64
      · simp [h64, Outcome.map']
      · simp only [h64, if_false]
        exact tailEq
    | panic s => simp [Outcome.isValueOrError] at hcc
    | hang => simp [Outcome.isValueOrError] at hcc
    | fault => simp [Outcome.isValueOrError] at hcc
  cases unchecked with
  | err k => cases k <;> first | rfl | exact rest checked hcNC
  | ok h => exact rest checked hcNC
  | panic s => exact rest checked hcNC
  | hang => exact rest checked hcNC
  | fault => exact rest checked hcNC

/-! ### `ContainerPack::new` -/

/-- one step of the model's loop over the pack locators -/
def cpStep (g : Bytes) (origin lp : Nat) (acc : List PackAt) (k : Nat) : Outcome (List PackAt) :=
  (readBlock g (lp + k * 36) 32).bind fun lb => (PackLocator.decode lb).bind fun l =>
    if l.pos + l.size ≤ g.length then .ok (acc ++ [⟨l.uuid, origin + l.pos, l.size⟩]) else .err .format

def toAt (x : Bytes × (Nat × Nat)) : PackAt := ⟨x.1, x.2.1, x.2.2⟩

theorem cp_loop (g : Bytes) (origin lp : Nat) (ph : Outcome PackHeader) (chd : Outcome ContainerHeader) (n : Nat) :
    ∀ (k : Nat) (uu : List Bytes) (acc : List (Bytes × (Nat × Nat))),
      (Generated.containerPackNew_loop 36 ph chd
          (fun off => (readBlock g off 32).bind fun lb => PackLocator.decode lb)
          (fun pos sz => if pos + sz ≤ g.length then Outcome.ok (origin + pos, sz) else .err .format)
          (lp + k * 36) uu acc n).map' (fun r => r.2.2.map toAt) =
        (List.range' k n).foldlM (cpStep g origin lp) (acc.map toAt) := by
  induction n with
  | zero => intro k uu acc; simp [Generated.containerPackNew_loop, Outcome.map', pure]
  | succ n ih =>
    intro k uu acc
    unfold Generated.containerPackNew_loop
    simp only [List.range'_succ, List.foldlM_cons, bind, cpStep, Outcome.bind_assoc'']
    cases hr : readBlock g (lp + k * 36) 32 with
    | ok lb =>
      simp only [Outcome.bind_ok'']
      cases hd : PackLocator.decode lb with
      | ok l =>
        simp only [Outcome.bind_ok'']
        by_cases hb : l.pos + l.size ≤ g.length
        · simp only [hb, if_true, Outcome.bind_ok'']
          have := ih (k + 1) (uu ++ [l.uuid]) (acc ++ [(l.uuid, origin + l.pos, l.size)])
          rw [show lp + (k + 1) * 36 = lp + k * 36 + 36 by omega] at this
          rw [this]
          simp [toAt, cpStep]
        · simp [hb, Outcome.bind, Outcome.map']
      | _ => rfl
    | _ => rfl

/-- **Reading a container pack follows the source**: `containerPackOpen` of the container model is
    `ContainerPack::new` (`reader/container_pack.rs`) as translated on every run — header of kind "container",
    container header, then `pack_count` locators read one after the other from `pack_locators_pos` in steps of
    the locator block size, each pack region cut (bounds-checked) out of the container — applied to the model's
    block reads; the translated loop recurses on the count, so it terminates. -/
theorem gen_containerPackOpen (f : Bytes) (origin size : Nat) :
    containerPackOpen f origin size =
      (Generated.containerPackNew 36
          (do let hd ← readBlock (slice f origin size) 0 60; PackHeader.decode hd)
          (do let cb ← readBlock (slice f origin size) 64 60; ContainerHeader.decode cb)
          (fun off => (readBlock (slice f origin size) off 32).bind fun lb => PackLocator.decode lb)
          (fun pos sz => if pos + sz ≤ (slice f origin size).length then Outcome.ok (origin + pos, sz) else .err .format)).map'
        (fun r => r.2.map toAt) := by
  unfold containerPackOpen Generated.containerPackNew openHeader
  simp only [bind, Outcome.bind_assoc'']
  cases h1 : readBlock (slice f origin size) 0 60 with
  | ok hd =>
    simp only [Outcome.bind_ok'']
    cases h2 : PackHeader.decode hd with
    | ok h =>
      simp only [Outcome.bind_ok'']
      by_cases hk : h.kind = PackKind.container
      · simp only [hk, if_true, ne_eq, not_true_eq_false, if_false, Outcome.bind_ok'']
        cases h3 : readBlock (slice f origin size) 64 60 with
        | ok cb =>
          simp only [Outcome.bind_ok'']
          cases h4 : ContainerHeader.decode cb with
          | ok ch =>
            simp only [Outcome.bind_ok'']
            have := cp_loop (slice f origin size) origin ch.locatorsPos
              ((readBlock (slice f origin size) 0 60).bind fun hd => PackHeader.decode hd)
              ((readBlock (slice f origin size) 64 60).bind fun cb => ContainerHeader.decode cb) ch.packCount 0 [] []
            simp only [Nat.zero_mul, Nat.add_zero, List.map_nil] at this
            rw [h1, h3] at this
            simp only [Outcome.bind_ok'', h2, h4] at this
            rw [List.range_eq_range']
            have hstep : (fun (acc : List PackAt) (k : Nat) =>
                (readBlock (slice f origin size) (ch.locatorsPos + k * 36) 32).bind fun lb =>
                  (PackLocator.decode lb).bind fun l =>
                    if l.pos + l.size ≤ List.length (slice f origin size) then
                      pure (acc ++ [{ uuid := l.uuid, origin := origin + l.pos, size := l.size }])
                    else Outcome.err ErrKind.format) = cpStep (slice f origin size) origin ch.locatorsPos := by
              funext acc k; rfl
            rw [hstep, ← this]
            cases Generated.containerPackNew_loop 36 (Outcome.ok h) (Outcome.ok ch)
              (fun off => (readBlock (slice f origin size) off 32).bind fun lb => PackLocator.decode lb)
              (fun pos sz => if pos + sz ≤ List.length (slice f origin size) then Outcome.ok (origin + pos, sz) else Outcome.err ErrKind.format)
              ch.locatorsPos [] [] ch.packCount <;> rfl
          | _ => rfl
        | _ => rfl
      · simp [hk]
        rfl
    | _ => rfl
  | _ => rfl

/-! ### `ContentPack::new`, `DirectoryPack::new` -/

/-- **Opening a content pack / a directory pack follows the source**: `contentOpen` and `directoryOpen` of the
    reader model are `ContentPack::new` and `DirectoryPack::new` as translated on every run — pack header of the
    right kind, the header of that kind, then the pointer tables (content infos of 4 bytes, every other table of
    8-byte sized offsets) read as one checked block each, in the source's order. -/
theorem gen_contentOpen (f : Bytes) :
    contentOpen f =
      Generated.contentPackNew ((readBlock f 0 60).bind fun hd => PackHeader.decode hd)
        ((readBlock f 64 60).bind fun cb => ContentHeader.decode cb)
        (fun w pos count => readBlock f pos (w * count)) := by
  unfold contentOpen Generated.contentPackNew openHeader
  simp only [bind, Outcome.bind_assoc'']
  cases readBlock f 0 60 with
  | ok hd =>
    simp only [Outcome.bind_ok'']
    cases PackHeader.decode hd with
    | ok h =>
      simp only [Outcome.bind_ok'']
      by_cases hk : h.kind = PackKind.content
      · simp [hk]
        rfl
      · simp [hk]
        rfl
    | _ => rfl
  | _ => rfl

theorem gen_directoryOpen (f : Bytes) :
    directoryOpen f =
      Generated.directoryPackNew ((readBlock f 0 60).bind fun hd => PackHeader.decode hd)
        ((readBlock f 64 60).bind fun db => DirectoryHeader.decode db)
        (fun w pos count => readBlock f pos (w * count)) := by
  unfold directoryOpen Generated.directoryPackNew openHeader
  simp only [bind, Outcome.bind_assoc'', Outcome.bind_ok'']
  cases readBlock f 0 60 with
  | ok hd =>
    simp only [Outcome.bind_ok'']
    cases PackHeader.decode hd with
    | ok h =>
      simp only [Outcome.bind_ok'']
      by_cases hk : h.kind = PackKind.directory
      · simp [hk]
        rfl
      · simp [hk]
        rfl
    | _ => rfl
  | _ => rfl

/-! ### the pack header -/

theorem takeBytes_at (bs : Bytes) (o n : Nat) (h : o + n ≤ bs.length) :
    takeBytes (bs.drop o) n = .ok (slice bs o n, bs.drop (o + n)) := by
  unfold takeBytes
  have h' : n ≤ (bs.drop o).length := by simp; omega
  simp [h', slice, List.drop_drop]
  omega

theorem takeLE_at (bs : Bytes) (o n : Nat) (h : o + n ≤ bs.length) :
    takeLE (bs.drop o) n = .ok (leNat (slice bs o n), bs.drop (o + n)) := by
  unfold takeLE
  have h' : n ≤ (bs.drop o).length := by simp; omega
  simp [h', slice, List.drop_drop]
  omega

theorem leNat_slice_one (bs : Bytes) (o : Nat) (h : o < bs.length) : leNat (slice bs o 1) = (bs.getD o 0).toNat := by
  have : slice bs o 1 = [bs.getD o 0] := by
    simp only [slice]
    rw [List.drop_eq_getElem_cons h]
    simp [List.getD, List.getElem?_eq_getElem h, List.take]
  simp [this, leNat]

def tupleToHeader (r : PackKind × Bytes × Nat × Nat × Bytes × Nat × Nat × Nat) : PackHeader :=
  ⟨r.1, r.2.1, r.2.2.1, r.2.2.2.1, r.2.2.2.2.1, r.2.2.2.2.2.1, r.2.2.2.2.2.2.1, r.2.2.2.2.2.2.2⟩

/-- **The pack header is parsed as the source parses it**: `PackHeader::parse` (with `FullPackKind::parse`),
    translated on every run into a sequential parser, is `PackHeader.decode` of the model on every 60-byte block
    (the size the reader always hands it): magic `jbk`, then the kind byte (m / d / c / C, anything else is a format
    error), vendor id, **then the version gate** — a version other than the current one is a version error whatever
    follows —, uuid, flags, sizes and positions little-endian, the padding skipped. -/
theorem gen_packHeaderParse (bs : Bytes) (h60 : bs.length = 60) :
    (Generated.packHeaderParse bs).map' (fun r => tupleToHeader r.1) = PackHeader.decode bs := by
  have t0 := takeBytes_at bs 0 3 (by omega)
  have t3 := takeLE_at bs 3 1 (by omega)
  have t4 := takeBytes_at bs 4 4 (by omega)
  have t8 := takeLE_at bs 8 1 (by omega)
  have t9 := takeLE_at bs 9 1 (by omega)
  have t10 := takeBytes_at bs 10 16 (by omega)
  have t26 := takeLE_at bs 26 1 (by omega)
  have t27 := takeBytes_at bs 27 5 (by omega)
  have t32 := takeLE_at bs 32 8 (by omega)
  have t40 := takeLE_at bs 40 8 (by omega)
  have t48 := takeBytes_at bs 48 12 (by omega)
  simp only [List.drop_zero, Nat.zero_add] at t0
  simp only [Nat.reduceAdd] at t3 t4 t8 t9 t10 t26 t27 t32 t40 t48
  have k3 := leNat_slice_one bs 3 (by omega)
  have k8 := leNat_slice_one bs 8 (by omega)
  have k9 := leNat_slice_one bs 9 (by omega)
  have k26 := leNat_slice_one bs 26 (by omega)
  have hs0 : slice bs 0 3 = bs.take 3 := by simp [slice]
  unfold Generated.packHeaderParse Generated.fullPackKindParse PackHeader.decode
  have hlen : ¬ bs.length < 60 := by omega
  simp only [t0, Outcome.bind_ok'', hs0, hlen, if_false]
  by_cases hm : bs.take 3 = [106, 98, 107]
  · simp only [hm, ne_eq, not_true_eq_false, if_false, t3, Outcome.bind_ok'', k3]
    have tailEq : ∀ k : PackKind,
        Outcome.map' (fun r => tupleToHeader r.fst)
          ((Outcome.ok (k, List.drop 4 bs)).bind fun x =>
            (takeBytes x.snd 4).bind fun x_1 =>
              (takeLE x_1.snd 1).bind fun x_2 =>
                (takeLE x_2.snd 1).bind fun x_3 =>
                  if ¬(x_2.fst, x_3.fst) = (0, 2) then Outcome.err ErrKind.version
                  else
                    (takeBytes x_3.snd 16).bind fun x_4 =>
                      (takeLE x_4.snd 1).bind fun x_5 =>
                        (takeBytes x_5.snd 5).bind fun x_6 =>
                          (takeLE x_6.snd 8).bind fun x_7 =>
                            (takeLE x_7.snd 8).bind fun x_8 =>
                              (takeBytes x_8.snd 12).bind fun x_9 =>
                                Outcome.ok
                                  ((x.fst, x_1.fst, x_2.fst, x_3.fst, x_4.fst, x_5.fst, x_7.fst, x_8.fst), x_9.snd)) =
        (if ¬((List.getD bs 8 0).toNat, (List.getD bs 9 0).toNat) = (Consts.versionGateMajor, Consts.versionGateMinor) then
          Outcome.err ErrKind.version
        else
          Outcome.ok
            { kind := k, vendor := slice bs 4 4, major := (List.getD bs 8 0).toNat, minor := (List.getD bs 9 0).toNat,
              uuid := slice bs 10 16, flags := (List.getD bs 26 0).toNat, packSize := leNat (slice bs 32 8),
              checkInfoPos := leNat (slice bs 40 8) }) := by
      intro k
      simp only [Outcome.bind_ok'', t4, t8, t9, k8, k9]
      by_cases hv : ((List.getD bs 8 0).toNat, (List.getD bs 9 0).toNat) = (0, 2)
      · have hv' : ((List.getD bs 8 0).toNat, (List.getD bs 9 0).toNat) = (Consts.versionGateMajor, Consts.versionGateMinor) := hv
        simp only [hv, hv', not_true_eq_false, if_false, t10, t26, t27, t32, t40, t48, Outcome.bind_ok'', k26]
        rfl
      · have hv' : ¬ ((List.getD bs 8 0).toNat, (List.getD bs 9 0).toNat) = (Consts.versionGateMajor, Consts.versionGateMinor) := hv
        simp only [hv, hv', not_false_eq_true, if_true]
        rfl
    by_cases h1 : List.getD bs 3 0 = 109
    · rw [h1]
      simp only [show (109 : UInt8).toNat = 109 from rfl, PackKind.ofByte, if_true]
      exact tailEq _
    · by_cases h2 : List.getD bs 3 0 = 100
      · rw [h2]
        simp only [show (100 : UInt8).toNat = 100 from rfl, PackKind.ofByte, show ((100 : UInt8) = 109) = False from by decide, if_false, if_true]
        exact tailEq _
      · by_cases h3 : List.getD bs 3 0 = 99
        · rw [h3]
          simp only [show (99 : UInt8).toNat = 99 from rfl, PackKind.ofByte, show ((99 : UInt8) = 109) = False from by decide,
            show ((99 : UInt8) = 100) = False from by decide, if_false, if_true]
          exact tailEq _
        · by_cases h4 : List.getD bs 3 0 = 67
          · rw [h4]
            simp only [show (67 : UInt8).toNat = 67 from rfl, PackKind.ofByte, show ((67 : UInt8) = 109) = False from by decide,
              show ((67 : UInt8) = 100) = False from by decide, show ((67 : UInt8) = 99) = False from by decide, if_false, if_true]
            exact tailEq _
          · have n1 : (List.getD bs 3 0).toNat ≠ 109 := fun h => h1 (UInt8.toNat_inj.mp h)
            have n2 : (List.getD bs 3 0).toNat ≠ 100 := fun h => h2 (UInt8.toNat_inj.mp h)
            have n3 : (List.getD bs 3 0).toNat ≠ 99 := fun h => h3 (UInt8.toNat_inj.mp h)
            have n4 : (List.getD bs 3 0).toNat ≠ 67 := fun h => h4 (UInt8.toNat_inj.mp h)
            simp only [PackKind.ofByte, h1, h2, h3, h4, if_false]
            rfl
  · simp [hm]
    rfl

/-! ### the headers of the pack kinds, the pack locator -/

/-- **The headers of the four pack kinds and the pack locator are parsed as the source parses them**: the
    `parse` functions of `common/headers/{container,content,directory,manifest}_pack.rs` and of
    `common/pack_locator.rs`, translated on every run into sequential parsers, give on every block of the size
    the reader hands them (60 bytes, 32 for a locator) the fields the model's `decode` functions read at fixed
    positions — same field, same width, same order, the padding skipped, the free data last. -/
theorem gen_containerHeaderParse (bs : Bytes) (h60 : bs.length = 60) :
    (Generated.containerHeaderParse bs).map' (fun r => (⟨r.1.1, r.1.2.1, r.1.2.2⟩ : ContainerHeader)) = ContainerHeader.decode bs := by
  have t0 := takeLE_at bs 0 8 (by omega)
  have t8 := takeLE_at bs 8 2 (by omega)
  have t10 := takeBytes_at bs 10 26 (by omega)
  have t36 := takeBytes_at bs 36 24 (by omega)
  simp only [List.drop_zero, Nat.zero_add, Nat.reduceAdd] at t0 t8 t10 t36
  have hlen : ¬ bs.length < 60 := by omega
  simp only [Generated.containerHeaderParse, ContainerHeader.decode, t0, t8, t10, t36, Outcome.bind_ok'', hlen, if_false]
  rfl

theorem gen_contentHeaderParse (bs : Bytes) (h60 : bs.length = 60) :
    (Generated.contentHeaderParse bs).map' (fun r => (⟨r.1.1, r.1.2.1, r.1.2.2.1, r.1.2.2.2.1, r.1.2.2.2.2⟩ : ContentHeader)) =
      ContentHeader.decode bs := by
  have t0 := takeLE_at bs 0 8 (by omega)
  have t8 := takeLE_at bs 8 8 (by omega)
  have t16 := takeLE_at bs 16 4 (by omega)
  have t20 := takeLE_at bs 20 4 (by omega)
  have t24 := takeBytes_at bs 24 12 (by omega)
  have t36 := takeBytes_at bs 36 24 (by omega)
  simp only [List.drop_zero, Nat.zero_add, Nat.reduceAdd] at t0 t8 t16 t20 t24 t36
  have hlen : ¬ bs.length < 60 := by omega
  simp only [Generated.contentHeaderParse, ContentHeader.decode, t0, t8, t16, t20, t24, t36, Outcome.bind_ok'', hlen, if_false]
  rfl

theorem gen_directoryHeaderParse (bs : Bytes) (h60 : bs.length = 60) :
    (Generated.directoryHeaderParse bs).map'
        (fun r => (⟨r.1.1, r.1.2.1, r.1.2.2.1, r.1.2.2.2.1, r.1.2.2.2.2.1, r.1.2.2.2.2.2.1, r.1.2.2.2.2.2.2⟩ : DirectoryHeader)) =
      DirectoryHeader.decode bs := by
  have t0 := takeLE_at bs 0 8 (by omega)
  have t8 := takeLE_at bs 8 8 (by omega)
  have t16 := takeLE_at bs 16 8 (by omega)
  have t24 := takeLE_at bs 24 4 (by omega)
  have t28 := takeLE_at bs 28 4 (by omega)
  have t32 := takeLE_at bs 32 1 (by omega)
  have t33 := takeBytes_at bs 33 3 (by omega)
  have t36 := takeBytes_at bs 36 24 (by omega)
  simp only [List.drop_zero, Nat.zero_add, Nat.reduceAdd] at t0 t8 t16 t24 t28 t32 t33 t36
  have hlen : ¬ bs.length < 60 := by omega
  simp only [Generated.directoryHeaderParse, DirectoryHeader.decode, t0, t8, t16, t24, t28, t32, t33, t36, Outcome.bind_ok'', hlen, if_false]
  rfl

theorem gen_manifestHeaderParse (bs : Bytes) (h60 : bs.length = 60) :
    (Generated.manifestHeaderParse bs).map' (fun r => (⟨r.1.1, (r.1.2.1 / 65536, r.1.2.1 % 65536), r.1.2.2⟩ : ManifestHeader)) =
      ManifestHeader.decode bs := by
  have t0 := takeLE_at bs 0 2 (by omega)
  have t2 := takeLE_at bs 2 8 (by omega)
  have t10 := takeBytes_at bs 10 26 (by omega)
  have t36 := takeBytes_at bs 36 24 (by omega)
  simp only [List.drop_zero, Nat.zero_add, Nat.reduceAdd] at t0 t2 t10 t36
  have hlen : ¬ bs.length < 60 := by omega
  simp only [Generated.manifestHeaderParse, ManifestHeader.decode, t0, t2, t10, t36, Outcome.bind_ok'', hlen, if_false, sizedOffsetDecode]
  rfl

theorem gen_packLocatorParse (bs : Bytes) (h32 : bs.length = 32) :
    (Generated.packLocatorParse bs).map' (fun r => (⟨r.1.1, r.1.2.1, r.1.2.2⟩ : PackLocator)) = PackLocator.decode bs := by
  have t0 := takeBytes_at bs 0 16 (by omega)
  have t16 := takeLE_at bs 16 8 (by omega)
  have t24 := takeLE_at bs 24 8 (by omega)
  simp only [List.drop_zero, Nat.zero_add, Nat.reduceAdd] at t0 t16 t24
  have hlen : ¬ bs.length < 32 := by omega
  simp only [Generated.packLocatorParse, PackLocator.decode, t0, t16, t24, Outcome.bind_ok'', hlen, if_false]
  rfl

/-! ### the pack info -/

theorem takePString_at (bs : Bytes) (o : Nat) (h : o < bs.length) :
    takePString (bs.drop o) =
      if (bs.getD o 0).toNat ≤ bs.length - (o + 1) then
        .ok (slice bs (o + 1) (bs.getD o 0).toNat, bs.drop (o + 1 + (bs.getD o 0).toNat))
      else .err .format := by
  unfold takePString
  rw [List.drop_eq_getElem_cons h]
  have hg : bs.getD o 0 = bs[o] := by simp [List.getD, List.getElem?_eq_getElem h]
  simp only [pstringDecode, hg, List.length_drop]
  by_cases hl : bs[o].toNat ≤ bs.length - (o + 1)
  · simp [hl, slice, List.drop_drop]
  · simp [hl]

theorem packKindParse_at (bs : Bytes) (o : Nat) (h : o < bs.length) :
    Generated.packKindParse (bs.drop o) =
      match PackKind.ofByte (bs.getD o 0) with
      | some k => .ok (k, bs.drop (o + 1))
      | none => .err .format := by
  unfold Generated.packKindParse
  rw [takeLE_at bs o 1 (by omega), leNat_slice_one bs o h]
  simp only [Outcome.bind_ok'']
  by_cases h1 : List.getD bs o 0 = 109
  · rw [h1]; rfl
  · by_cases h2 : List.getD bs o 0 = 100
    · rw [h2]; rfl
    · by_cases h3 : List.getD bs o 0 = 99
      · rw [h3]; rfl
      · by_cases h4 : List.getD bs o 0 = 67
        · rw [h4]; rfl
        · have n1 : (List.getD bs o 0).toNat ≠ 109 := fun h => h1 (UInt8.toNat_inj.mp h)
          have n2 : (List.getD bs o 0).toNat ≠ 100 := fun h => h2 (UInt8.toNat_inj.mp h)
          have n3 : (List.getD bs o 0).toNat ≠ 99 := fun h => h3 (UInt8.toNat_inj.mp h)
          have n4 : (List.getD bs o 0).toNat ≠ 67 := fun h => h4 (UInt8.toNat_inj.mp h)
          simp only [PackKind.ofByte, h1, h2, h3, h4, if_false]


def tupleToInfo (r : Bytes × Nat × Nat × Nat × PackKind × Nat × Nat × Bytes) : PackInfo :=
  ⟨r.1, r.2.1, (r.2.2.1 / 65536, r.2.2.1 % 65536), r.2.2.2.1, r.2.2.2.2.1, r.2.2.2.2.2.1, r.2.2.2.2.2.2.1, r.2.2.2.2.2.2.2⟩

/-- **A pack info is parsed as the source parses it**: `PackInfo::parse` (with `PackKind::parse`), translated
    on every run into a sequential parser — uuid, size, check-info position, pack id, kind byte, group, free-data
    id, then the location as a p-string **and the rest of the 213-byte field skipped** — is `PackInfo.decode` of
    the model on every 252-byte block.  A length byte beyond the field is a format error of the p-string read;
    the subtraction `213 - len` (a panic on underflow in the translation) is never reached with a negative
    result. -/
theorem gen_packInfoParse (bs : Bytes) (h252 : bs.length = 252) :
    (Generated.packInfoParse bs).map' (fun r => tupleToInfo r.1) = PackInfo.decode bs := by
  have t0 := takeBytes_at bs 0 16 (by omega)
  have t16 := takeLE_at bs 16 8 (by omega)
  have t24 := takeLE_at bs 24 8 (by omega)
  have t32 := takeLE_at bs 32 2 (by omega)
  have t34 := packKindParse_at bs 34 (by omega)
  have t35 := takeLE_at bs 35 1 (by omega)
  have t36 := takeLE_at bs 36 2 (by omega)
  have t38 := takePString_at bs 38 (by omega)
  have k35 := leNat_slice_one bs 35 (by omega)
  simp only [List.drop_zero, Nat.zero_add, Nat.reduceAdd, h252, Nat.reduceSub] at t0 t16 t24 t32 t34 t35 t36 t38
  have hlen : ¬ bs.length < 252 := by omega
  unfold Generated.packInfoParse PackInfo.decode
  simp only [t0, t16, t24, t32, Outcome.bind_ok'', hlen, if_false, t34]
  cases hk : PackKind.ofByte (List.getD bs 34 0) with
  | none => rfl
  | some kind =>
    simp only [Outcome.bind_ok'', t35, t36, k35, t38]
    generalize hL : (List.getD bs 38 0).toNat = L
    by_cases hl : L ≤ 213
    · have hl' : ¬ L > Consts.locationSkip := by simp only [Consts.locationSkip]; omega
      have hsl : (slice bs 39 L).length = L := by
        simp only [slice, List.length_take, List.length_drop, h252]; omega
      have tsk := takeBytes_at bs (39 + L) (213 - L) (by omega)
      simp only [hl, hl', if_true, if_false, Outcome.bind_ok'', hsl, tsk, sizedOffsetDecode]
      rfl
    · have hl' : L > Consts.locationSkip := by simp only [Consts.locationSkip]; omega
      simp only [hl, hl', if_true, if_false]
      rfl


theorem bind_ok_eta {α : Type} (x : Outcome (α × Bytes)) : (x.bind fun (r, bs) => Outcome.ok (r, bs)) = x := by
  cases x <;> rfl

/-- the fixed-width wrappers: `Count<u8|u16|u32|u64>::parse`, `Size::parse`, `Offset::parse`, translated on every run,
    are little-endian reads of 1, 2, 4, 8, 8 and 8 bytes — what the tables of the other targets write for a call to
    them (`takeLE bs w`). -/
theorem gen_fixedWidthParsers (bs : Bytes) :
    Generated.countU8Parse bs = takeLE bs 1 ∧ Generated.countU16Parse bs = takeLE bs 2 ∧
    Generated.countU32Parse bs = takeLE bs 4 ∧ Generated.countU64Parse bs = takeLE bs 8 ∧
    Generated.sizeParse bs = takeLE bs 8 ∧ Generated.offsetParse bs = takeLE bs 8 :=
  ⟨bind_ok_eta _, bind_ok_eta _, bind_ok_eta _, bind_ok_eta _, bind_ok_eta _, bind_ok_eta _⟩

/-- the index and identifier wrappers: `Idx<u8|u16|u32|u64>::parse`, `Id<u8|u16>::parse`, translated on every run, are
    little-endian reads of 1, 2, 4, 8 and 1, 2 bytes. -/
theorem gen_indexWrappers (bs : Bytes) :
    Generated.idxU8Parse bs = takeLE bs 1 ∧ Generated.idxU16Parse bs = takeLE bs 2 ∧
    Generated.idxU32Parse bs = takeLE bs 4 ∧ Generated.idxU64Parse bs = takeLE bs 8 ∧
    Generated.idU8Parse bs = takeLE bs 1 ∧ Generated.idU16Parse bs = takeLE bs 2 :=
  ⟨bind_ok_eta _, bind_ok_eta _, bind_ok_eta _, bind_ok_eta _, bind_ok_eta _, bind_ok_eta _⟩

end Jubako
