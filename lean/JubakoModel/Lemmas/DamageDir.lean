/-
Damage monotonicity of the directory-pack and manifest readers (continuation of Lemmas/Damage.lean).
-/
import JubakoModel.Lemmas.Damage
import JubakoModel.Lemmas.DirFile

namespace Jubako

abbrev Stores := Nat → Outcome (ValueStoreTail × Bytes)

/-! ### entry decoding with value stores that follow -/

section decode
variable {sg sf : Stores} (hS : ∀ k, SameOrErr (sg k) (sf k))
include hS

theorem resolveArray_follows (size : Option Nat) (base : Bytes) (fixedLen : Nat) (ext : Option (Nat × Nat)) :
    SameOrErr (resolveArray sg size base fixedLen ext) (resolveArray sf size base fixedLen ext) := by
  unfold resolveArray
  simp only
  cases ext with
  | none => exact SameOrErr.refl _
  | some p =>
    obtain ⟨store, id⟩ := p
    simp only
    exact SameOrErr.bind (hS store) (fun vs _ => SameOrErr.refl _)

theorem decodeProp_follows (e : Bytes) (p : PropAt) :
    SameOrErr (decodeProp sg e p) (decodeProp sf e p) := by
  unfold decodeProp
  cases hk : p.kind with
  | uint sz dflt => exact SameOrErr.refl _
  | sint sz dflt => exact SameOrErr.refl _
  | content ps cs dflt => exact SameOrErr.refl _
  | padding => exact SameOrErr.refl _
  | variantId => exact SameOrErr.refl _
  | deportedInt signed sz store id =>
    simp only
    exact SameOrErr.bind (hS store) (fun vs _ => SameOrErr.refl _)
  | array lenSize fixedLen dep dflt =>
    simp only
    cases dflt with
    | some d =>
      obtain ⟨sz, fixed, kid⟩ := d
      simp only
      cases dep with
      | none =>
        simp only
        exact SameOrErr.bind (resolveArray_follows hS _ _ _ _) (fun _ _ => SameOrErr.refl _)
      | some dp =>
        obtain ⟨a, store⟩ := dp
        cases kid with
        | none => exact SameOrErr.refl _
        | some k =>
          simp only
          exact SameOrErr.bind (resolveArray_follows hS _ _ _ _) (fun _ _ => SameOrErr.refl _)
    | none =>
      simp only
      refine SameOrErr.bind_pure _ (fun size _ => ?_)
      split
      all_goals
        split
        · cases dep with
          | none =>
            simp only
            exact SameOrErr.bind (resolveArray_follows hS _ _ _ _) (fun _ _ => SameOrErr.refl _)
          | some dp =>
            obtain ⟨idSize, store⟩ := dp
            simp only
            refine SameOrErr.bind_pure _ (fun id _ => ?_)
            exact SameOrErr.bind (resolveArray_follows hS _ _ _ _) (fun _ _ => SameOrErr.refl _)
        · exact SameOrErr.refl _

theorem decodeEntry_follows (l : Layout) (e : Bytes) :
    SameOrErr (decodeEntry sg l e) (decodeEntry sf l e) := by
  unfold decodeEntry
  have hfold : ∀ (ps : List PropAt) (init : List (Bytes × Val)),
      SameOrErr (ps.foldlM (fun acc p => do let v ← decodeProp sg e p; pure (acc ++ [(p.name, v)])) init)
        (ps.foldlM (fun acc p => do let v ← decodeProp sf e p; pure (acc ++ [(p.name, v)])) init) := by
    intro ps init
    apply SameOrErr.foldlM
    intro b a
    exact SameOrErr.bind (decodeProp_follows hS e a) (fun _ _ => SameOrErr.refl _)
  refine SameOrErr.bind (hfold _ _) (fun common _ => ?_)
  cases l.variantIdOffset with
  | none => exact SameOrErr.refl _
  | some off =>
    simp only
    refine SameOrErr.bind_pure _ (fun vid _ => ?_)
    cases l.variants[vid]? with
    | none => exact SameOrErr.refl _
    | some v =>
      obtain ⟨nm, props⟩ := v
      simp only
      exact SameOrErr.bind (hfold _ _) (fun _ _ => SameOrErr.refl _)

end decode

/-! ### the open functions -/

section readers
variable {f g : Bytes} (hD : BlocksAgree f g)
include hD

theorem directoryOpen_follows : SameOrErr (directoryOpen g) (directoryOpen f) := by
  unfold directoryOpen
  refine SameOrErr.bind (openHeader_follows hD _) (fun h _ => ?_)
  refine SameOrErr.bind (hD.read _ _) (fun db _ => ?_)
  refine SameOrErr.bind_pure _ (fun dh _ => ?_)
  refine SameOrErr.bind (hD.read _ _) (fun _ _ => ?_)
  refine SameOrErr.bind (hD.read _ _) (fun _ _ => ?_)
  refine SameOrErr.bind (hD.read _ _) (fun _ _ => ?_)
  exact SameOrErr.refl _

theorem valueStoreOpen_follows (so : Nat × Nat) : SameOrErr (valueStoreOpen g so) (valueStoreOpen f so) := by
  unfold valueStoreOpen
  refine SameOrErr.bind (hD.read _ _) (fun tb _ => ?_)
  refine SameOrErr.bind_pure _ (fun t _ => ?_)
  split
  · exact SameOrErr.refl _
  · exact SameOrErr.bind (hD.read _ _) (fun _ _ => SameOrErr.refl _)

/-- the entry store: the layout is the same; the entry data is the same when it sits in a checked
    block (the only form the creator writes) -/
theorem entryStoreOpen_follows (so : Nat × Nat) :
    Follows (fun r' r => r'.1 = r.1 ∧ (r.1.checked = false → r'.2 = r.2))
      (entryStoreOpen g so) (entryStoreOpen f so) := by
  unfold entryStoreOpen
  refine SameOrErr.bind (hD.read _ _) (fun tb _ => ?_)
  cases tb with
  | nil => exact Follows.err _ _ _
  | cons k rest =>
    simp only
    split
    · exact Follows.of_not_ok _ _ _ (by intro v hv; cases hv)
    · split
      · exact Follows.err _ _ _
      · refine SameOrErr.bind_pure _ (fun l _ => ?_)
        cases hc : l.checked with
        | true =>
          simp only [if_true]
          split
          · exact Follows.of_not_ok _ _ _ (by intro v hv; cases hv)
          · by_cases hg : so.1 ≤ g.length
            · rw [if_pos hg]
              intro v hv
              split at hv
              · cases hv
                exact Or.inl ⟨_, rfl, rfl, by intro h; simp [hc] at h⟩
              · cases hv
            · rw [if_neg hg]; exact Follows.err _ _ _
        | false =>
          simp only [Bool.false_eq_true, if_false]
          split
          · exact Follows.of_not_ok _ _ _ (by intro v hv; cases hv)
          · refine SameOrErr.bind (hD.read _ _) (fun d _ => ?_)
            intro v hv; cases hv
            exact Or.inl ⟨_, rfl, rfl, fun _ => rfl⟩

/-- the entry store `si` of `f` keeps its entries in a CRC-checked block -/
def EntryStoreUnchecked (f : Bytes) (si : Nat) : Prop :=
  ∀ p dh et l d, directoryOpen f = .ok (p, dh) →
    readBlock f dh.entryStorePtrPos (8 * dh.entryStoreCount) = .ok et →
    entryStoreOpen f (sizedOffsetDecode (slice et (8 * si) 8)) = .ok (l, d) → l.checked = false

/-- **Directory pack, damaged copy.**  Whatever the original file answers for entry `gi` of store
    `si`, the damaged copy answers the same entry — variant and every value — or an error. -/
theorem dirGetEntry_follows (si gi : Nat) (hu : EntryStoreUnchecked f si) :
    SameOrErr (dirGetEntry g si gi) (dirGetEntry f si gi) := by
  unfold dirGetEntry
  refine Follows.bind (directoryOpen_follows hD) (fun hc hc' hopen heq => ?_)
  subst heq
  obtain ⟨p, dh⟩ := hc'
  simp only
  refine Follows.bind (hD.read _ _) (fun vt vt' _ heq => ?_)
  subst heq
  refine Follows.bind (hD.read _ _) (fun et et' het heq => ?_)
  subst heq
  split
  · refine Follows.bind (entryStoreOpen_follows hD _) (fun r r' hr hrel => ?_)
    obtain ⟨l, data⟩ := r
    obtain ⟨l', data'⟩ := r'
    obtain ⟨h1, h2⟩ := hrel
    simp only at h1 h2
    subst h1
    have hck := hu p dh et' l' data hopen het hr
    have hd := h2 hck
    subst hd
    simp only
    split
    · apply decodeEntry_follows
      intro k
      split
      · exact valueStoreOpen_follows hD _
      · exact SameOrErr.refl _
    · exact SameOrErr.refl _
  · exact SameOrErr.refl _

/-- `ManifestPack::new` on a damaged copy -/
theorem manifestOpen_follows : SameOrErr (manifestOpen g) (manifestOpen f) := by
  unfold manifestOpen
  refine SameOrErr.bind (openHeader_follows hD _) (fun h _ => ?_)
  refine SameOrErr.bind (hD.read _ _) (fun mb _ => ?_)
  refine SameOrErr.bind_pure _ (fun m _ => ?_)
  split
  · exact SameOrErr.refl _
  · simp only
    refine SameOrErr.bind (SameOrErr.foldlM _ _ _ (fun acc k =>
      SameOrErr.bind (hD.read _ _) (fun _ _ => SameOrErr.refl _)) _) (fun infos _ => ?_)
    split
    · exact SameOrErr.bind (valueStoreOpen_follows hD _) (fun _ _ => SameOrErr.refl _)
    · exact SameOrErr.refl _

end readers

end Jubako
