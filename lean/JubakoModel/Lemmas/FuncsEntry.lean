/-
The creator's entry serialiser (`creator/directory_pack/layout/{property,properties}.rs`: `Property::size`,
`Properties::fill_to_size`, the per-property body of `Properties::serialize_entry`) translated from the
source on every run (Generated/FuncsEntry.lean) is the entry serialiser of the writer model
(`RawProp.size`, `paddingProps`, `serializeProp`).
-/
import JubakoModel.Model.DirWriter
import JubakoModel.Generated.FuncsEntry
import JubakoModel.Lemmas.FuncsBytes
import JubakoModel.Lemmas.FuncsDir

namespace Jubako

/-- the number of bytes a property takes in an entry, from its kind (what `Property::size` computes) -/
def RawProp.kindSize (p : RawProp) : Nat :=
  match p.kind with
  | .padding => p.size
  | .variantId => 1
  | .uint sz dflt => if dflt.isSome then 0 else sz
  | .sint sz dflt => if dflt.isSome then 0 else sz
  | .content ps cs dflt => (if dflt.isSome then 0 else ps) + cs
  | .array lenSize fixedLen dep _ => lenSize.getD 0 + fixedLen + (dep.map (·.1)).getD 0
  | .deportedInt _ _ _ _ => p.size

/-- **`Property::size` translated on every run is the size the model's layout records**, for every property
    whose recorded size is the one its kind implies, within the ranges a header can hold. -/
theorem gen_layoutPropertySize (p : RawProp) (src : Generated.SrcProperty) (hs : p.toSrc = some src)
    (hw : p.HeaderWF) (hk : p.size = p.kindSize) : Generated.layoutPropertySize src = p.size := by
  obtain ⟨size, name, kind⟩ := p
  cases kind with
  | padding =>
    simp only [RawProp.toSrc, Option.some.injEq] at hs
    subst hs
    simp only [RawProp.HeaderWF] at hw
    simp only [Generated.layoutPropertySize]
    omega
  | variantId =>
    simp only [RawProp.toSrc, Option.some.injEq] at hs
    subst hs
    simp only [RawProp.kindSize] at hk
    simp [Generated.layoutPropertySize, hk]
  | uint sz dflt =>
    simp only [RawProp.toSrc, Option.some.injEq] at hs
    subst hs
    simp only [RawProp.HeaderWF] at hw
    simp only [RawProp.kindSize] at hk
    cases dflt <;> simp_all [Generated.layoutPropertySize] <;> omega
  | sint sz dflt =>
    simp only [RawProp.toSrc, Option.some.injEq] at hs
    subst hs
    simp only [RawProp.HeaderWF] at hw
    simp only [RawProp.kindSize] at hk
    cases dflt <;> simp_all [Generated.layoutPropertySize] <;> omega
  | content ps cs dflt =>
    simp only [RawProp.toSrc, Option.some.injEq] at hs
    subst hs
    simp only [RawProp.HeaderWF] at hw
    simp only [RawProp.kindSize] at hk
    cases dflt <;> simp_all [Generated.layoutPropertySize] <;> omega
  | array lenSize fixedLen dep dflt =>
    simp only [RawProp.toSrc, Option.some.injEq] at hs
    subst hs
    simp only [RawProp.HeaderWF] at hw
    simp only [RawProp.kindSize] at hk
    obtain ⟨h1, h2, h3⟩ := hw
    cases lenSize with
    | none =>
      cases dep with
      | none => simp_all [Generated.layoutPropertySize]; omega
      | some d =>
        obtain ⟨s, i⟩ := d
        have := h2 s i rfl
        simp_all [Generated.layoutPropertySize]; omega
    | some l =>
      have hl := h1 l rfl
      cases dep with
      | none => simp_all [Generated.layoutPropertySize]; omega
      | some d =>
        obtain ⟨s, i⟩ := d
        have := h2 s i rfl
        simp_all [Generated.layoutPropertySize]; omega
  | deportedInt a b c d => simp [RawProp.toSrc] at hs

/-- the finalised properties of the writer model record the size their kind implies -/
theorem finalizeProp_kindSize (stores : List VStore) (pd : PropDef) (col : List Val) :
    (finalizeProp stores pd col).size = (finalizeProp stores pd col).kindSize := by
  unfold finalizeProp
  cases pd.ty with
  | uint => simp only []; split <;> simp [RawProp.kindSize]
  | sint => simp only []; split <;> simp [RawProp.kindSize]
  | content => simp only []; split <;> simp [RawProp.kindSize]
  | array fixed store => simp only []; split <;> simp [RawProp.kindSize]

/-! ### `fill_to_size` -/

theorem fillToSize_loop_eq (e s c : Nat) : ∀ (fuel n : Nat) (pads : List Nat), n < 16 * fuel →
    Generated.fillToSize_loop e s pads c n fuel = some (pads ++ (paddingProps n).map (·.size)) := by
  intro fuel
  induction fuel with
  | zero => intro n pads h; omega
  | succ k ih =>
    intro n pads h
    unfold Generated.fillToSize_loop
    by_cases h16 : n ≥ 16
    · simp only [h16, if_true]
      rw [ih (n - 16) _ (by omega)]
      obtain ⟨m, rfl⟩ : ∃ m, n = m + 1 := ⟨n - 1, by omega⟩
      rw [paddingProps]
      simp [h16]
    · simp only [h16, if_false]
      by_cases h0 : n > 0
      · obtain ⟨m, rfl⟩ : ∃ m, n = m + 1 := ⟨n - 1, by omega⟩
        rw [paddingProps]
        have : (m + 1) % 256 = m + 1 := by omega
        simp [h16, this]
      · have : n = 0 := by omega
        subst this
        simp [paddingProps]

/-- **`Properties::fill_to_size` translated on every run terminates and appends exactly the paddings of the
    model** (chunks of 16 bytes, then the remainder), for every pair of sizes. -/
theorem gen_fillToSize (cur size : Nat) :
    Generated.fillToSize cur size = some ((paddingProps (size - cur)).map (·.size)) := by
  unfold Generated.fillToSize
  simp only []
  rw [fillToSize_loop_eq _ _ _ (size + 1) (size - cur) [] (by omega)]
  simp

/-! ### one property of one entry -/

theorem writesBytes_data (bs : Bytes) : writesBytes (bs.map (fun (b : UInt8) => (b.toNat, 1))) = bs := by
  induction bs with
  | nil => rfl
  | cons b bs ih =>
    have : writesBytes ((b :: bs).map (fun (b : UInt8) => (b.toNat, 1))) =
        leBytes b.toNat 1 ++ writesBytes (bs.map (fun (b : UInt8) => (b.toNat, 1))) := by
      simp [writesBytes]
    rw [this, ih, leBytes_one]
    simp

theorem writesBytes_single (x w : Nat) : writesBytes [(x, w)] = leBytes x w := by simp [writesBytes]

theorem writesBytes_nil : writesBytes [] = [] := rfl

/-- the value the creator holds for a property of an entry when it serialises it: integers as they are,
    arrays as (full length, the inline prefix — truncated at the inline length —, the id the value store
    gave to the remainder), indirect arrays as the id of the whole array -/
def entryValueOf (stores : List VStore) (p : RawProp) (v : Val) : Generated.SrcEntryValue :=
  match p.kind with
  | .uint _ _ => .unsigned (uintOf v)
  | .sint _ _ => .signed (sintOf v)
  | .content _ _ _ => .content (packOf v, cidOf v)
  | .array lenSize fixed dep _ =>
    let a := arrayOf v
    let vs := stores.getD ((dep.map (·.2)).getD 0) ⟨false, []⟩
    match lenSize with
    | none => .indirectArray (vs.idOf a)
    | some _ => .array (a.length, a.take fixed, vs.idOf (a.drop fixed))
  | _ => .unsigned 0

/-- what the creator guarantees when it serialises a value under a finalised property: a property with a
    default is only given values equal to it; an array property refers to a value store; an array without a
    length field has no inline part (the indirect-array case) -/
def RawProp.ValueOK (p : RawProp) (v : Val) : Prop :=
  match p.kind with
  | .uint _ dflt => ∀ d, dflt = some d → d = uintOf v
  | .sint _ dflt => ∀ d, dflt = some d → d = sintOf v
  | .content _ _ dflt => ∀ d, dflt = some d → d = packOf v
  | .array lenSize fixed dep _ => dep.isSome ∧ (lenSize = none → fixed = 0)
  | .deportedInt _ _ _ _ => False
  | _ => True

/-- **The bytes the model writes for one property of one entry are the byte image of the writes of the
    per-property body of `Properties::serialize_entry` translated on every run** — which never panics and
    never returns an error on a value of the property's own kind (it answers `some`). -/
theorem gen_entryPropertyWrites (stores : List VStore) (p : RawProp) (src : Generated.SrcProperty) (v : Val)
    (variant : Option Nat) (hs : p.toSrc = some src) (hv : p.ValueOK v) :
    (Generated.entryPropertyWrites src (entryValueOf stores p v) variant).map writesBytes =
      some (serializeProp stores p v variant) := by
  obtain ⟨size, name, kind⟩ := p
  cases kind with
  | padding =>
    simp only [RawProp.toSrc, Option.some.injEq] at hs
    subst hs
    simp only [Generated.entryPropertyWrites, serializeProp, Option.map_some, List.nil_append, writesBytes_data, zeros]
  | variantId =>
    simp only [RawProp.toSrc, Option.some.injEq] at hs
    subst hs
    simp [Generated.entryPropertyWrites, serializeProp, writesBytes, leBytes_one]
  | uint sz dflt =>
    simp only [RawProp.toSrc, Option.some.injEq] at hs
    subst hs
    simp only [RawProp.ValueOK] at hv
    cases dflt with
    | none => simp [Generated.entryPropertyWrites, entryValueOf, serializeProp, writesBytes]
    | some d =>
      have := hv d rfl
      simp [Generated.entryPropertyWrites, entryValueOf, serializeProp, writesBytes, this]
  | sint sz dflt =>
    simp only [RawProp.toSrc, Option.some.injEq] at hs
    subst hs
    simp only [RawProp.ValueOK] at hv
    cases dflt with
    | none => simp [Generated.entryPropertyWrites, entryValueOf, serializeProp, writesBytes, leBytesInt]
    | some d =>
      have := hv d rfl
      simp [Generated.entryPropertyWrites, entryValueOf, serializeProp, writesBytes, this]
  | content ps cs dflt =>
    simp only [RawProp.toSrc, Option.some.injEq] at hs
    subst hs
    simp only [RawProp.ValueOK] at hv
    cases dflt with
    | none => simp [Generated.entryPropertyWrites, entryValueOf, serializeProp, writesBytes]
    | some d =>
      have := hv d rfl
      simp [Generated.entryPropertyWrites, entryValueOf, serializeProp, writesBytes, this]
  | array lenSize fixed dep dflt =>
    simp only [RawProp.toSrc, Option.some.injEq] at hs
    subst hs
    simp only [RawProp.ValueOK] at hv
    obtain ⟨hd, hf⟩ := hv
    cases dep with
    | none => simp at hd
    | some d =>
      obtain ⟨ks, store⟩ := d
      cases lenSize with
      | none =>
        have := hf rfl
        subst this
        simp [Generated.entryPropertyWrites, entryValueOf, serializeProp, writesBytes]
      | some ls =>
        simp only [Generated.entryPropertyWrites, entryValueOf, serializeProp, Option.map_some, List.nil_append,
          writesBytes_append, writesBytes_data, writesBytes_single, zeros, Option.map_some, Option.getD_some,
          List.append_assoc]
  | deportedInt a b c d => simp [RawProp.toSrc] at hs

/-! ### a whole entry: the `for key in keys` loop -/

/-- the (property, value) pairs `serialize_entry` goes through: structural properties (padding, variant id)
    take no value, the others take the entry's values in order -/
def pairProps : List RawProp → List Val → List (RawProp × Val)
  | [], _ => []
  | p :: ps, vals =>
    if p.kind = .padding ∨ p.kind = .variantId then (p, .u 0) :: pairProps ps vals
    else
      match vals with
      | [] => (p, .u 0) :: pairProps ps []
      | v :: vs => (p, v) :: pairProps ps vs

theorem serializeProps_eq_pairs (stores : List VStore) (variant : Option Nat) (ps : List RawProp) (vals : List Val) :
    serializeProps stores variant ps vals =
      ((pairProps ps vals).map (fun x => serializeProp stores x.1 x.2 variant)).flatten := by
  induction ps generalizing vals with
  | nil => simp [serializeProps, pairProps]
  | cons p ps ih =>
    unfold serializeProps pairProps
    by_cases hk : p.kind = .padding ∨ p.kind = .variantId
    · simp only [hk, if_true, List.map_cons, List.flatten_cons, ih]
    · simp only [hk, if_false]
      cases vals with
      | nil => simp only [List.map_cons, List.flatten_cons, ih]
      | cons v vs => simp only [List.map_cons, List.flatten_cons, ih]

/-- the loop of `serialize_entry`: the translated per-key body, key after key; an error or a panic on one key
    ends the whole call -/
def entryWrites (variant : Option Nat) : List (Generated.SrcProperty × Generated.SrcEntryValue) → Option (List (Nat × Nat))
  | [] => some []
  | kv :: rest =>
    match Generated.entryPropertyWrites kv.1 kv.2 variant with
    | none => none
    | some w =>
      match entryWrites variant rest with
      | none => none
      | some r => some (w ++ r)

/-- the keys and values the creator's loop sees for a list of model properties and values -/
def srcPairs (stores : List VStore) (pairs : List (RawProp × Val)) : List (Generated.SrcProperty × Generated.SrcEntryValue) :=
  pairs.filterMap (fun x => x.1.toSrc.map (fun k => (k, entryValueOf stores x.1 x.2)))

theorem valueOK_toSrc (p : RawProp) (v : Val) (h : p.ValueOK v) : ∃ k, p.toSrc = some k := by
  obtain ⟨size, name, kind⟩ := p
  cases kind <;> simp_all [RawProp.toSrc, RawProp.ValueOK]

theorem gen_entryWrites_pairs (stores : List VStore) (variant : Option Nat) (pairs : List (RawProp × Val))
    (h : ∀ x ∈ pairs, x.1.ValueOK x.2) :
    (entryWrites variant (srcPairs stores pairs)).map writesBytes =
      some ((pairs.map (fun x => serializeProp stores x.1 x.2 variant)).flatten) := by
  induction pairs with
  | nil => simp [srcPairs, entryWrites, writesBytes_nil]
  | cons x xs ih =>
    have hx := h x List.mem_cons_self
    obtain ⟨k, hk⟩ := valueOK_toSrc x.1 x.2 hx
    have h1 := gen_entryPropertyWrites stores x.1 k x.2 variant hk hx
    have h2 := ih (fun y hy => h y (List.mem_cons_of_mem _ hy))
    have hsp : srcPairs stores (x :: xs) = (k, entryValueOf stores x.1 x.2) :: srcPairs stores xs := by
      simp [srcPairs, hk]
    rw [hsp]
    unfold entryWrites
    cases hw : Generated.entryPropertyWrites k (entryValueOf stores x.1 x.2) variant with
    | none => simp [hw] at h1
    | some w =>
      cases hr : entryWrites variant (srcPairs stores xs) with
      | none => simp [hr] at h2
      | some r =>
        simp only [hw, Option.map_some, Option.some.injEq] at h1
        simp only [hr, Option.map_some, Option.some.injEq] at h2
        simp only [Option.map_some, writesBytes_append, h1, h2, List.map_cons, List.flatten_cons]

/-- **A whole entry**: running the translated per-key body of `serialize_entry` over the keys of the layout,
    in order, with the values the creator holds, never fails and writes exactly the bytes of the model's
    `serializeProps`. -/
theorem gen_serializeProps (stores : List VStore) (variant : Option Nat) (ps : List RawProp) (vals : List Val)
    (h : ∀ x ∈ pairProps ps vals, x.1.ValueOK x.2) :
    (entryWrites variant (srcPairs stores (pairProps ps vals))).map writesBytes =
      some (serializeProps stores variant ps vals) := by
  rw [serializeProps_eq_pairs]
  exact gen_entryWrites_pairs stores variant _ h

end Jubako
