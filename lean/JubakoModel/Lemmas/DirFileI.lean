/-
Directory pack, file-level round trip — part I (layer L5, indexes): the index tails of the written
file read back through the index offset table.
-/
import JubakoModel.Lemmas.DirFileH

namespace Jubako

set_option linter.unusedSimpArgs false
set_option linter.unusedVariables false
set_option maxRecDepth 8000

/-! ### 1. index tail codec -/

theorem takeBytes_append (a b : Bytes) (n : Nat) (h : a.length = n) :
    takeBytes (a ++ b) n = .ok (a, b) := by
  subst h
  simp [takeBytes]

/-- field widths of an index tail: store id, count and offset are `u32`, the free data is 4 bytes,
    the key one byte, the name a p-string -/
theorem IndexInfo.decode_encode (i : IndexInfo) (h1 : i.storeId < 2 ^ 32) (h2 : i.count < 2 ^ 32)
    (h3 : i.offset < 2 ^ 32) (h4 : i.freeData.length = 4) (h5 : i.key < 256)
    (h6 : i.name.length ≤ 255) : IndexInfo.decode i.encode = .ok i := by
  obtain ⟨sid, cnt, off, fd, key, nm⟩ := i
  simp only at h1 h2 h3 h4 h5 h6
  have h32 : (256 : Nat) ^ 4 = 2 ^ 32 := by decide
  have hp := takePString_encode nm [] h6
  rw [List.append_nil] at hp
  simp only [IndexInfo.encode, IndexInfo.decode, List.append_assoc, takeLE_leBytes,
    Outcome.ok_bind, takeBytes_append fd _ 4 h4, List.singleton_append, takeLE_one, hp,
    toNat_ofNat_u8, Nat.mod_eq_of_lt h5, Nat.mod_eq_of_lt (h32 ▸ h1), Nat.mod_eq_of_lt (h32 ▸ h2),
    Nat.mod_eq_of_lt (h32 ▸ h3)]

/-! ### 2. where an index tail lands -/

theorem dfIdxBytes_append (a b : List Bytes) : dfIdxBytes (a ++ b) = dfIdxBytes a ++ dfIdxBytes b := by
  simp [dfIdxBytes]

theorem dfIdxSOs_at (l1 : List Bytes) (t : Bytes) (l2 : List Bytes) (pos : Nat) :
    (dfIdxSOs (l1 ++ t :: l2) pos)[l1.length]? = some (pos + (dfIdxBytes l1).length, t.length) := by
  induction l1 generalizing pos with
  | nil => simp [dfIdxSOs, dfIdxBytes]
  | cons a l1 ih =>
    simp only [List.cons_append, dfIdxSOs, List.length_cons, List.getElem?_cons_succ, ih,
      dfIdxBytes_cons, List.length_append, block_length]
    congr 2
    omega

/-! ### 3. reading index `k` of the written file -/

/-- what `dp.decode` (`decodeDirPack`) reads for index `k`: the index offset table, then the tail
    block it points to -/
def dirGetIndex (f : Bytes) (k : Nat) : Outcome IndexInfo := do
  let (_, dh) ← directoryOpen f
  let it ← readBlock f dh.indexPtrPos (8 * dh.indexCount)
  if k < dh.indexCount then do
    let so := sizedOffsetDecode (slice it (8 * k) 8)
    let b ← readBlock f so.1 so.2
    IndexInfo.decode b
  else .err .other

/-- index definition: count and offset are `u32` fields, the name a p-string -/
def IndexDef.WF (ix : IndexDef) : Prop :=
  ix.name.length ≤ 255 ∧ ix.count < 2 ^ 32 ∧ ix.offset < 2 ^ 32

instance (ix : IndexDef) : Decidable ix.WF := by unfold IndexDef.WF; infer_instance

/-- **L5, indexes**: every index of the written pack reads back as store 0, the declared window
    (`offset`, `count`), key 0 and the declared name. -/
theorem dirGetIndex_dirPackWrite (H : Bytes → Bytes) (vendor uuid freeData : Bytes) (d : DirIn)
    (hv : vendor.length = 4) (hu : uuid.length = 16) (hfd : freeData.length = 24)
    (hns : d.stores.length < 256) (hni : d.indexes.length < 2 ^ 32)
    (hix : ∀ ix ∈ d.indexes, ix.WF)
    (hsize : (dirPackWrite H vendor uuid freeData d).length < 2 ^ 48)
    (k : Nat) (hk : k < d.indexes.length) :
    dirGetIndex (dirPackWrite H vendor uuid freeData d) k =
      .ok ⟨0, (d.indexes[k]).count, (d.indexes[k]).offset, zeros 4, 0, (d.indexes[k]).name⟩ := by
  obtain ⟨hopen, -, -, ht1, -, -⟩ := directoryOpen_dirPackWrite H vendor uuid freeData d hv hu hfd
    hns hni hsize
  have hel : (d.header vendor uuid).encode.length = 60 := by
    simp [PackHeader.encode, DirIn.header, zeros_length, leBytes_length, Consts.headerPad1,
      Consts.headerPad2, hv, hu]
  have hdl := DirectoryHeader.encode_length (d.dh freeData) hfd
  have hlen := dirPackWrite_length H vendor uuid freeData d hv hu hfd
  obtain ⟨hw1, hw2, hw3⟩ := hix _ (List.getElem_mem hk)
  generalize hI : d.indexes[k] = ix at hw1 hw2 hw3
  -- the k-th tail
  have hkt : k < d.idxTails.length := by simp [DirIn.idxTails]; exact hk
  have htk : d.idxTails[k] = (⟨0, ix.count, ix.offset, zeros 4, 0, ix.name⟩ : IndexInfo).encode := by
    simp [DirIn.idxTails, hI]
  have hsplit : d.idxTails = d.idxTails.take k ++ d.idxTails[k] :: d.idxTails.drop (k + 1) := by
    rw [List.getElem_cons_drop, List.take_append_drop]
  generalize hl1 : d.idxTails.take k = l1 at hsplit
  generalize hl2 : d.idxTails.drop (k + 1) = l2 at hsplit
  rw [htk] at hsplit
  generalize hT : (⟨0, ix.count, ix.offset, zeros 4, 0, ix.name⟩ : IndexInfo).encode = t at hsplit
  have htl : t.length < 2 ^ 16 := by
    rw [← hT]
    simp [IndexInfo.encode, leBytes_length, zeros_length, pstringEncode]
    omega
  have hl1l : l1.length = k := by rw [← hl1, List.length_take]; omega
  have hso : (dfIdxSOs d.idxTails 128)[k]? = some (128 + (dfIdxBytes l1).length, t.length) := by
    have := dfIdxSOs_at l1 t l2 128
    rw [hl1l, ← hsplit] at this
    exact this
  have hib : d.idxBytes = dfIdxBytes l1 ++ (block t ++ dfIdxBytes l2) := by
    rw [DirIn.idxBytes, hsplit, dfIdxBytes_append, dfIdxBytes_cons]
  have hf : dirPackWrite H vendor uuid freeData d =
      (block (d.header vendor uuid).encode ++ (block (d.dh freeData).encode ++ dfIdxBytes l1)) ++
      (block t ++ (dfIdxBytes l2 ++ (block d.entryBytes ++ (block d.esTail ++ (d.vsBytes ++
        (block d.t1 ++ (block d.t2 ++ (block d.t3 ++ d.trailer H vendor uuid freeData)))))))) := by
    rw [dirPackWrite_eq, hib]
    simp only [List.append_assoc]
  have hAl : (block (d.header vendor uuid).encode ++ (block (d.dh freeData).encode ++
      dfIdxBytes l1)).length = 128 + (dfIdxBytes l1).length := by
    simp only [List.length_append, block_length, hel, hdl]; omega
  have hrb : readBlock (dirPackWrite H vendor uuid freeData d) (128 + (dfIdxBytes l1).length)
      t.length = .ok t := readBlock_at _ _ t _ _ _ hf hAl rfl
  have hpos : 128 + (dfIdxBytes l1).length < 2 ^ 48 := by
    have h1 : (dfIdxBytes l1).length ≤ d.idxBytes.length := by
      rw [hib, List.length_append]; omega
    have h2 : 128 + d.idxBytes.length ≤ d.checkPos := by
      simp only [DirIn.checkPos, DirIn.pos3, DirIn.pos2, DirIn.pos1]; omega
    omega
  have hsod : sizedOffsetDecode (slice d.t1 (8 * k) 8) =
      (128 + (dfIdxBytes l1).length, t.length) := by
    rw [DirIn.t1, soTable_slice _ k (by rw [dfIdxSOs_length]; exact hkt),
      List.getD_eq_getElem?_getD, hso]
    simp only [Option.getD_some]
    exact sizedOffset_roundtrip _ _ hpos htl
  have hdec : IndexInfo.decode t =
      .ok ⟨0, ix.count, ix.offset, zeros 4, 0, ix.name⟩ := by
    rw [← hT]
    exact IndexInfo.decode_encode _ (by show 0 < 2 ^ 32; decide) hw2 hw3 (zeros_length 4)
      (by show 0 < 256; decide) hw1
  unfold dirGetIndex
  rw [hopen]
  simp only [Outcome.ok_bind]
  rw [show (d.dh freeData).indexCount = d.indexes.length from rfl, ht1]
  simp only [Outcome.ok_bind, hk, if_true, hsod, hrb, hdec]

end Jubako
