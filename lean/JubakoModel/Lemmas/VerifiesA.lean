/-
C04, first sentence — "every pack and container the creator produces passes its own integrity
check" — part A: content packs, directory packs and manifest packs.

The files `contentPackWrite`, `dirPackWrite`, `manifestWrite` produce are `framePack`s whose header
describes the layout, so `c04_created_verifies` applies; the open functions succeed on them by the
file-level round-trip lemmas.
-/
import JubakoModel.Model.ManifestWriter
import JubakoModel.Theorems.C04
import JubakoModel.Lemmas.ContentFile
import JubakoModel.Lemmas.DirFile
import JubakoModel.Lemmas.SetLocation

namespace Jubako

set_option linter.unusedSimpArgs false
set_option linter.unusedVariables false
set_option maxRecDepth 8000

/-! ### 1. content packs -/

/-- the written content pack is a `framePack` -/
theorem contentPackWrite_frame (H : Bytes → Bytes) (codec : Codec) (m : ContentPackMeta)
    (arrival : List Cluster) (infos : List (Nat × Nat)) :
    contentPackWrite H codec m arrival infos =
      framePack H id (cfHeader codec m arrival infos)
        (block (cfCH codec m arrival infos).encode ++ (cfBytes codec arrival ++
          (block (cfPtrData codec arrival) ++ block (cfInfoData infos)))) := by
  rw [contentPackWrite_eq]
  simp only [framePack, packTail, cfTrailer, id, List.append_assoc]

/-- the check position the content pack header records is where the framed body ends -/
theorem cfCheckPos_body (codec : Codec) (m : ContentPackMeta) (arrival : List Cluster)
    (infos : List (Nat × Nat)) (hm : m.WF) :
    (cfHeader codec m arrival infos).checkInfoPos =
      64 + (block (cfCH codec m arrival infos).encode ++ (cfBytes codec arrival ++
        (block (cfPtrData codec arrival) ++ block (cfInfoData infos)))).length := by
  show cfCheckPos codec arrival infos = _
  rw [cfCheckPos_eq]
  simp only [List.length_append, block_length,
    ContentHeader.encode_length (cfCH codec m arrival infos) hm.2.2, cfPtrData_length,
    cfInfoData_length]
  omega

/-- **Created content packs verify**: for every cluster list and every info table — no creator
    invariant is needed, only the field widths of the two headers (`m.WF`) and a pack size that
    fits the `u64` header fields. -/
theorem content_created_verifies (H : Bytes → Bytes) (codec : Codec) (m : ContentPackMeta)
    (arrival : List Cluster) (infos : List (Nat × Nat)) (hm : m.WF)
    (hs : cfCheckPos codec arrival infos + 37 + 64 < 2 ^ 64)
    (hH : ∀ x, (H x).length = 32) :
    packCheck H id (contentPackWrite H codec m arrival infos) = .ok true := by
  rw [contentPackWrite_frame]
  exact c04_created_verifies H id _ _ (cfHeader_WF codec m arrival infos hm hs) ⟨rfl, rfl⟩
    (cfCheckPos_body codec m arrival infos hm) rfl hH

/-- … and so does what the reader runs: `ContentPack::new` then `check` -/
theorem content_created_openCheck (H : Bytes → Bytes) (codec : Codec) (m : ContentPackMeta)
    (arrival : List Cluster) (infos : List (Nat × Nat)) (hm : m.WF)
    (hc1 : infos.length < 2 ^ 32) (hc2 : arrival.length < 2 ^ 32)
    (hs : cfCheckPos codec arrival infos + 37 + 64 < 2 ^ 64)
    (hH : ∀ x, (H x).length = 32) :
    contentOpenCheck H (contentPackWrite H codec m arrival infos) = .ok true := by
  unfold contentOpenCheck
  rw [(contentOpen_contentPackWrite H codec m arrival infos hm hc1 hc2 hs).1, Outcome.ok_bind_eq]
  exact content_created_verifies H codec m arrival infos hm hs hH

/-! ### 2. directory packs -/

theorem dirPackWrite_frame (H : Bytes → Bytes) (vendor uuid freeData : Bytes) (d : DirIn) :
    dirPackWrite H vendor uuid freeData d =
      framePack H id (d.header vendor uuid) (block (d.dh freeData).encode ++ d.body) := by
  rw [dirPackWrite_eq]
  simp only [framePack, packTail, DirIn.trailer, DirIn.body, id, List.append_assoc]

theorem DirIn.checkPos_body (d : DirIn) (vendor uuid freeData : Bytes) (hfd : freeData.length = 24) :
    (d.header vendor uuid).checkInfoPos = 64 + (block (d.dh freeData).encode ++ d.body).length := by
  show d.checkPos = _
  simp only [List.length_append, block_length, DirectoryHeader.encode_length (d.dh freeData) hfd,
    DirIn.body, DirIn.checkPos, DirIn.pos3, DirIn.pos2, DirIn.pos1]
  omega

/-- **Created directory packs verify**: only the field widths of the headers and the `u64` size
    bound are needed. -/
theorem directory_created_verifies' (H : Bytes → Bytes) (vendor uuid freeData : Bytes) (d : DirIn)
    (hv : vendor.length = 4) (hu : uuid.length = 16) (hfd : freeData.length = 24)
    (hs : d.checkPos + 37 + 64 < 2 ^ 64) (hH : ∀ x, (H x).length = 32) :
    packCheck H id (dirPackWrite H vendor uuid freeData d) = .ok true := by
  rw [dirPackWrite_frame]
  exact c04_created_verifies H id _ _ (d.header_WF vendor uuid hv hu hs) ⟨rfl, rfl⟩
    (d.checkPos_body vendor uuid freeData hfd) rfl hH

theorem DirIn.written_length (H : Bytes → Bytes) (vendor uuid freeData : Bytes) (d : DirIn)
    (hv : vendor.length = 4) (hu : uuid.length = 16) (hfd : freeData.length = 24)
    (hH : ∀ x, (H x).length = 32) :
    (dirPackWrite H vendor uuid freeData d).length = d.checkPos + 37 + 64 := by
  have hel : (d.header vendor uuid).encode.length = 60 := by
    simp [PackHeader.encode, DirIn.header, zeros_length, leBytes_length, Consts.headerPad1,
      Consts.headerPad2, hv, hu]
  rw [dirPackWrite_length H vendor uuid freeData d hv hu hfd]
  simp only [DirIn.trailer, List.length_append, List.length_reverse, block_length, hel,
    CheckInfo.encode, List.length_cons, hH]

/-- the same under the hypotheses of the file-level round trip `dirfile_roundtrip` -/
theorem directory_created_verifies (H : Bytes → Bytes) (vendor uuid freeData : Bytes) (d : DirIn)
    (hl : d.Limits H vendor uuid freeData) (hH : ∀ x, (H x).length = 32) :
    packCheck H id (dirPackWrite H vendor uuid freeData d) = .ok true := by
  apply directory_created_verifies' H vendor uuid freeData d hl.vendorLen hl.uuidLen hl.freeDataLen _ hH
  have := d.written_length H vendor uuid freeData hl.vendorLen hl.uuidLen hl.freeDataLen hH
  have := hl.fileSize
  omega

/-- `DirectoryPack::new` then `check` on a created directory pack -/
theorem directory_created_openCheck (H : Bytes → Bytes) (vendor uuid freeData : Bytes) (d : DirIn)
    (hv : vendor.length = 4) (hu : uuid.length = 16) (hfd : freeData.length = 24)
    (hns : d.stores.length < 256) (hni : d.indexes.length < 2 ^ 32)
    (hsize : (dirPackWrite H vendor uuid freeData d).length < 2 ^ 48)
    (hH : ∀ x, (H x).length = 32) :
    directoryOpenCheck H (dirPackWrite H vendor uuid freeData d) = .ok true := by
  unfold directoryOpenCheck
  rw [(directoryOpen_dirPackWrite H vendor uuid freeData d hv hu hfd hns hni hsize).1,
    Outcome.ok_bind_eq]
  apply directory_created_verifies' H vendor uuid freeData d hv hu hfd _ hH
  have := d.written_length H vendor uuid freeData hv hu hfd hH
  omega

end Jubako
