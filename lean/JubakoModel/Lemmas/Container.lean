/- Lemmas on container packs: locator / container-header codecs, `concatLayout`, read-back of a
   written container pack, blind open (at 0 and embedded after a prefix), locator chain. -/
import JubakoModel.Model.Container
import JubakoModel.Lemmas.Codec

namespace Jubako

set_option linter.unusedSimpArgs false
set_option linter.unusedVariables false

/-! ### 7. locator chain -/

theorem locate_enclosed (fs : FS) (entryFile : String) (entryPacks : List PackAt) (u : Bytes)
    (loc : String) (p : PackAt) (h : entryPacks.find? (fun q => q.uuid == u) = some p) :
    locate fs entryFile entryPacks u loc = .ok (some ⟨entryFile, p⟩) := by
  simp only [locate, h]

theorem locate_fs (fs : FS) (entryFile : String) (entryPacks : List PackAt) (u : Bytes)
    (loc : String) (h : entryPacks.find? (fun q => q.uuid == u) = none) :
    locate fs entryFile entryPacks u loc = fsLocate fs u loc := by
  simp only [locate, h]

theorem fsLocate_missing (fs : FS) (u : Bytes) (loc : String) (h : fs.get loc = none) :
    fsLocate fs u loc = .ok none := by
  unfold fsLocate
  split
  · rfl
  · simp only [h]

theorem fsLocate_other_uuid (fs : FS) (u : Bytes) (loc : String) (f : Bytes) (packs : List PackAt)
    (hf : fs.get loc = some f) (hne : loc ≠ "") (hb : blindOpen f = .ok packs)
    (hn : ∀ p ∈ packs, p.uuid ≠ u) : fsLocate fs u loc = .ok none := by
  have hfind : packs.find? (fun p => p.uuid == u) = none := by
    rw [List.find?_eq_none]
    intro p hp
    simpa using hn p hp
  unfold fsLocate
  rw [if_neg hne]
  simp only [hf, hb]
  show Outcome.ok ((packs.find? (fun p => p.uuid == u)).map (fun p => (⟨loc, p⟩ : Located))) = _
  rw [hfind]
  rfl

/-! ### 1. codecs -/

theorem PackLocator.encode_length (l : PackLocator) (h : l.uuid.length = 16) :
    l.encode.length = 32 := by
  simp [PackLocator.encode, leBytes_length, h]

theorem PackLocator.decode_encode (l : PackLocator) (hu : l.uuid.length = 16) (hs : l.size < 2 ^ 64)
    (hp : l.pos < 2 ^ 64) : PackLocator.decode l.encode = .ok l := by
  have hlen := PackLocator.encode_length l hu
  obtain ⟨uuid, size, pos⟩ := l
  simp only at hu hs hp
  have e : PackLocator.encode ⟨uuid, size, pos⟩ = uuid ++ (leBytes size 8 ++ leBytes pos 8) := by
    simp [PackLocator.encode]
  rw [e] at hlen ⊢
  generalize hbs : (uuid ++ (leBytes size 8 ++ leBytes pos 8)) = bs at hlen ⊢
  have h1 : slice bs 0 16 = uuid := by subst hbs; seg_simp [hu]
  have h2 : slice bs 16 8 = leBytes size 8 := by subst hbs; seg_simp [hu]
  have h3 : slice bs 24 8 = leBytes pos 8 := by subst hbs; seg_simp [hu]
  have h8 : (256 : Nat) ^ 8 = 2 ^ 64 := by decide
  simp only [PackLocator.decode, hlen, h1, h2, h3, leNat_leBytes_of_lt _ 8 (h8 ▸ hs),
    leNat_leBytes_of_lt _ 8 (h8 ▸ hp)]
  simp

theorem ContainerHeader.encode_length (h : ContainerHeader) (hf : h.freeData.length = 24) :
    h.encode.length = 60 := by
  simp [ContainerHeader.encode, leBytes_length, zeros_length, hf]

theorem ContainerHeader.decode_encode (h : ContainerHeader) (h1 : h.locatorsPos < 2 ^ 64)
    (h2 : h.packCount < 2 ^ 16) (h3 : h.freeData.length = 24) :
    ContainerHeader.decode h.encode = .ok h := by
  have hlen := ContainerHeader.encode_length h h3
  obtain ⟨lp, pc, fd⟩ := h
  simp only at h1 h2 h3
  have e : ContainerHeader.encode ⟨lp, pc, fd⟩ = leBytes lp 8 ++ (leBytes pc 2 ++ (zeros 26 ++ fd)) := by
    simp [ContainerHeader.encode]
  rw [e] at hlen ⊢
  generalize hbs : (leBytes lp 8 ++ (leBytes pc 2 ++ (zeros 26 ++ fd))) = bs at hlen ⊢
  have ha : slice bs 0 8 = leBytes lp 8 := by subst hbs; seg_simp [h3]
  have hb : slice bs 8 2 = leBytes pc 2 := by subst hbs; seg_simp [h3]
  have hc : slice bs 36 24 = fd := by subst hbs; seg_simp [h3]
  have h8 : (256 : Nat) ^ 8 = 2 ^ 64 := by decide
  have h16 : (256 : Nat) ^ 2 = 2 ^ 16 := by decide
  simp only [ContainerHeader.decode, hlen, ha, hb, hc, leNat_leBytes_of_lt _ 8 (h8 ▸ h1),
    leNat_leBytes_of_lt _ 2 (h16 ▸ h2)]
  simp

/-! ### 2. layout of the packs -/

/-- the locators `concatLayout` produces, when `off` body bytes precede the packs -/
def layoutLocs (off : Nat) : List (Bytes × Bytes) → List PackLocator
  | [] => []
  | p :: ps => ⟨p.1, p.2.length, 128 + off⟩ :: layoutLocs (off + p.2.length) ps

theorem concatLayout_fold (packs : List (Bytes × Bytes)) (b0 : Bytes) (l0 : List PackLocator) :
    packs.foldl (fun (acc : Bytes × List PackLocator) p =>
      (acc.1 ++ p.2, acc.2 ++ [⟨p.1, p.2.length, 128 + acc.1.length⟩])) (b0, l0) =
    (b0 ++ (packs.map (·.2)).flatten, l0 ++ layoutLocs b0.length packs) := by
  induction packs generalizing b0 l0 with
  | nil => simp [layoutLocs]
  | cons p ps ih =>
    rw [List.foldl_cons, ih]
    simp [layoutLocs, List.append_assoc]

theorem concatLayout_eq (packs : List (Bytes × Bytes)) :
    concatLayout packs = ((packs.map (·.2)).flatten, layoutLocs 0 packs) := by
  unfold concatLayout
  rw [concatLayout_fold]
  simp

theorem layoutLocs_length (off : Nat) (packs : List (Bytes × Bytes)) :
    (layoutLocs off packs).length = packs.length := by
  induction packs generalizing off with
  | nil => rfl
  | cons p ps ih => simp [layoutLocs, ih]

theorem layoutLocs_uuids (off : Nat) (packs : List (Bytes × Bytes)) :
    (layoutLocs off packs).map (·.uuid) = packs.map (·.1) := by
  induction packs generalizing off with
  | nil => rfl
  | cons p ps ih => simp [layoutLocs, ih]

/-- every locator's region lies inside the body -/
theorem layoutLocs_bound (off : Nat) (packs : List (Bytes × Bytes)) :
    ∀ l ∈ layoutLocs off packs,
      128 + off ≤ l.pos ∧ l.pos + l.size ≤ 128 + off + ((packs.map (·.2)).flatten).length := by
  induction packs generalizing off with
  | nil => intro l hl; simp [layoutLocs] at hl
  | cons p ps ih =>
    intro l hl
    simp only [layoutLocs, List.mem_cons] at hl
    simp only [List.map_cons, List.flatten_cons, List.length_append]
    rcases hl with rfl | hl
    · simp only; omega
    · have := ih (off + p.2.length) l hl
      omega

theorem layoutLocs_getD (off : Nat) (packs : List (Bytes × Bytes)) (k : Nat) (hk : k < packs.length) :
    ((layoutLocs off packs).getD k ⟨[], 0, 0⟩).uuid = (packs.getD k ([], [])).1 ∧
    ((layoutLocs off packs).getD k ⟨[], 0, 0⟩).size = (packs.getD k ([], [])).2.length ∧
    slice ((packs.map (·.2)).flatten) (((layoutLocs off packs).getD k ⟨[], 0, 0⟩).pos - 128 - off)
      (packs.getD k ([], [])).2.length = (packs.getD k ([], [])).2 ∧
    128 + off ≤ ((layoutLocs off packs).getD k ⟨[], 0, 0⟩).pos := by
  induction packs generalizing off k with
  | nil => simp at hk
  | cons p ps ih =>
    cases k with
    | zero =>
      simp only [layoutLocs, List.getD_cons_zero, List.map_cons, List.flatten_cons]
      refine ⟨trivial, trivial, ?_, Nat.le_refl _⟩
      rw [show 128 + off - 128 - off = 0 by omega]
      exact slice_append_left _ _
    | succ k =>
      simp only [List.length_cons, Nat.add_lt_add_iff_right] at hk
      obtain ⟨h1, h2, h3, h4⟩ := ih (off + p.2.length) k hk
      simp only [layoutLocs, List.getD_cons_succ, List.map_cons, List.flatten_cons]
      refine ⟨h1, h2, ?_, by omega⟩
      rw [slice_skip _ _ _ _ (by omega)]
      rw [show ((layoutLocs (off + p.2.length) ps).getD k ⟨[], 0, 0⟩).pos - 128 - off - p.2.length =
        ((layoutLocs (off + p.2.length) ps).getD k ⟨[], 0, 0⟩).pos - 128 - (off + p.2.length) by omega]
      exact h3

theorem concatLayout_spec (packs : List (Bytes × Bytes)) :
    (concatLayout packs).1 = (packs.map (·.2)).flatten ∧
    (concatLayout packs).2.length = packs.length ∧
    ∀ k (hk : k < packs.length),
      ((concatLayout packs).2.getD k ⟨[], 0, 0⟩).uuid = (packs.getD k ([], [])).1 ∧
      ((concatLayout packs).2.getD k ⟨[], 0, 0⟩).size = (packs.getD k ([], [])).2.length ∧
      slice (concatLayout packs).1 (((concatLayout packs).2.getD k ⟨[], 0, 0⟩).pos - 128)
        (packs.getD k ([], [])).2.length = (packs.getD k ([], [])).2 ∧
      128 ≤ ((concatLayout packs).2.getD k ⟨[], 0, 0⟩).pos := by
  rw [concatLayout_eq]
  refine ⟨rfl, layoutLocs_length 0 packs, ?_⟩
  intro k hk
  have := layoutLocs_getD 0 packs k hk
  simpa using this

/-! ### 3. permutation independence at the structure level -/

def lookupPack (body : Bytes) (locs : List PackLocator) (u : Bytes) : Option Bytes :=
  (locs.find? (fun l => l.uuid == u)).map (fun l => slice body (l.pos - 128) l.size)

theorem layoutLocs_find (off : Nat) (packs : List (Bytes × Bytes))
    (hn : (packs.map (·.1)).Nodup) (u b : Bytes) (h : (u, b) ∈ packs) :
    ∃ l, (layoutLocs off packs).find? (fun l => l.uuid == u) = some l ∧ l.size = b.length ∧
      128 + off ≤ l.pos ∧ slice ((packs.map (·.2)).flatten) (l.pos - 128 - off) b.length = b := by
  induction packs generalizing off with
  | nil => simp at h
  | cons p ps ih =>
    simp only [List.map_cons, List.nodup_cons] at hn
    obtain ⟨hnot, hnd⟩ := hn
    by_cases hpu : p.1 = u
    · have hpb : p = (u, b) := by
        rcases List.mem_cons.mp h with h | h
        · exact h.symm
        · exfalso
          apply hnot
          rw [hpu]
          exact List.mem_map.mpr ⟨(u, b), h, rfl⟩
      subst hpb
      refine ⟨⟨u, b.length, 128 + off⟩, ?_, rfl, Nat.le_refl _, ?_⟩
      · simp [layoutLocs]
      · simp only [List.map_cons, List.flatten_cons]
        rw [show 128 + off - 128 - off = 0 by omega]
        exact slice_append_left _ _
    · have hps : (u, b) ∈ ps := by
        rcases List.mem_cons.mp h with h | h
        · exfalso; apply hpu; rw [← h]
        · exact h
      obtain ⟨l, hl1, hl2, hl3, hl4⟩ := ih (off + p.2.length) hnd hps
      refine ⟨l, ?_, hl2, by omega, ?_⟩
      · simp only [layoutLocs]
        rw [List.find?_cons_of_neg (by simpa using hpu)]
        exact hl1
      · simp only [List.map_cons, List.flatten_cons]
        rw [slice_skip _ _ _ _ (by omega)]
        rw [show l.pos - 128 - off - p.2.length = l.pos - 128 - (off + p.2.length) by omega]
        exact hl4

theorem concat_lookup (packs : List (Bytes × Bytes)) (hn : (packs.map (·.1)).Nodup) (u b : Bytes)
    (h : (u, b) ∈ packs) :
    lookupPack (concatLayout packs).1 (concatLayout packs).2 u = some b := by
  rw [concatLayout_eq]
  obtain ⟨l, h1, h2, h3, h4⟩ := layoutLocs_find 0 packs hn u b h
  simp only [lookupPack, h1, Option.map_some, h2]
  simpa using h4

theorem concat_lookup_none (packs : List (Bytes × Bytes)) (u : Bytes)
    (h : u ∉ packs.map (·.1)) :
    lookupPack (concatLayout packs).1 (concatLayout packs).2 u = none := by
  rw [concatLayout_eq]
  have : (layoutLocs 0 packs).find? (fun l => l.uuid == u) = none := by
    rw [List.find?_eq_none]
    intro l hl hlu
    apply h
    rw [← layoutLocs_uuids 0 packs]
    exact List.mem_map.mpr ⟨l, hl, by simpa using hlu⟩
  simp only [lookupPack, this, Option.map_none]

theorem concat_lookup_perm (packs packs' : List (Bytes × Bytes)) (hp : packs.Perm packs')
    (hn : (packs.map (·.1)).Nodup) (u : Bytes) :
    lookupPack (concatLayout packs').1 (concatLayout packs').2 u =
    lookupPack (concatLayout packs).1 (concatLayout packs).2 u := by
  have hpm : (packs.map (·.1)).Perm (packs'.map (·.1)) := hp.map _
  have hn' : (packs'.map (·.1)).Nodup := hpm.nodup_iff.mp hn
  by_cases hu : u ∈ packs.map (·.1)
  · obtain ⟨⟨u', b⟩, hmem, hu'⟩ := List.mem_map.mp hu
    simp only at hu'
    subst hu'
    rw [concat_lookup packs hn u' b hmem, concat_lookup packs' hn' u' b (hp.mem_iff.mp hmem)]
  · have hu' : u ∉ packs'.map (·.1) := fun hx => hu (hpm.mem_iff.mpr hx)
    rw [concat_lookup_none packs u hu, concat_lookup_none packs' u hu']

/-! ### Outcome helpers, the locator loop -/

theorem Outcome.ok_bind_eq {α β} (a : α) (f : α → Outcome β) : (Outcome.ok a >>= f) = f a := rfl

/-- shift the origin of a found pack -/
def PackAt.shift (o : Nat) (p : PackAt) : PackAt := { p with origin := o + p.origin }

/-- one iteration of the locator loop of `containerPackOpen` -/
def locStep (g : Bytes) (lp origin : Nat) (acc : List PackAt) (k : Nat) : Outcome (List PackAt) :=
  readBlock g (lp + k * 36) 32 >>= fun lb =>
  PackLocator.decode lb >>= fun l =>
  pure (acc ++ [⟨l.uuid, origin + l.pos, l.size⟩])

/-- the locator loop of `containerPackOpen` -/
def locLoop (g : Bytes) (lp origin : Nat) (ks : List Nat) (acc : List PackAt) : Outcome (List PackAt) :=
  ks.foldlM (locStep g lp origin) acc

theorem containerPackOpen_eq (f : Bytes) (origin size : Nat) :
    containerPackOpen f origin size =
      (openHeader (slice f origin size) .container >>= fun _ =>
       readBlock (slice f origin size) 64 60 >>= fun cb =>
       ContainerHeader.decode cb >>= fun ch =>
       locLoop (slice f origin size) ch.locatorsPos origin (List.range ch.packCount) []) := rfl

theorem locLoop_nil (g : Bytes) (lp origin : Nat) (acc : List PackAt) :
    locLoop g lp origin [] acc = .ok acc := rfl

theorem locLoop_cons (g : Bytes) (lp origin : Nat) (k : Nat) (ks : List Nat) (acc : List PackAt) :
    locLoop g lp origin (k :: ks) acc =
      (locStep g lp origin acc k >>= fun a => locLoop g lp origin ks a) := rfl

theorem locStep_ok (g : Bytes) (lp origin : Nat) (acc : List PackAt) (k : Nat) (l : PackLocator)
    (lb : Bytes) (h1 : readBlock g (lp + k * 36) 32 = .ok lb) (h2 : PackLocator.decode lb = .ok l) :
    locStep g lp origin acc k = .ok (acc ++ [⟨l.uuid, origin + l.pos, l.size⟩]) := by
  unfold locStep
  rw [h1, Outcome.ok_bind_eq, h2, Outcome.ok_bind_eq]
  rfl

/-! ### 6a. a container pack is read the same wherever it sits in a file -/

theorem slice_prefix (pre w : Bytes) : slice (pre ++ w) pre.length w.length = w := by
  have := slice_append_right pre w 0 w.length
  rw [Nat.add_zero] at this
  rw [this, slice_all]

theorem locStep_shift (g : Bytes) (lp o : Nat) (acc : List PackAt) (k : Nat) :
    locStep g lp o (acc.map (PackAt.shift o)) k =
      (locStep g lp 0 acc k).map' (List.map (PackAt.shift o)) := by
  unfold locStep
  generalize readBlock g (lp + k * 36) 32 = rb
  cases rb with
  | ok lb =>
    rw [Outcome.ok_bind_eq, Outcome.ok_bind_eq]
    generalize PackLocator.decode lb = d
    cases d with
    | ok l =>
      rw [Outcome.ok_bind_eq, Outcome.ok_bind_eq]
      show Outcome.ok _ = Outcome.ok _
      simp [PackAt.shift]
    | err e => rfl
    | panic s => rfl
    | hang => rfl
    | fault => rfl
  | err e => rfl
  | panic s => rfl
  | hang => rfl
  | fault => rfl

theorem locLoop_shift (g : Bytes) (lp o : Nat) (ks : List Nat) (acc : List PackAt) :
    locLoop g lp o ks (acc.map (PackAt.shift o)) =
      (locLoop g lp 0 ks acc).map' (List.map (PackAt.shift o)) := by
  induction ks generalizing acc with
  | nil => rfl
  | cons k ks ih =>
    rw [locLoop_cons, locLoop_cons, locStep_shift]
    generalize locStep g lp 0 acc k = st
    cases st with
    | ok a => exact ih a
    | err e => rfl
    | panic s => rfl
    | hang => rfl
    | fault => rfl

/-- general form: opening the region `[pre.length, pre.length + w.length)` of `pre ++ w` gives the
    outcome of opening `w` alone, with the origins shifted by `pre.length` (errors are unchanged) -/
theorem containerPackOpen_prefix (pre w : Bytes) :
    containerPackOpen (pre ++ w) pre.length w.length =
      (containerPackOpen w 0 w.length).map' (List.map (PackAt.shift pre.length)) := by
  rw [containerPackOpen_eq, containerPackOpen_eq, slice_prefix, slice_all]
  generalize openHeader w .container = oh
  cases oh with
  | ok h =>
    rw [Outcome.ok_bind_eq, Outcome.ok_bind_eq]
    generalize readBlock w 64 60 = rb
    cases rb with
    | ok cb =>
      rw [Outcome.ok_bind_eq, Outcome.ok_bind_eq]
      generalize ContainerHeader.decode cb = d
      cases d with
      | ok ch =>
        rw [Outcome.ok_bind_eq, Outcome.ok_bind_eq]
        exact locLoop_shift w ch.locatorsPos pre.length (List.range ch.packCount) []
      | err e => rfl
      | panic s => rfl
      | hang => rfl
      | fault => rfl
    | err e => rfl
    | panic s => rfl
    | hang => rfl
    | fault => rfl
  | err e => rfl
  | panic s => rfl
  | hang => rfl
  | fault => rfl

theorem containerPackOpen_shift (pre w : Bytes) (r : List PackAt)
    (h : containerPackOpen w 0 w.length = .ok r) :
    containerPackOpen (pre ++ w) pre.length w.length =
      .ok (r.map (fun p => { p with origin := pre.length + p.origin })) := by
  rw [containerPackOpen_prefix, h]
  rfl

/-! ### 4. the written container pack, segment by segment -/

/-- the locator table: one 36-byte block per locator -/
def locTable (locs : List PackLocator) : Bytes := (locs.map (fun l => block l.encode)).flatten

def cpwBody (packs : List (Bytes × Bytes)) : Bytes := (packs.map (·.2)).flatten

def cpwCheckPos (packs : List (Bytes × Bytes)) : Nat :=
  128 + (cpwBody packs).length + (locTable (layoutLocs 0 packs)).length

/-- the pack header `containerPackWrite` writes -/
def cpwHeader (uuid : Bytes) (packs : List (Bytes × Bytes)) : PackHeader :=
  ⟨PackKind.container, [0, 0, 0, 0], Consts.versionMajor, Consts.versionMinor, uuid, 0,
    cpwCheckPos packs + 5 + 64, cpwCheckPos packs⟩

/-- the container header `containerPackWrite` writes -/
def cpwCH (freeData : Bytes) (packs : List (Bytes × Bytes)) : ContainerHeader :=
  ⟨128 + (cpwBody packs).length, packs.length, freeData⟩

theorem containerPackWrite_eq (uuid freeData : Bytes) (packs : List (Bytes × Bytes)) :
    containerPackWrite uuid freeData packs =
      block (cpwHeader uuid packs).encode ++ (block (cpwCH freeData packs).encode ++ (cpwBody packs ++
        (locTable (layoutLocs 0 packs) ++ (block CheckInfo.none.encode ++
          (block (cpwHeader uuid packs).encode).reverse)))) := by
  unfold containerPackWrite
  rw [concatLayout_eq]
  simp only [cpwHeader, cpwCH, cpwCheckPos, cpwBody, locTable, packTail, List.append_assoc]

theorem locTable_nil : locTable [] = [] := rfl

theorem locTable_cons (l : PackLocator) (ls : List PackLocator) :
    locTable (l :: ls) = block l.encode ++ locTable ls := by
  simp [locTable]

theorem locTable_append (a b : List PackLocator) : locTable (a ++ b) = locTable a ++ locTable b := by
  simp [locTable]

theorem locTable_length (locs : List PackLocator) (h : ∀ l ∈ locs, l.uuid.length = 16) :
    (locTable locs).length = locs.length * 36 := by
  induction locs with
  | nil => rfl
  | cons l ls ih =>
    rw [locTable_cons, List.length_append, block_length,
      PackLocator.encode_length l (h l (List.mem_cons_self ..)),
      ih (fun x hx => h x (List.mem_cons_of_mem _ hx)), List.length_cons]
    omega

theorem cpwHeader_WF (uuid : Bytes) (packs : List (Bytes × Bytes)) (hu : uuid.length = 16)
    (hs : cpwCheckPos packs + 5 + 64 < 2 ^ 64) : (cpwHeader uuid packs).WF := by
  refine ⟨rfl, hu, by decide, by decide, by decide, hs, ?_⟩
  show cpwCheckPos packs < 2 ^ 64
  omega

theorem cpwHeader_encode_length (uuid : Bytes) (packs : List (Bytes × Bytes)) (hu : uuid.length = 16) :
    (cpwHeader uuid packs).encode.length = 60 := by
  simp [PackHeader.encode, cpwHeader, zeros_length, leBytes_length, Consts.headerPad1,
    Consts.headerPad2, hu]

/-- the file length is the declared `packSize` (D12 repaired) -/
theorem containerPackWrite_length (uuid freeData : Bytes) (packs : List (Bytes × Bytes))
    (hu : uuid.length = 16) (hf : freeData.length = 24) (hpu : ∀ p ∈ packs, p.1.length = 16) :
    (containerPackWrite uuid freeData packs).length = cpwCheckPos packs + 5 + 64 := by
  rw [containerPackWrite_eq]
  simp only [List.length_append, List.length_reverse, block_length,
    cpwHeader_encode_length uuid packs hu, ContainerHeader.encode_length (cpwCH freeData packs) hf,
    cpwCheckPos, CheckInfo.encode, List.length_cons, List.length_nil]
  omega

theorem containerPackWrite_length_packSize (uuid freeData : Bytes) (packs : List (Bytes × Bytes))
    (hu : uuid.length = 16) (hf : freeData.length = 24) (hpu : ∀ p ∈ packs, p.1.length = 16) :
    (containerPackWrite uuid freeData packs).length = (cpwHeader uuid packs).packSize :=
  containerPackWrite_length uuid freeData packs hu hf hpu

end Jubako
