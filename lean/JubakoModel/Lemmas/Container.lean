/- Lemmas on container packs: locator / container-header codecs, `concatLayout`, read-back of a
   written container pack, blind open (at 0 and embedded after a prefix), locator chain. -/
import JubakoModel.Model.Container
import JubakoModel.Lemmas.Codec

namespace Jubako

set_option linter.unusedSimpArgs false
set_option linter.unusedVariables false

/-! ### 7. locator chain -/

theorem locate_enclosed (fs : FS) (entryFile : String) (entryPacks : List PackAt) (u : Bytes)
    (loc : String) (p : PackAt) (h : entryPacks.find? (fun q => q.uuid == u) = some p) :
    locate fs entryFile entryPacks u loc = .ok (some ⟨entryFile, p⟩) := by
  simp only [locate, h]

theorem locate_fs (fs : FS) (entryFile : String) (entryPacks : List PackAt) (u : Bytes)
    (loc : String) (h : entryPacks.find? (fun q => q.uuid == u) = none) :
    locate fs entryFile entryPacks u loc = fsLocate fs u loc := by
  simp only [locate, h]

theorem fsLocate_missing (fs : FS) (u : Bytes) (loc : String) (h : fs.get loc = none) :
    fsLocate fs u loc = .ok none := by
  unfold fsLocate
  split
  · rfl
  · simp only [h]

theorem fsLocate_other_uuid (fs : FS) (u : Bytes) (loc : String) (f : Bytes) (packs : List PackAt)
    (hf : fs.get loc = some f) (hne : loc ≠ "") (hb : blindOpen f = .ok packs)
    (hn : ∀ p ∈ packs, p.uuid ≠ u) : fsLocate fs u loc = .ok none := by
  have hfind : packs.find? (fun p => p.uuid == u) = none := by
    rw [List.find?_eq_none]
    intro p hp
    simpa using hn p hp
  unfold fsLocate
  rw [if_neg hne]
  simp only [hf, hb]
  show Outcome.ok ((packs.find? (fun p => p.uuid == u)).map (fun p => (⟨loc, p⟩ : Located))) = _
  rw [hfind]
  rfl

/-! ### 1. codecs -/

theorem PackLocator.encode_length (l : PackLocator) (h : l.uuid.length = 16) :
    l.encode.length = 32 := by
  simp [PackLocator.encode, leBytes_length, h]

theorem PackLocator.decode_encode (l : PackLocator) (hu : l.uuid.length = 16) (hs : l.size < 2 ^ 64)
    (hp : l.pos < 2 ^ 64) : PackLocator.decode l.encode = .ok l := by
  have hlen := PackLocator.encode_length l hu
  obtain ⟨uuid, size, pos⟩ := l
  simp only at hu hs hp
  have e : PackLocator.encode ⟨uuid, size, pos⟩ = uuid ++ (leBytes size 8 ++ leBytes pos 8) := by
    simp [PackLocator.encode]
  rw [e] at hlen ⊢
  generalize hbs : (uuid ++ (leBytes size 8 ++ leBytes pos 8)) = bs at hlen ⊢
  have h1 : slice bs 0 16 = uuid := by subst hbs; seg_simp [hu]
  have h2 : slice bs 16 8 = leBytes size 8 := by subst hbs; seg_simp [hu]
  have h3 : slice bs 24 8 = leBytes pos 8 := by subst hbs; seg_simp [hu]
  have h8 : (256 : Nat) ^ 8 = 2 ^ 64 := by decide
  simp only [PackLocator.decode, hlen, h1, h2, h3, leNat_leBytes_of_lt _ 8 (h8 ▸ hs),
    leNat_leBytes_of_lt _ 8 (h8 ▸ hp)]
  simp

theorem ContainerHeader.encode_length (h : ContainerHeader) (hf : h.freeData.length = 24) :
    h.encode.length = 60 := by
  simp [ContainerHeader.encode, leBytes_length, zeros_length, hf]

theorem ContainerHeader.decode_encode (h : ContainerHeader) (h1 : h.locatorsPos < 2 ^ 64)
    (h2 : h.packCount < 2 ^ 16) (h3 : h.freeData.length = 24) :
    ContainerHeader.decode h.encode = .ok h := by
  have hlen := ContainerHeader.encode_length h h3
  obtain ⟨lp, pc, fd⟩ := h
  simp only at h1 h2 h3
  have e : ContainerHeader.encode ⟨lp, pc, fd⟩ = leBytes lp 8 ++ (leBytes pc 2 ++ (zeros 26 ++ fd)) := by
    simp [ContainerHeader.encode]
  rw [e] at hlen ⊢
  generalize hbs : (leBytes lp 8 ++ (leBytes pc 2 ++ (zeros 26 ++ fd))) = bs at hlen ⊢
  have ha : slice bs 0 8 = leBytes lp 8 := by subst hbs; seg_simp [h3]
  have hb : slice bs 8 2 = leBytes pc 2 := by subst hbs; seg_simp [h3]
  have hc : slice bs 36 24 = fd := by subst hbs; seg_simp [h3]
  have h8 : (256 : Nat) ^ 8 = 2 ^ 64 := by decide
  have h16 : (256 : Nat) ^ 2 = 2 ^ 16 := by decide
  simp only [ContainerHeader.decode, hlen, ha, hb, hc, leNat_leBytes_of_lt _ 8 (h8 ▸ h1),
    leNat_leBytes_of_lt _ 2 (h16 ▸ h2)]
  simp

/-! ### 2. layout of the packs -/

/-- the locators `concatLayout` produces, when `off` body bytes precede the packs -/
def layoutLocs (off : Nat) : List (Bytes × Bytes) → List PackLocator
  | [] => []
  | p :: ps => ⟨p.1, p.2.length, 128 + off⟩ :: layoutLocs (off + p.2.length) ps

theorem concatLayout_fold (packs : List (Bytes × Bytes)) (b0 : Bytes) (l0 : List PackLocator) :
    packs.foldl (fun (acc : Bytes × List PackLocator) p =>
      (acc.1 ++ p.2, acc.2 ++ [⟨p.1, p.2.length, 128 + acc.1.length⟩])) (b0, l0) =
    (b0 ++ (packs.map (·.2)).flatten, l0 ++ layoutLocs b0.length packs) := by
  induction packs generalizing b0 l0 with
  | nil => simp [layoutLocs]
  | cons p ps ih =>
    rw [List.foldl_cons, ih]
    simp [layoutLocs, List.append_assoc]

theorem concatLayout_eq (packs : List (Bytes × Bytes)) :
    concatLayout packs = ((packs.map (·.2)).flatten, layoutLocs 0 packs) := by
  unfold concatLayout
  rw [concatLayout_fold]
  simp

theorem layoutLocs_length (off : Nat) (packs : List (Bytes × Bytes)) :
    (layoutLocs off packs).length = packs.length := by
  induction packs generalizing off with
  | nil => rfl
  | cons p ps ih => simp [layoutLocs, ih]

theorem layoutLocs_uuids (off : Nat) (packs : List (Bytes × Bytes)) :
    (layoutLocs off packs).map (·.uuid) = packs.map (·.1) := by
  induction packs generalizing off with
  | nil => rfl
  | cons p ps ih => simp [layoutLocs, ih]

/-- every locator's region lies inside the body -/
theorem layoutLocs_bound (off : Nat) (packs : List (Bytes × Bytes)) :
    ∀ l ∈ layoutLocs off packs,
      128 + off ≤ l.pos ∧ l.pos + l.size ≤ 128 + off + ((packs.map (·.2)).flatten).length := by
  induction packs generalizing off with
  | nil => intro l hl; simp [layoutLocs] at hl
  | cons p ps ih =>
    intro l hl
    simp only [layoutLocs, List.mem_cons] at hl
    simp only [List.map_cons, List.flatten_cons, List.length_append]
    rcases hl with rfl | hl
    · simp only; omega
    · have := ih (off + p.2.length) l hl
      omega

theorem layoutLocs_getD (off : Nat) (packs : List (Bytes × Bytes)) (k : Nat) (hk : k < packs.length) :
    ((layoutLocs off packs).getD k ⟨[], 0, 0⟩).uuid = (packs.getD k ([], [])).1 ∧
    ((layoutLocs off packs).getD k ⟨[], 0, 0⟩).size = (packs.getD k ([], [])).2.length ∧
    slice ((packs.map (·.2)).flatten) (((layoutLocs off packs).getD k ⟨[], 0, 0⟩).pos - 128 - off)
      (packs.getD k ([], [])).2.length = (packs.getD k ([], [])).2 ∧
    128 + off ≤ ((layoutLocs off packs).getD k ⟨[], 0, 0⟩).pos := by
  induction packs generalizing off k with
  | nil => simp at hk
  | cons p ps ih =>
    cases k with
    | zero =>
      simp only [layoutLocs, List.getD_cons_zero, List.map_cons, List.flatten_cons]
      refine ⟨trivial, trivial, ?_, Nat.le_refl _⟩
      rw [show 128 + off - 128 - off = 0 by omega]
      exact slice_append_left _ _
    | succ k =>
      simp only [List.length_cons, Nat.add_lt_add_iff_right] at hk
      obtain ⟨h1, h2, h3, h4⟩ := ih (off + p.2.length) k hk
      simp only [layoutLocs, List.getD_cons_succ, List.map_cons, List.flatten_cons]
      refine ⟨h1, h2, ?_, by omega⟩
      rw [slice_skip _ _ _ _ (by omega)]
      rw [show ((layoutLocs (off + p.2.length) ps).getD k ⟨[], 0, 0⟩).pos - 128 - off - p.2.length =
        ((layoutLocs (off + p.2.length) ps).getD k ⟨[], 0, 0⟩).pos - 128 - (off + p.2.length) by omega]
      exact h3

theorem concatLayout_spec (packs : List (Bytes × Bytes)) :
    (concatLayout packs).1 = (packs.map (·.2)).flatten ∧
    (concatLayout packs).2.length = packs.length ∧
    ∀ k (hk : k < packs.length),
      ((concatLayout packs).2.getD k ⟨[], 0, 0⟩).uuid = (packs.getD k ([], [])).1 ∧
      ((concatLayout packs).2.getD k ⟨[], 0, 0⟩).size = (packs.getD k ([], [])).2.length ∧
      slice (concatLayout packs).1 (((concatLayout packs).2.getD k ⟨[], 0, 0⟩).pos - 128)
        (packs.getD k ([], [])).2.length = (packs.getD k ([], [])).2 ∧
      128 ≤ ((concatLayout packs).2.getD k ⟨[], 0, 0⟩).pos := by
  rw [concatLayout_eq]
  refine ⟨rfl, layoutLocs_length 0 packs, ?_⟩
  intro k hk
  have := layoutLocs_getD 0 packs k hk
  simpa using this

/-! ### 3. permutation independence at the structure level -/

def lookupPack (body : Bytes) (locs : List PackLocator) (u : Bytes) : Option Bytes :=
  (locs.find? (fun l => l.uuid == u)).map (fun l => slice body (l.pos - 128) l.size)

theorem layoutLocs_find (off : Nat) (packs : List (Bytes × Bytes))
    (hn : (packs.map (·.1)).Nodup) (u b : Bytes) (h : (u, b) ∈ packs) :
    ∃ l, (layoutLocs off packs).find? (fun l => l.uuid == u) = some l ∧ l.size = b.length ∧
      128 + off ≤ l.pos ∧ slice ((packs.map (·.2)).flatten) (l.pos - 128 - off) b.length = b := by
  induction packs generalizing off with
  | nil => simp at h
  | cons p ps ih =>
    simp only [List.map_cons, List.nodup_cons] at hn
    obtain ⟨hnot, hnd⟩ := hn
    by_cases hpu : p.1 = u
    · have hpb : p = (u, b) := by
        rcases List.mem_cons.mp h with h | h
        · exact h.symm
        · exfalso
          apply hnot
          rw [hpu]
          exact List.mem_map.mpr ⟨(u, b), h, rfl⟩
      subst hpb
      refine ⟨⟨u, b.length, 128 + off⟩, ?_, rfl, Nat.le_refl _, ?_⟩
      · simp [layoutLocs]
      · simp only [List.map_cons, List.flatten_cons]
        rw [show 128 + off - 128 - off = 0 by omega]
        exact slice_append_left _ _
    · have hps : (u, b) ∈ ps := by
        rcases List.mem_cons.mp h with h | h
        · exfalso; apply hpu; rw [← h]
        · exact h
      obtain ⟨l, hl1, hl2, hl3, hl4⟩ := ih (off + p.2.length) hnd hps
      refine ⟨l, ?_, hl2, by omega, ?_⟩
      · simp only [layoutLocs]
        rw [List.find?_cons_of_neg (by simpa using hpu)]
        exact hl1
      · simp only [List.map_cons, List.flatten_cons]
        rw [slice_skip _ _ _ _ (by omega)]
        rw [show l.pos - 128 - off - p.2.length = l.pos - 128 - (off + p.2.length) by omega]
        exact hl4

theorem concat_lookup (packs : List (Bytes × Bytes)) (hn : (packs.map (·.1)).Nodup) (u b : Bytes)
    (h : (u, b) ∈ packs) :
    lookupPack (concatLayout packs).1 (concatLayout packs).2 u = some b := by
  rw [concatLayout_eq]
  obtain ⟨l, h1, h2, h3, h4⟩ := layoutLocs_find 0 packs hn u b h
  simp only [lookupPack, h1, Option.map_some, h2]
  simpa using h4

theorem concat_lookup_none (packs : List (Bytes × Bytes)) (u : Bytes)
    (h : u ∉ packs.map (·.1)) :
    lookupPack (concatLayout packs).1 (concatLayout packs).2 u = none := by
  rw [concatLayout_eq]
  have : (layoutLocs 0 packs).find? (fun l => l.uuid == u) = none := by
    rw [List.find?_eq_none]
    intro l hl hlu
    apply h
    rw [← layoutLocs_uuids 0 packs]
    exact List.mem_map.mpr ⟨l, hl, by simpa using hlu⟩
  simp only [lookupPack, this, Option.map_none]

theorem concat_lookup_perm (packs packs' : List (Bytes × Bytes)) (hp : packs.Perm packs')
    (hn : (packs.map (·.1)).Nodup) (u : Bytes) :
    lookupPack (concatLayout packs').1 (concatLayout packs').2 u =
    lookupPack (concatLayout packs).1 (concatLayout packs).2 u := by
  have hpm : (packs.map (·.1)).Perm (packs'.map (·.1)) := hp.map _
  have hn' : (packs'.map (·.1)).Nodup := hpm.nodup_iff.mp hn
  by_cases hu : u ∈ packs.map (·.1)
  · obtain ⟨⟨u', b⟩, hmem, hu'⟩ := List.mem_map.mp hu
    simp only at hu'
    subst hu'
    rw [concat_lookup packs hn u' b hmem, concat_lookup packs' hn' u' b (hp.mem_iff.mp hmem)]
  · have hu' : u ∉ packs'.map (·.1) := fun hx => hu (hpm.mem_iff.mpr hx)
    rw [concat_lookup_none packs u hu, concat_lookup_none packs' u hu']

/-! ### Outcome helpers, the locator loop -/

theorem Outcome.ok_bind_eq {α β} (a : α) (f : α → Outcome β) : (Outcome.ok a >>= f) = f a := rfl

/-- shift the origin of a found pack -/
def PackAt.shift (o : Nat) (p : PackAt) : PackAt := { p with origin := o + p.origin }

/-- one iteration of the locator loop of `containerPackOpen` -/
def locStep (g : Bytes) (lp origin : Nat) (acc : List PackAt) (k : Nat) : Outcome (List PackAt) :=
  readBlock g (lp + k * 36) 32 >>= fun lb =>
  PackLocator.decode lb >>= fun l =>
  if l.pos + l.size ≤ g.length then pure (acc ++ [⟨l.uuid, origin + l.pos, l.size⟩])
  else .err .format

/-- the locator loop of `containerPackOpen` -/
def locLoop (g : Bytes) (lp origin : Nat) (ks : List Nat) (acc : List PackAt) : Outcome (List PackAt) :=
  ks.foldlM (locStep g lp origin) acc

theorem containerPackOpen_eq (f : Bytes) (origin size : Nat) :
    containerPackOpen f origin size =
      (openHeader (slice f origin size) .container >>= fun _ =>
       readBlock (slice f origin size) 64 60 >>= fun cb =>
       ContainerHeader.decode cb >>= fun ch =>
       locLoop (slice f origin size) ch.locatorsPos origin (List.range ch.packCount) []) := rfl

theorem locLoop_nil (g : Bytes) (lp origin : Nat) (acc : List PackAt) :
    locLoop g lp origin [] acc = .ok acc := rfl

theorem locLoop_cons (g : Bytes) (lp origin : Nat) (k : Nat) (ks : List Nat) (acc : List PackAt) :
    locLoop g lp origin (k :: ks) acc =
      (locStep g lp origin acc k >>= fun a => locLoop g lp origin ks a) := rfl

theorem locStep_ok (g : Bytes) (lp origin : Nat) (acc : List PackAt) (k : Nat) (l : PackLocator)
    (lb : Bytes) (h1 : readBlock g (lp + k * 36) 32 = .ok lb) (h2 : PackLocator.decode lb = .ok l)
    (h3 : l.pos + l.size ≤ g.length) :
    locStep g lp origin acc k = .ok (acc ++ [⟨l.uuid, origin + l.pos, l.size⟩]) := by
  unfold locStep
  rw [h1, Outcome.ok_bind_eq, h2, Outcome.ok_bind_eq, if_pos h3]
  rfl

/-! ### 6a. a container pack is read the same wherever it sits in a file -/

theorem slice_prefix (pre w : Bytes) : slice (pre ++ w) pre.length w.length = w := by
  have := slice_append_right pre w 0 w.length
  rw [Nat.add_zero] at this
  rw [this, slice_all]

theorem locStep_shift (g : Bytes) (lp o : Nat) (acc : List PackAt) (k : Nat) :
    locStep g lp o (acc.map (PackAt.shift o)) k =
      (locStep g lp 0 acc k).map' (List.map (PackAt.shift o)) := by
  unfold locStep
  generalize readBlock g (lp + k * 36) 32 = rb
  cases rb with
  | ok lb =>
    rw [Outcome.ok_bind_eq, Outcome.ok_bind_eq]
    generalize PackLocator.decode lb = d
    cases d with
    | ok l =>
      rw [Outcome.ok_bind_eq, Outcome.ok_bind_eq]
      by_cases hb : l.pos + l.size ≤ g.length
      · rw [if_pos hb, if_pos hb]
        show Outcome.ok _ = Outcome.ok _
        simp [PackAt.shift]
      · rw [if_neg hb, if_neg hb]
        rfl
    | err e => rfl
    | panic s => rfl
    | hang => rfl
    | fault => rfl
  | err e => rfl
  | panic s => rfl
  | hang => rfl
  | fault => rfl

theorem locLoop_shift (g : Bytes) (lp o : Nat) (ks : List Nat) (acc : List PackAt) :
    locLoop g lp o ks (acc.map (PackAt.shift o)) =
      (locLoop g lp 0 ks acc).map' (List.map (PackAt.shift o)) := by
  induction ks generalizing acc with
  | nil => rfl
  | cons k ks ih =>
    rw [locLoop_cons, locLoop_cons, locStep_shift]
    generalize locStep g lp 0 acc k = st
    cases st with
    | ok a => exact ih a
    | err e => rfl
    | panic s => rfl
    | hang => rfl
    | fault => rfl

/-- general form: opening the region `[pre.length, pre.length + w.length)` of `pre ++ w` gives the
    outcome of opening `w` alone, with the origins shifted by `pre.length` (errors are unchanged) -/
theorem containerPackOpen_prefix (pre w : Bytes) :
    containerPackOpen (pre ++ w) pre.length w.length =
      (containerPackOpen w 0 w.length).map' (List.map (PackAt.shift pre.length)) := by
  rw [containerPackOpen_eq, containerPackOpen_eq, slice_prefix, slice_all]
  generalize openHeader w .container = oh
  cases oh with
  | ok h =>
    rw [Outcome.ok_bind_eq, Outcome.ok_bind_eq]
    generalize readBlock w 64 60 = rb
    cases rb with
    | ok cb =>
      rw [Outcome.ok_bind_eq, Outcome.ok_bind_eq]
      generalize ContainerHeader.decode cb = d
      cases d with
      | ok ch =>
        rw [Outcome.ok_bind_eq, Outcome.ok_bind_eq]
        exact locLoop_shift w ch.locatorsPos pre.length (List.range ch.packCount) []
      | err e => rfl
      | panic s => rfl
      | hang => rfl
      | fault => rfl
    | err e => rfl
    | panic s => rfl
    | hang => rfl
    | fault => rfl
  | err e => rfl
  | panic s => rfl
  | hang => rfl
  | fault => rfl

theorem containerPackOpen_shift (pre w : Bytes) (r : List PackAt)
    (h : containerPackOpen w 0 w.length = .ok r) :
    containerPackOpen (pre ++ w) pre.length w.length =
      .ok (r.map (fun p => { p with origin := pre.length + p.origin })) := by
  rw [containerPackOpen_prefix, h]
  rfl

/-! ### 4. the written container pack, segment by segment -/

/-- the locator table: one 36-byte block per locator -/
def locTable (locs : List PackLocator) : Bytes := (locs.map (fun l => block l.encode)).flatten

def cpwBody (packs : List (Bytes × Bytes)) : Bytes := (packs.map (·.2)).flatten

def cpwCheckPos (packs : List (Bytes × Bytes)) : Nat :=
  128 + (cpwBody packs).length + (locTable (layoutLocs 0 packs)).length

/-- the pack header `containerPackWrite` writes -/
def cpwHeader (uuid : Bytes) (packs : List (Bytes × Bytes)) : PackHeader :=
  ⟨PackKind.container, [0, 0, 0, 0], Consts.versionMajor, Consts.versionMinor, uuid, 0,
    cpwCheckPos packs + 5 + 64, cpwCheckPos packs⟩

/-- the container header `containerPackWrite` writes -/
def cpwCH (freeData : Bytes) (packs : List (Bytes × Bytes)) : ContainerHeader :=
  ⟨128 + (cpwBody packs).length, packs.length, freeData⟩

theorem containerPackWrite_eq (uuid freeData : Bytes) (packs : List (Bytes × Bytes)) :
    containerPackWrite uuid freeData packs =
      block (cpwHeader uuid packs).encode ++ (block (cpwCH freeData packs).encode ++ (cpwBody packs ++
        (locTable (layoutLocs 0 packs) ++ (block CheckInfo.none.encode ++
          (block (cpwHeader uuid packs).encode).reverse)))) := by
  unfold containerPackWrite
  rw [concatLayout_eq]
  simp only [cpwHeader, cpwCH, cpwCheckPos, cpwBody, locTable, packTail, List.append_assoc]

theorem locTable_nil : locTable [] = [] := rfl

theorem locTable_cons (l : PackLocator) (ls : List PackLocator) :
    locTable (l :: ls) = block l.encode ++ locTable ls := by
  simp [locTable]

theorem locTable_append (a b : List PackLocator) : locTable (a ++ b) = locTable a ++ locTable b := by
  simp [locTable]

theorem locTable_length (locs : List PackLocator) (h : ∀ l ∈ locs, l.uuid.length = 16) :
    (locTable locs).length = locs.length * 36 := by
  induction locs with
  | nil => rfl
  | cons l ls ih =>
    rw [locTable_cons, List.length_append, block_length,
      PackLocator.encode_length l (h l (List.mem_cons_self ..)),
      ih (fun x hx => h x (List.mem_cons_of_mem _ hx)), List.length_cons]
    omega

theorem cpwHeader_WF (uuid : Bytes) (packs : List (Bytes × Bytes)) (hu : uuid.length = 16)
    (hs : cpwCheckPos packs + 5 + 64 < 2 ^ 64) : (cpwHeader uuid packs).WF := by
  refine ⟨rfl, hu, ?_, ?_, ?_, hs, ?_⟩
  · show Consts.versionMajor < 256; decide
  · show Consts.versionMinor < 256; decide
  · show 0 < 256; decide
  show cpwCheckPos packs < 2 ^ 64
  omega

theorem cpwHeader_encode_length (uuid : Bytes) (packs : List (Bytes × Bytes)) (hu : uuid.length = 16) :
    (cpwHeader uuid packs).encode.length = 60 := by
  simp [PackHeader.encode, cpwHeader, zeros_length, leBytes_length, Consts.headerPad1,
    Consts.headerPad2, hu]

/-- the file length is the declared `packSize` (D12 repaired) -/
theorem containerPackWrite_length (uuid freeData : Bytes) (packs : List (Bytes × Bytes))
    (hu : uuid.length = 16) (hf : freeData.length = 24) (hpu : ∀ p ∈ packs, p.1.length = 16) :
    (containerPackWrite uuid freeData packs).length = cpwCheckPos packs + 5 + 64 := by
  rw [containerPackWrite_eq]
  simp only [List.length_append, List.length_reverse, block_length,
    cpwHeader_encode_length uuid packs hu, ContainerHeader.encode_length (cpwCH freeData packs) hf,
    cpwCheckPos, CheckInfo.encode, List.length_cons, List.length_nil]
  omega

theorem containerPackWrite_length_packSize (uuid freeData : Bytes) (packs : List (Bytes × Bytes))
    (hu : uuid.length = 16) (hf : freeData.length = 24) (hpu : ∀ p ∈ packs, p.1.length = 16) :
    (containerPackWrite uuid freeData packs).length = (cpwHeader uuid packs).packSize :=
  containerPackWrite_length uuid freeData packs hu hf hpu

/-! ### 4. reading back -/

theorem readBlock_block' (pre d post : Bytes) :
    readBlock (pre ++ (block d ++ post)) pre.length d.length = .ok d := by
  rw [← List.append_assoc]
  exact readBlock_block pre d post

theorem readBlock_block_head (d post : Bytes) : readBlock (block d ++ post) 0 d.length = .ok d := by
  have := readBlock_block [] d post
  simpa only [List.nil_append, List.length_nil] using this

/-- header read-back: a header block at offset 0 is accepted by `openHeader` -/
theorem openHeader_block (h : PackHeader) (post : Bytes) (hw : h.WF)
    (hv : h.major = Consts.versionGateMajor ∧ h.minor = Consts.versionGateMinor) :
    openHeader (block h.encode ++ post) h.kind = .ok h := by
  have hr := readBlock_block_head h.encode post
  rw [PackHeader.encode_length h hw] at hr
  unfold openHeader
  rw [hr, Outcome.ok_bind_eq, PackHeader.decode_encode h hw hv, Outcome.ok_bind_eq, if_pos rfl]

/-- locator read-back: the loop over a locator table placed at `A.length` returns the locators -/
theorem locLoop_table (A Z : Bytes) (origin : Nat) (rest : List PackLocator) :
    ∀ (done : List PackLocator) (acc : List PackAt),
      (∀ l ∈ done, l.uuid.length = 16) →
      (∀ l ∈ rest, l.uuid.length = 16 ∧ l.size < 2 ^ 64 ∧ l.pos < 2 ^ 64 ∧ l.pos + l.size ≤ A.length) →
      locLoop (A ++ (locTable (done ++ rest) ++ Z)) A.length origin
        (List.range' done.length rest.length) acc =
      .ok (acc ++ rest.map (fun l => ⟨l.uuid, origin + l.pos, l.size⟩)) := by
  induction rest with
  | nil =>
    intro done acc _ _
    simp [locLoop_nil]
  | cons l rest ih =>
    intro done acc hd hr
    obtain ⟨hl1, hl2, hl3, hl4⟩ := hr l (List.mem_cons_self ..)
    have hrb : readBlock (A ++ (locTable (done ++ l :: rest) ++ Z)) (A.length + done.length * 36) 32 =
        .ok l.encode := by
      have e : A ++ (locTable (done ++ l :: rest) ++ Z) =
          (A ++ locTable done) ++ (block l.encode ++ (locTable rest ++ Z)) := by
        rw [locTable_append, locTable_cons]
        simp only [List.append_assoc]
      have := readBlock_block' (A ++ locTable done) l.encode (locTable rest ++ Z)
      rw [List.length_append, locTable_length done hd, PackLocator.encode_length l hl1] at this
      rw [e]
      exact this
    have hstep := locStep_ok _ A.length origin acc done.length l l.encode hrb
      (PackLocator.decode_encode l hl1 hl2 hl3) (by rw [List.length_append]; omega)
    rw [List.length_cons, List.range'_succ, locLoop_cons, hstep, Outcome.ok_bind_eq]
    have hd' : ∀ x ∈ done ++ [l], x.uuid.length = 16 := by
      intro x hx
      rcases List.mem_append.mp hx with hx | hx
      · exact hd x hx
      · rw [List.mem_singleton.mp hx]; exact hl1
    have ih' := ih (done ++ [l]) (acc ++ [⟨l.uuid, origin + l.pos, l.size⟩]) hd'
      (fun x hx => hr x (List.mem_cons_of_mem _ hx))
    rw [List.append_assoc, List.singleton_append, List.length_append, List.length_singleton] at ih'
    rw [ih']
    simp

theorem layoutLocs_uuid_length (off : Nat) (packs : List (Bytes × Bytes))
    (hpu : ∀ p ∈ packs, p.1.length = 16) : ∀ l ∈ layoutLocs off packs, l.uuid.length = 16 := by
  intro l hl
  have : l.uuid ∈ (layoutLocs off packs).map (·.uuid) := List.mem_map.mpr ⟨l, hl, rfl⟩
  rw [layoutLocs_uuids] at this
  obtain ⟨p, hp, hpl⟩ := List.mem_map.mp this
  rw [← hpl]
  exact hpu p hp

theorem containerPackOpen_write (uuid freeData : Bytes) (packs : List (Bytes × Bytes))
    (hu : uuid.length = 16) (hf : freeData.length = 24) (hpu : ∀ p ∈ packs, p.1.length = 16)
    (hn : packs.length < 2 ^ 16) (hl : (containerPackWrite uuid freeData packs).length < 2 ^ 64) :
    containerPackOpen (containerPackWrite uuid freeData packs) 0
        (containerPackWrite uuid freeData packs).length =
      .ok ((concatLayout packs).2.map (fun l => ⟨l.uuid, l.pos, l.size⟩)) := by
  have hlen := containerPackWrite_length uuid freeData packs hu hf hpu
  have hWF := cpwHeader_WF uuid packs hu (hlen ▸ hl)
  have hul := layoutLocs_uuid_length 0 packs hpu
  have htl := locTable_length _ hul
  have hcp : cpwCheckPos packs = 128 + (cpwBody packs).length + (layoutLocs 0 packs).length * 36 := by
    rw [cpwCheckPos, htl]
  rw [containerPackOpen_eq, slice_all, concatLayout_eq]
  rw [containerPackWrite_eq]
  have hoh := openHeader_block (cpwHeader uuid packs) (block (cpwCH freeData packs).encode ++ (cpwBody packs ++
        (locTable (layoutLocs 0 packs) ++ (block CheckInfo.none.encode ++
          (block (cpwHeader uuid packs).encode).reverse)))) hWF ⟨rfl, rfl⟩
  rw [show (cpwHeader uuid packs).kind = PackKind.container from rfl] at hoh
  rw [hoh, Outcome.ok_bind_eq]
  have hcb := readBlock_block' (block (cpwHeader uuid packs).encode) (cpwCH freeData packs).encode
    (cpwBody packs ++ (locTable (layoutLocs 0 packs) ++ (block CheckInfo.none.encode ++
          (block (cpwHeader uuid packs).encode).reverse)))
  rw [block_length, cpwHeader_encode_length uuid packs hu,
    ContainerHeader.encode_length (cpwCH freeData packs) hf] at hcb
  rw [hcb, Outcome.ok_bind_eq]
  have hch : ContainerHeader.decode (cpwCH freeData packs).encode = .ok (cpwCH freeData packs) := by
    apply ContainerHeader.decode_encode _ _ hn hf
    show 128 + (cpwBody packs).length < 2 ^ 64
    omega
  rw [hch, Outcome.ok_bind_eq]
  show locLoop _ (128 + (cpwBody packs).length) 0 (List.range packs.length) [] = _
  have e : block (cpwHeader uuid packs).encode ++ (block (cpwCH freeData packs).encode ++ (cpwBody packs ++
        (locTable (layoutLocs 0 packs) ++ (block CheckInfo.none.encode ++
          (block (cpwHeader uuid packs).encode).reverse)))) =
      (block (cpwHeader uuid packs).encode ++ (block (cpwCH freeData packs).encode ++ cpwBody packs)) ++
        (locTable ([] ++ layoutLocs 0 packs) ++ (block CheckInfo.none.encode ++
          (block (cpwHeader uuid packs).encode).reverse)) := by
    simp only [List.append_assoc, List.nil_append]
  have hA : (block (cpwHeader uuid packs).encode ++ (block (cpwCH freeData packs).encode ++ cpwBody packs)).length =
      128 + (cpwBody packs).length := by
    simp only [List.length_append, block_length, cpwHeader_encode_length uuid packs hu,
      ContainerHeader.encode_length (cpwCH freeData packs) hf]
    omega
  have hbound : ∀ l ∈ layoutLocs 0 packs, l.uuid.length = 16 ∧ l.size < 2 ^ 64 ∧ l.pos < 2 ^ 64 ∧
      l.pos + l.size ≤ (block (cpwHeader uuid packs).encode ++
        (block (cpwCH freeData packs).encode ++ cpwBody packs)).length := by
    intro l hl'
    have hb := layoutLocs_bound 0 packs l hl'
    have : ((packs.map (·.2)).flatten).length = (cpwBody packs).length := rfl
    refine ⟨hul l hl', ?_, ?_, ?_⟩ <;> omega
  have := locLoop_table (block (cpwHeader uuid packs).encode ++ (block (cpwCH freeData packs).encode ++ cpwBody packs))
    (block CheckInfo.none.encode ++ (block (cpwHeader uuid packs).encode).reverse) 0
    (layoutLocs 0 packs) [] [] (by simp) hbound
  rw [hA, List.length_nil, layoutLocs_length, ← List.range_eq_range'] at this
  rw [e, this]
  simp

/-! ### 5. blind open, header at offset 0 -/

theorem blindOpen_head (f hd : Bytes) (h : PackHeader) (hlen : 64 ≤ f.length)
    (ht : PackHeader.decode (f.take 60) = .ok h) (hr : readBlock f 0 60 = .ok hd)
    (hdec : PackHeader.decode hd = .ok h) (hk : h.kind = .container) (hsz : h.packSize ≤ f.length) :
    blindOpen f = containerPackOpen f 0 h.packSize := by
  have hsz' : 0 + h.packSize ≤ f.length := by omega
  unfold blindOpen
  rw [if_neg (by omega)]
  simp only [ht, hr, Outcome.ok_bind_eq, hdec, hk, if_true, if_pos hsz']

theorem containerPackWrite_take60 (uuid freeData : Bytes) (packs : List (Bytes × Bytes))
    (hu : uuid.length = 16) :
    (containerPackWrite uuid freeData packs).take 60 = (cpwHeader uuid packs).encode := by
  rw [containerPackWrite_eq, block, List.append_assoc]
  exact List.take_left' (cpwHeader_encode_length uuid packs hu)

theorem blindOpen_write (uuid freeData : Bytes) (packs : List (Bytes × Bytes))
    (hu : uuid.length = 16) (hf : freeData.length = 24) (hpu : ∀ p ∈ packs, p.1.length = 16)
    (hl : (containerPackWrite uuid freeData packs).length < 2 ^ 64) :
    blindOpen (containerPackWrite uuid freeData packs) =
      containerPackOpen (containerPackWrite uuid freeData packs) 0
        (containerPackWrite uuid freeData packs).length := by
  have hlen := containerPackWrite_length uuid freeData packs hu hf hpu
  have hWF := cpwHeader_WF uuid packs hu (hlen ▸ hl)
  have hdec := PackHeader.decode_encode (cpwHeader uuid packs) hWF ⟨rfl, rfl⟩
  have hr : readBlock (containerPackWrite uuid freeData packs) 0 60 = .ok (cpwHeader uuid packs).encode := by
    rw [containerPackWrite_eq]
    have := readBlock_block_head (cpwHeader uuid packs).encode (block (cpwCH freeData packs).encode ++
      (cpwBody packs ++ (locTable (layoutLocs 0 packs) ++ (block CheckInfo.none.encode ++
        (block (cpwHeader uuid packs).encode).reverse))))
    rw [cpwHeader_encode_length uuid packs hu] at this
    exact this
  have := blindOpen_head (containerPackWrite uuid freeData packs) _ (cpwHeader uuid packs)
    (by omega) (by rw [containerPackWrite_take60 uuid freeData packs hu]; exact hdec) hr hdec rfl
    (by show cpwCheckPos packs + 5 + 64 ≤ _; omega)
  rw [this, hlen]
  rfl

/-! ### 6. blind open through the mirrored tail -/

theorem blindOpen_tail (f : Bytes) (h : PackHeader) (hlen : 64 ≤ f.length)
    (hv : PackHeader.decode (f.take 60) ≠ .err .version)
    (hbad : ∀ h', (do let hd ← readBlock f 0 60; PackHeader.decode hd : Outcome PackHeader) ≠ .ok h')
    (htail : (slice f (f.length - 64) 64).reverse = block h.encode) (hw : h.WF)
    (hver : h.major = Consts.versionGateMajor ∧ h.minor = Consts.versionGateMinor)
    (hk : h.kind = .container) (hsz : h.packSize ≤ f.length) :
    blindOpen f = containerPackOpen f (f.length - h.packSize) h.packSize := by
  have hr : readBlock (block h.encode) 0 60 = .ok h.encode := by
    have := readBlock_block_head h.encode []
    rw [List.append_nil, PackHeader.encode_length h hw] at this
    exact this
  have hdec := PackHeader.decode_encode h hw hver
  unfold blindOpen
  rw [if_neg (by omega)]
  dsimp only
  split
  · rename_i heq
    exact absurd heq hv
  · generalize (do let hd ← readBlock f 0 60; PackHeader.decode hd : Outcome PackHeader) = x at hbad ⊢
    have hns : ¬ f.length < h.packSize := Nat.not_lt.mpr hsz
    have h64 : ¬ f.length < 64 := by omega
    have hin : f.length - h.packSize + h.packSize ≤ f.length := by omega
    cases x with
    | ok h' => exact absurd rfl (hbad h')
    | err e => simp only [if_neg h64, htail, hr, Outcome.ok_bind_eq, hdec, if_neg hns, if_pos hin, hk, if_true]
    | panic s => simp only [if_neg h64, htail, hr, Outcome.ok_bind_eq, hdec, if_neg hns, if_pos hin, hk, if_true]
    | hang => simp only [if_neg h64, htail, hr, Outcome.ok_bind_eq, hdec, if_neg hns, if_pos hin, hk, if_true]
    | fault => simp only [if_neg h64, htail, hr, Outcome.ok_bind_eq, hdec, if_neg hns, if_pos hin, hk, if_true]

/-- the mirrored tail of a written container pack, seen from the end of any file it ends -/
theorem containerPackWrite_tail (uuid freeData : Bytes) (packs : List (Bytes × Bytes)) (pre : Bytes)
    (hu : uuid.length = 16) :
    (slice (pre ++ containerPackWrite uuid freeData packs)
      ((pre ++ containerPackWrite uuid freeData packs).length - 64) 64).reverse =
      block (cpwHeader uuid packs).encode := by
  rw [containerPackWrite_eq]
  generalize hX : block (cpwCH freeData packs).encode = c
  generalize hT : block (cpwHeader uuid packs).encode = hb
  have hbl : hb.length = 64 := by
    rw [← hT, block_length, cpwHeader_encode_length uuid packs hu]
  have e : pre ++ (hb ++ (c ++ (cpwBody packs ++ (locTable (layoutLocs 0 packs) ++
      (block CheckInfo.none.encode ++ hb.reverse))))) =
      (pre ++ (hb ++ (c ++ (cpwBody packs ++ (locTable (layoutLocs 0 packs) ++
      block CheckInfo.none.encode))))) ++ hb.reverse := by
    simp only [List.append_assoc]
  rw [e]
  generalize (pre ++ (hb ++ (c ++ (cpwBody packs ++ (locTable (layoutLocs 0 packs) ++
      block CheckInfo.none.encode))))) = Y
  have := slice_prefix Y hb.reverse
  rw [List.length_reverse, hbl] at this
  rw [List.length_append, List.length_reverse, hbl, Nat.add_sub_cancel, this, List.reverse_reverse]

theorem blindOpen_prefix (uuid freeData : Bytes) (packs : List (Bytes × Bytes)) (pre : Bytes)
    (hu : uuid.length = 16) (hf : freeData.length = 24) (hpu : ∀ p ∈ packs, p.1.length = 16)
    (hl : (containerPackWrite uuid freeData packs).length < 2 ^ 64)
    (hv : PackHeader.decode ((pre ++ containerPackWrite uuid freeData packs).take 60) ≠ .err .version)
    (hbad : ∀ h, (do let hd ← readBlock (pre ++ containerPackWrite uuid freeData packs) 0 60
                     PackHeader.decode hd : Outcome PackHeader) ≠ .ok h) :
    blindOpen (pre ++ containerPackWrite uuid freeData packs) =
      containerPackOpen (pre ++ containerPackWrite uuid freeData packs) pre.length
        (containerPackWrite uuid freeData packs).length := by
  have hlen := containerPackWrite_length uuid freeData packs hu hf hpu
  have hWF := cpwHeader_WF uuid packs hu (hlen ▸ hl)
  have hps : (cpwHeader uuid packs).packSize = (containerPackWrite uuid freeData packs).length :=
    hlen.symm
  have hfl : (pre ++ containerPackWrite uuid freeData packs).length =
      pre.length + (containerPackWrite uuid freeData packs).length := List.length_append
  have := blindOpen_tail (pre ++ containerPackWrite uuid freeData packs) (cpwHeader uuid packs)
    (by omega) hv hbad (containerPackWrite_tail uuid freeData packs pre hu) hWF ⟨rfl, rfl⟩ rfl
    (by omega)
  rw [this, hps, hfl, Nat.add_sub_cancel]

/-- items 4 + 6 combined: a container pack appended to any file that does not itself start with a
    valid header is found, with every pack at its place -/
theorem blindOpen_prefix_write (uuid freeData : Bytes) (packs : List (Bytes × Bytes)) (pre : Bytes)
    (hu : uuid.length = 16) (hf : freeData.length = 24) (hpu : ∀ p ∈ packs, p.1.length = 16)
    (hn : packs.length < 2 ^ 16) (hl : (containerPackWrite uuid freeData packs).length < 2 ^ 64)
    (hv : PackHeader.decode ((pre ++ containerPackWrite uuid freeData packs).take 60) ≠ .err .version)
    (hbad : ∀ h, (do let hd ← readBlock (pre ++ containerPackWrite uuid freeData packs) 0 60
                     PackHeader.decode hd : Outcome PackHeader) ≠ .ok h) :
    blindOpen (pre ++ containerPackWrite uuid freeData packs) =
      .ok ((concatLayout packs).2.map (fun l => ⟨l.uuid, pre.length + l.pos, l.size⟩)) := by
  rw [blindOpen_prefix uuid freeData packs pre hu hf hpu hl hv hbad,
    containerPackOpen_shift pre _ _ (containerPackOpen_write uuid freeData packs hu hf hpu hn hl),
    List.map_map]
  rfl

/-- items 4 + 5 combined -/
theorem blindOpen_write_ok (uuid freeData : Bytes) (packs : List (Bytes × Bytes))
    (hu : uuid.length = 16) (hf : freeData.length = 24) (hpu : ∀ p ∈ packs, p.1.length = 16)
    (hn : packs.length < 2 ^ 16) (hl : (containerPackWrite uuid freeData packs).length < 2 ^ 64) :
    blindOpen (containerPackWrite uuid freeData packs) =
      .ok ((concatLayout packs).2.map (fun l => ⟨l.uuid, l.pos, l.size⟩)) := by
  rw [blindOpen_write uuid freeData packs hu hf hpu hl,
    containerPackOpen_write uuid freeData packs hu hf hpu hn hl]

/-! ### the regions found hold the pack bytes -/

theorem slice_append_inside (b c : Bytes) (off len : Nat) (h : off + len ≤ b.length) :
    slice (b ++ c) off len = slice b off len := by
  simp only [slice]
  rw [List.drop_append_of_le_length (by omega), List.take_append_of_le_length (by simp; omega)]

/-- the region a locator of the written file designates is the region of the body -/
theorem containerPackWrite_region (uuid freeData : Bytes) (packs : List (Bytes × Bytes))
    (hu : uuid.length = 16) (hf : freeData.length = 24) (l : PackLocator)
    (hl : l ∈ (concatLayout packs).2) :
    slice (containerPackWrite uuid freeData packs) l.pos l.size =
      slice (concatLayout packs).1 (l.pos - 128) l.size := by
  rw [concatLayout_eq] at hl ⊢
  have hb := layoutLocs_bound 0 packs l hl
  rw [containerPackWrite_eq, ← List.append_assoc]
  have hA : (block (cpwHeader uuid packs).encode ++ block (cpwCH freeData packs).encode).length = 128 := by
    rw [List.length_append, block_length, block_length, cpwHeader_encode_length uuid packs hu,
      ContainerHeader.encode_length (cpwCH freeData packs) hf]
  rw [slice_skip _ _ _ _ (by omega), hA]
  exact slice_append_inside _ _ _ _ (by show _ ≤ ((packs.map (·.2)).flatten).length; omega)

/-- looking a uuid up in the written file (by its locators) yields the pack's bytes -/
theorem containerPackWrite_lookup (uuid freeData : Bytes) (packs : List (Bytes × Bytes))
    (hu : uuid.length = 16) (hf : freeData.length = 24) (hn : (packs.map (·.1)).Nodup)
    (u b : Bytes) (h : (u, b) ∈ packs) :
    ((concatLayout packs).2.find? (fun l => l.uuid == u)).map
      (fun l => slice (containerPackWrite uuid freeData packs) l.pos l.size) = some b := by
  have hlk := concat_lookup packs hn u b h
  unfold lookupPack at hlk
  cases hfind : (concatLayout packs).2.find? (fun l => l.uuid == u) with
  | none => rw [hfind] at hlk; simp at hlk
  | some l =>
    rw [hfind] at hlk
    simp only [Option.map_some] at hlk ⊢
    rw [containerPackWrite_region uuid freeData packs hu hf l (List.mem_of_find?_eq_some hfind)]
    exact hlk

end Jubako
