/- base facts for C11 (absent file, other pack at the location, three-way result) -/
import JubakoModel.Model.Container

namespace Jubako

/-- a pack whose file is absent (or is a directory: not a regular file of the model's file system)
    is not located … -/
theorem missing_absent_file (fs : FS) (u : Bytes) (loc : String) (h : fs.get loc = none) :
    fsLocate fs u loc = .ok none := by
  unfold fsLocate
  split
  · rfl
  · simp [h]

/-- … and neither is a *different valid pack* sitting at the recorded location: identity is the
    uuid, not the location -/
theorem missing_other_pack (fs : FS) (u : Bytes) (loc : String) (f : Bytes) (packs : List PackAt)
    (hf : fs.get loc = some f) (hne : loc ≠ "") (hb : blindOpen f = .ok packs)
    (hn : ∀ p ∈ packs, p.uuid ≠ u) : fsLocate fs u loc = .ok none := by
  unfold fsLocate
  rw [if_neg hne, hf]
  simp only [hb, bind, Outcome.bind]
  have : packs.find? (fun p => p.uuid == u) = none := by
    apply List.find?_eq_none.mpr
    intro p hp; simpa using hn p hp
  rw [this]; rfl

/-- **Three-way result**: for a pack id listed in the manifest whose pack is neither in the entry
    file nor locatable, `get_pack` answers `missing` with that pack's description — not an error. -/
theorem missing_missing (fs : FS) (c : ContainerView) (packId : Nat) (info : PackInfo)
    (hinfo : (c.infos.filter (fun i => i.kind ≠ .directory)).find? (fun i => i.packId == packId) = some info)
    (hin : packId < ((c.infos.filter (fun i => i.kind ≠ .directory)).map (·.packId)).foldl max 0 + 1)
    (hloc : locate fs c.entryFile c.entryPacks info.uuid (locationString info.location) = .ok none) :
    ∃ i, containerGetPack fs c packId = .ok (.missing i) ∧ i = info := by
  refine ⟨info, ?_, rfl⟩
  unfold containerGetPack
  simp only
  rw [if_neg (by omega), hinfo]
  simp only [hloc, bind, Outcome.bind]


end Jubako
