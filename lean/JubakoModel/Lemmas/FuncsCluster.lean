/-
`ClusterBuilder::parse` (`reader/content_pack/cluster.rs`) translated from the source on every run
(Generated/FuncsOpen.lean) is `ClusterTail.decode` of the reader model.
-/
import JubakoModel.Lemmas.FuncsOpen
import JubakoModel.Model.DirLayout
import JubakoModel.Lemmas.OutcomeLemmas
set_option linter.unusedSimpArgs false
namespace Jubako

theorem takeLE_pos (bs : Bytes) (o n : Nat) (hn : 1 ≤ n) :
    takeLE (bs.drop o) n = (readUN bs o n).bind fun v => .ok (v, bs.drop (o + n)) := by
  unfold readUN
  by_cases h : o + n ≤ bs.length
  · simp only [h, if_true, Outcome.bind_ok'', takeLE_at bs o n h]
  · unfold takeLE
    have h' : ¬ n ≤ (bs.drop o).length := by simp only [List.length_drop]; omega
    simp [h, h']
    omega

/-- the offsets loop of `ClusterBuilder::parse` after its first turn (which writes 0 without reading) is the
    loop of the model, position by position -/
theorem cluster_loop (bs : Bytes) (comp osz count data : Nat) (hosz : 1 ≤ osz) (n : Nat) :
    ∀ (i : Nat) (acc pre : List Nat),
      ((Generated.clusterBuilderParse_loop (comp, osz, count) data (bs.drop (4 + 2 * osz + i * osz)) false (pre ++ acc.reverse) n).map'
          (fun r => r.1.2)).Same
        ((ClusterTail.decode.go bs osz data i n acc).map' (fun offs => pre ++ offs)) := by
  induction n with
  | zero => intro i acc pre; simp [Generated.clusterBuilderParse_loop, ClusterTail.decode.go]
  | succ n ih =>
    intro i acc pre
    unfold Generated.clusterBuilderParse_loop ClusterTail.decode.go
    simp only [Bool.false_eq_true, if_false, bind, takeLE_pos bs (4 + 2 * osz + i * osz) osz hosz, Outcome.bind_assoc', Outcome.bind_ok]
    cases hr : readUN bs (4 + 2 * osz + i * osz) osz with
    | ok v =>
      simp only [Outcome.bind_ok, Generated.offsetIsValid, decide_eq_true_eq]
      by_cases hv : v ≤ data
      · simp only [hv, if_true]
        have := ih (i + 1) (v :: acc) pre
        rw [show 4 + 2 * osz + (i + 1) * osz = 4 + 2 * osz + i * osz + osz by rw [Nat.add_mul]; omega] at this
        simpa [List.reverse_cons, List.append_assoc] using this
      · simp only [hv, if_false]
        exact Outcome.same_panic _ _
    | _ => rfl


/-- **The tail of a cluster is parsed as the source parses it**: `ClusterBuilder::parse` (after the three header
    bytes), translated on every run — stored size, data size, then the offsets loop: the first blob starts at 0
    without a read, every further offset is read in the header's width and must not exceed the data size (a
    panic otherwise), the data size closes the list; an uncompressed cluster whose two sizes differ is a format
    error — is `ClusterTail.decode` of the model on every tail whose header passes the model's checks and
    announces at least one blob. -/
theorem gen_clusterBuilderParse (bs : Bytes) (c : Nat)
    (h4 : ¬ bs.length < 4) (hcomp : ¬ (bs.getD 0 0).toNat > 3)
    (hosz : ¬ ((bs.getD 1 0).toNat = 0 ∨ (bs.getD 1 0).toNat > 8)) (hcount : leNat (slice bs 2 2) = c + 1) :
    ((Generated.clusterBuilderParse (bs.drop 4) ((bs.getD 0 0).toNat, (bs.getD 1 0).toNat, c + 1)).map'
        (fun r => (r.1.1.1, r.1.1.2.1, r.1.1.2.2, r.1.2))).Same
      ((ClusterTail.decode bs).map' (fun t => (0 :: t.offsets ++ [t.dataSize], t.dataSize, t.comp, t.rawSize))) := by
  have ho : 1 ≤ (bs.getD 1 0).toNat := by omega
  unfold ClusterTail.decode Generated.clusterBuilderParse
  simp only [h4, hcomp, hosz, if_false, hcount, bind, Outcome.bind_ok'', Nat.add_sub_cancel]
  generalize (bs.getD 1 0).toNat = osz at *
  generalize (bs.getD 0 0).toNat = comp at *
  rw [takeLE_pos bs 4 osz ho]
  simp only [Outcome.bind_assoc', Outcome.bind_ok]
  cases hr : readUN bs 4 osz with
  | ok raw =>
    simp only [Outcome.bind_ok, takeLE_pos bs (4 + osz) osz ho, Outcome.bind_assoc']
    cases hd : readUN bs (4 + osz) osz with
    | ok data =>
      simp only [Outcome.bind_ok]
      unfold Generated.clusterBuilderParse_loop
      simp only [if_true, Generated.offsetIsValid, Nat.zero_le, decide_true, List.nil_append]
      have L := cluster_loop bs comp osz (c + 1) data ho c 0 [] [0]
      simp only [Nat.zero_mul, Nat.add_zero, List.reverse_nil, List.append_nil] at L
      rw [show 4 + osz + osz = 4 + 2 * osz by omega]
      generalize Generated.clusterBuilderParse_loop (comp, osz, c + 1) data (List.drop (4 + 2 * osz) bs) false [0] c = lr at L ⊢
      generalize ClusterTail.decode.go bs osz data 0 c [] = gr at L ⊢
      rcases Outcome.same_cases _ _ L with ⟨v, h1, h2⟩ | ⟨e, h1, h2⟩ | ⟨s, t, h1, h2⟩ | ⟨h1, h2⟩ | ⟨h1, h2⟩
      · cases lr with
        | ok x =>
          cases gr with
          | ok offs =>
            simp only [Outcome.map'_ok, Outcome.ok.injEq] at h1 h2
            subst h1
            simp only [Outcome.bind_ok]
            by_cases hc : comp = 0 ∧ raw ≠ data
            · simp [hc]
            · simp only [hc, if_false, Outcome.map'_ok]
              rw [← h2]
              simp
          | _ => simp [Outcome.map'] at h2
        | _ => simp [Outcome.map'] at h1
      · cases lr with
        | err e1 =>
          cases gr with
          | err e2 =>
            simp only [Outcome.map'_err, Outcome.err.injEq] at h1 h2
            subst h1 h2
            exact Outcome.same_refl _
          | _ => simp [Outcome.map'] at h2
        | _ => simp [Outcome.map'] at h1
      · cases lr with
        | panic s1 =>
          cases gr with
          | panic s2 => exact Outcome.same_panic _ _
          | _ => simp [Outcome.map'] at h2
        | _ => simp [Outcome.map'] at h1
      · cases lr with
        | hang =>
          cases gr with
          | hang => exact Outcome.same_refl _
          | _ => simp [Outcome.map'] at h2
        | _ => simp [Outcome.map'] at h1
      · cases lr with
        | fault =>
          cases gr with
          | fault => exact Outcome.same_refl _
          | _ => simp [Outcome.map'] at h2
        | _ => simp [Outcome.map'] at h1
    | _ => rfl
  | _ => rfl

/-! ### the tail of a value store -/

theorem vs_loop (bs : Bytes) (osz data : Nat) (hosz : 1 ≤ osz) (n : Nat) :
    ∀ (i : Nat) (acc pre : List Nat),
      ((Generated.valueStoreBuilderParse_loop osz data (bs.drop (10 + osz + i * osz)) false (pre ++ acc.reverse) n).map'
          (fun r => r.1.2)).Same
        ((valueStoreTailDecode.go bs osz data i n acc).map' (fun offs => pre ++ offs)) := by
  induction n with
  | zero => intro i acc pre; simp [Generated.valueStoreBuilderParse_loop, valueStoreTailDecode.go]
  | succ n ih =>
    intro i acc pre
    unfold Generated.valueStoreBuilderParse_loop valueStoreTailDecode.go
    simp only [Bool.false_eq_true, if_false, bind, takeLE_pos bs (10 + osz + i * osz) osz hosz, Outcome.bind_assoc', Outcome.bind_ok]
    cases hr : readUN bs (10 + osz + i * osz) osz with
    | ok v =>
      simp only [Outcome.bind_ok, Generated.offsetIsValid, decide_eq_true_eq]
      by_cases hv : v ≤ data
      · simp only [hv, if_true]
        have := ih (i + 1) (v :: acc) pre
        rw [show 10 + osz + (i + 1) * osz = 10 + osz + i * osz + osz by rw [Nat.add_mul]; omega] at this
        simpa [List.reverse_cons, List.append_assoc] using this
      · simp only [hv, if_false]
        exact Outcome.same_panic _ _
    | _ => rfl


def vsTailToSrc (t : ValueStoreTail) : Option (List Nat) × Nat :=
  (if t.indexed then some t.offsets else none, t.dataSize)

/-- **The tail of a value store is parsed as the source parses it**: `ValueStoreBuilder::parse` (with
    `ValueStoreKind::parse`), translated on every run — kind byte; plain: the data size; indexed: the value count,
    the offset width (a `ByteSize`, 1..8), the data size, then the offsets loop (first offset 0 without a read,
    every other one read in that width and bounded by the data size — a panic otherwise —, the data size last)
    — is `valueStoreTailDecode` of the model on every byte string. -/
theorem gen_valueStoreBuilderParse (bs : Bytes) :
    ((Generated.valueStoreBuilderParse bs).map' (fun r => r.1)).Same ((valueStoreTailDecode bs).map' vsTailToSrc) := by
  cases bs with
  | nil => exact Outcome.same_refl _
  | cons k rest =>
    have hrest : rest = (k :: rest).drop 1 := rfl
    have t1 : takeLE (k :: rest) 1 = .ok (k.toNat, rest) := by simp [takeLE, leNat]
    unfold Generated.valueStoreBuilderParse Generated.valueStoreKindParse valueStoreTailDecode
    simp only [t1, Outcome.bind_ok, bind]
    generalize hb : k :: rest = b at hrest ⊢
    by_cases h0 : k = 0
    · subst h0
      simp only [show (0 : UInt8).toNat = 0 from rfl, Outcome.bind_ok, if_true]
      rw [hrest, takeLE_pos b 1 8 (by omega)]
      cases readUN b 1 8 <;> first | rfl | exact Outcome.same_refl _
    · by_cases h1 : k = 1
      · subst h1
        simp only [show (1 : UInt8).toNat = 1 from rfl, Outcome.bind_ok, show ((1 : UInt8) = 0) = False from by decide, if_false, if_true]
        rw [hrest, takeLE_pos b 1 8 (by omega)]
        simp only [Outcome.bind_assoc', Outcome.bind_ok]
        cases hc : readUN b 1 8 with
        | ok count =>
          simp only [Outcome.bind_ok, Nat.reduceAdd, takeLE_pos b 9 1 (by omega), Outcome.bind_assoc']
          cases ho : readUN b 9 1 with
          | ok osz =>
            simp only [Outcome.bind_ok, Nat.reduceAdd]
            by_cases hz : osz = 0 ∨ osz > 8
            · have : Generated.byteSizeTryFrom osz = .err .format := by
                rcases hz with hz | hz
                · subst hz; rfl
                · unfold Generated.byteSizeTryFrom
                  split <;> first | omega | rfl
              simp [hz, this]
            · have hb1 : 1 ≤ osz := by omega
              have hb8 : osz ≤ 8 := by omega
              have hbs : Generated.byteSizeTryFrom osz = .ok osz := by
                have : osz = 1 ∨ osz = 2 ∨ osz = 3 ∨ osz = 4 ∨ osz = 5 ∨ osz = 6 ∨ osz = 7 ∨ osz = 8 := by omega
                rcases this with h | h | h | h | h | h | h | h <;> subst h <;> rfl
              simp only [hz, if_false, hbs, Outcome.bind_ok, takeLE_pos b 10 osz hb1, Outcome.bind_assoc']
              cases hd : readUN b 10 osz with
              | ok ds =>
                simp only [Outcome.bind_ok]
                rw [show 10 + osz = 10 + osz + 0 * osz by omega]
                cases count with
                | zero =>
                  simp [Generated.valueStoreBuilderParse_loop, valueStoreTailDecode.go, vsTailToSrc]
                | succ c =>
                  unfold Generated.valueStoreBuilderParse_loop
                  simp only [if_true, Generated.offsetIsValid, Nat.zero_le, decide_true, List.nil_append, Nat.add_sub_cancel,
                    Nat.succ_ne_zero, if_false]
                  have L := vs_loop b osz ds hb1 c 0 [] [0]
                  simp only [List.reverse_nil, List.append_nil] at L
                  generalize Generated.valueStoreBuilderParse_loop osz ds (List.drop (10 + osz + 0 * osz) b) false [0] c = lr at L ⊢
                  generalize valueStoreTailDecode.go b osz ds 0 c [] = gr at L ⊢
                  rcases Outcome.same_cases _ _ L with ⟨v, h1, h2⟩ | ⟨e, h1, h2⟩ | ⟨s, t, h1, h2⟩ | ⟨h1, h2⟩ | ⟨h1, h2⟩
                  · cases lr with
                    | ok x =>
                      cases gr with
                      | ok offs =>
                        simp only [Outcome.map'_ok, Outcome.ok.injEq] at h1 h2
                        subst h1
                        simp only [Outcome.bind_ok, Outcome.map'_ok, vsTailToSrc, if_true]
                        rw [← h2]
                        simp
                      | _ => simp [Outcome.map'] at h2
                    | _ => simp [Outcome.map'] at h1
                  · cases lr with
                    | err e1 =>
                      cases gr with
                      | err e2 =>
                        simp only [Outcome.map'_err, Outcome.err.injEq] at h1 h2
                        subst h1 h2
                        exact Outcome.same_refl _
                      | _ => simp [Outcome.map'] at h2
                    | _ => simp [Outcome.map'] at h1
                  · cases lr with
                    | panic s1 =>
                      cases gr with
                      | panic s2 => exact Outcome.same_panic _ _
                      | _ => simp [Outcome.map'] at h2
                    | _ => simp [Outcome.map'] at h1
                  · cases lr with
                    | hang =>
                      cases gr with
                      | hang => exact Outcome.same_refl _
                      | _ => simp [Outcome.map'] at h2
                    | _ => simp [Outcome.map'] at h1
                  · cases lr with
                    | fault =>
                      cases gr with
                      | fault => exact Outcome.same_refl _
                      | _ => simp [Outcome.map'] at h2
                    | _ => simp [Outcome.map'] at h1
              | _ => exact Outcome.same_refl _
          | _ => exact Outcome.same_refl _
        | _ => exact Outcome.same_refl _
      · have n0 : k.toNat ≠ 0 := fun h => h0 (UInt8.toNat_inj.mp h)
        have n1 : k.toNat ≠ 1 := fun h => h1 (UInt8.toNat_inj.mp h)
        simp only [h0, h1, if_false]
        exact Outcome.same_refl _


/-! ### the tail of an entry store -/

/-- the tail of an entry store as the model reads it: kind byte 0 then the layout; kinds 1 and 2 are the
    `todo!()` of the source, anything else a format error -/
def modelEntryTail (tb : Bytes) : Outcome Layout :=
  match tb with
  | [] => .err .format
  | k :: rest =>
    if k = 1 ∨ k = 2 then .panic "entry_store.rs: todo!() (store kind)"
    else if k ≠ 0 then .err .format
    else Layout.decode rest

theorem entryStoreOpen_tail (f : Bytes) (so : Nat × Nat) :
    entryStoreOpen f so =
      (readBlock f so.1 so.2).bind fun tb => (modelEntryTail tb).bind fun l =>
        if l.checked then
          let ds := l.entryCount * (l.entrySize + 4)
          if so.1 < ds then .panic "offset.rs: subtraction underflow"
          else if so.1 ≤ f.length then .ok (l, slice f (so.1 - ds) ds) else .err .format
        else
          let ds := l.entryCount * l.entrySize
          if so.1 < ds + 4 then .panic "offset.rs: subtraction underflow"
          else (readBlock f (so.1 - ds - 4) ds).bind fun d => .ok (l, d) := by
  unfold entryStoreOpen modelEntryTail
  simp only [bind]
  cases readBlock f so.1 so.2 with
  | ok tb =>
    simp only [Outcome.bind_ok]
    cases tb with
    | nil => rfl
    | cons k rest =>
      simp only []
      by_cases h12 : k = 1 ∨ k = 2
      · simp [h12]
      · by_cases h0 : k ≠ 0
        · simp [h12, h0]
        · simp only [h12, h0, if_false]
          try rfl
  | _ => rfl

/-- **The tail of an entry store is read as the source reads it**: `EntryStoreBuilder::parse` (with
    `StoreKind::parse`) translated on every run — store kind 0 then the layout, kinds 1 and 2 the `todo!()` of
    the source (a panic), any other kind a format error — is what the model's `entryStoreOpen` does with the
    tail block, for every layout parser. -/
theorem gen_entryStoreBuilderParse (tb : Bytes) :
    ((Generated.entryStoreBuilderParse tb (fun bs => (Layout.decode bs).map' (fun l => (l, ([] : Bytes))))).map' (·.1)).Same
      (modelEntryTail tb) := by
  cases tb with
  | nil => exact Outcome.same_refl _
  | cons k rest =>
    have t1 : takeLE (k :: rest) 1 = .ok (k.toNat, rest) := by simp [takeLE, leNat]
    unfold Generated.entryStoreBuilderParse Generated.storeKindParse modelEntryTail
    simp only [t1, Outcome.bind_ok]
    by_cases h0 : k = 0
    · subst h0
      simp only [show (0 : UInt8).toNat = 0 from rfl, Outcome.bind_ok]
      cases Layout.decode rest <;> first | exact Outcome.same_refl _ | exact Outcome.same_panic _ _
    · by_cases h1 : k = 1
      · subst h1; exact Outcome.same_panic _ _
      · by_cases h2 : k = 2
        · subst h2; exact Outcome.same_panic _ _
        · have n0 : k.toNat ≠ 0 := fun h => h0 (UInt8.toNat_inj.mp h)
          have n1 : k.toNat ≠ 1 := fun h => h1 (UInt8.toNat_inj.mp h)
          have n2 : k.toNat ≠ 2 := fun h => h2 (UInt8.toNat_inj.mp h)
          simp only [h0, h1, h2, or_self, if_false, ne_eq, not_false_eq_true, if_true]
          exact Outcome.same_refl _

/-! ### `ClusterHeader::parse` (with `CompressionType::parse`): the header in front of the cluster tail -/

def srcCompressionToNat : Generated.SrcCompression → Nat
  | .none => 0
  | .lz4 => 1
  | .lzma => 2
  | .zstd => 3

/-- what `ClusterTail.decode` does with the first four bytes of a tail, as a function of its own -/
def clusterHeaderModel (bs : Bytes) : Outcome ((Nat × Nat × Nat) × Bytes) :=
  if bs.length < 4 then .err .format else
  if (bs.getD 0 0).toNat > 3 then .err .format else
  if (bs.getD 1 0).toNat = 0 ∨ (bs.getD 1 0).toNat > 8 then .err .format else
  .ok (((bs.getD 0 0).toNat, (bs.getD 1 0).toNat, leNat (slice bs 2 2)), bs.drop 4)

theorem takeLE_one' (b : UInt8) (rest : Bytes) : takeLE (b :: rest) 1 = .ok (b.toNat, rest) := by
  simp [takeLE, leNat]

def compressionOfNat : Nat → Generated.SrcCompression
  | 0 => .none
  | 1 => .lz4
  | 2 => .lzma
  | _ => .zstd

theorem compressionTypeParse_cons (a : UInt8) (rest : Bytes) :
    Generated.compressionTypeParse (a :: rest) =
      if a.toNat > 3 then .err .format else .ok (compressionOfNat a.toNat, rest) := by
  unfold Generated.compressionTypeParse
  simp only [takeLE_one', Outcome.bind_ok]
  generalize a.toNat = v
  by_cases hv : v > 3
  · obtain ⟨n, rfl⟩ : ∃ n, v = n + 4 := ⟨v - 4, by omega⟩
    rw [if_pos hv]
    rfl
  · have : v = 0 ∨ v = 1 ∨ v = 2 ∨ v = 3 := by omega
    rcases this with h | h | h | h <;> subst h <;> rfl

theorem compressionOfNat_toNat (v : Nat) (h : ¬ v > 3) : srcCompressionToNat (compressionOfNat v) = v := by
  have : v = 0 ∨ v = 1 ∨ v = 2 ∨ v = 3 := by omega
  rcases this with h | h | h | h <;> subst h <;> rfl

theorem byteSizeTryFrom_eq (x : Nat) :
    Generated.byteSizeTryFrom x = if x = 0 ∨ x > 8 then .err .format else .ok x := by
  by_cases hz : x = 0 ∨ x > 8
  · simp only [hz, if_true]
    rcases hz with hz | hz
    · subst hz; rfl
    · unfold Generated.byteSizeTryFrom
      split <;> first | omega | rfl
  · simp only [hz, if_false]
    have : x = 1 ∨ x = 2 ∨ x = 3 ∨ x = 4 ∨ x = 5 ∨ x = 6 ∨ x = 7 ∨ x = 8 := by omega
    rcases this with h | h | h | h | h | h | h | h <;> subst h <;> rfl

/-- **The cluster header is parsed as the source parses it**: `ClusterHeader::parse` and `CompressionType::parse`,
    translated on every run — compression byte (0..3, anything else a format error), offset width (a `ByteSize`,
    1..8), blob count on two bytes — answer on every byte string what the model's `ClusterTail.decode` computes from
    the first four bytes of a tail. -/
theorem gen_clusterHeaderParse (bs : Bytes) :
    (Generated.clusterHeaderParse bs).map' (fun r => ((srcCompressionToNat r.1.1, r.1.2.1, r.1.2.2), r.2)) =
      clusterHeaderModel bs := by
  unfold Generated.clusterHeaderParse clusterHeaderModel
  match bs with
  | [] => rfl
  | a :: rest =>
    rw [compressionTypeParse_cons]
    by_cases ha : a.toNat > 3
    · simp only [ha, if_true, Outcome.bind_err, Outcome.map'_err, List.getD_cons_zero]
      split <;> rfl
    · simp only [ha, if_false, Outcome.bind_ok, List.getD_cons_zero]
      match rest with
      | [] => simp [takeLE, Outcome.map']
      | b :: rest2 =>
        simp only [takeLE_one', Outcome.bind_ok, byteSizeTryFrom_eq, List.getD_cons_succ, List.getD_cons_zero]
        by_cases hb : b.toNat = 0 ∨ b.toNat > 8
        · simp only [hb, if_true, Outcome.bind_err, Outcome.map'_err]
          split <;> rfl
        · simp only [hb, if_false, Outcome.bind_ok]
          by_cases hl : 2 ≤ rest2.length
          · have T := takeLE_at (a :: b :: rest2) 2 2 (by simp only [List.length_cons]; omega)
            simp only [List.drop_succ_cons, List.drop_zero] at T
            have hlen : ¬ (a :: b :: rest2).length < 4 := by simp only [List.length_cons]; omega
            simp only [T, Outcome.bind_ok, Outcome.map'_ok, hlen, if_false, compressionOfNat_toNat _ ha]
            rfl
          · have hlen : (a :: b :: rest2).length < 4 := by simp only [List.length_cons]; omega
            have T : takeLE rest2 2 = .err .format := by unfold takeLE; rw [if_neg hl]
            simp only [T, Outcome.bind_err, Outcome.map'_err, hlen, if_true]

/-- **The whole cluster tail is parsed as the source parses it**: `ClusterHeader::parse` followed by the rest of
    `ClusterBuilder::parse` (which receives the header as a value), both translated on every run, is
    `ClusterTail.decode` of the model on every tail announcing at least one blob — the header checks are no longer
    hypotheses. -/
theorem gen_clusterTailParse (bs : Bytes) (c : Nat) (hcount : leNat (slice bs 2 2) = c + 1) :
    (((Generated.clusterHeaderParse bs).bind fun r =>
        Generated.clusterBuilderParse r.2 (srcCompressionToNat r.1.1, r.1.2.1, r.1.2.2)).map'
        (fun r => (r.1.1.1, r.1.1.2.1, r.1.1.2.2, r.1.2))).Same
      ((ClusterTail.decode bs).map' (fun t => (0 :: t.offsets ++ [t.dataSize], t.dataSize, t.comp, t.rawSize))) := by
  have H := gen_clusterHeaderParse bs
  unfold clusterHeaderModel at H
  by_cases h4 : bs.length < 4
  · simp only [h4, if_true] at H
    have : ClusterTail.decode bs = .err .format := by unfold ClusterTail.decode; simp only [h4, if_true]
    rw [this]
    cases hx : Generated.clusterHeaderParse bs <;> rw [hx] at H <;> simp [Outcome.map'] at H
    subst H
    exact Outcome.same_refl _
  · by_cases hcomp : (bs.getD 0 0).toNat > 3
    · simp only [h4, hcomp, if_true, if_false] at H
      have : ClusterTail.decode bs = .err .format := by unfold ClusterTail.decode; simp only [h4, hcomp, if_true, if_false]
      rw [this]
      cases hx : Generated.clusterHeaderParse bs <;> rw [hx] at H <;> simp [Outcome.map'] at H
      subst H
      exact Outcome.same_refl _
    · by_cases hosz : (bs.getD 1 0).toNat = 0 ∨ (bs.getD 1 0).toNat > 8
      · simp only [h4, hcomp, hosz, if_true, if_false] at H
        have : ClusterTail.decode bs = .err .format := by
          unfold ClusterTail.decode; simp only [h4, hcomp, hosz, if_true, if_false]
        rw [this]
        cases hx : Generated.clusterHeaderParse bs <;> rw [hx] at H <;> simp [Outcome.map'] at H
        subst H
        exact Outcome.same_refl _
      · simp only [h4, hcomp, hosz, if_false] at H
        cases hx : Generated.clusterHeaderParse bs <;> rw [hx] at H <;> simp [Outcome.map'] at H
        rename_i r
        obtain ⟨⟨h1, h2, h3⟩, h5⟩ := H
        simp only [Outcome.bind_ok, h1, h2, h3, h5, hcount]
        exact gen_clusterBuilderParse bs c h4 hcomp hosz hcount

end Jubako
