/-
`ManifestPack::new` (`reader/manifest_pack.rs`) translated from the source on every run
(Generated/FuncsOpen.lean) is `manifestOpen` of the reader model.
-/
import JubakoModel.Lemmas.FuncsOpen
import JubakoModel.Lemmas.OutcomeLemmas
set_option linter.unusedSimpArgs false
namespace Jubako

def isDir (i : PackInfo) : Bool := decide (i.kind = PackKind.directory)

/-- one step of the model's loop over the pack infos -/
def mfStep (f : Bytes) (base : Nat) (acc : List PackInfo) (k : Nat) : Outcome (List PackInfo) :=
  (readBlock f (base + k * packInfoBlockSize) 252).bind fun pb => (PackInfo.decode pb).bind fun info => .ok (acc ++ [info])

theorem mf_loop {V : Type} (f : Bytes) (base : Nat) (ph : Outcome PackHeader) (mh : Outcome ManifestHeader)
    (offs : PackHeader → ManifestHeader → List Nat) (vsAt : (Nat × Nat) → Outcome V) (ks : List Nat) :
    ∀ (acc : List PackInfo) (mx : Nat),
      (Generated.manifestPackNew_loop ph mh offs
          (fun off => (readBlock f off 252).bind fun pb => PackInfo.decode pb) vsAt
          ((acc.filter isDir).getLast?) (acc.filter (fun i => !isDir i)) mx
          (ks.map (fun k => base + k * packInfoBlockSize))).map' (fun r => (r.1, r.2.1)) =
        (ks.foldlM (mfStep f base) acc).map' (fun infos => ((infos.filter isDir).getLast?, infos.filter (fun i => !isDir i))) := by
  induction ks with
  | nil => intro acc mx; simp [Generated.manifestPackNew_loop, pure]
  | cons k ks ih =>
    intro acc mx
    simp only [List.map_cons, Generated.manifestPackNew_loop, List.foldlM_cons, bind, mfStep, Outcome.bind_assoc'']
    cases hr : readBlock f (base + k * packInfoBlockSize) 252 with
    | ok pb =>
      simp only [Outcome.bind_ok'']
      cases hd : PackInfo.decode pb with
      | ok info =>
        simp only [Outcome.bind_ok'']
        by_cases hk : info.kind = PackKind.directory
        · have h1 : isDir info = true := by simp [isDir, hk]
          have := ih (acc ++ [info]) mx
          simp only [List.filter_append, List.filter_cons, List.filter_nil, h1, Bool.not_true, if_true, List.append_nil,
            List.getLast?_append, List.getLast?_singleton, Option.some_or, Bool.false_eq_true, if_false] at this
          simp only [hk]
          exact this
        · have h1 : isDir info = false := by simp [isDir, hk]
          have := ih (acc ++ [info]) (max mx info.packId)
          simp only [List.filter_append, List.filter_cons, List.filter_nil, h1, Bool.not_false, if_true, List.append_nil,
            List.getLast?_append, List.getLast?_nil, Option.or_none, Bool.false_eq_true, if_false] at this
          split
          · rename_i hkk; exact absurd hkk hk
          · exact this
      | _ => rfl
    | _ => rfl

theorem getLast?_filter_isSome (infos : List PackInfo) :
    ((infos.filter isDir).getLast?).isSome = infos.any (fun i => decide (i.kind = PackKind.directory)) := by
  induction infos with
  | nil => rfl
  | cons i is ih =>
    simp only [List.filter_cons, List.any_cons]
    by_cases h : isDir i = true
    · have h' : decide (i.kind = PackKind.directory) = true := by simpa [isDir] using h
      simp only [h, if_true, h', Bool.true_or]
      cases hf : List.filter isDir is with
      | nil => simp
      | cons x xs => simp [List.getLast?_cons_cons]
    · have h' : decide (i.kind = PackKind.directory) = false := by simpa [isDir] using h
      simp only [h, h', Bool.false_or]
      exact ih

/-- **Opening a manifest follows the source**: `ManifestPack::new` as translated on every run — header of kind
    "manifest", manifest header, the pack infos read at the offsets the (translated) `PackOffsetsIter` yields,
    the directory pack's info kept apart (the last one wins), the others kept in order, then the value store if
    any, then `directory_pack_info.unwrap()` — applied to the model's block reads, gives what `manifestOpen`
    gives: same header, same pack infos split the same way, same error, a panic exactly when no pack info is of
    kind "directory".  (Hypothesis: the pack infos fit before the check block — the model answers "panic" for
    the underflow of `PackOffsetsIter::new` otherwise.) -/
theorem gen_manifestOpen (f : Bytes)
    (hU : ∀ hd h mb m, readBlock f 0 60 = .ok hd → PackHeader.decode hd = .ok h → readBlock f 64 60 = .ok mb →
      ManifestHeader.decode mb = .ok m → m.packCount * packInfoBlockSize ≤ h.checkInfoPos) :
    ((Generated.manifestPackNew
        ((readBlock f 0 60).bind fun hd => PackHeader.decode hd)
        ((readBlock f 64 60).bind fun mb => ManifestHeader.decode mb)
        (fun h m => (List.range m.packCount).map (fun k => packInfosOffset h.checkInfoPos m.packCount + k * packInfoBlockSize))
        (fun off => (readBlock f off 252).bind fun pb => PackInfo.decode pb)
        (fun so => valueStoreOpen f so)).map' (fun r => (r.1, r.2.1, r.2.2.1, r.2.2.2.1))).Same
      ((manifestOpen f).bind fun r =>
        match (r.2.2.filter isDir).getLast? with
        | some d => .ok (r.1, r.2.1, d, r.2.2.filter (fun i => !isDir i))
        | none => .panic "") := by
  unfold Generated.manifestPackNew manifestOpen openHeader
  simp only [bind, pure, Outcome.bind_assoc'']
  cases h1 : readBlock f 0 60 with
  | ok hd =>
    simp only [Outcome.bind_ok'']
    cases h2 : PackHeader.decode hd with
    | ok h =>
      simp only [Outcome.bind_ok'']
      by_cases hk : h.kind = PackKind.manifest
      · simp only [hk, if_true, ne_eq, not_true_eq_false, if_false, Outcome.bind_ok'']
        cases h3 : readBlock f 64 60 with
        | ok mb =>
          simp only [Outcome.bind_ok'']
          cases h4 : ManifestHeader.decode mb with
          | ok m =>
            simp only [Outcome.bind_ok'']
            have hu := hU hd h mb m h1 h2 h3 h4
            have hnu : ¬ h.checkInfoPos < m.packCount * packInfoBlockSize := by omega
            simp only [hnu, if_false]
            have L := mf_loop f (packInfosOffset h.checkInfoPos m.packCount) (Outcome.ok h) (Outcome.ok m)
              (fun h m => List.map (fun k => packInfosOffset h.checkInfoPos m.packCount + k * packInfoBlockSize) (List.range m.packCount))
              (fun so => valueStoreOpen f so) (List.range m.packCount) [] 0
            simp only [List.filter_nil, List.getLast?_nil] at L
            have hstep : (fun (acc : List PackInfo) (k : Nat) =>
                (readBlock f (packInfosOffset h.checkInfoPos m.packCount + k * packInfoBlockSize) 252).bind fun pb =>
                  (PackInfo.decode pb).bind fun info => Outcome.ok (acc ++ [info])) =
                mfStep f (packInfosOffset h.checkInfoPos m.packCount) := by
              funext acc k; rfl
            rw [hstep]
            generalize Generated.manifestPackNew_loop (Outcome.ok h) (Outcome.ok m) _ _ _ none [] 0 _ = lr at L ⊢
            generalize List.foldlM (mfStep f (packInfosOffset h.checkInfoPos m.packCount)) [] (List.range m.packCount) = fr at L ⊢
            cases lr with
            | ok x =>
              cases fr with
              | ok infos =>
                simp only [Outcome.map'_ok, Outcome.ok.injEq, Prod.mk.injEq] at L
                obtain ⟨hd1, hd2⟩ := L
                simp only [Outcome.bind_ok'', hd1, hd2]
                have hany := getLast?_filter_isSome infos
                by_cases hv : m.valueStore = (0, 0)
                · simp only [hv, not_true_eq_false, if_false]
                  cases hg : (List.filter isDir infos).getLast? with
                  | none =>
                    rw [hg] at hany
                    have : (infos.any fun i => decide (i.kind = PackKind.directory)) = false := by simpa using hany.symm
                    (simp only [hg, this, Bool.false_eq_true, if_false, Generated.unwrapOpt, Outcome.bind_ok'']; same_close)
                  | some d =>
                    rw [hg] at hany
                    have : (infos.any fun i => decide (i.kind = PackKind.directory)) = true := by simpa using hany.symm
                    (simp only [hg, this, if_true, Generated.unwrapOpt, Outcome.bind_ok'']; same_close)
                · simp only [hv, not_false_eq_true, if_true]
                  cases hvs : valueStoreOpen f m.valueStore with
                  | ok vs =>
                    simp only [Outcome.bind_ok'']
                    cases hg : (List.filter isDir infos).getLast? with
                    | none =>
                      rw [hg] at hany
                      have : (infos.any fun i => decide (i.kind = PackKind.directory)) = false := by simpa using hany.symm
                      (simp only [hg, this, Bool.false_eq_true, if_false, Generated.unwrapOpt, Outcome.bind_ok'']; same_close)
                    | some d =>
                      rw [hg] at hany
                      have : (infos.any fun i => decide (i.kind = PackKind.directory)) = true := by simpa using hany.symm
                      (simp only [hg, this, if_true, Generated.unwrapOpt, Outcome.bind_ok'']; same_close)
                  | _ => same_close
              | _ => simp [Outcome.map'] at L
            | err e =>
              cases fr with
              | err e2 =>
                simp only [Outcome.map'_err, Outcome.err.injEq] at L
                subst L
                same_close
              | _ => simp [Outcome.map'] at L
            | panic s =>
              cases fr with
              | panic s2 => same_close
              | _ => simp [Outcome.map'] at L
            | hang =>
              cases fr with
              | hang => same_close
              | _ => simp [Outcome.map'] at L
            | fault =>
              cases fr with
              | fault => same_close
              | _ => simp [Outcome.map'] at L
          | _ => same_close
        | _ => same_close
      · simp [hk] <;> same_close
    | _ => same_close
  | _ => same_close

end Jubako
