/-
The hand-written model functions are equal to the function bodies that tools/extract_funcs.py
translates out of the Rust source on every run (Generated/FuncsView.lean).  Each theorem here is an
obligation of the properties that use the model function: a change of the Rust body changes the
generated definition and breaks the proof.
-/
import JubakoModel.Model.View
import JubakoModel.Generated.FuncsView

namespace Jubako

/-! ### regions and streams -/

theorem gen_regionCutRel (r : Region) (off size : Nat) :
    ((r.cutRel off size).b, (r.cutRel off size).e) = Generated.regionCutRel r.b r.e off size := by
  simp [Region.cutRel, Generated.regionCutRel]

theorem gen_streamSizeLeft (s : Stream) : s.sizeLeft = Generated.streamSizeLeft s.r.b s.r.e s.cur := by
  simp [Stream.sizeLeft, Generated.streamSizeLeft]

theorem gen_streamSize (s : Stream) : s.size = Generated.streamSize s.r.b s.r.e s.cur := by
  simp [Stream.size, Region.size, Generated.streamSize]

theorem gen_streamOffset (s : Stream) : s.offset = Generated.streamOffset s.r.b s.r.e s.cur := by
  simp [Stream.offset, Generated.streamOffset]

end Jubako
