/-
The hand-written model functions are equal to the function bodies that tools/extract_funcs.py
translates out of the Rust source on every run (Generated/FuncsView.lean).  Each theorem here is an
obligation of the properties that use the model function: a change of the Rust body changes the
generated definition and breaks the proof.
-/
import JubakoModel.Model.View
import JubakoModel.Generated.FuncsView

namespace Jubako

/-! ### regions and streams -/

theorem gen_regionCutRel (r : Region) (off size : Nat) :
    ((r.cutRel off size).b, (r.cutRel off size).e) = Generated.regionCutRel r.b r.e off size := by
  simp [Region.cutRel, Generated.regionCutRel]

theorem gen_streamSizeLeft (s : Stream) : s.sizeLeft = Generated.streamSizeLeft s.r.b s.r.e s.cur := by
  simp [Stream.sizeLeft, Generated.streamSizeLeft]

theorem gen_streamSize (s : Stream) : s.size = Generated.streamSize s.r.b s.r.e s.cur := by
  simp [Stream.size, Region.size, Generated.streamSize]

theorem gen_streamOffset (s : Stream) : s.offset = Generated.streamOffset s.r.b s.r.e s.cur := by
  simp [Stream.offset, Generated.streamOffset]

/-- **What a stream asks of its source on a read is the source's request**: the length
    `min(buf.len(), region.end - offset)` computed by `ByteStream::read` (translated on every run) is the bound
    of the model's `Stream.read` before the source's own end is taken into account; the bytes returned and the
    cursor advance follow from it. -/
theorem gen_streamRead (s : Stream) (n short : Nat) :
    let req := Generated.streamReadRequest s.r.b s.r.e s.cur n
    let got := if short = 0 then min req (s.src.length - s.cur) else min short (min req (s.src.length - s.cur))
    s.read n short = (slice s.src s.cur got, { s with cur := s.cur + got }) := by
  simp [Stream.read, Generated.streamReadRequest]

end Jubako
