/-
C04, first sentence: **"Every pack and container the creator produces passes its own integrity
check."**

Summary of the statements (parts A–D are in `VerifiesA.lean` … `VerifiesD.lean`):

* content pack      `content_created_verifies`, `content_created_openCheck`
* directory pack    `directory_created_verifies`, `directory_created_openCheck`
* manifest pack     `manifestOpen_manifestWrite`, `manifest_created_verifies`,
                    `manifestWrite_layout`, `manifest_created_verifies_after_relocations`
                    (and the `manifestCreate_*` forms, from the creator's inputs)
* container pack    `container_pack_created_verifies` (`ContainerPack::check`)
* container         `container_created_verifies` (`Container::check`, any packs that verify),
                    `created_container_verifies`, `created_container_opens_and_verifies`
                    (containers assembled from packs written by the three writers, in any order)

The hash `H` is an arbitrary function with 32-byte output.
-/
import JubakoModel.Lemmas.VerifiesD

namespace Jubako

set_option linter.unusedSimpArgs false
set_option linter.unusedVariables false
set_option maxRecDepth 8000

/-! ### 1. packs written by the three writers -/

/-- a pack as one of the three writers produces it, by its inputs -/
inductive CreatedPack where
  | manifest (vendor uuid freeData checkBlocks : Bytes) (store : VStore) (infos : List PackInfo)
  | directory (vendor uuid freeData : Bytes) (d : DirIn)
  | content (codec : Codec) (m : ContentPackMeta) (arrival : List Cluster)
      (infos : List (Nat × Nat))

namespace CreatedPack

def uuid : CreatedPack → Bytes
  | .manifest _ u _ _ _ _ => u
  | .directory _ u _ _ => u
  | .content _ m _ _ => m.uuid

def kind : CreatedPack → PackKind
  | .manifest .. => .manifest
  | .directory .. => .directory
  | .content .. => .content

/-- the file the writer produces -/
def bytes (H : Bytes → Bytes) : CreatedPack → Bytes
  | .manifest v u fd cb s infos => manifestWrite H v u fd cb s infos
  | .directory v u fd d => dirPackWrite H v u fd d
  | .content codec m arrival infos => contentPackWrite H codec m arrival infos

/-- the field-width / size limits of the writer (see `ManifestLimits`,
    `directoryOpen_dirPackWrite`, `contentOpen_contentPackWrite`); a manifest lists a directory
    pack -/
def Limits (H : Bytes → Bytes) : CreatedPack → Prop
  | .manifest v u fd cb s infos =>
    ManifestLimits v u fd cb s infos ∧ infos.any (fun i => i.kind = .directory) = true
  | .directory v u fd d =>
    v.length = 4 ∧ u.length = 16 ∧ fd.length = 24 ∧ d.stores.length < 256 ∧
    d.indexes.length < 2 ^ 32 ∧ (dirPackWrite H v u fd d).length < 2 ^ 48
  | .content codec m arrival infos =>
    m.WF ∧ infos.length < 2 ^ 32 ∧ arrival.length < 2 ^ 32 ∧
    cfCheckPos codec arrival infos + 37 + 64 < 2 ^ 64

/-- **every pack a writer produces verifies** -/
theorem verifies (H : Bytes → Bytes) (p : CreatedPack) (hl : p.Limits H)
    (hH : ∀ x, (H x).length = 32) : PackVerifies H (p.bytes H) := by
  cases p with
  | manifest v u fd cb s infos => exact PackVerifies.manifest hl.1 hl.2 hH
  | directory v u fd d =>
    obtain ⟨h1, h2, h3, h4, h5, h6⟩ := hl
    exact PackVerifies.directory H v u fd d h1 h2 h3 h4 h5 h6 hH
  | content codec m arrival infos =>
    obtain ⟨h1, h2, h3, h4⟩ := hl
    exact PackVerifies.content H codec m arrival infos h1 h2 h3 h4 hH

theorem uuid_length (H : Bytes → Bytes) (p : CreatedPack) (hl : p.Limits H) :
    p.uuid.length = 16 := by
  cases p with
  | manifest v u fd cb s infos => exact hl.1.uuidLen
  | directory v u fd d => exact hl.2.1
  | content codec m arrival infos => exact hl.1.2.1

/-- the header at the start of the written file names the writer's kind -/
theorem header_kind (H : Bytes → Bytes) (p : CreatedPack) (hl : p.Limits H)
    (hH : ∀ x, (H x).length = 32) (h : PackHeader) (hh : packHeaderOf (p.bytes H) = .ok h) :
    h.kind = p.kind := by
  cases p with
  | manifest v u fd cb s infos =>
    have := packHeaderOf_framePack H (manifestMask (mwBase cb s) infos.length)
      (mwHeader v u cb s infos) (block (mwMH fd cb s infos).encode ++ mwMid cb s ++
        infos.flatMap (fun p => block p.encode)) (mwHeader_WF hl.1) ⟨rfl, rfl⟩
    rw [← manifestWrite_frame] at this
    show h.kind = .manifest
    rw [show bytes H (.manifest v u fd cb s infos) = manifestWrite H v u fd cb s infos from rfl,
      this] at hh
    rw [← Outcome.ok.inj hh]; rfl
  | directory v u fd d =>
    obtain ⟨h1, h2, h3, h4, h5, h6⟩ := hl
    have hlen := d.written_length H v u fd h1 h2 h3 hH
    have := packHeaderOf_framePack H id (d.header v u) (block (d.dh fd).encode ++ d.body)
      (d.header_WF v u h1 h2 (by omega)) ⟨rfl, rfl⟩
    rw [← dirPackWrite_frame] at this
    show h.kind = .directory
    rw [show bytes H (.directory v u fd d) = dirPackWrite H v u fd d from rfl, this] at hh
    rw [← Outcome.ok.inj hh]; rfl
  | content codec m arrival infos =>
    obtain ⟨h1, h2, h3, h4⟩ := hl
    have := packHeaderOf_framePack H id (cfHeader codec m arrival infos)
      (block (cfCH codec m arrival infos).encode ++ (cfBytes codec arrival ++
        (block (cfPtrData codec arrival) ++ block (cfInfoData infos))))
      (cfHeader_WF codec m arrival infos h1 h4) ⟨rfl, rfl⟩
    rw [← contentPackWrite_frame] at this
    show h.kind = .content
    rw [show bytes H (.content codec m arrival infos) = contentPackWrite H codec m arrival infos
      from rfl, this] at hh
    rw [← Outcome.ok.inj hh]; rfl

end CreatedPack

/-- the (uuid, bytes) pairs handed to the container-pack writer -/
def createdPacks (H : Bytes → Bytes) (cps : List CreatedPack) : List (Bytes × Bytes) :=
  cps.map (fun p => (p.uuid, p.bytes H))

/-- a container pack holding created packs, in the order given -/
def createdContainer (H : Bytes → Bytes) (uuid freeData : Bytes) (cps : List CreatedPack) : Bytes :=
  containerPackWrite uuid freeData (createdPacks H cps)

/-- the size limits of the container-pack writer -/
structure ContainerLimits (H : Bytes → Bytes) (uuid freeData : Bytes) (cps : List CreatedPack) :
    Prop where
  uuidLen : uuid.length = 16
  freeDataLen : freeData.length = 24
  packs : ∀ p ∈ cps, p.Limits H
  count : cps.length < 2 ^ 16
  fileSize : (createdContainer H uuid freeData cps).length < 2 ^ 64

section Container

variable {H : Bytes → Bytes} {uuid freeData : Bytes} {cps : List CreatedPack}

theorem createdPacks_uuid_length (L : ContainerLimits H uuid freeData cps) :
    ∀ p ∈ createdPacks H cps, p.1.length = 16 := by
  intro p hp
  obtain ⟨q, hq, rfl⟩ := List.mem_map.mp hp
  exact q.uuid_length H (L.packs q hq)

theorem createdPacks_verify (L : ContainerLimits H uuid freeData cps)
    (hH : ∀ x, (H x).length = 32) : ∀ p ∈ createdPacks H cps, PackVerifies H p.2 := by
  intro p hp
  obtain ⟨q, hq, rfl⟩ := List.mem_map.mp hp
  exact q.verifies H (L.packs q hq) hH

/-- the packs `blindOpen` finds in a created container -/
def createdPackAts (H : Bytes → Bytes) (cps : List CreatedPack) : List PackAt :=
  (concatLayout (createdPacks H cps)).2.map (fun l => ⟨l.uuid, l.pos, l.size⟩)

/-- **A created container pack passes `ContainerPack::check`**: a container pack assembled from
    packs written by the manifest / directory / content writers, in any order and number, is
    opened blindly to exactly those packs, and every one of them opens and verifies. -/
theorem created_container_pack_verifies (L : ContainerLimits H uuid freeData cps)
    (hH : ∀ x, (H x).length = 32) :
    blindOpen (createdContainer H uuid freeData cps) = .ok (createdPackAts H cps) ∧
    packsCheck H (createdContainer H uuid freeData cps) (createdPackAts H cps) = .ok true :=
  container_pack_created_verifies H uuid freeData (createdPacks H cps) L.uuidLen L.freeDataLen
    (createdPacks_uuid_length L) (by rw [createdPacks, List.length_map]; exact L.count) L.fileSize
    (createdPacks_verify L hH)

/-- **A created one-file container passes `Container::check`** (hypotheses on the view): the entry
    file is a container pack assembled from created packs; it opens to `c`; every pack `c`'s
    manifest lists is either in the file or recorded with an empty location, and no pack listed
    as *directory* shares its uuid with a manifest pack of the file. -/
theorem created_container_verifies (L : ContainerLimits H uuid freeData cps)
    (hH : ∀ x, (H x).length = 32) (fs : FS) (entry : String) (c : ContainerView)
    (hfile : FS.get fs entry = some (createdContainer H uuid freeData cps))
    (hopen : containerOpen fs entry = .ok c)
    (hloc : ∀ i ∈ c.infos, c.Encloses i.uuid ∨ i.location = [])
    (hdirkind : ∀ i ∈ c.infos, i.kind = .directory → ∀ p ∈ cps, p.uuid = i.uuid →
      p.kind ≠ .manifest) :
    containerCheck H fs c = .ok true := by
  apply container_created_verifies H fs entry uuid freeData (createdPacks H cps) c hfile L.uuidLen
    L.freeDataLen (createdPacks_uuid_length L) (by rw [createdPacks, List.length_map]; exact L.count)
    L.fileSize (createdPacks_verify L hH) hopen hloc
  intro i hi hk p hp hpu h hh
  obtain ⟨q, hq, rfl⟩ := List.mem_map.mp hp
  rw [q.header_kind H (L.packs q hq) hH h hh]
  exact hdirkind i hi hk q hq hpu

/-! ### 2. the container opens: from the writer's inputs to the view -/

theorem layoutLocs_region_conv (off : Nat) (packs : List (Bytes × Bytes)) :
    ∀ p ∈ packs, ∃ l ∈ layoutLocs off packs, l.uuid = p.1 ∧ l.size = p.2.length ∧
      slice ((packs.map (·.2)).flatten) (l.pos - 128 - off) l.size = p.2 := by
  induction packs generalizing off with
  | nil => intro p hp; cases hp
  | cons a ps ih =>
    intro p hp
    rcases List.mem_cons.mp hp with rfl | hp
    · refine ⟨⟨p.1, p.2.length, 128 + off⟩, by simp [layoutLocs], rfl, rfl, ?_⟩
      simp only [List.map_cons, List.flatten_cons]
      rw [show 128 + off - 128 - off = 0 by omega]
      exact slice_append_left _ _
    · obtain ⟨l, hl, h1, h2, h3⟩ := ih (off + a.2.length) p hp
      have hb := layoutLocs_bound (off + a.2.length) ps l hl
      refine ⟨l, by simp only [layoutLocs]; exact List.mem_cons_of_mem _ hl, h1, h2, ?_⟩
      simp only [List.map_cons, List.flatten_cons]
      rw [slice_skip _ _ _ _ (by omega),
        show l.pos - 128 - off - a.2.length = l.pos - 128 - (off + a.2.length) by omega]
      exact h3

/-- every pack given to the container-pack writer is found by `blindOpen`, under its uuid -/
theorem containerPackWrite_packAt_conv (uuid freeData : Bytes) (packs : List (Bytes × Bytes))
    (hu : uuid.length = 16) (hf : freeData.length = 24) :
    ∀ p ∈ packs, ∃ q ∈ (concatLayout packs).2.map (fun l => (⟨l.uuid, l.pos, l.size⟩ : PackAt)),
      q.uuid = p.1 ∧ slice (containerPackWrite uuid freeData packs) q.origin q.size = p.2 := by
  intro p hp
  obtain ⟨l, hl, h1, h2, h3⟩ := layoutLocs_region_conv 0 packs p hp
  have hl' : l ∈ (concatLayout packs).2 := by rw [concatLayout_eq]; exact hl
  have hreg := containerPackWrite_region uuid freeData packs hu hf l hl'
  rw [concatLayout_eq] at hreg
  refine ⟨⟨l.uuid, l.pos, l.size⟩, List.mem_map.mpr ⟨l, hl', rfl⟩, h1, ?_⟩
  show slice (containerPackWrite uuid freeData packs) l.pos l.size = p.2
  rw [hreg]
  simpa using h3

theorem find?_uuid_of_mem {ps : List PackAt} {u : Bytes} {q : PackAt} (hq : q ∈ ps)
    (hu : q.uuid = u) : ∃ q', ps.find? (fun p => p.uuid == u) = some q' := by
  cases hf : ps.find? (fun p => p.uuid == u) with
  | some q' => exact ⟨q', rfl⟩
  | none =>
    rw [List.find?_eq_none] at hf
    exact absurd (by simpa using hu) (hf q hq)

/-- **A created one-file container opens and passes `Container::check`** — from the writers'
    inputs only.  The entry file is a container pack assembled, in any order, from created packs
    among which exactly one manifest `manifest mv mu mfd cb store infos`; its infos describe the
    file:
    * `hloc` — every listed pack is in the file (by uuid) or has an empty recorded location;
    * `hdiren` — the packs listed as *directory* are in the file;
    * `hdirkind` — … and are not stored under the uuid of the manifest pack.
    Then `Container::new` succeeds, returns the writer's pack infos, and `Container::check`
    answers `true`. -/
theorem created_container_opens_and_verifies (L : ContainerLimits H uuid freeData cps)
    (hH : ∀ x, (H x).length = 32) (fs : FS) (entry : String)
    (hfile : FS.get fs entry = some (createdContainer H uuid freeData cps))
    (mv mu mfd cb : Bytes) (store : VStore) (infos : List PackInfo)
    (hmem : CreatedPack.manifest mv mu mfd cb store infos ∈ cps)
    (hone : ∀ p ∈ cps, p.kind = .manifest → p = .manifest mv mu mfd cb store infos)
    (hloc : ∀ i ∈ infos, i.uuid ∈ cps.map (·.uuid) ∨ i.location = [])
    (hdiren : ∀ i ∈ infos, i.kind = .directory → i.uuid ∈ cps.map (·.uuid))
    (hdirkind : ∀ i ∈ infos, i.kind = .directory → i.uuid ≠ mu) :
    ∃ c, containerOpen fs entry = .ok c ∧ c.infos = infos ∧
      c.manifest = manifestWrite H mv mu mfd cb store infos ∧
      containerCheck H fs c = .ok true := by
  have hu := L.uuidLen
  have hf := L.freeDataLen
  have hbo := (created_container_pack_verifies L hH).1
  have hML := L.packs _ hmem
  -- every found pack is a created pack, and conversely
  have hat : ∀ q ∈ createdPackAts H cps, ∃ p ∈ cps, p.uuid = q.uuid ∧
      slice (createdContainer H uuid freeData cps) q.origin q.size = p.bytes H := by
    intro q hq
    obtain ⟨p, hp, h1, h2⟩ := containerPackWrite_packAt uuid freeData (createdPacks H cps) hu hf q hq
    obtain ⟨r, hr, rfl⟩ := List.mem_map.mp hp
    exact ⟨r, hr, h1, h2⟩
  have hconv : ∀ p ∈ cps, ∃ q ∈ createdPackAts H cps, q.uuid = p.uuid ∧
      slice (createdContainer H uuid freeData cps) q.origin q.size = p.bytes H := by
    intro p hp
    exact containerPackWrite_packAt_conv uuid freeData (createdPacks H cps) hu hf (p.uuid, p.bytes H)
      (List.mem_map.mpr ⟨p, hp, rfl⟩)
  have henc : ∀ u, u ∈ cps.map (·.uuid) →
      ∃ q, (createdPackAts H cps).find? (fun p => p.uuid == u) = some q := by
    intro u hu'
    obtain ⟨p, hp, rfl⟩ := List.mem_map.mp hu'
    obtain ⟨q, hq, hqu, -⟩ := hconv p hp
    exact find?_uuid_of_mem hq hqu
  -- the manifest found is the manifest written
  have hism : ∀ q ∈ createdPackAts H cps,
      isManifestAt (createdContainer H uuid freeData cps) q = true →
      slice (createdContainer H uuid freeData cps) q.origin q.size =
        manifestWrite H mv mu mfd cb store infos := by
    intro q hq hm
    obtain ⟨p, hp, -, hs⟩ := hat q hq
    obtain ⟨h, h1, -, -⟩ := p.verifies H (L.packs p hp) hH
    have hk : h.kind = .manifest := by
      rw [isManifestAt_of_header _ q h (by rw [hs]; exact h1)] at hm
      exact of_decide_eq_true hm
    rw [p.header_kind H (L.packs p hp) hH h h1] at hk
    rw [hs, hone p hp hk]
    rfl
  obtain ⟨qm, hqm, -, hqms⟩ := hconv _ hmem
  have hqmm : isManifestAt (createdContainer H uuid freeData cps) qm = true := by
    obtain ⟨h, h1, -, -⟩ := (CreatedPack.manifest mv mu mfd cb store infos).verifies H hML hH
    have hk := (CreatedPack.manifest mv mu mfd cb store infos).header_kind H hML hH h h1
    rw [isManifestAt_of_header _ qm h (by rw [hqms]; exact h1)]
    exact decide_eq_true hk
  obtain ⟨mp, hfind⟩ : ∃ mp, (createdPackAts H cps).find?
      (isManifestAt (createdContainer H uuid freeData cps)) = some mp := by
    cases hfm : (createdPackAts H cps).find? (isManifestAt (createdContainer H uuid freeData cps)) with
    | some mp => exact ⟨mp, rfl⟩
    | none =>
      rw [List.find?_eq_none] at hfm
      exact absurd hqmm (hfm qm hqm)
  have hmps := hism mp (List.mem_of_find?_eq_some hfind) (List.find?_some hfind)
  have hmo := manifestOpen_manifestWrite (H := H) hML.1 hML.2
  -- the directory pack is located in the file
  obtain ⟨di, hlast⟩ : ∃ di, (infos.filter (fun i => i.kind = .directory)).getLast? = some di := by
    obtain ⟨i, hi, hik⟩ := List.any_eq_true.mp hML.2
    have hne : infos.filter (fun i => i.kind = .directory) ≠ [] := by
      intro h0
      have : i ∈ infos.filter (fun i => i.kind = .directory) := List.mem_filter.mpr ⟨hi, hik⟩
      rw [h0] at this
      cases this
    exact ⟨_, List.getLast?_eq_some_getLast hne⟩
  have hdi : di ∈ infos ∧ di.kind = .directory := by
    have := List.mem_of_getLast? hlast
    rw [List.mem_filter] at this
    exact ⟨this.1, by simpa using this.2⟩
  obtain ⟨qd, hqd⟩ := henc di.uuid (hdiren di hdi.1 hdi.2)
  have hopen : containerOpen fs entry = .ok ⟨entry, createdPackAts H cps,
      manifestWrite H mv mu mfd cb store infos, infos, bytesOfLocated fs ⟨entry, qd⟩⟩ := by
    rw [containerOpen_eq, hfile]
    simp only
    rw [hbo, Outcome.ok_bind_eq, hfind]
    simp only
    rw [hmps, hmo, Outcome.ok_bind_eq]
    unfold openTail
    simp only
    rw [hlast]
    simp only
    rw [locate_enclosed fs _ _ _ _ qd hqd, Outcome.ok_bind_eq]
  refine ⟨_, hopen, rfl, rfl, ?_⟩
  apply created_container_verifies L hH fs entry _ hfile hopen
  · intro i hi
    rcases hloc i hi with h | h
    · exact Or.inl (henc i.uuid h)
    · exact Or.inr h
  · intro i hi hk p hp hpu hpk
    rw [hone p hp hpk] at hpu
    exact hdirkind i hi hk hpu.symm

end Container

end Jubako
