/-
Writer order = reader order for array keys (C03).

A. `lexCmp` is a total order; prefix decomposition; the reader's walk is `lexCmp`.
B. `lexSort` / `dedupAdj` / `dedupFirst` / `VStore.finalize`: strictly sorted, same members.
C. value ids (`rankOf`, `offsetOf`) are monotone in byte order on a strictly sorted list.
D. `writerArrCmp` / `writerIndirectCmp` agree with `lexCmp`.
-/
import JubakoModel.Model.Order

namespace Jubako

/-! ### A. `lexCmp` is a total order -/

theorem lexCmp_refl (a : Bytes) : lexCmp a a = .eq := by
  induction a with
  | nil => simp [lexCmp]
  | cons x xs ih => simp [lexCmp, ih]

theorem lexCmp_eq_iff (a b : Bytes) : lexCmp a b = .eq ↔ a = b := by
  induction a generalizing b with
  | nil => cases b <;> simp [lexCmp]
  | cons x xs ih =>
    cases b with
    | nil => simp [lexCmp]
    | cons y ys =>
      simp [lexCmp, Ordering.then_eq_eq, ih, UInt8.toNat_inj]

theorem lexCmp_swap (a b : Bytes) : lexCmp b a = (lexCmp a b).swap := by
  induction a generalizing b with
  | nil => cases b <;> simp [lexCmp]
  | cons x xs ih =>
    cases b with
    | nil => simp [lexCmp]
    | cons y ys =>
      simp [lexCmp, Ordering.swap_then, ih ys, Nat.compare_swap]

theorem lexCmp_trans_lt (a b c : Bytes) (h1 : lexCmp a b = .lt) (h2 : lexCmp b c = .lt) :
    lexCmp a c = .lt := by
  induction a generalizing b c with
  | nil =>
    cases b with
    | nil => simp [lexCmp] at h1
    | cons y ys => cases c <;> simp_all [lexCmp]
  | cons x xs ih =>
    cases b with
    | nil => simp [lexCmp] at h1
    | cons y ys =>
      cases c with
      | nil => simp [lexCmp] at h2
      | cons z zs =>
        simp only [lexCmp, Ordering.then_eq_lt, Nat.compare_eq_lt, Nat.compare_eq_eq] at h1 h2 ⊢
        rcases h1 with h1 | ⟨h1, h1'⟩ <;> rcases h2 with h2 | ⟨h2, h2'⟩
        · left; omega
        · left; omega
        · left; omega
        · right; exact ⟨by omega, ih ys zs h1' h2'⟩

theorem lexCmp_ne_gt_iff (a b : Bytes) : lexCmp a b ≠ .gt ↔ lexCmp a b = .lt ∨ a = b := by
  rw [← lexCmp_eq_iff]
  cases lexCmp a b <;> simp

theorem lexCmp_gt_iff (a b : Bytes) : lexCmp a b = .gt ↔ lexCmp b a = .lt := by
  rw [lexCmp_swap a b]
  cases lexCmp a b <;> simp

theorem lexCmp_lt_irrefl (a : Bytes) : lexCmp a a ≠ .lt := by
  simp [lexCmp_refl]

theorem lexCmp_lt_asymm (a b : Bytes) (h : lexCmp a b = .lt) : lexCmp b a = .gt := by
  rw [lexCmp_swap a b, h]; rfl

theorem lexCmp_lt_of_lt_of_le (a b c : Bytes) (h1 : lexCmp a b = .lt) (h2 : lexCmp b c ≠ .gt) :
    lexCmp a c = .lt := by
  rcases (lexCmp_ne_gt_iff b c).1 h2 with h2 | h2
  · exact lexCmp_trans_lt a b c h1 h2
  · subst h2; exact h1

theorem lexCmp_lt_of_le_of_lt (a b c : Bytes) (h1 : lexCmp a b ≠ .gt) (h2 : lexCmp b c = .lt) :
    lexCmp a c = .lt := by
  rcases (lexCmp_ne_gt_iff a b).1 h1 with h1 | h1
  · exact lexCmp_trans_lt a b c h1 h2
  · subst h1; exact h2

theorem lexCmp_le_trans (a b c : Bytes) (h1 : lexCmp a b ≠ .gt) (h2 : lexCmp b c ≠ .gt) :
    lexCmp a c ≠ .gt := by
  rcases (lexCmp_ne_gt_iff a b).1 h1 with h1 | h1
  · simp [lexCmp_lt_of_lt_of_le a b c h1 h2]
  · subst h1; exact h2

/-- totality: `lexLe` fails one way only if it holds (strictly) the other way -/
theorem lexCmp_total (a b : Bytes) : lexCmp a b ≠ .gt ∨ lexCmp b a ≠ .gt := by
  rw [lexCmp_swap a b]
  cases lexCmp a b <;> simp

/-- prefix decomposition: comparing is comparing the first `p` bytes, then the rests -/
theorem lexCmp_take_drop (p : Nat) (a b : Bytes) :
    lexCmp a b = (lexCmp (a.take p) (b.take p)).then (lexCmp (a.drop p) (b.drop p)) := by
  induction p generalizing a b with
  | zero => simp [lexCmp]
  | succ p ih =>
    cases a with
    | nil => cases b <;> simp [lexCmp]
    | cons x xs =>
      cases b with
      | nil => simp [lexCmp]
      | cons y ys =>
        simp only [List.take_succ_cons, List.drop_succ_cons, lexCmp, Ordering.then_assoc]
        rw [← ih xs ys]

theorem arrayCmpWalk_eq_lexCmp (a b : Bytes) : arrayCmpWalk a b = lexCmp a b := by
  induction a generalizing b with
  | nil => cases b <;> simp [arrayCmpWalk, lexCmp]
  | cons x xs ih =>
    cases b with
    | nil => simp [arrayCmpWalk, lexCmp]
    | cons y ys =>
      simp only [arrayCmpWalk, lexCmp, ih ys]
      rcases Nat.lt_trichotomy x.toNat y.toNat with h | h | h
      · simp [h, Nat.compare_eq_lt.2 h]
      · simp [h]
      · have h' : ¬ x.toNat < y.toNat := by omega
        simp [h, h', Nat.compare_eq_gt.2 h]

/-! ### B. sorting and deduplication -/

theorem lexInsert_perm (x : Bytes) (l : List Bytes) : (lexInsert x l).Perm (x :: l) := by
  induction l with
  | nil => simp [lexInsert]
  | cons y ys ih =>
    simp only [lexInsert]
    split
    · exact (List.Perm.cons y ih).trans (List.Perm.swap x y ys)
    · exact List.Perm.refl _

theorem mem_lexInsert (x z : Bytes) (l : List Bytes) : z ∈ lexInsert x l ↔ z = x ∨ z ∈ l := by
  rw [(lexInsert_perm x l).mem_iff]; simp

theorem lexSort_cons (x : Bytes) (l : List Bytes) : lexSort (x :: l) = lexInsert x (lexSort l) := rfl

theorem lexSort_perm (l : List Bytes) : (lexSort l).Perm l := by
  induction l with
  | nil => exact List.Perm.refl _
  | cons x xs ih =>
    rw [lexSort_cons]
    exact (lexInsert_perm x _).trans (List.Perm.cons x ih)

theorem mem_lexSort (l : List Bytes) (x : Bytes) : x ∈ lexSort l ↔ x ∈ l :=
  (lexSort_perm l).mem_iff

theorem lexInsert_sorted (x : Bytes) (l : List Bytes)
    (h : l.Pairwise (fun a b => lexCmp a b ≠ .gt)) :
    (lexInsert x l).Pairwise (fun a b => lexCmp a b ≠ .gt) := by
  induction l with
  | nil => simp [lexInsert]
  | cons y ys ih =>
    rw [List.pairwise_cons] at h
    simp only [lexInsert]
    split
    · rename_i hle
      rw [List.pairwise_cons]
      refine ⟨?_, ih h.2⟩
      intro z hz
      rcases (mem_lexInsert x z ys).1 hz with hz | hz
      · subst hz; simpa [lexLe] using hle
      · exact h.1 z hz
    · rename_i hle
      have hgt : lexCmp y x = .gt := by simpa [lexLe] using hle
      have hlt : lexCmp x y = .lt := (lexCmp_gt_iff y x).1 hgt
      rw [List.pairwise_cons]
      refine ⟨?_, List.pairwise_cons.2 h⟩
      intro z hz
      rcases List.mem_cons.1 hz with hz | hz
      · subst hz; simp [hlt]
      · simp [lexCmp_lt_of_lt_of_le x y z hlt (h.1 z hz)]

theorem lexSort_sorted (l : List Bytes) : (lexSort l).Pairwise (fun a b => lexCmp a b ≠ .gt) := by
  induction l with
  | nil => simp [lexSort]
  | cons x xs ih => rw [lexSort_cons]; exact lexInsert_sorted x _ ih

theorem mem_dedupAdj (l : List Bytes) (x : Bytes) : x ∈ dedupAdj l ↔ x ∈ l := by
  fun_induction dedupAdj l with
  | case1 => simp
  | case2 => simp
  | case3 a rest ih => rw [ih]; simp
  | case4 a b rest hab ih => rw [List.mem_cons, ih]; simp

theorem dedupAdj_sorted_nodup (l : List Bytes) (h : l.Pairwise (fun a b => lexCmp a b ≠ .gt)) :
    (dedupAdj l).Pairwise (fun a b => lexCmp a b = .lt) := by
  fun_induction dedupAdj l with
  | case1 => simp
  | case2 => simp
  | case3 a rest ih => exact ih (List.pairwise_cons.1 h).2
  | case4 a b rest hab ih =>
    rw [List.pairwise_cons] at h
    have hab' : lexCmp a b = .lt := by
      rcases (lexCmp_ne_gt_iff a b).1 (h.1 b (by simp)) with h' | h'
      · exact h'
      · exact absurd h' hab
    rw [List.pairwise_cons]
    refine ⟨?_, ih h.2⟩
    intro z hz
    rw [mem_dedupAdj] at hz
    rcases List.mem_cons.1 hz with hz | hz
    · subst hz; exact hab'
    · exact lexCmp_lt_of_lt_of_le a b z hab' ((List.pairwise_cons.1 h.2).1 z hz)

theorem mem_dedupFirst (l : List Bytes) (x : Bytes) : x ∈ dedupFirst l ↔ x ∈ l := by
  induction l with
  | nil => simp [dedupFirst]
  | cons y ys ih =>
    simp only [dedupFirst, List.mem_cons, List.mem_filter, ih, bne_iff_ne, ne_eq]
    by_cases hxy : x = y <;> simp [hxy]

theorem dedupFirst_nodup (l : List Bytes) : (dedupFirst l).Nodup := by
  induction l with
  | nil => simp [dedupFirst]
  | cons y ys ih =>
    simp only [dedupFirst, List.nodup_cons]
    refine ⟨?_, ih.sublist List.filter_sublist⟩
    simp [List.mem_filter]

/-- weakly sorted and duplicate-free is strictly sorted -/
theorem strict_of_sorted_nodup (l : List Bytes) (h : l.Pairwise (fun a b => lexCmp a b ≠ .gt))
    (hn : l.Nodup) : l.Pairwise (fun a b => lexCmp a b = .lt) := by
  have := List.Pairwise.and h hn
  refine this.imp ?_
  intro a b hab
  rcases (lexCmp_ne_gt_iff a b).1 hab.1 with h' | h'
  · exact h'
  · exact absurd h' hab.2

theorem finalize_strict (indexed : Bool) (added : List Bytes) :
    (VStore.finalize indexed added).values.Pairwise (fun a b => lexCmp a b = .lt) := by
  cases indexed with
  | true =>
    simp only [VStore.finalize, if_true]
    exact strict_of_sorted_nodup _ (lexSort_sorted _)
      ((lexSort_perm _).nodup_iff.2 (dedupFirst_nodup added))
  | false =>
    simp only [VStore.finalize, Bool.false_eq_true, if_false]
    exact dedupAdj_sorted_nodup _ (lexSort_sorted _)

theorem mem_finalize (indexed : Bool) (added : List Bytes) (x : Bytes) :
    x ∈ (VStore.finalize indexed added).values ↔ x ∈ added := by
  cases indexed with
  | true => simp [VStore.finalize, mem_lexSort, mem_dedupFirst]
  | false => simp [VStore.finalize, mem_lexSort, mem_dedupAdj]

theorem finalize_indexed (indexed : Bool) (added : List Bytes) :
    (VStore.finalize indexed added).indexed = indexed := by
  cases indexed <;> simp [VStore.finalize]

/-! ### C. value ids are monotone in byte order -/

theorem rankOf_ge (x : Bytes) (l : List Bytes) (acc : Nat) : acc ≤ rankOf x l acc := by
  induction l generalizing acc with
  | nil => simp [rankOf]
  | cons v vs ih =>
    simp only [rankOf]
    split
    · exact Nat.le_refl _
    · exact Nat.le_trans (Nat.le_succ _) (ih (acc + 1))

theorem offsetOf_ge (x : Bytes) (l : List Bytes) (acc : Nat) : acc ≤ offsetOf x l acc := by
  induction l generalizing acc with
  | nil => simp [offsetOf]
  | cons v vs ih =>
    simp only [offsetOf]
    split
    · exact Nat.le_refl _
    · exact Nat.le_trans (Nat.le_add_right _ _) (ih (acc + v.length))

theorem ne_of_lexCmp_lt {a b : Bytes} (h : lexCmp a b = .lt) : a ≠ b := by
  intro hab; subst hab; simp [lexCmp_refl] at h

theorem rankOf_mono_acc (vals : List Bytes) (hs : vals.Pairwise (fun a b => lexCmp a b = .lt))
    (x y : Bytes) (hx : x ∈ vals) (hy : y ∈ vals) (acc : Nat) :
    compare (rankOf x vals acc) (rankOf y vals acc) = lexCmp x y := by
  induction vals generalizing acc with
  | nil => simp at hx
  | cons v vs ih =>
    rw [List.pairwise_cons] at hs
    simp only [rankOf]
    by_cases hvx : v = x <;> by_cases hvy : v = y
    · subst hvx; subst hvy; simp [lexCmp_refl]
    · subst hvx
      have hy' : y ∈ vs := by simpa [Ne.symm hvy] using hy
      have := rankOf_ge y vs (acc + 1)
      rw [if_pos rfl, if_neg hvy, hs.1 y hy', Nat.compare_eq_lt]
      omega
    · subst hvy
      have hx' : x ∈ vs := by simpa [Ne.symm hvx] using hx
      have := rankOf_ge x vs (acc + 1)
      rw [if_pos rfl, if_neg hvx, lexCmp_lt_asymm v x (hs.1 x hx'), Nat.compare_eq_gt]
      omega
    · have hx' : x ∈ vs := by simpa [Ne.symm hvx] using hx
      have hy' : y ∈ vs := by simpa [Ne.symm hvy] using hy
      rw [if_neg hvx, if_neg hvy]
      exact ih hs.2 hx' hy' (acc + 1)

theorem rankOf_mono (vals : List Bytes) (hs : vals.Pairwise (fun a b => lexCmp a b = .lt))
    (x y : Bytes) (hx : x ∈ vals) (hy : y ∈ vals) :
    compare (rankOf x vals 0) (rankOf y vals 0) = lexCmp x y :=
  rankOf_mono_acc vals hs x y hx hy 0

/-- the offset of a smaller value plus its length is at most the offset of a larger one -/
theorem offsetOf_add_length_le (vals : List Bytes)
    (hs : vals.Pairwise (fun a b => lexCmp a b = .lt))
    (x y : Bytes) (hx : x ∈ vals) (hy : y ∈ vals) (hxy : lexCmp x y = .lt) (acc : Nat) :
    offsetOf x vals acc + x.length ≤ offsetOf y vals acc := by
  induction vals generalizing acc with
  | nil => simp at hx
  | cons v vs ih =>
    rw [List.pairwise_cons] at hs
    simp only [offsetOf]
    by_cases hvx : v = x
    · subst hvx
      have hvy : v ≠ y := ne_of_lexCmp_lt hxy
      rw [if_pos rfl, if_neg hvy]
      exact offsetOf_ge y vs (acc + v.length)
    · have hx' : x ∈ vs := by simpa [Ne.symm hvx] using hx
      have hvy : v ≠ y := by
        intro h; subst h
        have := lexCmp_lt_asymm v x (hs.1 x hx')
        rw [hxy] at this; cases this
      have hy' : y ∈ vs := by simpa [Ne.symm hvy] using hy
      rw [if_neg hvx, if_neg hvy]
      exact ih hs.2 hx' hy' (acc + v.length)

theorem offsetOf_mono (vals : List Bytes) (hs : vals.Pairwise (fun a b => lexCmp a b = .lt))
    (x y : Bytes) (hx : x ∈ vals) (hy : y ∈ vals) (hxy : lexCmp x y = .lt) :
    offsetOf x vals 0 ≤ offsetOf y vals 0 := by
  have := offsetOf_add_length_le vals hs x y hx hy hxy 0
  omega

theorem offsetOf_strict_mono (vals : List Bytes) (hs : vals.Pairwise (fun a b => lexCmp a b = .lt))
    (x y : Bytes) (hx : x ∈ vals) (hy : y ∈ vals) (hxy : lexCmp x y = .lt) (hne : x ≠ []) :
    offsetOf x vals 0 < offsetOf y vals 0 := by
  have := offsetOf_add_length_le vals hs x y hx hy hxy 0
  have : 0 < x.length := List.length_pos_iff.2 hne
  omega

/-! ### D. writer order = reader order -/

theorem length_pos_of_nil_lt {y : Bytes} (h : lexCmp [] y = .lt) : 0 < y.length := by
  cases y with
  | nil => simp [lexCmp] at h
  | cons _ _ => simp

/-- plain store, `x < y`: (offset, total length) decides `.lt` -/
theorem offsetKey_lt (vals : List Bytes) (hs : vals.Pairwise (fun a b => lexCmp a b = .lt))
    (x y : Bytes) (hx : x ∈ vals) (hy : y ∈ vals) (hxy : lexCmp x y = .lt) (k : Nat) :
    (compare (offsetOf x vals 0) (offsetOf y vals 0)).then
      (compare (k + x.length) (k + y.length)) = .lt := by
  have h := offsetOf_add_length_le vals hs x y hx hy hxy 0
  by_cases hlt : offsetOf x vals 0 < offsetOf y vals 0
  · rw [Nat.compare_eq_lt.2 hlt]; rfl
  · have heq : offsetOf x vals 0 = offsetOf y vals 0 := by omega
    have hx0 : x = [] := List.eq_nil_of_length_eq_zero (by omega)
    subst hx0
    have := length_pos_of_nil_lt hxy
    rw [Nat.compare_eq_eq.2 heq, Ordering.then]
    exact Nat.compare_eq_lt.2 (by simp; omega)

/-- the writer's key for the rest of an array (value id, then total length; `k` = prefix length)
    orders like the bytes of the rest -/
theorem idKey_eq_lexCmp (s : VStore) (hs : s.values.Pairwise (fun a b => lexCmp a b = .lt))
    (x y : Bytes) (hx : x ∈ s.values) (hy : y ∈ s.values) (k : Nat) :
    (compare (s.idOf x) (s.idOf y)).then (compare (k + x.length) (k + y.length)) = lexCmp x y := by
  unfold VStore.idOf
  cases hi : s.indexed with
  | true =>
    simp only [if_true]
    rw [rankOf_mono s.values hs x y hx hy]
    cases hc : lexCmp x y with
    | lt => rfl
    | gt => rfl
    | eq =>
      have := (lexCmp_eq_iff x y).1 hc
      subst this
      simp
  | false =>
    simp only [Bool.false_eq_true, if_false]
    cases hc : lexCmp x y with
    | lt => exact offsetKey_lt s.values hs x y hx hy hc k
    | eq =>
      have := (lexCmp_eq_iff x y).1 hc
      subst this
      simp
    | gt =>
      have hyx : lexCmp y x = .lt := (lexCmp_gt_iff x y).1 hc
      have := offsetKey_lt s.values hs y x hy hx hyx k
      rw [← Nat.compare_swap (offsetOf x s.values 0) (offsetOf y s.values 0),
        ← Nat.compare_swap (k + x.length) (k + y.length)] at this
      rw [← Ordering.swap_then] at this
      exact Ordering.swap_eq_lt.1 this

theorem writerArrCmp_eq_lexCmp (indexed : Bool) (added : List Bytes) (fixed : Nat) (a b : Bytes)
    (ha : a.drop fixed ∈ added) (hb : b.drop fixed ∈ added) :
    writerArrCmp (VStore.finalize indexed added) fixed a b = lexCmp a b := by
  rw [lexCmp_take_drop fixed a b]
  unfold writerArrCmp
  cases hp : lexCmp (a.take fixed) (b.take fixed) with
  | lt => rfl
  | gt => rfl
  | eq =>
    simp only [Ordering.then]
    have hpre : a.take fixed = b.take fixed := (lexCmp_eq_iff _ _).1 hp
    have hla : a.length = (a.take fixed).length + (a.drop fixed).length := by
      rw [← List.length_append, List.take_append_drop]
    have hlb : b.length = (a.take fixed).length + (b.drop fixed).length := by
      rw [hpre, ← List.length_append, List.take_append_drop]
    rw [hla, hlb]
    exact idKey_eq_lexCmp _ (finalize_strict indexed added) _ _
      ((mem_finalize indexed added _).2 ha) ((mem_finalize indexed added _).2 hb) _

theorem writerIndirectCmp_eq_lexCmp (added : List Bytes) (a b : Bytes)
    (ha : a ∈ added) (hb : b ∈ added) :
    writerIndirectCmp (VStore.finalize true added) a b = lexCmp a b := by
  unfold writerIndirectCmp VStore.idOf
  rw [finalize_indexed]
  simp only [if_true]
  exact rankOf_mono _ (finalize_strict true added) a b
    ((mem_finalize true added a).2 ha) ((mem_finalize true added b).2 hb)

/-- **Stored order**: whatever order the (parallel, unstable) sort passes leave, an order accepted
    by the code's own post-check `windows(2).all(compare <= )` with the writer's comparator on a
    single array key is non-decreasing in the reader's order. -/
theorem stored_order (indexed : Bool) (added : List Bytes) (fixed : Nat) (out : List Bytes)
    (hmem : ∀ a ∈ out, a.drop fixed ∈ added)
    (hchk : sortedCheck (writerArrCmp (VStore.finalize indexed added) fixed) out = true) :
    sortedCheck lexCmp out = true := by
  induction out with
  | nil => rfl
  | cons x rest ih =>
    cases rest with
    | nil => rfl
    | cons y rest' =>
      simp only [sortedCheck, Bool.and_eq_true] at hchk ⊢
      obtain ⟨h1, h2⟩ := hchk
      refine ⟨?_, ih (fun a ha => hmem a (List.mem_cons_of_mem _ ha)) h2⟩
      rw [← writerArrCmp_eq_lexCmp indexed added fixed x y (hmem x List.mem_cons_self)
        (hmem y (List.mem_cons_of_mem _ List.mem_cons_self))]
      exact h1


end Jubako
