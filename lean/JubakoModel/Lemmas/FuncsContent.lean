/-
The hand-written model functions are equal to the function bodies that tools/extract_funcs.py
translates out of the Rust source on every run (Generated/FuncsContent.lean).  Each theorem here is an
obligation of the properties that use the model function: a change of the Rust body changes the
generated definition and breaks the proof.
-/
import JubakoModel.Model.ContentPack
import JubakoModel.Generated.FuncsContent
import JubakoModel.Lemmas.FuncsBytes

namespace Jubako

/-! ### the cluster split rule -/

theorem gen_clusterIsFull (c : Cluster) (size : Nat) :
    c.isFull size = Generated.clusterIsFull c.blobs.length c.compressed c.dataSize size := by
  unfold Cluster.isFull Generated.clusterIsFull
  by_cases h : c.blobs.length = Consts.maxBlobsPerCluster
  · simp [h]
  · have hne : (c.blobs.length == Consts.maxBlobsPerCluster) = false := by simpa using h
    simp only [hne, Bool.false_or, h, if_false]
    cases hc : c.compressed <;> cases hb : c.blobs with
    | nil => simp
    | cons x xs => simp

/-! ### the cluster tail as a sequence of serializer writes -/

/-- **The model's cluster tail is the byte image of the writes `serialize_cluster_tail` performs, as
    translated from `creator/content_pack/clusterwriter.rs` on every run**: header
    `(compression, offset width, blob count as u16)`, then stored size, data size and the end offsets
    of all blobs but the last, each on `needed_bytes(max(data size, stored size))` bytes. -/
theorem gen_clusterTail (c : Cluster) (comp raw : Nat) :
    (c.tail comp raw).encode =
      (let r := Generated.clusterTailWrites comp c.blobs.length c.dataSize (endOffsets c.blobs 0) raw
       [UInt8.ofNat r.1.1, UInt8.ofNat r.1.2.1] ++ leBytes r.1.2.2 2 ++ writesBytes r.2) := by
  have hm : leBytes (c.blobs.length % 65536) 2 = leBytes c.blobs.length 2 := leBytes_mod c.blobs.length 2
  simp only [Generated.clusterTailWrites, gen_neededBytes, Option.getD_some, ClusterTail.encode, Cluster.tail,
    tailWidth, List.nil_append, List.append_nil, hm, writesBytes_append]
  simp [writesBytes, List.map_map, Function.comp_def]

/-! ### a content enters the open cluster -/

theorem endOffsets_append (bs : List Bytes) (d : Bytes) (acc : Nat) :
    endOffsets (bs ++ [d]) acc = endOffsets bs acc ++ [((endOffsets bs acc).getLast?.getD acc) + d.length] := by
  induction bs generalizing acc with
  | nil => simp [endOffsets]
  | cons b bs ih =>
    simp only [List.cons_append, endOffsets, ih]
    cases hb : endOffsets bs (acc + b.length) with
    | nil => simp
    | cons x xs =>
      have : ∀ a, (x :: xs).getLast?.getD a = (x :: xs).getLast (by simp) := by
        intro a; simp [List.getLast?_eq_some_getLast (l := x :: xs) (by simp)]
      simp [this]

theorem endOffsets_length (bs : List Bytes) (acc : Nat) : (endOffsets bs acc).length = bs.length := by
  induction bs generalizing acc with
  | nil => rfl
  | cons b bs ih => simp [endOffsets, ih]

/-- **`ClusterCreator::add_content` translated on every run is the cluster step of the creator model**: in a
    cluster that is not full, the new content gets the next blob index, the address returned is (cluster index,
    blob index), and the end offsets grow by the previous end plus the content's size — the offsets the tail
    of the cluster is written from (`endOffsets`).  The assertion on the blob count never fires below 4095
    blobs. -/
theorem gen_clusterAddContent (c : Cluster) (d : Bytes) (h : c.blobs.length < Consts.maxBlobsPerCluster) :
    Generated.clusterAddContent (endOffsets c.blobs 0) c.idx d.length =
      some (endOffsets (c.blobs ++ [d]) 0, (c.idx, c.blobs.length)) := by
  unfold Generated.clusterAddContent
  have hm : c.blobs.length % 65536 = c.blobs.length := Nat.mod_eq_of_lt (by simp [Consts.maxBlobsPerCluster] at h; omega)
  simp [endOffsets_length, h, hm, endOffsets_append]

end Jubako
