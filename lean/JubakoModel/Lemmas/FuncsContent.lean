/-
The hand-written model functions are equal to the function bodies that tools/extract_funcs.py
translates out of the Rust source on every run (Generated/FuncsContent.lean).  Each theorem here is an
obligation of the properties that use the model function: a change of the Rust body changes the
generated definition and breaks the proof.
-/
import JubakoModel.Model.ContentPack
import JubakoModel.Generated.FuncsContent
import JubakoModel.Lemmas.FuncsBytes

namespace Jubako

/-! ### the cluster split rule -/

theorem gen_clusterIsFull (c : Cluster) (size : Nat) :
    c.isFull size = Generated.clusterIsFull c.blobs.length c.compressed c.dataSize size := by
  unfold Cluster.isFull Generated.clusterIsFull
  by_cases h : c.blobs.length = Consts.maxBlobsPerCluster
  · simp [h]
  · have hne : (c.blobs.length == Consts.maxBlobsPerCluster) = false := by simpa using h
    simp only [hne, Bool.false_or, h, if_false]
    cases hc : c.compressed <;> cases hb : c.blobs with
    | nil => simp
    | cons x xs => simp

/-! ### the cluster tail as a sequence of serializer writes -/

/-- **The model's cluster tail is the byte image of the writes `serialize_cluster_tail` performs, as
    translated from `creator/content_pack/clusterwriter.rs` on every run**: header
    `(compression, offset width, blob count as u16)`, then stored size, data size and the end offsets
    of all blobs but the last, each on `needed_bytes(max(data size, stored size))` bytes. -/
theorem gen_clusterTail (c : Cluster) (comp raw : Nat) :
    (c.tail comp raw).encode =
      (let r := Generated.clusterTailWrites comp c.blobs.length c.dataSize (endOffsets c.blobs 0) raw
       [UInt8.ofNat r.1.1, UInt8.ofNat r.1.2.1] ++ leBytes r.1.2.2 2 ++ writesBytes r.2) := by
  have hm : leBytes (c.blobs.length % 65536) 2 = leBytes c.blobs.length 2 := leBytes_mod c.blobs.length 2
  simp only [Generated.clusterTailWrites, gen_neededBytes, Option.getD_some, ClusterTail.encode, Cluster.tail,
    tailWidth, List.nil_append, List.append_nil, hm, writesBytes_append]
  simp [writesBytes, List.map_map, Function.comp_def]

end Jubako
