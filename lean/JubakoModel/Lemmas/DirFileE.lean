/-
Directory pack, file-level round trip — part E: the finalised schema (`finalizeSchema`) in normal
form, and what a well-formed input (`DirIn.WF`) guarantees about it.
-/
import JubakoModel.Lemmas.DirFileD

namespace Jubako

set_option linter.unusedSimpArgs false
set_option linter.unusedVariables false
set_option maxRecDepth 8000

/-! ### 1. lists without / of structural properties -/

def RawProp.structural (p : RawProp) : Prop := p.kind = .padding ∨ p.kind = .variantId

theorem restVals_nonstruct (ps : List RawProp) (vals : List Val) (h : ∀ p ∈ ps, ¬ p.structural) :
    restVals ps vals = vals.drop ps.length := by
  induction ps generalizing vals with
  | nil => simp [restVals]
  | cons p ps ih =>
    have hp : ¬ (p.kind = .padding ∨ p.kind = .variantId) := h p (List.mem_cons_self ..)
    have ih' := fun vals => ih vals (fun q hq => h q (List.mem_cons_of_mem _ hq))
    simp only [restVals, if_neg hp, List.length_cons]
    cases vals with
    | nil => simp
    | cons v vs => simp [ih']

theorem expectedVals_nonstruct (ps : List RawProp) (vals : List Val) (h : ∀ p ∈ ps, ¬ p.structural) :
    expectedVals ps vals = (ps.map RawProp.name).zip vals := by
  induction ps generalizing vals with
  | nil => simp [expectedVals]
  | cons p ps ih =>
    have hp : ¬ (p.kind = .padding ∨ p.kind = .variantId) := h p (List.mem_cons_self ..)
    have ih' := fun vals => ih vals (fun q hq => h q (List.mem_cons_of_mem _ hq))
    simp only [expectedVals, if_neg hp]
    cases vals with
    | nil => simp
    | cons v vs => simp [ih']

theorem PropsFit_nonstruct (stores : List VStore) (ps : List RawProp) (vals : List Val)
    (h : ∀ p ∈ ps, ¬ p.structural) (hlen : ps.length ≤ vals.length)
    (hf : ∀ (j : Nat) (p : RawProp) (v : Val), ps[j]? = some p → vals[j]? = some v →
      fitsKind stores p.kind v) :
    PropsFit stores ps vals := by
  induction ps generalizing vals with
  | nil => simp [PropsFit]
  | cons p ps ih =>
    have hp : ¬ (p.kind = .padding ∨ p.kind = .variantId) := h p (List.mem_cons_self ..)
    simp only [PropsFit, if_neg hp]
    cases vals with
    | nil => simp at hlen
    | cons v vs =>
      simp only
      refine ⟨hf 0 p v (by simp) (by simp), ih vs (fun q hq => h q (List.mem_cons_of_mem _ hq)) ?_ ?_⟩
      · simpa using hlen
      · intro j q w hq hw
        exact hf (j + 1) q w (by simpa using hq) (by simpa using hw)

theorem restVals_struct (ps : List RawProp) (vals : List Val) (h : ∀ p ∈ ps, p.structural) :
    restVals ps vals = vals := by
  induction ps with
  | nil => rfl
  | cons p ps ih =>
    have hp : p.kind = .padding ∨ p.kind = .variantId := h p (List.mem_cons_self ..)
    simp only [restVals, if_pos hp]
    exact ih (fun q hq => h q (List.mem_cons_of_mem _ hq))

theorem expectedVals_struct (ps : List RawProp) (vals : List Val) (h : ∀ p ∈ ps, p.structural) :
    expectedVals ps vals = [] := by
  induction ps with
  | nil => rfl
  | cons p ps ih =>
    have hp : p.kind = .padding ∨ p.kind = .variantId := h p (List.mem_cons_self ..)
    simp only [expectedVals, if_pos hp]
    exact ih (fun q hq => h q (List.mem_cons_of_mem _ hq))

theorem PropsFit_struct (stores : List VStore) (ps : List RawProp) (vals : List Val)
    (h : ∀ p ∈ ps, p.structural) : PropsFit stores ps vals := by
  induction ps with
  | nil => trivial
  | cons p ps ih =>
    have hp : p.kind = .padding ∨ p.kind = .variantId := h p (List.mem_cons_self ..)
    simp only [PropsFit, if_pos hp]
    exact ih (fun q hq => h q (List.mem_cons_of_mem _ hq))

theorem paddingProps_struct (n : Nat) : ∀ p ∈ paddingProps n, p.structural :=
  fun p hp => Or.inl (paddingProps_kind n p hp).1

/-! ### 2. finalised property lists -/

/-- the properties `defs`, each finalised against its column -/
def finList (stores : List VStore) (colOf : Nat → List Val) (defs : List PropDef) : List RawProp :=
  defs.zipIdx.map (fun pk => finalizeProp stores pk.1 (colOf pk.2))

theorem finList_length (stores : List VStore) (colOf : Nat → List Val) (defs : List PropDef) :
    (finList stores colOf defs).length = defs.length := by
  simp [finList]

theorem finList_getElem? (stores : List VStore) (colOf : Nat → List Val) (defs : List PropDef)
    (j : Nat) :
    (finList stores colOf defs)[j]? = defs[j]?.map (fun p => finalizeProp stores p (colOf j)) := by
  simp only [finList, List.getElem?_map, List.getElem?_zipIdx, Option.map_map, Nat.zero_add]
  rfl

theorem finList_mem (stores : List VStore) (colOf : Nat → List Val) (defs : List PropDef)
    (q : RawProp) (hq : q ∈ finList stores colOf defs) :
    ∃ j p, defs[j]? = some p ∧ q = finalizeProp stores p (colOf j) := by
  obtain ⟨j, hj⟩ := List.mem_iff_getElem?.1 hq
  rw [finList_getElem?] at hj
  cases hd : defs[j]? with
  | none => rw [hd] at hj; cases hj
  | some p =>
    rw [hd] at hj
    simp only [Option.map_some, Option.some.injEq] at hj
    exact ⟨j, p, hd, hj.symm⟩

theorem finList_nonstruct (stores : List VStore) (colOf : Nat → List Val) (defs : List PropDef) :
    ∀ q ∈ finList stores colOf defs, ¬ q.structural := by
  intro q hq
  obtain ⟨j, p, -, rfl⟩ := finList_mem stores colOf defs q hq
  exact finalizeProp_nonstruct stores p (colOf j)

theorem finList_names (stores : List VStore) (colOf : Nat → List Val) (defs : List PropDef) :
    (finList stores colOf defs).map RawProp.name = defs.map PropDef.name := by
  apply List.ext_getElem?
  intro j
  simp only [List.getElem?_map, finList_getElem?, Option.map_map]
  cases defs[j]? with
  | none => rfl
  | some p => simp [finalizeProp_name]

/-! ### 3. the finalised schema in normal form -/

def fsCommon (stores : List VStore) (sch : SchemaDef) (entries : List EntryIn) : List RawProp :=
  finList stores (columnCommon entries) sch.common

/-- finalised properties of variant `vi` (without the `VariantId`, before padding) -/
def fsBody (stores : List VStore) (sch : SchemaDef) (entries : List EntryIn) (vi : Nat)
    (ps : List PropDef) : List RawProp :=
  finList stores (columnVariant sch.common.length entries vi) ps

def fsBodies (stores : List VStore) (sch : SchemaDef) (entries : List EntryIn) :
    List (Bytes × List RawProp) :=
  sch.variants.zipIdx.map (fun x => (x.1.1, fsBody stores sch entries x.2 x.1.2))

/-- size of the largest variant, `VariantId` byte included -/
def fsMx (bodies : List (Bytes × List RawProp)) : Nat :=
  listMax (bodies.map (fun b => 1 + propsSize b.2))

/-- the variants padded to the common size -/
def fsVars (bodies : List (Bytes × List RawProp)) : List (Bytes × List RawProp) :=
  bodies.map (fun b => (b.1, b.2 ++ paddingProps (fsMx bodies - (1 + propsSize b.2))))

theorem finalizeSchema_eq (stores : List VStore) (sch : SchemaDef) (entries : List EntryIn) :
    finalizeSchema stores sch entries =
      ⟨fsCommon stores sch entries, rawVariants (fsVars (fsBodies stores sch entries)),
        propsSize (fsCommon stores sch entries) +
          (if sch.variants.length = 0 then 0 else fsMx (fsBodies stores sch entries))⟩ := by
  have hv : (sch.variants.zipIdx.map (fun (x : (Bytes × List PropDef) × Nat) =>
      (⟨1, x.1.1, .variantId⟩ : RawProp) ::
        x.1.2.zipIdx.map (fun pk => finalizeProp stores pk.1
          (columnVariant sch.common.length entries x.2 pk.2)))) =
      rawVariants (fsBodies stores sch entries) := by
    simp only [rawVariants, fsBodies, List.map_map]
    rfl
  have hsz : (rawVariants (fsBodies stores sch entries)).map propsSize =
      (fsBodies stores sch entries).map (fun b => 1 + propsSize b.2) := by
    simp only [rawVariants, List.map_map]
    apply List.map_congr_left
    intro b _
    simp only [Function.comp, propsSize_cons, vidProp]
  unfold finalizeSchema
  show (if (sch.variants.zipIdx.map _).isEmpty = true then _ else _) = _
  rw [hv]
  by_cases h0 : sch.variants.length = 0
  · have : sch.variants = [] := List.eq_nil_of_length_eq_zero h0
    simp [this, fsBodies, rawVariants, fsVars, fsCommon, finList]
  · have hne : (rawVariants (fsBodies stores sch entries)).isEmpty = false := by
      cases hs : sch.variants with
      | nil => rw [hs] at h0; exact absurd rfl h0
      | cons a l => simp [rawVariants, fsBodies, hs]
    rw [hne, if_neg h0]
    simp only [Bool.false_eq_true, if_false, hsz]
    congr 1
    simp only [rawVariants, fsVars, List.map_map, fsMx]
    apply List.map_congr_left
    intro b _
    simp only [Function.comp, propsSize_cons, vidProp, List.cons_append]

theorem fsBodies_getElem? (stores : List VStore) (sch : SchemaDef) (entries : List EntryIn)
    (vi : Nat) :
    (fsBodies stores sch entries)[vi]? =
      sch.variants[vi]?.map (fun v => (v.1, fsBody stores sch entries vi v.2)) := by
  simp only [fsBodies, List.getElem?_map, List.getElem?_zipIdx, Option.map_map, Nat.zero_add]
  rfl

theorem fsVars_length (bodies : List (Bytes × List RawProp)) :
    (fsVars bodies).length = bodies.length := by simp [fsVars]

theorem fsBodies_length (stores : List VStore) (sch : SchemaDef) (entries : List EntryIn) :
    (fsBodies stores sch entries).length = sch.variants.length := by simp [fsBodies]

theorem fsVars_size (bodies : List (Bytes × List RawProp)) (b : Bytes × List RawProp)
    (hb : b ∈ fsVars bodies) : 1 + propsSize b.2 = fsMx bodies := by
  simp only [fsVars, List.mem_map] at hb
  obtain ⟨b0, hb0, rfl⟩ := hb
  have : 1 + propsSize b0.2 ≤ fsMx bodies :=
    le_listMax _ _ (List.mem_map.2 ⟨b0, hb0, rfl⟩)
  simp only [propsSize_append, paddingProps_size]
  omega

end Jubako
