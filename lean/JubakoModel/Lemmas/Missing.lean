/-
C11 at full strength over the model — a container whose content packs are partly unavailable.

For *every* way of disturbing the file system outside the entry file (any subset of the content
packs removed, replaced by a directory, or replaced by a different valid pack):

1. frame: a pack whose source file is untouched reads exactly as before (`missing_frame*`);
2. missing: a listed pack whose recorded location is absent / holds only other uuids is reported
   as `missing` with its manifest description (`missing_missing_of_unavailable`);
3. totality: every lookup that answered before still answers, with the same answer or `missing`
   (`missing_total*`);
4. check: `Container::check` skips the missing packs and still covers every present one
   (`missing_check_*`).

A *directory* at a recorded location is, for the model, the same state as a removed file: `FS` holds
regular files only, so `fs.get loc = none` (`fs::File::open` + `read` fails on a directory and
`FsLocator::locate` maps that to `Ok(None)`, exactly as for an absent file).
-/
import JubakoModel.Model.Container
import JubakoModel.Lemmas.Container
import JubakoModel.Lemmas.MissingBase

namespace Jubako

set_option linter.unusedSimpArgs false
set_option linter.unusedVariables false

/-! ### vocabulary -/

/-- the content-pack descriptions of the manifest (what `get_pack` and `check` walk) -/
abbrev ContainerView.contentInfos (c : ContainerView) : List PackInfo :=
  c.infos.filter (fun i => i.kind ≠ .directory)

/-- the description `get_pack(packId)` selects -/
abbrev ContainerView.infoOf (c : ContainerView) (packId : Nat) : Option PackInfo :=
  c.contentInfos.find? (fun i => i.packId == packId)

/-- the pack `u` is held by the entry file itself -/
def ContainerView.Encloses (c : ContainerView) (u : Bytes) : Prop :=
  ∃ p, c.entryPacks.find? (fun q => q.uuid == u) = some p

/-- the two file systems hold the same file (or both none) at every name satisfying `keep` -/
def FS.agreeOn (fs fs' : FS) (keep : String → Prop) : Prop :=
  ∀ n, keep n → FS.get fs' n = FS.get fs n

/-- The pack `u` is not available at `loc`: the file is absent (removed, or a directory — see the
    header comment), or it is a valid pack file all of whose packs have other uuids. -/
def Unavailable (fs : FS) (u : Bytes) (loc : String) : Prop :=
  FS.get fs loc = none ∨
  ∃ f packs, FS.get fs loc = some f ∧ blindOpen f = .ok packs ∧ ∀ p ∈ packs, p.uuid ≠ u

/-- `fs'` is `fs` with any subset of the content packs made unavailable: the entry file is
    untouched, and every content pack either travels in the entry file, or has its recorded
    location untouched, or is no longer offered at its recorded location (absent / directory / a
    different valid pack).  Nothing is said about any other file. -/
def Disturbed (fs fs' : FS) (c : ContainerView) : Prop :=
  FS.get fs' c.entryFile = FS.get fs c.entryFile ∧
  ∀ info ∈ c.contentInfos,
    c.Encloses info.uuid ∨
    FS.get fs' (locationString info.location) = FS.get fs (locationString info.location) ∨
    Unavailable fs' info.uuid (locationString info.location)

/-! ### concrete operations on the file system -/

/-- remove the file `name` (also: replace it by a directory) -/
def FS.remove (fs : FS) (name : String) : FS := fs.filter (fun e => !(e.1 == name))

/-- create / replace the file `name` -/
def FS.put (fs : FS) (name : String) (b : Bytes) : FS := (name, b) :: FS.remove fs name

theorem FS.get_cons (e : String × Bytes) (es : FS) (n : String) :
    FS.get (e :: es) n = if e.1 = n then some e.2 else FS.get es n := by
  unfold FS.get
  rw [List.find?_cons]
  by_cases h : e.1 = n
  · have : (e.1 == n) = true := by simpa using h
    rw [this, if_pos h]; rfl
  · have : (e.1 == n) = false := by simpa using h
    rw [this, if_neg h]

theorem FS.remove_cons (e : String × Bytes) (es : FS) (name : String) :
    FS.remove (e :: es) name = if e.1 = name then FS.remove es name else e :: FS.remove es name := by
  unfold FS.remove
  rw [List.filter_cons]
  by_cases h : e.1 = name
  · have : (!(e.1 == name)) = false := by simpa using h
    rw [this, if_pos h]; rfl
  · have : (!(e.1 == name)) = true := by simpa using h
    rw [this, if_neg h]; rfl

theorem FS.get_remove_self (fs : FS) (name : String) : FS.get (FS.remove fs name) name = none := by
  induction fs with
  | nil => rfl
  | cons e es ih =>
    rw [FS.remove_cons]
    by_cases he : e.1 = name
    · rw [if_pos he]; exact ih
    · rw [if_neg he, FS.get_cons, if_neg he]; exact ih

theorem FS.get_remove_other (fs : FS) (name n : String) (h : n ≠ name) :
    FS.get (FS.remove fs name) n = FS.get fs n := by
  induction fs with
  | nil => rfl
  | cons e es ih =>
    rw [FS.remove_cons, FS.get_cons]
    by_cases he : e.1 = name
    · have hn : ¬ e.1 = n := fun e' => h (e'.symm.trans he)
      rw [if_pos he, if_neg hn]; exact ih
    · rw [if_neg he, FS.get_cons, ih]

theorem FS.get_put_self (fs : FS) (name : String) (b : Bytes) :
    FS.get (FS.put fs name b) name = some b := by
  unfold FS.put
  rw [FS.get_cons, if_pos rfl]

theorem FS.get_put_other (fs : FS) (name n : String) (b : Bytes) (h : n ≠ name) :
    FS.get (FS.put fs name b) n = FS.get fs n := by
  unfold FS.put
  rw [FS.get_cons, if_neg (fun e => h e.symm)]
  exact FS.get_remove_other fs name n h

/-- removing / replacing files only at names outside `keep` gives an agreeing file system -/
theorem FS.agreeOn_remove (fs : FS) (name : String) (keep : String → Prop) (h : ¬ keep name) :
    FS.agreeOn fs (FS.remove fs name) keep := by
  intro n hn
  exact FS.get_remove_other fs name n (fun e => h (e ▸ hn))

theorem FS.agreeOn_put (fs : FS) (name : String) (b : Bytes) (keep : String → Prop)
    (h : ¬ keep name) : FS.agreeOn fs (FS.put fs name b) keep := by
  intro n hn
  exact FS.get_put_other fs name n b (fun e => h (e ▸ hn))

theorem FS.agreeOn_refl (fs : FS) (keep : String → Prop) : FS.agreeOn fs fs keep := fun _ _ => rfl

theorem FS.agreeOn_trans (a b c : FS) (keep : String → Prop) (h1 : FS.agreeOn a b keep)
    (h2 : FS.agreeOn b c keep) : FS.agreeOn a c keep := by
  intro n hn
  rw [h2 n hn, h1 n hn]

/-! ### `get_pack` on a listed pack id -/

theorem le_foldl_max (l : List Nat) (a x : Nat) (h : x ≤ a ∨ x ∈ l) : x ≤ l.foldl max a := by
  induction l generalizing a with
  | nil =>
    rcases h with h | h
    · exact h
    · cases h
  | cons y ys ih =>
    rw [List.foldl_cons]
    apply ih
    rcases h with h | h
    · left; exact Nat.le_trans h (Nat.le_max_left a y)
    · rcases List.mem_cons.mp h with h | h
      · left; rw [h]; exact Nat.le_max_right a y
      · right; exact h

/-- what `get_pack` answers once the description is selected -/
def getPackOf (fs : FS) (c : ContainerView) (info : PackInfo) : Outcome PackLookup :=
  locate fs c.entryFile c.entryPacks info.uuid (locationString info.location) >>= fun r =>
    match r with
    | none => .ok (.missing info)
    | some l => .ok (.found (bytesOfLocated fs l))

/-- a listed id is always below the `maxId` guard: the guard never hides a listed pack -/
theorem containerGetPack_listed (fs : FS) (c : ContainerView) (packId : Nat) (info : PackInfo)
    (hinfo : c.infoOf packId = some info) :
    containerGetPack fs c packId = getPackOf fs c info := by
  have hmem : info ∈ c.contentInfos := List.mem_of_find?_eq_some hinfo
  have hid : info.packId = packId := by
    have := List.find?_some hinfo
    simpa using this
  have hle : packId ≤ (c.contentInfos.map (·.packId)).foldl max 0 := by
    apply le_foldl_max
    right
    exact List.mem_map.mpr ⟨info, hmem, hid⟩
  unfold containerGetPack
  simp only [ContainerView.infoOf, ContainerView.contentInfos] at hinfo hle ⊢
  rw [if_neg (by omega), hinfo]
  rfl

theorem containerGetPack_unlisted (fs : FS) (c : ContainerView) (packId : Nat)
    (hinfo : c.infoOf packId = none) : containerGetPack fs c packId = .ok .unknown := by
  unfold containerGetPack
  simp only [ContainerView.infoOf, ContainerView.contentInfos] at hinfo ⊢
  split
  · rfl
  · rw [hinfo]

/-! ### 1. frame: what is not disturbed reads the same -/

theorem fsLocate_frame (fs fs' : FS) (u : Bytes) (loc : String)
    (h : FS.get fs' loc = FS.get fs loc) : fsLocate fs' u loc = fsLocate fs u loc := by
  unfold fsLocate
  rw [h]

/-- the located pack of `fsLocate` lives in the file at `loc` -/
theorem fsLocate_file (fs : FS) (u : Bytes) (loc : String) (l : Located)
    (h : fsLocate fs u loc = .ok (some l)) : l.file = loc := by
  unfold fsLocate at h
  split at h
  · cases h
  · split at h
    · cases h
    · rename_i f hf
      cases hb : blindOpen f with
      | ok packs =>
        rw [hb] at h
        change Outcome.ok ((packs.find? (fun p => p.uuid == u)).map (fun p => (⟨loc, p⟩ : Located))) = _ at h
        cases hfind : packs.find? (fun p => p.uuid == u) with
        | none => rw [hfind] at h; cases h
        | some p =>
          rw [hfind] at h
          simp only [Option.map_some] at h
          injection h with h
          injection h with h
          rw [← h]
      | err e => rw [hb] at h; cases h
      | panic s => rw [hb] at h; cases h
      | hang => rw [hb] at h; cases h
      | fault => rw [hb] at h; cases h

theorem bytesOfLocated_frame (fs fs' : FS) (l : Located) (h : FS.get fs' l.file = FS.get fs l.file) :
    bytesOfLocated fs' l = bytesOfLocated fs l := by
  unfold bytesOfLocated
  rw [h]

/-- **Frame, one description.**  The answer for a description depends on the file system only
    through the file that holds the pack: the entry file for an enclosed pack, the recorded location
    otherwise. -/
theorem getPackOf_frame (fs fs' : FS) (c : ContainerView) (info : PackInfo)
    (h : (c.Encloses info.uuid ∧ FS.get fs' c.entryFile = FS.get fs c.entryFile) ∨
         (¬ c.Encloses info.uuid ∧
          FS.get fs' (locationString info.location) = FS.get fs (locationString info.location))) :
    getPackOf fs' c info = getPackOf fs c info := by
  unfold getPackOf
  rcases h with ⟨⟨p, hp⟩, he⟩ | ⟨hne, hl⟩
  · rw [locate_enclosed fs' _ _ _ _ p hp, locate_enclosed fs _ _ _ _ p hp]
    simp only [Outcome.ok_bind_eq]
    rw [bytesOfLocated_frame fs fs' ⟨c.entryFile, p⟩ he]
  · have hnone : c.entryPacks.find? (fun q => q.uuid == info.uuid) = none := by
      cases hf : c.entryPacks.find? (fun q => q.uuid == info.uuid) with
      | none => rfl
      | some p => exact absurd ⟨p, hf⟩ hne
    rw [locate_fs fs' _ _ _ _ hnone, locate_fs fs _ _ _ _ hnone, fsLocate_frame fs fs' _ _ hl]
    cases hr : fsLocate fs info.uuid (locationString info.location) with
    | ok r =>
      cases r with
      | none => rfl
      | some l =>
        simp only [Outcome.ok_bind_eq]
        have hfile := fsLocate_file fs _ _ l hr
        rw [bytesOfLocated_frame fs fs' l (by rw [hfile]; exact hl)]
    | err e => rfl
    | panic s => rfl
    | hang => rfl
    | fault => rfl

/-- **C11 frame theorem (1).**  Whatever happens to the rest of the file system — any subset of the
    other packs removed, turned into directories or replaced — `get_pack(packId)` answers exactly
    as before as soon as the entry file is untouched and the pack is enclosed in the entry file or
    its recorded location is untouched.  No assumption on what the answer was: a found pack is found
    with the same bytes, and an error stays the same error. -/
theorem missing_frame (fs fs' : FS) (c : ContainerView) (packId : Nat)
    (hentry : FS.get fs' c.entryFile = FS.get fs c.entryFile)
    (hkeep : ∀ info, c.infoOf packId = some info →
      c.Encloses info.uuid ∨
      FS.get fs' (locationString info.location) = FS.get fs (locationString info.location)) :
    containerGetPack fs' c packId = containerGetPack fs c packId := by
  cases hinfo : c.infoOf packId with
  | none => rw [containerGetPack_unlisted fs' c packId hinfo, containerGetPack_unlisted fs c packId hinfo]
  | some info =>
    rw [containerGetPack_listed fs' c packId info hinfo, containerGetPack_listed fs c packId info hinfo]
    apply getPackOf_frame
    by_cases henc : c.Encloses info.uuid
    · exact Or.inl ⟨henc, hentry⟩
    · rcases hkeep info hinfo with h | h
      · exact absurd h henc
      · exact Or.inr ⟨henc, h⟩

/-- the same, phrased with `agreeOn`: for every pack id at once -/
theorem missing_frame_agreeOn (fs fs' : FS) (c : ContainerView) (keep : String → Prop)
    (hag : FS.agreeOn fs fs' keep) (hentry : keep c.entryFile) (packId : Nat)
    (hkeep : ∀ info, c.infoOf packId = some info →
      c.Encloses info.uuid ∨ keep (locationString info.location)) :
    containerGetPack fs' c packId = containerGetPack fs c packId := by
  apply missing_frame fs fs' c packId (hag _ hentry)
  intro info hinfo
  rcases hkeep info hinfo with h | h
  · exact Or.inl h
  · exact Or.inr (hag _ h)

/-- "everything else still reads": a pack found in `fs` is found, with the same bytes, in `fs'` -/
theorem missing_available_found (fs fs' : FS) (c : ContainerView) (packId : Nat) (b : Bytes)
    (hentry : FS.get fs' c.entryFile = FS.get fs c.entryFile)
    (hkeep : ∀ info, c.infoOf packId = some info →
      c.Encloses info.uuid ∨
      FS.get fs' (locationString info.location) = FS.get fs (locationString info.location))
    (hfound : containerGetPack fs c packId = .ok (.found b)) :
    containerGetPack fs' c packId = .ok (.found b) := by
  rw [missing_frame fs fs' c packId hentry hkeep, hfound]

/-! ### 2. missing, for every subset -/

theorem fsLocate_unavailable (fs : FS) (u : Bytes) (loc : String) (h : Unavailable fs u loc) :
    fsLocate fs u loc = .ok none := by
  rcases h with h | ⟨f, packs, hf, hb, hn⟩
  · exact missing_absent_file fs u loc h
  · by_cases hne : loc = ""
    · unfold fsLocate
      rw [if_pos hne]
    · exact missing_other_pack fs u loc f packs hf hne hb hn

theorem not_encloses_iff (c : ContainerView) (u : Bytes) :
    ¬ c.Encloses u ↔ ∀ p ∈ c.entryPacks, p.uuid ≠ u := by
  constructor
  · intro h p hp hu
    apply h
    cases hf : c.entryPacks.find? (fun q => q.uuid == u) with
    | some q => exact ⟨q, hf⟩
    | none =>
      rw [List.find?_eq_none] at hf
      exact absurd (by simpa using hu) (hf p hp)
  · rintro h ⟨p, hp⟩
    have := List.find?_some hp
    exact h p (List.mem_of_find?_eq_some hp) (by simpa using this)

theorem locate_unavailable (fs : FS) (c : ContainerView) (u : Bytes) (loc : String)
    (hne : ¬ c.Encloses u) (h : Unavailable fs u loc) :
    locate fs c.entryFile c.entryPacks u loc = .ok none := by
  have hnone : c.entryPacks.find? (fun q => q.uuid == u) = none := by
    cases hf : c.entryPacks.find? (fun q => q.uuid == u) with
    | none => rfl
    | some p => exact absurd ⟨p, hf⟩ hne
  rw [locate_fs fs _ _ _ _ hnone]
  exact fsLocate_unavailable fs u loc h

/-- **C11 missing theorem (2).**  For every listed pack id whose pack is not in the entry file and
    whose recorded location is absent (removed / a directory) or holds only packs with other uuids,
    `get_pack` answers `missing` with exactly that pack's manifest description — whatever the state
    of every other file. -/
theorem missing_missing_of_unavailable (fs' : FS) (c : ContainerView) (packId : Nat) (info : PackInfo)
    (hinfo : c.infoOf packId = some info)
    (hne : ∀ p ∈ c.entryPacks, p.uuid ≠ info.uuid)
    (hun : Unavailable fs' info.uuid (locationString info.location)) :
    containerGetPack fs' c packId = .ok (.missing info) := by
  rw [containerGetPack_listed fs' c packId info hinfo]
  unfold getPackOf
  rw [locate_unavailable fs' c _ _ ((not_encloses_iff c _).mpr hne) hun]
  rfl

/-- … in particular never an error, a panic, a hang, a fault, `unknown` or `found` -/
theorem missing_missing_exclusive (fs' : FS) (c : ContainerView) (packId : Nat) (info : PackInfo)
    (hinfo : c.infoOf packId = some info)
    (hne : ∀ p ∈ c.entryPacks, p.uuid ≠ info.uuid)
    (hun : Unavailable fs' info.uuid (locationString info.location)) :
    (∀ k, containerGetPack fs' c packId ≠ .err k) ∧ (∀ s, containerGetPack fs' c packId ≠ .panic s) ∧
    containerGetPack fs' c packId ≠ .hang ∧ containerGetPack fs' c packId ≠ .fault ∧
    (∀ b, containerGetPack fs' c packId ≠ .ok (.found b)) ∧
    containerGetPack fs' c packId ≠ .ok .unknown := by
  rw [missing_missing_of_unavailable fs' c packId info hinfo hne hun]
  refine ⟨?_, ?_, ?_, ?_, ?_, ?_⟩ <;> intros <;> intro h <;> cases h

/-! ### 3. totality -/

/-- **C11 totality (3).**  If `fs'` is `fs` with any subset of the content packs made unavailable,
    every lookup that answered in `fs` answers in `fs'`: with the same answer, or with `missing` and
    the description of the requested pack. -/
theorem missing_total (fs fs' : FS) (c : ContainerView) (hd : Disturbed fs fs' c) (packId : Nat)
    (r : PackLookup) (hok : containerGetPack fs c packId = .ok r) :
    containerGetPack fs' c packId = .ok r ∨
    ∃ info, c.infoOf packId = some info ∧ containerGetPack fs' c packId = .ok (.missing info) := by
  obtain ⟨hentry, hlocs⟩ := hd
  cases hinfo : c.infoOf packId with
  | none =>
    left
    rw [← hok, containerGetPack_unlisted fs' c packId hinfo, containerGetPack_unlisted fs c packId hinfo]
  | some info =>
    have hmem : info ∈ c.contentInfos := List.mem_of_find?_eq_some hinfo
    by_cases henc : c.Encloses info.uuid
    · left
      rw [← hok]
      apply missing_frame fs fs' c packId hentry
      intro i hi
      rw [hinfo] at hi
      cases hi
      exact Or.inl henc
    · rcases hlocs info hmem with h | h | h
      · exact absurd h henc
      · left
        rw [← hok]
        apply missing_frame fs fs' c packId hentry
        intro i hi
        rw [hinfo] at hi
        cases hi
        exact Or.inr h
      · right
        exact ⟨info, rfl, missing_missing_of_unavailable fs' c packId info hinfo
          ((not_encloses_iff c _).mp henc) h⟩

/-- the three-way answer of the statement: a pack found before is found with the same bytes or
    reported missing with its description — never an error or a panic, never other bytes -/
theorem missing_total_found (fs fs' : FS) (c : ContainerView) (hd : Disturbed fs fs' c) (packId : Nat)
    (b : Bytes) (hok : containerGetPack fs c packId = .ok (.found b)) :
    containerGetPack fs' c packId = .ok (.found b) ∨
    ∃ info, c.infoOf packId = some info ∧ containerGetPack fs' c packId = .ok (.missing info) :=
  missing_total fs fs' c hd packId (.found b) hok

/-! ### 4. the container check covers the packs that are present -/

/-- the check `Container::check` runs on a located pack: its reader is re-opened blindly and every
    pack found is opened and checked -/
def locatedCheck (H : Bytes → Bytes) (fs : FS) (l : Located) : Outcome Bool :=
  blindOpen (bytesOfLocated fs l) >>= fun packs => packsCheck H (bytesOfLocated fs l) packs

/-- one step of the walk of `Container::check` over the content descriptions: a pack that is not
    located is skipped (`true`), a located one is checked -/
def stepCheck (H : Bytes → Bytes) (fs : FS) (c : ContainerView) (info : PackInfo) : Outcome Bool :=
  locate fs c.entryFile c.entryPacks info.uuid (locationString info.location) >>= fun r =>
    match r with
    | none => pure true
    | some l => locatedCheck H fs l

/-- the walk itself -/
def walkCheck (H : Bytes → Bytes) (fs : FS) (c : ContainerView) (infos : List PackInfo) (acc : Bool) :
    Outcome Bool :=
  infos.foldlM (fun acc info => if !acc then pure false else stepCheck H fs c info) acc

theorem containerCheck_eq (H : Bytes → Bytes) (fs : FS) (c : ContainerView) :
    containerCheck H fs c =
      (manifestCheck H c.manifest >>= fun m =>
        if !m then .ok false else
        packCheck H id c.dirPack >>= fun d =>
        if !d then .ok false else walkCheck H fs c c.contentInfos true) := rfl

theorem walkCheck_nil (H : Bytes → Bytes) (fs : FS) (c : ContainerView) (acc : Bool) :
    walkCheck H fs c [] acc = .ok acc := rfl

theorem walkCheck_cons_true (H : Bytes → Bytes) (fs : FS) (c : ContainerView) (i : PackInfo)
    (is : List PackInfo) :
    walkCheck H fs c (i :: is) true = (stepCheck H fs c i >>= fun a => walkCheck H fs c is a) := rfl

theorem walkCheck_false (H : Bytes → Bytes) (fs : FS) (c : ContainerView) (is : List PackInfo) :
    walkCheck H fs c is false = .ok false := by
  induction is with
  | nil => rfl
  | cons i is ih => exact ih

/-- the walk, when every step answers: the conjunction of the answers — it does not stop at a
    missing pack -/
theorem walkCheck_all (H : Bytes → Bytes) (fs : FS) (c : ContainerView) (is : List PackInfo)
    (v : PackInfo → Bool) (h : ∀ i ∈ is, stepCheck H fs c i = .ok (v i)) :
    walkCheck H fs c is true = .ok (is.all v) := by
  induction is with
  | nil => rfl
  | cons i is ih =>
    rw [walkCheck_cons_true, h i (List.mem_cons_self ..), Outcome.ok_bind_eq, List.all_cons]
    cases hv : v i with
    | true => rw [ih (fun j hj => h j (List.mem_cons_of_mem _ hj))]; rfl
    | false => rw [walkCheck_false]; rfl

/-- the walk answers `true` only if every step answered `true` -/
theorem walkCheck_true_inv (H : Bytes → Bytes) (fs : FS) (c : ContainerView) (is : List PackInfo)
    (h : walkCheck H fs c is true = .ok true) : ∀ i ∈ is, stepCheck H fs c i = .ok true := by
  induction is with
  | nil => intro i hi; cases hi
  | cons i is ih =>
    rw [walkCheck_cons_true] at h
    cases hs : stepCheck H fs c i with
    | ok a =>
      rw [hs, Outcome.ok_bind_eq] at h
      cases a with
      | true =>
        intro j hj
        rcases List.mem_cons.mp hj with hj | hj
        · rw [hj]; exact hs
        · exact ih h j hj
      | false => rw [walkCheck_false] at h; cases h
    | err e => rw [hs] at h; cases h
    | panic s => rw [hs] at h; cases h
    | hang => rw [hs] at h; cases h
    | fault => rw [hs] at h; cases h

theorem containerCheck_true_inv (H : Bytes → Bytes) (fs : FS) (c : ContainerView)
    (h : containerCheck H fs c = .ok true) :
    manifestCheck H c.manifest = .ok true ∧ packCheck H id c.dirPack = .ok true ∧
    ∀ i ∈ c.contentInfos, stepCheck H fs c i = .ok true := by
  rw [containerCheck_eq] at h
  cases hm : manifestCheck H c.manifest with
  | ok m =>
    rw [hm, Outcome.ok_bind_eq] at h
    cases m with
    | false => cases h
    | true =>
      simp only [Bool.not_true, Bool.false_eq_true, if_false] at h
      cases hdp : packCheck H id c.dirPack with
      | ok d =>
        rw [hdp, Outcome.ok_bind_eq] at h
        cases d with
        | false => cases h
        | true =>
          simp only [Bool.not_true, Bool.false_eq_true, if_false] at h
          exact ⟨rfl, rfl, walkCheck_true_inv H fs c _ h⟩
      | err e => rw [hdp] at h; cases h
      | panic s => rw [hdp] at h; cases h
      | hang => rw [hdp] at h; cases h
      | fault => rw [hdp] at h; cases h
  | err e => rw [hm] at h; cases h
  | panic s => rw [hm] at h; cases h
  | hang => rw [hm] at h; cases h
  | fault => rw [hm] at h; cases h

theorem stepCheck_missing (H : Bytes → Bytes) (fs : FS) (c : ContainerView) (info : PackInfo)
    (h : locate fs c.entryFile c.entryPacks info.uuid (locationString info.location) = .ok none) :
    stepCheck H fs c info = .ok true := by
  unfold stepCheck
  rw [h]
  rfl

theorem stepCheck_present (H : Bytes → Bytes) (fs : FS) (c : ContainerView) (info : PackInfo)
    (l : Located)
    (h : locate fs c.entryFile c.entryPacks info.uuid (locationString info.location) = .ok (some l)) :
    stepCheck H fs c info = locatedCheck H fs l := by
  unfold stepCheck
  rw [h]
  rfl

/-- a pack made unavailable is skipped by the check -/
theorem stepCheck_unavailable (H : Bytes → Bytes) (fs : FS) (c : ContainerView) (info : PackInfo)
    (hne : ¬ c.Encloses info.uuid) (hun : Unavailable fs info.uuid (locationString info.location)) :
    stepCheck H fs c info = .ok true :=
  stepCheck_missing H fs c info (locate_unavailable fs c _ _ hne hun)

/-- the step on a pack whose source file is untouched is unchanged (frame for the check) -/
theorem stepCheck_frame (H : Bytes → Bytes) (fs fs' : FS) (c : ContainerView) (info : PackInfo)
    (h : (c.Encloses info.uuid ∧ FS.get fs' c.entryFile = FS.get fs c.entryFile) ∨
         (¬ c.Encloses info.uuid ∧
          FS.get fs' (locationString info.location) = FS.get fs (locationString info.location))) :
    stepCheck H fs' c info = stepCheck H fs c info := by
  unfold stepCheck
  rcases h with ⟨⟨p, hp⟩, he⟩ | ⟨hne, hl⟩
  · rw [locate_enclosed fs' _ _ _ _ p hp, locate_enclosed fs _ _ _ _ p hp]
    simp only [Outcome.ok_bind_eq]
    unfold locatedCheck
    rw [bytesOfLocated_frame fs fs' ⟨c.entryFile, p⟩ he]
  · have hnone : c.entryPacks.find? (fun q => q.uuid == info.uuid) = none := by
      cases hf : c.entryPacks.find? (fun q => q.uuid == info.uuid) with
      | none => rfl
      | some p => exact absurd ⟨p, hf⟩ hne
    rw [locate_fs fs' _ _ _ _ hnone, locate_fs fs _ _ _ _ hnone, fsLocate_frame fs fs' _ _ hl]
    cases hr : fsLocate fs info.uuid (locationString info.location) with
    | ok r =>
      cases r with
      | none => rfl
      | some l =>
        simp only [Outcome.ok_bind_eq]
        have hfile := fsLocate_file fs _ _ l hr
        unfold locatedCheck
        rw [bytesOfLocated_frame fs fs' l (by rw [hfile]; exact hl)]
    | err e => rfl
    | panic s => rfl
    | hang => rfl
    | fault => rfl

/-- **C11 check (4a).**  If the manifest and the directory pack verify and every *present* content
    pack verifies, the container check passes — regardless of which packs are missing. -/
theorem missing_check_present_ok (H : Bytes → Bytes) (fs' : FS) (c : ContainerView)
    (hm : manifestCheck H c.manifest = .ok true) (hdir : packCheck H id c.dirPack = .ok true)
    (hpacks : ∀ info ∈ c.contentInfos,
      locate fs' c.entryFile c.entryPacks info.uuid (locationString info.location) = .ok none ∨
      ∃ l, locate fs' c.entryFile c.entryPacks info.uuid (locationString info.location) = .ok (some l) ∧
        locatedCheck H fs' l = .ok true) :
    containerCheck H fs' c = .ok true := by
  rw [containerCheck_eq, hm, Outcome.ok_bind_eq]
  simp only [Bool.not_true, Bool.false_eq_true, if_false]
  rw [hdir, Outcome.ok_bind_eq]
  simp only [Bool.not_true, Bool.false_eq_true, if_false]
  rw [walkCheck_all H fs' c _ (fun _ => true)]
  · simp
  · intro i hi
    rcases hpacks i hi with h | ⟨l, hl, hc⟩
    · exact stepCheck_missing H fs' c i h
    · rw [stepCheck_present H fs' c i l hl, hc]

/-- **C11 check (4b).**  If some present (located) content pack does not verify, the container
    check does not answer `true` — whatever the state of the other packs: an earlier missing pack
    does not stop the walk before a later damaged one. -/
theorem missing_check_damaged (H : Bytes → Bytes) (fs' : FS) (c : ContainerView) (info : PackInfo)
    (l : Located) (hmem : info ∈ c.contentInfos)
    (hloc : locate fs' c.entryFile c.entryPacks info.uuid (locationString info.location) = .ok (some l))
    (hbad : locatedCheck H fs' l ≠ .ok true) :
    containerCheck H fs' c ≠ .ok true := by
  intro h
  obtain ⟨_, _, hall⟩ := containerCheck_true_inv H fs' c h
  have := hall info hmem
  rw [stepCheck_present H fs' c info l hloc] at this
  exact hbad this

/-- **C11 check, exact verdict.**  When the manifest and directory checks pass and every content
    pack is either missing or present with a verdict, the container check answers the conjunction
    of the verdicts of the present packs: the missing ones count for nothing, the present ones all
    count. -/
theorem missing_check_verdict (H : Bytes → Bytes) (fs' : FS) (c : ContainerView) (v : PackInfo → Bool)
    (hm : manifestCheck H c.manifest = .ok true) (hdir : packCheck H id c.dirPack = .ok true)
    (hpacks : ∀ info ∈ c.contentInfos,
      (locate fs' c.entryFile c.entryPacks info.uuid (locationString info.location) = .ok none ∧
        v info = true) ∨
      ∃ l, locate fs' c.entryFile c.entryPacks info.uuid (locationString info.location) = .ok (some l) ∧
        locatedCheck H fs' l = .ok (v info)) :
    containerCheck H fs' c = .ok (c.contentInfos.all v) := by
  rw [containerCheck_eq, hm, Outcome.ok_bind_eq]
  simp only [Bool.not_true, Bool.false_eq_true, if_false]
  rw [hdir, Outcome.ok_bind_eq]
  simp only [Bool.not_true, Bool.false_eq_true, if_false]
  apply walkCheck_all
  intro i hi
  rcases hpacks i hi with ⟨h, hv⟩ | ⟨l, hl, hc⟩
  · rw [hv]; exact stepCheck_missing H fs' c i h
  · rw [stepCheck_present H fs' c i l hl, hc]

/-- a damaged present pack makes the verdict exactly `false` (not an error) when every other
    content pack is missing or present with a verdict -/
theorem missing_check_damaged_false (H : Bytes → Bytes) (fs' : FS) (c : ContainerView)
    (v : PackInfo → Bool) (info : PackInfo) (hmem : info ∈ c.contentInfos) (hv : v info = false)
    (hm : manifestCheck H c.manifest = .ok true) (hdir : packCheck H id c.dirPack = .ok true)
    (hpacks : ∀ info ∈ c.contentInfos,
      (locate fs' c.entryFile c.entryPacks info.uuid (locationString info.location) = .ok none ∧
        v info = true) ∨
      ∃ l, locate fs' c.entryFile c.entryPacks info.uuid (locationString info.location) = .ok (some l) ∧
        locatedCheck H fs' l = .ok (v info)) :
    containerCheck H fs' c = .ok false := by
  rw [missing_check_verdict H fs' c v hm hdir hpacks]
  congr 1
  rw [List.all_eq_false]
  exact ⟨info, hmem, by rw [hv]; simp⟩

/-- **C11 check under disturbance.**  A container whose check passes keeps passing when any subset
    of its content packs is made unavailable … -/
theorem missing_check_disturbed_ok (H : Bytes → Bytes) (fs fs' : FS) (c : ContainerView)
    (hd : Disturbed fs fs' c) (h : containerCheck H fs c = .ok true) :
    containerCheck H fs' c = .ok true := by
  obtain ⟨hentry, hlocs⟩ := hd
  obtain ⟨hm, hdir, hall⟩ := containerCheck_true_inv H fs c h
  rw [containerCheck_eq, hm, Outcome.ok_bind_eq]
  simp only [Bool.not_true, Bool.false_eq_true, if_false]
  rw [hdir, Outcome.ok_bind_eq]
  simp only [Bool.not_true, Bool.false_eq_true, if_false]
  rw [walkCheck_all H fs' c _ (fun _ => true)]
  · simp
  · intro i hi
    by_cases henc : c.Encloses i.uuid
    · rw [stepCheck_frame H fs fs' c i (Or.inl ⟨henc, hentry⟩)]
      exact hall i hi
    · rcases hlocs i hi with h | hl | hun
      · exact absurd h henc
      · rw [stepCheck_frame H fs fs' c i (Or.inr ⟨henc, hl⟩)]
        exact hall i hi
      · exact stepCheck_unavailable H fs' c i henc hun

/-- … and a content pack that did not verify in `fs` and whose source file is untouched in `fs'`
    still makes the check fail in `fs'`, whatever happened to the other packs (no relation between
    `fs` and `fs'` is needed elsewhere). -/
theorem missing_check_disturbed_damaged (H : Bytes → Bytes) (fs fs' : FS) (c : ContainerView)
    (info : PackInfo) (hmem : info ∈ c.contentInfos)
    (hsrc : (c.Encloses info.uuid ∧ FS.get fs' c.entryFile = FS.get fs c.entryFile) ∨
         (¬ c.Encloses info.uuid ∧
          FS.get fs' (locationString info.location) = FS.get fs (locationString info.location)))
    (hbad : stepCheck H fs c info ≠ .ok true) :
    containerCheck H fs' c ≠ .ok true := by
  intro h
  obtain ⟨_, _, hall⟩ := containerCheck_true_inv H fs' c h
  have := hall info hmem
  rw [stepCheck_frame H fs fs' c info hsrc] at this
  exact hbad this

/-! ### 0. the container still opens -/

/-- `get_manifest_pack_reader`'s test: the pack at `p` of file `f` has a manifest header -/
def isManifestAt (f : Bytes) (p : PackAt) : Bool :=
  match (do let hd ← readBlock (slice f p.origin p.size) 0 60; PackHeader.decode hd : Outcome PackHeader) with
  | .ok h => h.kind = .manifest
  | _ => false

/-- the end of `Container::new`: locate the directory pack -/
def openTail (fs : FS) (entry : String) (packs : List PackAt) (m : Bytes) (infos : List PackInfo) :
    Outcome ContainerView :=
  match (infos.filter (fun i => i.kind = .directory)).getLast? with
  | none => .panic "manifest_pack.rs: directory_pack_info.unwrap()"
  | some di =>
    locate fs entry packs di.uuid (locationString di.location) >>= fun r =>
      match r with
      | none => .panic "jubako.rs: locate(directory pack).unwrap()"
      | some l => .ok ⟨entry, packs, m, infos, bytesOfLocated fs l⟩

theorem containerOpen_eq (fs : FS) (entry : String) :
    containerOpen fs entry =
      match FS.get fs entry with
      | none => .err .io
      | some f =>
        blindOpen f >>= fun packs =>
          match packs.find? (isManifestAt f) with
          | none => .err .format
          | some mp =>
            manifestOpen (slice f mp.origin mp.size) >>= fun x =>
              openTail fs entry packs (slice f mp.origin mp.size) x.2.2 := rfl

/-- what a successful `Container::new` establishes -/
theorem containerOpen_inv (fs : FS) (entry : String) (c : ContainerView)
    (hopen : containerOpen fs entry = .ok c) :
    ∃ f mp x di l, FS.get fs entry = some f ∧ blindOpen f = .ok c.entryPacks ∧
      c.entryPacks.find? (isManifestAt f) = some mp ∧
      manifestOpen (slice f mp.origin mp.size) = .ok x ∧ x.2.2 = c.infos ∧
      c.manifest = slice f mp.origin mp.size ∧ c.entryFile = entry ∧
      (c.infos.filter (fun i => i.kind = .directory)).getLast? = some di ∧
      locate fs entry c.entryPacks di.uuid (locationString di.location) = .ok (some l) ∧
      c.dirPack = bytesOfLocated fs l := by
  rw [containerOpen_eq] at hopen
  cases hf : FS.get fs entry with
  | none => rw [hf] at hopen; cases hopen
  | some f =>
    rw [hf] at hopen
    simp only at hopen
    cases hb : blindOpen f with
    | ok packs =>
      rw [hb, Outcome.ok_bind_eq] at hopen
      cases hfind : packs.find? (isManifestAt f) with
      | none => rw [hfind] at hopen; cases hopen
      | some mp =>
        rw [hfind] at hopen
        simp only at hopen
        cases hm : manifestOpen (slice f mp.origin mp.size) with
        | ok x =>
          rw [hm, Outcome.ok_bind_eq] at hopen
          unfold openTail at hopen
          cases hlast : (x.2.2.filter (fun i => i.kind = .directory)).getLast? with
          | none => rw [hlast] at hopen; cases hopen
          | some di =>
            rw [hlast] at hopen
            simp only at hopen
            cases hl : locate fs entry packs di.uuid (locationString di.location) with
            | ok r =>
              rw [hl, Outcome.ok_bind_eq] at hopen
              cases r with
              | none => cases hopen
              | some l =>
                simp only at hopen
                injection hopen with hopen
                subst hopen
                exact ⟨f, mp, x, di, l, rfl, hb, hfind, hm, rfl, rfl, rfl, hlast, hl, rfl⟩
            | err e => rw [hl] at hopen; cases hopen
            | panic s => rw [hl] at hopen; cases hopen
            | hang => rw [hl] at hopen; cases hopen
            | fault => rw [hl] at hopen; cases hopen
        | err e => rw [hm] at hopen; cases hopen
        | panic s => rw [hm] at hopen; cases hopen
        | hang => rw [hm] at hopen; cases hopen
        | fault => rw [hm] at hopen; cases hopen
    | err e => rw [hb] at hopen; cases hopen
    | panic s => rw [hb] at hopen; cases hopen
    | hang => rw [hb] at hopen; cases hopen
    | fault => rw [hb] at hopen; cases hopen

/-- **C11: the container still opens (0).**  A container that opens in `fs` opens to the same view
    in every `fs'` that keeps the entry file and the file holding the *directory* pack (the entry
    file itself when the directory pack is enclosed) — whatever happens to the content packs. -/
theorem missing_still_opens (fs fs' : FS) (entry : String) (c : ContainerView)
    (hopen : containerOpen fs entry = .ok c)
    (hentry : FS.get fs' entry = FS.get fs entry)
    (hdir : ∀ di, (c.infos.filter (fun i => i.kind = .directory)).getLast? = some di →
      c.Encloses di.uuid ∨
      FS.get fs' (locationString di.location) = FS.get fs (locationString di.location)) :
    containerOpen fs' entry = .ok c := by
  obtain ⟨f, mp, x, di, l, hf, hb, hfind, hm, hx, hman, hfile, hlast, hl, hdp⟩ :=
    containerOpen_inv fs entry c hopen
  rw [containerOpen_eq, hentry, hf]
  simp only
  rw [hb, Outcome.ok_bind_eq, hfind]
  simp only
  rw [hm, Outcome.ok_bind_eq, hx]
  unfold openTail
  rw [hlast]
  simp only
  have key : locate fs' entry c.entryPacks di.uuid (locationString di.location) = .ok (some l) ∧
      bytesOfLocated fs' l = bytesOfLocated fs l := by
    by_cases henc : c.Encloses di.uuid
    · obtain ⟨p, hp⟩ := henc
      rw [locate_enclosed fs _ _ _ _ p hp] at hl
      injection hl with hl
      injection hl with hl
      subst hl
      exact ⟨locate_enclosed fs' _ _ _ _ p hp, bytesOfLocated_frame fs fs' _ hentry⟩
    · have hnone : c.entryPacks.find? (fun q => q.uuid == di.uuid) = none := by
        cases hq : c.entryPacks.find? (fun q => q.uuid == di.uuid) with
        | none => rfl
        | some p => exact absurd ⟨p, hq⟩ henc
      have hkeep : FS.get fs' (locationString di.location) = FS.get fs (locationString di.location) := by
        rcases hdir di hlast with h | h
        · exact absurd h henc
        · exact h
      rw [locate_fs fs _ _ _ _ hnone] at hl
      have hfile' := fsLocate_file fs _ _ l hl
      refine ⟨?_, bytesOfLocated_frame fs fs' l (by rw [hfile']; exact hkeep)⟩
      rw [locate_fs fs' _ _ _ _ hnone, fsLocate_frame fs fs' _ _ hkeep, hl]
  rw [key.1, Outcome.ok_bind_eq]
  simp only
  rw [key.2, ← hdp, ← hman]
  congr 1
  cases c
  simp only at hfile
  subst hfile
  rfl

/-- for a container whose directory pack travels in the entry file, every `Disturbed` file system
    still opens it -/
theorem missing_still_opens_disturbed (fs fs' : FS) (entry : String) (c : ContainerView)
    (hopen : containerOpen fs entry = .ok c) (hd : Disturbed fs fs' c)
    (hdir : ∀ di, (c.infos.filter (fun i => i.kind = .directory)).getLast? = some di →
      c.Encloses di.uuid) :
    containerOpen fs' entry = .ok c := by
  obtain ⟨_, _, _, _, _, _, _, _, _, _, _, hfile, _⟩ := containerOpen_inv fs entry c hopen
  apply missing_still_opens fs fs' entry c hopen
  · rw [← hfile]; exact hd.1
  · intro di h; exact Or.inl (hdir di h)

/-! ### what "the pack verifies" means for a single content pack -/

theorem Outcome.bind_pure' {α} (x : Outcome α) : (x >>= fun a => (pure a : Outcome α)) = x := by
  cases x <;> rfl

/-- When the located reader holds exactly one pack, of kind content, that opens, the check
    `Container::check` runs on it is `Pack::check` of its bytes. -/
theorem locatedCheck_content (H : Bytes → Bytes) (fs : FS) (l : Located) (p : PackAt)
    (hd : Bytes) (h : PackHeader) (x : PackHeader × ContentHeader)
    (hb : blindOpen (bytesOfLocated fs l) = .ok [p])
    (hr : readBlock (slice (bytesOfLocated fs l) p.origin p.size) 0 60 = .ok hd)
    (hdec : PackHeader.decode hd = .ok h) (hk : h.kind = .content)
    (hopen : contentOpen (slice (bytesOfLocated fs l) p.origin p.size) = .ok x) :
    locatedCheck H fs l = packCheck H id (slice (bytesOfLocated fs l) p.origin p.size) := by
  unfold locatedCheck
  rw [hb, Outcome.ok_bind_eq]
  unfold packsCheck
  simp only [List.foldlM_cons, List.foldlM_nil, Bool.not_true, Bool.false_eq_true, if_false]
  rw [hr, Outcome.ok_bind_eq, hdec, Outcome.ok_bind_eq, hk]
  simp only
  unfold contentOpenCheck
  rw [hopen, Outcome.ok_bind_eq]
  exact Outcome.bind_pure' _

/-! ### non-vacuity: a concrete container, three ways of losing a pack

A real (model-level) container: the entry file `"e"` is a container pack holding the manifest, the
directory pack and content pack 1; content packs 2 and 3 live in the files `"a"` and `"b"`.  Every
fact below is obtained by instantiating a theorem above; the hypotheses are discharged by
evaluation (`rfl`, in the kernel: CRCs included). -/

namespace MissingExample

set_option maxRecDepth 10000000

/-- a (cheap) stand-in for blake3: any function will do, the theorems assume nothing about it -/
def H : Bytes → Bytes := fun b => List.replicate 32 (UInt8.ofNat b.length)
/-- the hash a damaged pack was sealed with -/
def Hbad : Bytes → Bytes := fun _ => List.replicate 32 255

def uu (x : UInt8) : Bytes := List.replicate 16 x

def hdr (k : PackKind) (x : UInt8) (size cip : Nat) : PackHeader :=
  ⟨k, [0, 0, 0, 0], Consts.versionGateMajor, Consts.versionGateMinor, uu x, 0, size, cip⟩

/-- an empty but complete content pack with uuid `x`, sealed with hash `Hw` -/
def contentPack (Hw : Bytes → Bytes) (x : UInt8) : Bytes :=
  framePack Hw id (hdr .content x 233 132)
    (block (ContentHeader.encode ⟨128, 128, 0, 0, zeros 24⟩) ++ block [])

def dirPack : Bytes :=
  framePack H id (hdr .directory 20 233 132)
    (block (DirectoryHeader.encode ⟨128, 128, 128, 0, 0, 0, zeros 24⟩) ++ block [])

def mkInfo (x : UInt8) (id : Nat) (k : PackKind) (loc : Bytes) : PackInfo :=
  ⟨uu x, 233, (132, 33), id, k, 0, 0, loc⟩

def infoD : PackInfo := mkInfo 20 0 .directory []
def info1 : PackInfo := mkInfo 1 1 .content []
/-- recorded location `"a"` -/
def info2 : PackInfo := mkInfo 2 2 .content [97]
/-- recorded location `"b"` -/
def info3 : PackInfo := mkInfo 3 3 .content [98]
def infos : List PackInfo := [infoD, info1, info2, info3]

def manifest : Bytes :=
  framePack H (manifestMask 128 4) (hdr .manifest 10 1253 1152)
    (block (ManifestHeader.encode ⟨4, (0, 0), zeros 24⟩) ++ (infos.map (fun i => block i.encode)).flatten)

def entry : Bytes :=
  containerPackWrite (uu 30) (zeros 24) [(uu 10, manifest), (uu 20, dirPack), (uu 1, contentPack H 1)]

/-- everything available -/
def fs : FS := [("e", entry), ("a", contentPack H 2), ("b", contentPack H 3)]

def c : ContainerView :=
  ⟨"e", [⟨uu 10, 128, 1253⟩, ⟨uu 20, 1381, 233⟩, ⟨uu 1, 1614, 233⟩], manifest, infos, dirPack⟩

/-- pack 2 removed (or: `"a"` is now a directory) -/
def fsRemoved : FS := FS.remove fs "a"
/-- pack 2 replaced by a different valid pack (uuid 7) at the same location -/
def fsReplaced : FS := FS.put fs "a" (contentPack H 7)
/-- pack 2 removed *and* the later pack 3 damaged (its stored hash is wrong) -/
def fsDamaged : FS := FS.put (FS.remove fs "a") "b" (contentPack Hbad 3)

/-- `c` is what the model's `Container::new` returns on `fs` -/
theorem open_fs : containerOpen fs "e" = .ok c := by rfl

theorem contentInfos_c : c.contentInfos = [info1, info2, info3] := by rfl
theorem infoOf_1 : c.infoOf 1 = some info1 := by rfl
theorem infoOf_2 : c.infoOf 2 = some info2 := by rfl
theorem infoOf_3 : c.infoOf 3 = some info3 := by rfl
theorem loc2 : locationString info2.location = "a" := by rfl
theorem loc3 : locationString info3.location = "b" := by rfl

theorem encloses_1 : c.Encloses info1.uuid := ⟨⟨uu 1, 1614, 233⟩, by rfl⟩
theorem not_enclosed_2 : ∀ p ∈ c.entryPacks, p.uuid ≠ info2.uuid := by decide
theorem not_enclosed_3 : ∀ p ∈ c.entryPacks, p.uuid ≠ info3.uuid := by decide

theorem blindOpen_7 : blindOpen (contentPack H 7) = .ok [⟨uu 7, 0, 233⟩] := by rfl

theorem unavailable_removed : Unavailable fsRemoved info2.uuid (locationString info2.location) :=
  Or.inl (FS.get_remove_self fs "a")

theorem unavailable_replaced : Unavailable fsReplaced info2.uuid (locationString info2.location) :=
  Or.inr ⟨contentPack H 7, [⟨uu 7, 0, 233⟩], FS.get_put_self fs "a" _, blindOpen_7, by decide⟩

theorem unavailable_damaged : Unavailable fsDamaged info2.uuid (locationString info2.location) :=
  Or.inl (by
    show FS.get (FS.put (FS.remove fs "a") "b" _) "a" = none
    rw [FS.get_put_other _ "b" "a" _ (by decide)]
    exact FS.get_remove_self fs "a")

theorem disturbed_of (fs' : FS) (he : FS.get fs' "e" = FS.get fs "e")
    (hb : FS.get fs' "b" = FS.get fs "b")
    (ha : Unavailable fs' info2.uuid (locationString info2.location)) : Disturbed fs fs' c := by
  refine ⟨he, ?_⟩
  intro info hi
  rw [contentInfos_c] at hi
  simp only [List.mem_cons, List.not_mem_nil, or_false] at hi
  rcases hi with rfl | rfl | rfl
  · exact Or.inl encloses_1
  · exact Or.inr (Or.inr ha)
  · exact Or.inr (Or.inl hb)

/-! file-system facts of the three scenarios -/

theorem removed_e : FS.get fsRemoved "e" = FS.get fs "e" := FS.get_remove_other fs "a" "e" (by decide)
theorem removed_b : FS.get fsRemoved "b" = FS.get fs "b" := FS.get_remove_other fs "a" "b" (by decide)
theorem replaced_e : FS.get fsReplaced "e" = FS.get fs "e" := FS.get_put_other fs "a" "e" _ (by decide)
theorem replaced_b : FS.get fsReplaced "b" = FS.get fs "b" := FS.get_put_other fs "a" "b" _ (by decide)
theorem damaged_e : FS.get fsDamaged "e" = FS.get fs "e" := by
  show FS.get (FS.put (FS.remove fs "a") "b" _) "e" = _
  rw [FS.get_put_other _ "b" "e" _ (by decide)]
  exact FS.get_remove_other fs "a" "e" (by decide)

theorem disturbed_removed : Disturbed fs fsRemoved c :=
  disturbed_of fsRemoved removed_e removed_b unavailable_removed
theorem disturbed_replaced : Disturbed fs fsReplaced c :=
  disturbed_of fsReplaced replaced_e replaced_b unavailable_replaced

theorem dir_enclosed : ∀ di, (c.infos.filter (fun i => i.kind = .directory)).getLast? = some di →
    c.Encloses di.uuid := by
  intro di h
  have hd : (c.infos.filter (fun i => i.kind = .directory)).getLast? = some infoD := by rfl
  rw [hd] at h
  cases h
  exact ⟨⟨uu 20, 1381, 233⟩, by rfl⟩

/-! (0) the container still opens, to the same view -/

example : containerOpen fsRemoved "e" = .ok c :=
  missing_still_opens_disturbed fs fsRemoved "e" c open_fs disturbed_removed dir_enclosed
example : containerOpen fsReplaced "e" = .ok c :=
  missing_still_opens_disturbed fs fsReplaced "e" c open_fs disturbed_replaced dir_enclosed

/-! (1) frame: the available packs read as before — pack 3 from its own file, pack 1 from the entry
    file — with pack 2 removed, respectively replaced -/

theorem found_1 : containerGetPack fs c 1 = .ok (.found (contentPack H 1)) := by rfl
theorem found_2 : containerGetPack fs c 2 = .ok (.found (contentPack H 2)) := by rfl
theorem found_3 : containerGetPack fs c 3 = .ok (.found (contentPack H 3)) := by rfl

example : containerGetPack fsRemoved c 3 = .ok (.found (contentPack H 3)) :=
  missing_available_found fs fsRemoved c 3 _ removed_e
    (by intro info hi; rw [infoOf_3] at hi; cases hi; exact Or.inr removed_b) found_3

example : containerGetPack fsReplaced c 3 = .ok (.found (contentPack H 3)) :=
  missing_available_found fs fsReplaced c 3 _ replaced_e
    (by intro info hi; rw [infoOf_3] at hi; cases hi; exact Or.inr replaced_b) found_3

example : containerGetPack fsDamaged c 1 = .ok (.found (contentPack H 1)) :=
  missing_available_found fs fsDamaged c 1 _ damaged_e
    (by intro info hi; rw [infoOf_1] at hi; cases hi; exact Or.inl encloses_1) found_1

example : containerGetPack fsRemoved c 3 = containerGetPack fs c 3 :=
  missing_frame_agreeOn fs fsRemoved c (fun n => n ≠ "a")
    (FS.agreeOn_remove fs "a" _ (by simp)) (by decide) 3
    (by intro info hi; rw [infoOf_3] at hi; cases hi; exact Or.inr (by decide))

/-! (2) missing: pack 2 is reported missing with its description, whether removed or replaced by
    a different valid pack -/

example : containerGetPack fsRemoved c 2 = .ok (.missing info2) :=
  missing_missing_of_unavailable fsRemoved c 2 info2 infoOf_2 not_enclosed_2 unavailable_removed

example : containerGetPack fsReplaced c 2 = .ok (.missing info2) :=
  missing_missing_of_unavailable fsReplaced c 2 info2 infoOf_2 not_enclosed_2 unavailable_replaced

example : containerGetPack fsDamaged c 2 = .ok (.missing info2) :=
  missing_missing_of_unavailable fsDamaged c 2 info2 infoOf_2 not_enclosed_2 unavailable_damaged

/-! (3) totality, for every pack id at once (the premise holds for ids 1, 2, 3: `found_*`) -/

example : ∀ packId b, containerGetPack fs c packId = .ok (.found b) →
    containerGetPack fsReplaced c packId = .ok (.found b) ∨
    ∃ info, c.infoOf packId = some info ∧ containerGetPack fsReplaced c packId = .ok (.missing info) :=
  fun packId b h => missing_total_found fs fsReplaced c disturbed_replaced packId b h

example : containerGetPack fsRemoved c 2 = .ok (.found (contentPack H 2)) ∨
    ∃ info, c.infoOf 2 = some info ∧ containerGetPack fsRemoved c 2 = .ok (.missing info) :=
  missing_total_found fs fsRemoved c disturbed_removed 2 _ found_2

/-! (4) the check -/

theorem manifest_ok : manifestCheck H c.manifest = .ok true := by rfl
theorem dirPack_ok : packCheck H id c.dirPack = .ok true := by rfl
theorem check_fs : containerCheck H fs c = .ok true := by rfl

/-- (4a) with pack 2 missing the check still passes: from the per-pack facts … -/
example : containerCheck H fsRemoved c = .ok true := by
  apply missing_check_present_ok H fsRemoved c manifest_ok dirPack_ok
  intro info hi
  rw [contentInfos_c] at hi
  simp only [List.mem_cons, List.not_mem_nil, or_false] at hi
  rcases hi with rfl | rfl | rfl
  · exact Or.inr ⟨⟨"e", ⟨uu 1, 1614, 233⟩⟩, by rfl, by rfl⟩
  · exact Or.inl (locate_unavailable fsRemoved c _ _
      ((not_encloses_iff c _).mpr not_enclosed_2) unavailable_removed)
  · exact Or.inr ⟨⟨"b", ⟨uu 3, 0, 233⟩⟩, by rfl, by rfl⟩

/-- … or from the verdict on the undisturbed container -/
example : containerCheck H fsReplaced c = .ok true :=
  missing_check_disturbed_ok H fs fsReplaced c disturbed_replaced check_fs

theorem located_3_damaged :
    locate fsDamaged c.entryFile c.entryPacks info3.uuid (locationString info3.location) =
      .ok (some ⟨"b", ⟨uu 3, 0, 233⟩⟩) := by rfl
theorem check_3_damaged : locatedCheck H fsDamaged ⟨"b", ⟨uu 3, 0, 233⟩⟩ = .ok false := by rfl

/-- (4b) the earlier pack 2 is missing, the later pack 3 is present and damaged: the check does
    not pass — the walk does not stop at the missing pack -/
example : containerCheck H fsDamaged c ≠ .ok true :=
  missing_check_damaged H fsDamaged c info3 ⟨"b", ⟨uu 3, 0, 233⟩⟩
    (by rw [contentInfos_c]; simp) located_3_damaged
    (by rw [check_3_damaged]; intro h; cases h)

/-- and the verdict is exactly `false` -/
example : containerCheck H fsDamaged c = .ok false := by
  apply missing_check_damaged_false H fsDamaged c (fun i => i.packId != 3) info3
    (by rw [contentInfos_c]; simp) (by rfl) manifest_ok dirPack_ok
  intro info hi
  rw [contentInfos_c] at hi
  simp only [List.mem_cons, List.not_mem_nil, or_false] at hi
  rcases hi with rfl | rfl | rfl
  · exact Or.inr ⟨⟨"e", ⟨uu 1, 1614, 233⟩⟩, by rfl, by rfl⟩
  · exact Or.inl ⟨locate_unavailable fsDamaged c _ _
      ((not_encloses_iff c _).mpr not_enclosed_2) unavailable_damaged, by rfl⟩
  · exact Or.inr ⟨⟨"b", ⟨uu 3, 0, 233⟩⟩, located_3_damaged, check_3_damaged⟩

/-- the single-pack reading of "the pack verifies": for pack 3 the located check is `Pack::check` -/
example : locatedCheck H fs ⟨"b", ⟨uu 3, 0, 233⟩⟩ = packCheck H id (contentPack H 3) := by
  have hsl : slice (bytesOfLocated fs ⟨"b", ⟨uu 3, 0, 233⟩⟩) 0 233 = contentPack H 3 := by rfl
  have := locatedCheck_content H fs ⟨"b", ⟨uu 3, 0, 233⟩⟩ ⟨uu 3, 0, 233⟩
    (hdr .content 3 233 132).encode (hdr .content 3 233 132)
    (hdr .content 3 233 132, ⟨128, 128, 0, 0, zeros 24⟩) (by rfl) (by rfl) (by rfl) rfl (by rfl)
  rw [this]
  simp only
  rw [hsl]

end MissingExample

end Jubako
