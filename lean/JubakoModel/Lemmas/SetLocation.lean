import JubakoModel.Theorems.C12
namespace Jubako
#check @setLocationAt.go
#print setLocationAt
#print setLocationAt.go
#print Consts.locationPad
end Jubako
