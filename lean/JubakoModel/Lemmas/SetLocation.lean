/-
Connecting the executable model of `tools::set_location` (`setLocationAt`, Model/Pack.lean) to the
abstract step `fileStep` of Theorems/C12.lean, and showing that the manifest's integrity check
(`manifestCheck`) is unaffected by location rewrites.

The hypotheses H1–H4 on the manifest pack `f` (= `file.drop origin`) are bundled in the structure
`ManifestLayout f h m base infos`; `ManifestLayout.of_concat` shows they hold for every file laid
out as the creator does (`header block ‖ manifest header block ‖ pack-info blocks ‖ anything`), so
none of the statements below is vacuous.  The layout fact (L) `base + n·256 = checkInfoPos` is not
an extra hypothesis: it follows from `fits` and `hbase` (`ManifestLayout.end_eq`).

Statement notes:
* `setLocationAt_eq_fileStep`: the second component of the result (left as `_` in the plan) is
  `oldLocation infos uuid` — the location of the first info carrying the uuid, `none` if absent.
* items 4 and 5 (`*_fileStep`, `manifestCheck_histories`) need H5 `loc.length ≤ Consts.locationPad`:
  a longer location would make the re-encoded block longer than 256 bytes (the tool panics there,
  see `setLocationAt_go_spec`).
-/
import JubakoModel.Lemmas.Rewrite

set_option maxRecDepth 8000

namespace Jubako

theorem readBlock_info (f : Bytes) (base : Nat) (infos : List PackInfo)
    (hm : ManifestAt f base infos) (hw : ∀ p ∈ infos, p.WF) (k : Nat) (hk : k < infos.length) :
    readBlock f (base + k * 256) 252 = .ok (infos[k]).encode := by
  obtain ⟨hlen, hblk⟩ := hm
  have hwk := hw _ (List.getElem_mem hk)
  have h1 : (k + 1) * 256 ≤ infos.length * 256 := Nat.mul_le_mul_right 256 hk
  have hle : base + k * 256 + 252 + 4 ≤ f.length := by omega
  have hs : slice f (base + k * 256) (252 + 4) = block (infos[k]).encode := hblk k hk
  simp only [readBlock, hle, if_true, hs, checkBlock_block]
  have : (block (infos[k]).encode).take 252 = (infos[k]).encode := by
    unfold block
    rw [← PackInfo.encode_length _ hwk, List.take_left']
    rfl
  rw [this]

theorem setLocationAt_go_spec (file : Bytes) (origin : Nat) (uuid loc f : Bytes) (base : Nat)
    (infos : List PackInfo) (hm : ManifestAt f base infos) (hw : ∀ p ∈ infos, p.WF) :
    ∀ (fuel k : Nat), k + fuel = infos.length →
      setLocationAt.go file origin uuid loc f base k fuel =
        match (infos.drop k).findIdx? (fun p => p.uuid == uuid) with
        | some i =>
          if loc.length > Consts.locationPad then .panic "pstring.rs: assert len <= max_len"
          else .ok (splice file (origin + (base + (k + i) * 256))
                (block (setLoc (infos.getD (k + i) specStep.default) loc).encode),
              some (infos.getD (k + i) specStep.default).location)
        | none => .ok (file, none) := by
  intro fuel
  induction fuel with
  | zero =>
    intro k hk
    have : infos.drop k = [] := List.drop_of_length_le (by omega)
    rw [this]; rfl
  | succ fuel ih =>
    intro k hk
    have hkl : k < infos.length := by omega
    have hd : infos.drop k = infos[k] :: infos.drop (k + 1) := List.drop_eq_getElem_cons hkl
    have hwk := hw _ (List.getElem_mem hkl)
    rw [setLocationAt.go, packInfoBlockSize_eq, readBlock_info f base infos hm hw k hkl]
    simp only [PackInfo.decode_encode _ hwk]
    rw [hd, List.findIdx?_cons]
    by_cases hu : (infos[k]).uuid = uuid
    · have hb : ((infos[k]).uuid == uuid) = true := by simp [hu]
      have hg : infos.getD (k + 0) specStep.default = infos[k] := by simp [hkl]
      rw [if_pos hu, if_pos hb]
      simp only [hg]
      rfl
    · have hb : ¬ ((infos[k]).uuid == uuid) = true := by simp [hu]
      rw [if_neg hu, if_neg hb, ih (k + 1) (by omega)]
      cases List.findIdx? (fun p => p.uuid == uuid) (List.drop (k + 1) infos) with
      | none => rfl
      | some i =>
        simp only [Option.map_some]
        rw [show k + (i + 1) = k + 1 + i by omega]

/-- The hypotheses H1–H4 on a manifest pack `f` (header at offset 0).  All of them hold for a
    manifest written by the creator: `hdr`/`mhdr` are the two CRC-checked header blocks at 0 and 64,
    `hwf`, `hver`, `mcount`, `mvs1`, `mvs2`, `mfree` are the field widths / version of the format
    (the side conditions of `PackHeader.decode_encode` and `ManifestHeader.decode_encode`), `count`,
    `fits`, `hbase` say that the `packCount` pack infos end exactly at `checkInfoPos`, `low` that
    they start after the two header blocks, `infosAt`/`wf` that they are well-formed blocks. -/
structure ManifestLayout (f : Bytes) (h : PackHeader) (m : ManifestHeader) (base : Nat)
    (infos : List PackInfo) : Prop where
  hdr : readBlock f 0 60 = .ok h.encode
  hwf : h.WF
  hver : h.major = Consts.versionGateMajor ∧ h.minor = Consts.versionGateMinor
  mhdr : readBlock f 64 60 = .ok m.encode
  mcount : m.packCount < 2 ^ 16
  mvs1 : m.valueStore.1 < 2 ^ 48
  mvs2 : m.valueStore.2 < 2 ^ 16
  mfree : m.freeData.length = 24
  count : m.packCount = infos.length
  fits : infos.length * 256 ≤ h.checkInfoPos
  hbase : base = h.checkInfoPos - infos.length * 256
  low : 128 ≤ base
  infosAt : ManifestAt f base infos
  wf : ∀ p ∈ infos, p.WF

theorem setLocationAt_eq_go (file : Bytes) (origin : Nat) (uuid loc : Bytes) (h : PackHeader)
    (m : ManifestHeader) (base : Nat) (infos : List PackInfo)
    (S : ManifestLayout (file.drop origin) h m base infos) :
    setLocationAt file origin uuid loc =
      setLocationAt.go file origin uuid loc (file.drop origin) base 0 infos.length := by
  have e1 := PackHeader.decode_encode h S.hwf S.hver
  have e2 := ManifestHeader.decode_encode m S.mcount S.mvs1 S.mvs2 S.mfree
  have e3 : packInfosOffset h.checkInfoPos infos.length = base := by
    rw [packInfosOffset, packInfoBlockSize_eq, S.hbase]
  unfold setLocationAt
  simp only [S.hdr, S.mhdr, e1, e2, bind, Outcome.bind, S.count, e3]

theorem findIdx?_some_lt {infos : List PackInfo} {uuid : Bytes} {k : Nat}
    (hk : infos.findIdx? (fun p => p.uuid == uuid) = some k) : k < infos.length :=
  (List.findIdx?_eq_some_iff_getElem.mp hk).1

/-- the scan stops at the first pack info carrying the uuid -/
theorem setLocationAt_found (file : Bytes) (origin : Nat) (uuid loc : Bytes) (h : PackHeader)
    (m : ManifestHeader) (base : Nat) (infos : List PackInfo)
    (S : ManifestLayout (file.drop origin) h m base infos)
    (hl : loc.length ≤ Consts.locationPad) (k : Nat)
    (hk : infos.findIdx? (fun p => p.uuid == uuid) = some k) :
    setLocationAt file origin uuid loc =
      .ok (splice file (origin + (base + k * 256))
            (block (setLoc (infos.getD k specStep.default) loc).encode),
           some (infos.getD k specStep.default).location) := by
  rw [setLocationAt_eq_go file origin uuid loc h m base infos S,
    setLocationAt_go_spec file origin uuid loc _ base infos S.infosAt S.wf infos.length 0 (by omega),
    List.drop_zero, hk]
  have hn : ¬ loc.length > Consts.locationPad := by omega
  simp only [hn, if_false, Nat.zero_add]

/-- an unknown uuid leaves the file as it is -/
theorem setLocationAt_notfound (file : Bytes) (origin : Nat) (uuid loc : Bytes) (h : PackHeader)
    (m : ManifestHeader) (base : Nat) (infos : List PackInfo)
    (S : ManifestLayout (file.drop origin) h m base infos)
    (hn : infos.findIdx? (fun p => p.uuid == uuid) = none) :
    setLocationAt file origin uuid loc = .ok (file, none) := by
  rw [setLocationAt_eq_go file origin uuid loc h m base infos S,
    setLocationAt_go_spec file origin uuid loc _ base infos S.infosAt S.wf infos.length 0 (by omega),
    List.drop_zero, hn]

/-! ### the integrity check does not see a rewrite -/

theorem readBlock_splice_disjoint (f new : Bytes) (off a n : Nat) (h : off + new.length ≤ f.length)
    (hd : a + (n + 4) ≤ off ∨ off + new.length ≤ a) :
    readBlock (splice f off new) a n = readBlock f a n := by
  unfold readBlock
  rw [splice_length _ _ _ h, slice_splice_disjoint _ _ _ _ _ h hd]

theorem fileStep_cases (base : Nat) (infos : List PackInfo) (f : Bytes) (op : Bytes × Bytes) :
    (infos.findIdx? (fun p => p.uuid == op.1) = none ∧
      fileStep base infos f op = f ∧ specStep infos op = infos) ∨
    ∃ k, ∃ hk : k < infos.length, infos.findIdx? (fun p => p.uuid == op.1) = some k ∧
      fileStep base infos f op = splice f (base + k * 256) (block (setLoc infos[k] op.2).encode) ∧
      specStep infos op = infos.set k (setLoc infos[k] op.2) := by
  cases hfi : infos.findIdx? (fun p => p.uuid == op.1) with
  | none => left; simp [fileStep, specStep, hfi]
  | some k =>
    right
    have hk : k < infos.length := findIdx?_some_lt hfi
    have hgd : infos[k]?.getD specStep.default = infos[k] := by simp [hk]
    exact ⟨k, hk, rfl, by simp [fileStep, hfi, hgd], by simp [specStep, hfi, hgd]⟩

theorem maskFrom_take (po n p : Nat) (bs : Bytes) (c : Nat) :
    maskFrom po n p (bs.take c) = (maskFrom po n p bs).take c := by
  apply List.ext_getElem?
  intro i
  rw [maskFrom_getElem?, List.getElem?_take, List.getElem?_take, maskFrom_getElem?]
  by_cases hi : i < c
  · simp only [hi, if_true]
  · simp only [hi, if_false, Option.map_none]

theorem manifestMask_take (po n : Nat) (bs : Bytes) (c : Nat) :
    manifestMask po n (bs.take c) = (manifestMask po n bs).take c := maskFrom_take po n 0 bs c

/-- One step keeps the layout hypotheses, the length, the masked bytes, and every CRC block that
    lies outside the pack-info region. -/
theorem ManifestLayout.step {f : Bytes} {h : PackHeader} {m : ManifestHeader} {base : Nat}
    {infos : List PackInfo} (S : ManifestLayout f h m base infos) (op : Bytes × Bytes)
    (hl : op.2.length ≤ Consts.locationPad) :
    ManifestLayout (fileStep base infos f op) h m base (specStep infos op) ∧
    (fileStep base infos f op).length = f.length ∧
    manifestMask base infos.length (fileStep base infos f op) = manifestMask base infos.length f ∧
    (∀ a n, (a + (n + 4) ≤ base ∨ base + infos.length * 256 ≤ a) →
      readBlock (fileStep base infos f op) a n = readBlock f a n) := by
  rcases fileStep_cases base infos f op with ⟨-, e1, e2⟩ | ⟨k, hk, -, e1, e2⟩
  · rw [e1, e2]; exact ⟨S, rfl, rfl, fun _ _ _ => rfl⟩
  · have hwk : (infos[k]).WF := S.wf _ (List.getElem_mem hk)
    obtain ⟨h1, _, _, _, h5, h6⟩ := rewrite_one f base infos.length infos k op.2 S.infosAt rfl hk hwk hl
    have hnl : (block (setLoc infos[k] op.2).encode).length = 256 :=
      block_encode_length _ (setLoc_WF _ _ hwk hl)
    have hk1 : (k + 1) * 256 ≤ infos.length * 256 := Nat.mul_le_mul_right 256 hk
    have hlen := S.infosAt.1
    have hin : base + k * 256 + (block (setLoc infos[k] op.2).encode).length ≤ f.length := by
      rw [hnl]; omega
    have hrb : ∀ a n, (a + (n + 4) ≤ base ∨ base + infos.length * 256 ≤ a) →
        readBlock (splice f (base + k * 256) (block (setLoc infos[k] op.2).encode)) a n
          = readBlock f a n := by
      intro a n hd
      apply readBlock_splice_disjoint _ _ _ _ _ hin
      rw [hnl]; omega
    have hlow := S.low
    rw [e1, e2]
    refine ⟨⟨?_, S.hwf, S.hver, ?_, S.mcount, S.mvs1, S.mvs2, S.mfree, ?_, ?_, ?_, S.low, h5, ?_⟩,
      h1, h6, hrb⟩
    · rw [hrb 0 60 (by omega)]; exact S.hdr
    · rw [hrb 64 60 (by omega)]; exact S.mhdr
    · rw [List.length_set]; exact S.count
    · rw [List.length_set]; exact S.fits
    · rw [List.length_set]; exact S.hbase
    · intro p hp
      rcases List.mem_or_eq_of_mem_set hp with hp | hp
      · exact S.wf p hp
      · rw [hp]; exact setLoc_WF _ _ hwk hl

theorem specStep_length (infos : List PackInfo) (op : Bytes × Bytes) :
    (specStep infos op).length = infos.length := by
  rcases fileStep_cases 0 infos [] op with ⟨-, -, e2⟩ | ⟨k, hk, -, -, e2⟩
  · rw [e2]
  · rw [e2, List.length_set]

theorem ManifestLayout.end_eq {f : Bytes} {h : PackHeader} {m : ManifestHeader} {base : Nat}
    {infos : List PackInfo} (S : ManifestLayout f h m base infos) :
    base + infos.length * 256 = h.checkInfoPos := by
  have := S.fits; have := S.hbase; omega

theorem ManifestLayout.packCheckParts_eq {f : Bytes} {h : PackHeader} {m : ManifestHeader}
    {base : Nat} {infos : List PackInfo} (S : ManifestLayout f h m base infos) :
    packCheckParts f =
      match h.checkInfoSize with
      | none => .panic "check_info_size underflow"
      | some n => (readBlock f h.checkInfoPos n).bind fun cb =>
          (CheckInfo.decode cb).bind fun ci => .ok (h.checkInfoPos, ci) := by
  have e1 := PackHeader.decode_encode h S.hwf S.hver
  unfold packCheckParts
  simp only [S.hdr, e1, bind, Outcome.bind]
  rfl

theorem ManifestLayout.manifestMaskOf_eq {f : Bytes} {h : PackHeader} {m : ManifestHeader}
    {base : Nat} {infos : List PackInfo} (S : ManifestLayout f h m base infos) :
    manifestMaskOf f = .ok (base, infos.length) := by
  have e1 := PackHeader.decode_encode h S.hwf S.hver
  have e2 := ManifestHeader.decode_encode m S.mcount S.mvs1 S.mvs2 S.mfree
  have e3 : packInfosOffset h.checkInfoPos infos.length = base := by
    rw [packInfosOffset, packInfoBlockSize_eq, S.hbase]
  unfold manifestMaskOf
  simp only [S.hdr, S.mhdr, e1, e2, bind, Outcome.bind, S.count, e3]

/-- `Pack::check` reads the same header and the same check block after the rewrite -/
theorem packCheckParts_fileStep (f : Bytes) (h : PackHeader) (m : ManifestHeader) (base : Nat)
    (infos : List PackInfo) (S : ManifestLayout f h m base infos) (uuid loc : Bytes)
    (hl : loc.length ≤ Consts.locationPad) :
    packCheckParts (fileStep base infos f (uuid, loc)) = packCheckParts f := by
  obtain ⟨S', -, -, hrb⟩ := S.step (uuid, loc) hl
  rw [S'.packCheckParts_eq, S.packCheckParts_eq]
  cases h.checkInfoSize with
  | none => rfl
  | some n =>
    simp only
    rw [hrb h.checkInfoPos n (Or.inr (Nat.le_of_eq S.end_eq))]

/-- the mask parameters read from the two headers are the same after the rewrite -/
theorem manifestMaskOf_fileStep (f : Bytes) (h : PackHeader) (m : ManifestHeader) (base : Nat)
    (infos : List PackInfo) (S : ManifestLayout f h m base infos) (uuid loc : Bytes)
    (hl : loc.length ≤ Consts.locationPad) :
    manifestMaskOf (fileStep base infos f (uuid, loc)) = manifestMaskOf f := by
  obtain ⟨S', -, -, -⟩ := S.step (uuid, loc) hl
  rw [S'.manifestMaskOf_eq, S.manifestMaskOf_eq, specStep_length]

/-- **The manifest's integrity check does not see a location rewrite**, whatever the hash. -/
theorem manifestCheck_fileStep (H : Bytes → Bytes) (f : Bytes) (h : PackHeader)
    (m : ManifestHeader) (base : Nat) (infos : List PackInfo)
    (S : ManifestLayout f h m base infos) (uuid loc : Bytes)
    (hl : loc.length ≤ Consts.locationPad) :
    manifestCheck H (fileStep base infos f (uuid, loc)) = manifestCheck H f := by
  have hparts := packCheckParts_fileStep f h m base infos S uuid loc hl
  obtain ⟨S', hlen, hmask, -⟩ := S.step (uuid, loc) hl
  unfold manifestCheck
  rw [S'.manifestMaskOf_eq, S.manifestMaskOf_eq, specStep_length]
  simp only [bind, Outcome.bind]
  unfold packCheck
  rw [hparts]
  cases e : packCheckParts f with
  | ok r =>
    obtain ⟨c, ci⟩ := r
    simp only [bind, Outcome.bind]
    cases ci with
    | none => rfl
    | blake3 stored =>
      simp only
      rw [hlen, manifestMask_take, manifestMask_take, hmask]
  | err _ => rfl
  | panic _ => rfl
  | hang => rfl
  | fault => rfl

/-! ### histories -/

theorem manifestCheck_histories (H : Bytes → Bytes) (f : Bytes) (h : PackHeader)
    (m : ManifestHeader) (base : Nat) (infos : List PackInfo)
    (S : ManifestLayout f h m base infos) (ops : List (Bytes × Bytes))
    (hl : ∀ op ∈ ops, op.2.length ≤ Consts.locationPad) :
    manifestCheck H (ops.foldl (fun (st : Bytes × List PackInfo) op =>
      (fileStep base st.2 st.1 op, specStep st.2 op)) (f, infos)).1 = manifestCheck H f := by
  induction ops generalizing f infos with
  | nil => rfl
  | cons op rest ih =>
    have hlo : op.2.length ≤ Consts.locationPad := hl op List.mem_cons_self
    have hl' : ∀ o ∈ rest, o.2.length ≤ Consts.locationPad :=
      fun o ho => hl o (List.mem_cons_of_mem _ ho)
    rw [List.foldl_cons]
    obtain ⟨S', -, -, -⟩ := S.step op hlo
    rw [ih _ _ S' hl']
    exact manifestCheck_fileStep H f h m base infos S op.1 op.2 hlo

/-! ### the executable tool is the abstract step -/

theorem splice_drop (file new : Bytes) (origin off : Nat) (h : origin ≤ file.length) :
    (splice file (origin + off) new).drop origin = splice (file.drop origin) off new := by
  unfold splice
  have h1 : origin ≤ (file.take (origin + off)).length := by
    rw [List.length_take]; omega
  rw [List.append_assoc, List.drop_append_of_le_length h1, List.drop_take, List.drop_drop,
    Nat.add_sub_cancel_left, List.append_assoc]
  congr 3
  omega

theorem splice_take (file new : Bytes) (origin off : Nat) (h : origin ≤ file.length) :
    (splice file (origin + off) new).take origin = file.take origin := by
  unfold splice
  have h1 : origin ≤ (file.take (origin + off)).length := by
    rw [List.length_take]; omega
  rw [List.append_assoc, List.take_append_of_le_length h1, List.take_take,
    Nat.min_eq_left (by omega)]

/-- the old location reported by the tool -/
def oldLocation (infos : List PackInfo) (uuid : Bytes) : Option Bytes :=
  (infos.findIdx? (fun p => p.uuid == uuid)).map fun k => (infos.getD k specStep.default).location

/-- the file written by the tool, for a manifest located at `origin` -/
theorem setLocationAt_eq (file : Bytes) (origin : Nat) (uuid loc : Bytes) (h : PackHeader)
    (m : ManifestHeader) (base : Nat) (infos : List PackInfo)
    (S : ManifestLayout (file.drop origin) h m base infos)
    (hl : loc.length ≤ Consts.locationPad) :
    setLocationAt file origin uuid loc =
      .ok (file.take origin ++ fileStep base infos (file.drop origin) (uuid, loc),
           oldLocation infos uuid) := by
  have hlen := S.infosAt.1
  have hlow := S.low
  rw [List.length_drop] at hlen
  have ho : origin ≤ file.length := by omega
  cases hfi : infos.findIdx? (fun p => p.uuid == uuid) with
  | none =>
    rw [setLocationAt_notfound file origin uuid loc h m base infos S hfi]
    simp only [fileStep, oldLocation, hfi, Option.map_none, List.take_append_drop]
  | some k =>
    rw [setLocationAt_found file origin uuid loc h m base infos S hl k hfi]
    simp only [fileStep, oldLocation, hfi, Option.map_some]
    rw [← splice_drop _ _ _ _ ho, ← splice_take file
      (block (setLoc (infos.getD k specStep.default) loc).encode) origin (base + k * 256) ho,
      List.take_append_drop]

/-- standalone manifest file: the tool computes exactly the abstract step of `rewrite_histories` -/
theorem setLocationAt_eq_fileStep (file : Bytes) (uuid loc : Bytes) (h : PackHeader)
    (m : ManifestHeader) (base : Nat) (infos : List PackInfo)
    (S : ManifestLayout file h m base infos) (hl : loc.length ≤ Consts.locationPad) :
    setLocationAt file 0 uuid loc =
      .ok (fileStep base infos file (uuid, loc), oldLocation infos uuid) := by
  have S0 : ManifestLayout (file.drop 0) h m base infos := by rw [List.drop_zero]; exact S
  rw [setLocationAt_eq file 0 uuid loc h m base infos S0 hl]
  simp only [List.take_zero, List.drop_zero, List.nil_append]

/-- manifest at `origin` inside a container: bytes before `origin` untouched, the pack part is the
    abstract step -/
theorem setLocationAt_drop (file : Bytes) (origin : Nat) (uuid loc : Bytes) (h : PackHeader)
    (m : ManifestHeader) (base : Nat) (infos : List PackInfo)
    (S : ManifestLayout (file.drop origin) h m base infos)
    (hl : loc.length ≤ Consts.locationPad) :
    ∃ file', (setLocationAt file origin uuid loc).map' (·.1) = .ok file' ∧
      file'.take origin = file.take origin ∧
      file'.drop origin = fileStep base infos (file.drop origin) (uuid, loc) := by
  have hlen := S.infosAt.1
  have hlow := S.low
  rw [List.length_drop] at hlen
  have ho : (file.take origin).length = origin := by rw [List.length_take]; omega
  refine ⟨_, by rw [setLocationAt_eq file origin uuid loc h m base infos S hl]; rfl, ?_, ?_⟩
  · rw [List.take_append_of_le_length (by omega), List.take_of_length_le (by omega)]
  · rw [List.drop_append_of_le_length (by omega), List.drop_of_length_le (by omega),
      List.nil_append]

/-! ### non-vacuity: the layout hypotheses hold for files laid out as the creator does -/

theorem manifestAt_concat (pre : Bytes) (infos : List PackInfo) (post : Bytes)
    (hw : ∀ p ∈ infos, p.WF) :
    ManifestAt (pre ++ (infos.flatMap fun p => block p.encode) ++ post) pre.length infos := by
  induction infos generalizing pre with
  | nil => exact ⟨by simp, fun k hk => absurd hk (Nat.not_lt_zero k)⟩
  | cons p ps ih =>
    have hwp : p.WF := hw p List.mem_cons_self
    have hlp := block_encode_length p hwp
    have ih' := ih (pre ++ block p.encode) (fun q hq => hw q (List.mem_cons_of_mem _ hq))
    have ef : pre ++ ((p :: ps).flatMap fun p => block p.encode) ++ post
        = (pre ++ block p.encode) ++ (ps.flatMap fun p => block p.encode) ++ post := by
      simp only [List.flatMap_cons, List.append_assoc]
    rw [ef]
    generalize hF : (pre ++ block p.encode) ++ (ps.flatMap fun p => block p.encode) ++ post = F
      at ih'
    rw [List.length_append, hlp] at ih'
    obtain ⟨i1, i2⟩ := ih'
    refine ⟨by rw [List.length_cons]; omega, ?_⟩
    intro k hk
    cases k with
    | zero =>
      subst hF
      simp only [Nat.zero_mul, Nat.add_zero, List.getElem_cons_zero]
      have := slice_mid pre (block p.encode) ((ps.flatMap fun p => block p.encode) ++ post)
      rw [hlp] at this
      rw [List.append_assoc (pre ++ block p.encode)]
      exact this
    | succ j =>
      have hj : j < ps.length := by simpa using hk
      have := i2 j hj
      simp only [List.getElem_cons_succ]
      rw [← this]
      congr 1
      omega

theorem ManifestLayout.of_concat (h : PackHeader) (m : ManifestHeader) (infos : List PackInfo)
    (post : Bytes) (hwf : h.WF)
    (hver : h.major = Consts.versionGateMajor ∧ h.minor = Consts.versionGateMinor)
    (mvs1 : m.valueStore.1 < 2 ^ 48) (mvs2 : m.valueStore.2 < 2 ^ 16)
    (mfree : m.freeData.length = 24) (hcount : m.packCount = infos.length)
    (hn : infos.length < 2 ^ 16) (hcip : h.checkInfoPos = 128 + infos.length * 256)
    (hw : ∀ p ∈ infos, p.WF) :
    ManifestLayout (block h.encode ++ block m.encode ++ (infos.flatMap fun p => block p.encode)
      ++ post) h m 128 infos := by
  have l1 : (block h.encode).length = 64 := by rw [block_length, PackHeader.encode_length h hwf]
  have l2 : (block m.encode).length = 64 := by
    rw [block_length, ManifestHeader.encode_length m mfree]
  have l12 : (block h.encode ++ block m.encode).length = 128 := by
    rw [List.length_append, l1, l2]
  have hat := manifestAt_concat (block h.encode ++ block m.encode) infos post hw
  rw [l12] at hat
  refine ⟨?_, hwf, hver, ?_, by omega, mvs1, mvs2, mfree, hcount, by omega, by omega,
    Nat.le_refl _, hat, hw⟩
  · have := readBlock_block [] h.encode
      (block m.encode ++ (infos.flatMap fun p => block p.encode) ++ post)
    rw [PackHeader.encode_length h hwf] at this
    simpa only [List.nil_append, List.length_nil, List.append_assoc] using this
  · have := readBlock_block (block h.encode) m.encode
      ((infos.flatMap fun p => block p.encode) ++ post)
    rw [ManifestHeader.encode_length m mfree, l1] at this
    simpa only [List.append_assoc] using this

end Jubako

