/-
The creator's order on array values is the body translated from the Rust source on every run
(Generated/FuncsOrder.lean).
-/
import JubakoModel.Model.Order
import JubakoModel.Generated.FuncsOrder

namespace Jubako

/-! ### the creator's order on array values -/

/-- **`writerArrCmp` is the body of the creator's `Array::cmp` (`creator/directory_pack/value.rs`)
    translated on every run**: inline prefix bytes first, then the value id in its store, then the
    total length (`Ordering.then` spelt as the nested `match` of the source). -/
theorem gen_writerArrCmp (vs : VStore) (fixed : Nat) (a b : Bytes) :
    writerArrCmp vs fixed a b =
      Generated.writerArrayCmp (lexCmp (a.take fixed) (b.take fixed)) (vs.idOf (a.drop fixed)) (vs.idOf (b.drop fixed))
        a.length b.length := by
  unfold writerArrCmp Generated.writerArrayCmp
  cases lexCmp (a.take fixed) (b.take fixed) <;> simp [Ordering.then] <;>
    cases compare (vs.idOf (a.drop fixed)) (vs.idOf (b.drop fixed)) <;> simp [Ordering.then]

end Jubako
