import JubakoModel.Model.ContentSpec

namespace Jubako
set_option maxRecDepth 8000

theorem getD_append_lt {α : Type} (l l' : List α) (d : α) (n : Nat) (h : n < l.length) :
    (l ++ l').getD n d = l.getD n d := by
  simp [List.getD_eq_getElem?_getD, List.getElem?_append_left h]

theorem getD_concat_length {α : Type} (l : List α) (a d : α) (n : Nat) (h : n = l.length) :
    (l ++ [a]).getD n d = a := by
  subst h
  simp [List.getD_eq_getElem?_getD]

/-! ### `findCluster` / `resolve` on lists with distinct ids -/

theorem findCluster_of_mem {cs : List Cluster} (hn : (cs.map (·.idx)).Nodup) {c : Cluster}
    (hc : c ∈ cs) : findCluster cs c.idx = some c := by
  induction cs with
  | nil => simp at hc
  | cons a l ih =>
    simp only [List.map_cons, List.nodup_cons] at hn
    unfold findCluster at *
    rcases List.mem_cons.1 hc with rfl | hm
    · simp
    · have hne : a.idx ≠ c.idx := by
        intro e
        apply hn.1
        rw [e]
        exact List.mem_map_of_mem hm
      simp [hne, ih hn.2 hm]

theorem findCluster_eq_some_iff {cs : List Cluster} (hn : (cs.map (·.idx)).Nodup) {idx : Nat}
    {c : Cluster} : findCluster cs idx = some c ↔ c ∈ cs ∧ c.idx = idx := by
  constructor
  · intro h
    unfold findCluster at h
    have h1 := List.mem_of_find?_eq_some h
    have h2 := List.find?_some h
    exact ⟨h1, by simpa using h2⟩
  · rintro ⟨hm, rfl⟩
    exact findCluster_of_mem hn hm

theorem findCluster_perm (cs cs' : List Cluster) (hp : cs.Perm cs')
    (hn : (cs.map (·.idx)).Nodup) (idx : Nat) : findCluster cs' idx = findCluster cs idx := by
  have hn' : (cs'.map (·.idx)).Nodup := (hp.map _).nodup_iff.1 hn
  cases h : findCluster cs idx with
  | some c =>
    rw [findCluster_eq_some_iff hn] at h
    rw [findCluster_eq_some_iff hn']
    exact ⟨hp.mem_iff.1 h.1, h.2⟩
  | none =>
    unfold findCluster at *
    rw [List.find?_eq_none] at *
    intro x hx
    exact h x (hp.mem_iff.2 hx)

/-- 7. order independence of `resolve` -/
theorem resolve_perm (cs cs' : List Cluster) (hp : cs.Perm cs')
    (hn : (cs.map (·.idx)).Nodup) (info : Nat × Nat) : resolve cs' info = resolve cs info := by
  unfold resolve
  rw [findCluster_perm cs cs' hp hn]

theorem resolve_of_mem {cs : List Cluster} (hn : (cs.map (·.idx)).Nodup) {c : Cluster}
    (hc : c ∈ cs) {info : Nat × Nat} (hi : c.idx = info.1) {d : Bytes} {b : Bool}
    (hb : c.blobs[info.2]? = some d) (hk : c.compressed = b) : resolve cs info = some (d, b) := by
  unfold resolve
  rw [← hi, findCluster_of_mem hn hc]
  simp [hb, hk]

/-! ### one step of the creator, abstractly -/

theorem mem_allClusters {s : Creator} {c : Cluster} :
    c ∈ s.allClusters ↔ c ∈ s.closed ∨ s.raw = some c ∨ s.comp = some c := by
  simp [Creator.allClusters]

/-- `add` either opens a new cluster `⟨next, comp, [data]⟩` (the set of clusters grows by it) or
    appends the blob to one existing non-full cluster of the right kind. -/
theorem add_step (s : Creator) (it : Item)
    (hr : ∀ c, s.raw = some c → c.compressed = false)
    (hc : ∀ c, s.comp = some c → c.compressed = true) :
    ((s.add it).1.next = s.next + 1 ∧ (s.add it).1.infos = s.infos ++ [(s.next, 0)] ∧
      (s.add it).1.allClusters.Perm (s.allClusters ++ [⟨s.next, it.comp, [it.data]⟩])) ∨
    (∃ c l1 l2, s.allClusters = l1 ++ c :: l2 ∧
      (s.add it).1.allClusters = l1 ++ { c with blobs := c.blobs ++ [it.data] } :: l2 ∧
      c.isFull it.data.length = false ∧ c.compressed = it.comp ∧ (s.add it).1.next = s.next ∧
      (s.add it).1.infos = s.infos ++ [(c.idx, c.blobs.length)]) := by
  unfold Creator.add
  cases hcomp : it.comp
  · cases hs : s.raw with
    | none =>
      left
      simp [Creator.allClusters, hs]
      exact List.Perm.append_left _ (List.perm_append_singleton _ _).symm
    | some c =>
      by_cases hf : c.isFull it.data.length = true
      · left
        simp [Creator.allClusters, hs, hf]
        exact List.Perm.append_left _ ((List.perm_append_singleton _ _).symm.cons _)
      · right
        simp [Creator.allClusters, hs, hf]
        exact ⟨c, s.closed, s.comp.toList, rfl, rfl, by simpa using hf, hr c hs, rfl, rfl⟩
  · cases hs : s.comp with
    | none =>
      left
      simp [Creator.allClusters, hs]
    | some c =>
      by_cases hf : c.isFull it.data.length = true
      · left
        simp [Creator.allClusters, hs, hf]
        exact List.Perm.append_left _ List.perm_middle.symm
      · right
        simp [Creator.allClusters, hs, hf]
        exact ⟨c, s.closed ++ s.raw.toList, [], by simp, by simp, by simpa using hf, hc c hs, rfl, rfl⟩

theorem add_raw_kind (s : Creator) (it : Item)
    (hr : ∀ c, s.raw = some c → c.compressed = false) :
    ∀ c, (s.add it).1.raw = some c → c.compressed = false := by
  unfold Creator.add
  cases hcomp : it.comp
  · cases hs : s.raw with
    | none => simp
    | some c =>
      by_cases hf : c.isFull it.data.length = true
      · simp [hf]
      · simp [hf]
        exact hr c hs
  · cases hs : s.comp with
    | none => simpa using hr
    | some c =>
      by_cases hf : c.isFull it.data.length = true
      · simpa [hf] using hr
      · simpa [hf] using hr

theorem add_comp_kind (s : Creator) (it : Item)
    (hc : ∀ c, s.comp = some c → c.compressed = true) :
    ∀ c, (s.add it).1.comp = some c → c.compressed = true := by
  unfold Creator.add
  cases hcomp : it.comp
  · cases hs : s.raw with
    | none => simpa using hc
    | some c =>
      by_cases hf : c.isFull it.data.length = true
      · simpa [hf] using hc
      · simpa [hf] using hc
  · cases hs : s.comp with
    | none => simp
    | some c =>
      by_cases hf : c.isFull it.data.length = true
      · simp [hf]
      · simp [hf]
        exact hc c hs

/-! ### the invariant -/

/-- Invariant of the creator state after inserting `items`.  `located` is the order-free form of
    "every recorded address resolves to its item"; together with `ids_nodup` it yields the
    `resolve` statement (`CreatorInv.resolves`). -/
structure CreatorInv (s : Creator) (items : List Item) : Prop where
  infos_len : s.infos.length = items.length
  located : ∀ i, i < items.length → ∃ c ∈ s.allClusters,
    c.idx = (s.infos.getD i (0,0)).1 ∧
    c.blobs[(s.infos.getD i (0,0)).2]? = some (items.getD i ⟨[], false⟩).data ∧
    c.compressed = (items.getD i ⟨[], false⟩).comp
  ids_lt : ∀ c ∈ s.allClusters, c.idx < s.next
  ids_nodup : (s.allClusters.map (·.idx)).Nodup
  count : s.allClusters.length = s.next
  nonempty : ∀ c ∈ s.allClusters, 1 ≤ c.blobs.length ∧ c.blobs.length ≤ Consts.maxBlobsPerCluster
  raw_kind : ∀ c, s.raw = some c → c.compressed = false
  comp_kind : ∀ c, s.comp = some c → c.compressed = true
  blob_lt : ∀ info ∈ s.infos, info.2 < Consts.maxBlobsPerCluster

theorem CreatorInv.resolves {s : Creator} {items : List Item} (h : CreatorInv s items) :
    ∀ i (_ : i < items.length), resolve s.allClusters (s.infos.getD i (0,0)) =
      some ((items.getD i ⟨[], false⟩).data, (items.getD i ⟨[], false⟩).comp) := by
  intro i hi
  obtain ⟨c, hc, h1, h2, h3⟩ := h.located i hi
  exact resolve_of_mem h.ids_nodup hc h1 h2 h3

/-- 1. -/
theorem creatorInv_init : CreatorInv Creator.init [] := by
  constructor <;> simp [Creator.init, Creator.allClusters]

theorem not_full_lt {c : Cluster} {n : Nat} (hf : c.isFull n = false)
    (hle : c.blobs.length ≤ Consts.maxBlobsPerCluster) :
    c.blobs.length < Consts.maxBlobsPerCluster := by
  unfold Cluster.isFull at hf
  simp only [Bool.or_eq_false_iff, beq_eq_false_iff_ne] at hf
  have := hf.1
  omega

/-- 2. -/
theorem creatorInv_add (s : Creator) (items : List Item) (it : Item) (h : CreatorInv s items) :
    CreatorInv (s.add it).1 (items ++ [it]) := by
  have hrk := add_raw_kind s it h.raw_kind
  have hck := add_comp_kind s it h.comp_kind
  have hlen := h.infos_len
  rcases add_step s it h.raw_kind h.comp_kind with ⟨hnext, hinfos, hperm⟩ | ⟨c, l1, l2, hall, hall', hnf, hkind, hnext, hinfos⟩
  · -- a new cluster is opened
    have hmem : ∀ x, x ∈ (s.add it).1.allClusters ↔
        x ∈ s.allClusters ∨ x = ⟨s.next, it.comp, [it.data]⟩ := by
      intro x; rw [hperm.mem_iff]; simp
    refine ⟨?_, ?_, ?_, ?_, ?_, ?_, hrk, hck, ?_⟩
    · simp [hinfos, hlen]
    · intro i hi
      by_cases hlt : i < items.length
      · obtain ⟨c, hc, h1, h2, h3⟩ := h.located i hlt
        refine ⟨c, (hmem c).2 (Or.inl hc), ?_⟩
        rw [hinfos, getD_append_lt _ _ _ _ (by omega), getD_append_lt _ _ _ _ hlt]
        exact ⟨h1, h2, h3⟩
      · have hi' : i = items.length := by simp at hi; omega
        subst hi'
        refine ⟨⟨s.next, it.comp, [it.data]⟩, (hmem _).2 (Or.inr rfl), ?_⟩
        rw [hinfos, getD_concat_length _ _ _ _ hlen.symm, getD_concat_length _ _ _ _ rfl]
        simp
    · intro x hx
      rcases (hmem x).1 hx with hx | rfl
      · have := h.ids_lt x hx; omega
      · simp [hnext]
    · refine (hperm.map (·.idx)).nodup_iff.2 ?_
      rw [List.map_append, List.nodup_append]
      refine ⟨h.ids_nodup, by simp, ?_⟩
      intro a ha b hb
      simp at hb; subst hb
      obtain ⟨x, hx, rfl⟩ := List.mem_map.1 ha
      have := h.ids_lt x hx; omega
    · rw [hperm.length_eq, hnext]; simp [h.count]
    · intro x hx
      rcases (hmem x).1 hx with hx | rfl
      · exact h.nonempty x hx
      · simp [Consts.maxBlobsPerCluster]
    · intro info hinfo
      rw [hinfos] at hinfo
      rcases List.mem_append.1 hinfo with hi | hi
      · exact h.blob_lt info hi
      · simp at hi; subst hi; simp [Consts.maxBlobsPerCluster]
  · -- the blob is appended to the open cluster `c`
    have hmem : ∀ x, x ∈ s.allClusters ↔ x ∈ l1 ∨ x = c ∨ x ∈ l2 := by
      intro x; rw [hall]; simp
    have hmem' : ∀ x, x ∈ (s.add it).1.allClusters ↔
        x ∈ l1 ∨ x = { c with blobs := c.blobs ++ [it.data] } ∨ x ∈ l2 := by
      intro x; rw [hall']; simp
    have hcin : c ∈ s.allClusters := (hmem c).2 (Or.inr (Or.inl rfl))
    have hcne := h.nonempty c hcin
    have hclt := not_full_lt hnf hcne.2
    refine ⟨?_, ?_, ?_, ?_, ?_, ?_, hrk, hck, ?_⟩
    · simp [hinfos, hlen]
    · intro i hi
      by_cases hlt : i < items.length
      · obtain ⟨d, hd, h1, h2, h3⟩ := h.located i hlt
        rw [hinfos, getD_append_lt _ _ _ _ (by omega), getD_append_lt _ _ _ _ hlt]
        rcases (hmem d).1 hd with hd | rfl | hd
        · exact ⟨d, (hmem' d).2 (Or.inl hd), h1, h2, h3⟩
        · refine ⟨_, (hmem' _).2 (Or.inr (Or.inl rfl)), h1, ?_, h3⟩
          obtain ⟨hb, hv⟩ := List.getElem?_eq_some_iff.1 h2
          show (d.blobs ++ [it.data])[_]? = _
          rw [List.getElem?_append_left hb]
          exact h2
        · exact ⟨d, (hmem' d).2 (Or.inr (Or.inr hd)), h1, h2, h3⟩
      · have hi' : i = items.length := by simp at hi; omega
        subst hi'
        refine ⟨_, (hmem' _).2 (Or.inr (Or.inl rfl)), ?_⟩
        rw [hinfos, getD_concat_length _ _ _ _ hlen.symm, getD_concat_length _ _ _ _ rfl]
        simp [hkind]
    · intro x hx
      rw [hnext]
      rcases (hmem' x).1 hx with hx | rfl | hx
      · exact h.ids_lt x ((hmem x).2 (Or.inl hx))
      · exact h.ids_lt c hcin
      · exact h.ids_lt x ((hmem x).2 (Or.inr (Or.inr hx)))
    · have := h.ids_nodup
      rw [hall] at this
      rw [hall']
      simpa using this
    · rw [hall', hnext, ← h.count, hall]; simp
    · intro x hx
      rcases (hmem' x).1 hx with hx | rfl | hx
      · exact h.nonempty x ((hmem x).2 (Or.inl hx))
      · simp; omega
      · exact h.nonempty x ((hmem x).2 (Or.inr (Or.inr hx)))
    · intro info hinfo
      rw [hinfos] at hinfo
      rcases List.mem_append.1 hinfo with hi | hi
      · exact h.blob_lt info hi
      · simp at hi; subst hi; exact hclt

theorem addAll_nil (s : Creator) : s.addAll [] = s := rfl

theorem addAll_cons (s : Creator) (it : Item) (items : List Item) :
    s.addAll (it :: items) = (s.add it).1.addAll items := rfl

theorem creatorInv_addAll_gen (s : Creator) (pre items : List Item) (h : CreatorInv s pre) :
    CreatorInv (s.addAll items) (pre ++ items) := by
  induction items generalizing s pre with
  | nil => simpa [addAll_nil] using h
  | cons it items ih =>
    rw [addAll_cons]
    have := ih _ _ (creatorInv_add s pre it h)
    simpa using this

/-- 3. -/
theorem creatorInv_addAll (items : List Item) : CreatorInv (Creator.init.addAll items) items := by
  simpa using creatorInv_addAll_gen Creator.init [] items creatorInv_init

theorem CreatorInv.finalize_eq {s : Creator} {items : List Item} (h : CreatorInv s items) :
    s.finalize.1 = s.allClusters ∧ s.finalize.2 = s.infos := by
  have hr : ∀ c, s.raw = some c → c.blobs.isEmpty = false := by
    intro c hc
    have := (h.nonempty c (mem_allClusters.2 (Or.inr (Or.inl hc)))).1
    cases hb : c.blobs with
    | nil => simp [hb] at this
    | cons _ _ => rfl
  have hcm : ∀ c, s.comp = some c → c.blobs.isEmpty = false := by
    intro c hc
    have := (h.nonempty c (mem_allClusters.2 (Or.inr (Or.inr hc)))).1
    cases hb : c.blobs with
    | nil => simp [hb] at this
    | cons _ _ => rfl
  unfold Creator.finalize Creator.allClusters
  refine ⟨?_, rfl⟩
  cases h1 : s.raw with
  | none =>
    cases h2 : s.comp with
    | none => simp
    | some c2 => simp [hcm _ h2]
  | some c1 =>
    cases h2 : s.comp with
    | none => simp [hr _ h1]
    | some c2 => simp [hr _ h1, hcm _ h2]

/-- 4. finalize keeps everything -/
theorem finalize_eq_all (items : List Item) :
    ((Creator.init.addAll items).finalize).1 = (Creator.init.addAll items).allClusters ∧
    ((Creator.init.addAll items).finalize).2 = (Creator.init.addAll items).infos :=
  (creatorInv_addAll items).finalize_eq

/-- 5. structural round trip -/
theorem creator_roundtrip (items : List Item) :
    let r := (Creator.init.addAll items).finalize
    r.2.length = items.length ∧
    ∀ i (_ : i < items.length), resolve r.1 (r.2.getD i (0,0)) =
      some ((items.getD i ⟨[], false⟩).data, (items.getD i ⟨[], false⟩).comp) := by
  intro r
  have h := creatorInv_addAll items
  have he := h.finalize_eq
  show ((Creator.init.addAll items).finalize).2.length = _ ∧ ∀ i (_ : i < items.length),
    resolve ((Creator.init.addAll items).finalize).1
      (((Creator.init.addAll items).finalize).2.getD i (0,0)) = _
  rw [he.1, he.2]
  exact ⟨h.infos_len, h.resolves⟩

/-- 6. cluster ids are exactly `0 .. n-1`, each once; clusters are non-empty and bounded -/
theorem creator_ids (items : List Item) :
    let r := (Creator.init.addAll items).finalize
    (r.1.map (·.idx)).Nodup ∧ (∀ c ∈ r.1, c.idx < r.1.length) ∧
    (∀ c ∈ r.1, 1 ≤ c.blobs.length ∧ c.blobs.length ≤ Consts.maxBlobsPerCluster) ∧
    (∀ info ∈ r.2, info.2 < 4096) := by
  intro r
  have h := creatorInv_addAll items
  have he := h.finalize_eq
  show ((((Creator.init.addAll items).finalize).1.map (·.idx)).Nodup ∧
    (∀ c ∈ ((Creator.init.addAll items).finalize).1,
      c.idx < ((Creator.init.addAll items).finalize).1.length) ∧
    (∀ c ∈ ((Creator.init.addAll items).finalize).1,
      1 ≤ c.blobs.length ∧ c.blobs.length ≤ Consts.maxBlobsPerCluster) ∧
    (∀ info ∈ ((Creator.init.addAll items).finalize).2, info.2 < 4096))
  rw [he.1, he.2]
  refine ⟨h.ids_nodup, ?_, h.nonempty, ?_⟩
  · intro c hc; rw [h.count]; exact h.ids_lt c hc
  · intro info hi
    have := h.blob_lt info hi
    simp only [Consts.maxBlobsPerCluster] at this
    omega

/-- 8. round trip for any arrival order of the clusters in the file -/
theorem creator_roundtrip_any_arrival (items : List Item) (arrival : List Cluster)
    (hp : ((Creator.init.addAll items).finalize).1.Perm arrival) :
    ∀ i (_ : i < items.length),
      resolve arrival (((Creator.init.addAll items).finalize).2.getD i (0,0)) =
        some ((items.getD i ⟨[], false⟩).data, (items.getD i ⟨[], false⟩).comp) := by
  intro i hi
  rw [resolve_perm _ _ hp (creator_ids items).1]
  exact (creator_roundtrip items).2 i hi

/-- 9. -/
theorem add_infos_length (s : Creator) (it : Item) :
    (s.add it).1.infos.length = s.infos.length + 1 := by
  unfold Creator.add
  cases hcomp : it.comp
  · cases hs : s.raw with
    | none => simp
    | some c => by_cases hf : c.isFull it.data.length = true <;> simp [hf]
  · cases hs : s.comp with
    | none => simp
    | some c => by_cases hf : c.isFull it.data.length = true <;> simp [hf]

theorem addAll_infos_length (s : Creator) (items : List Item) :
    (s.addAll items).infos.length = s.infos.length + items.length := by
  induction items generalizing s with
  | nil => simp [addAll_nil]
  | cons it items ih =>
    rw [addAll_cons, ih, add_infos_length]
    simp; omega

-- NOT PROVED: (nothing; items 1-9 are all proved as stated)

end Jubako
