import JubakoModel.Model.ContentSpec

namespace Jubako
set_option maxRecDepth 8000

/-! ### `findCluster` / `resolve` on lists with distinct ids -/

theorem findCluster_of_mem {cs : List Cluster} (hn : (cs.map (·.idx)).Nodup) {c : Cluster}
    (hc : c ∈ cs) : findCluster cs c.idx = some c := by
  induction cs with
  | nil => simp at hc
  | cons a l ih =>
    simp only [List.map_cons, List.nodup_cons] at hn
    unfold findCluster at *
    rcases List.mem_cons.1 hc with rfl | hm
    · simp
    · have hne : a.idx ≠ c.idx := by
        intro e
        apply hn.1
        rw [e]
        exact List.mem_map_of_mem hm
      simp [List.find?_cons, hne, ih hn.2 hm]

theorem findCluster_eq_some_iff {cs : List Cluster} (hn : (cs.map (·.idx)).Nodup) {idx : Nat}
    {c : Cluster} : findCluster cs idx = some c ↔ c ∈ cs ∧ c.idx = idx := by
  constructor
  · intro h
    unfold findCluster at h
    have h1 := List.mem_of_find?_eq_some h
    have h2 := List.find?_some h
    exact ⟨h1, by simpa using h2⟩
  · rintro ⟨hm, rfl⟩
    exact findCluster_of_mem hn hm

theorem findCluster_perm (cs cs' : List Cluster) (hp : cs.Perm cs')
    (hn : (cs.map (·.idx)).Nodup) (idx : Nat) : findCluster cs' idx = findCluster cs idx := by
  have hn' : (cs'.map (·.idx)).Nodup := (hp.map _).nodup_iff.1 hn
  cases h : findCluster cs idx with
  | some c =>
    rw [findCluster_eq_some_iff hn] at h
    rw [findCluster_eq_some_iff hn']
    exact ⟨hp.mem_iff.1 h.1, h.2⟩
  | none =>
    unfold findCluster at *
    rw [List.find?_eq_none] at *
    intro x hx
    exact h x (hp.mem_iff.2 hx)

/-- 7. order independence of `resolve` -/
theorem resolve_perm (cs cs' : List Cluster) (hp : cs.Perm cs')
    (hn : (cs.map (·.idx)).Nodup) (info : Nat × Nat) : resolve cs' info = resolve cs info := by
  unfold resolve
  rw [findCluster_perm cs cs' hp hn]

theorem resolve_of_mem {cs : List Cluster} (hn : (cs.map (·.idx)).Nodup) {c : Cluster}
    (hc : c ∈ cs) {info : Nat × Nat} (hi : c.idx = info.1) {d : Bytes} {b : Bool}
    (hb : c.blobs[info.2]? = some d) (hk : c.compressed = b) : resolve cs info = some (d, b) := by
  unfold resolve
  rw [← hi, findCluster_of_mem hn hc]
  simp [hb, hk]

/-! ### one step of the creator, abstractly -/

theorem mem_allClusters {s : Creator} {c : Cluster} :
    c ∈ s.allClusters ↔ c ∈ s.closed ∨ s.raw = some c ∨ s.comp = some c := by
  simp [Creator.allClusters, or_assoc]

/-- `add` either opens a new cluster `⟨next, comp, [data]⟩` (the set of clusters grows by it) or
    appends the blob to one existing non-full cluster of the right kind. -/
theorem add_step (s : Creator) (it : Item)
    (hr : ∀ c, s.raw = some c → c.compressed = false)
    (hc : ∀ c, s.comp = some c → c.compressed = true) :
    ((s.add it).1.next = s.next + 1 ∧ (s.add it).1.infos = s.infos ++ [(s.next, 0)] ∧
      (s.add it).1.allClusters.Perm (s.allClusters ++ [⟨s.next, it.comp, [it.data]⟩])) ∨
    (∃ c l1 l2, s.allClusters = l1 ++ c :: l2 ∧
      (s.add it).1.allClusters = l1 ++ { c with blobs := c.blobs ++ [it.data] } :: l2 ∧
      c.isFull it.data.length = false ∧ c.compressed = it.comp ∧ (s.add it).1.next = s.next ∧
      (s.add it).1.infos = s.infos ++ [(c.idx, c.blobs.length)]) := by
  unfold Creator.add
  cases hcomp : it.comp
  · cases hs : s.raw with
    | none =>
      left
      simp [Creator.allClusters, hs]
      sorry
    | some c =>
      by_cases hf : c.isFull it.data.length = true
      · left
        simp [Creator.allClusters, hs, hf]
        sorry
      · right
        simp [Creator.allClusters, hs, hf]
        sorry
  · sorry

end Jubako
