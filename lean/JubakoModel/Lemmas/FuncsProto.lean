/-
The shape of the accesses to the shared file extracted from `bases/io/file.rs` on every run
(Generated/FuncsProto.lean) is the shape the protocol theorem is about.
-/
import JubakoModel.Model.FileCursor
import JubakoModel.Generated.FuncsProto
import JubakoModel.Lemmas.FileCursor

namespace Jubako

/-- `FileSource::read`, `FileSource::read_exact` and the small-block arm of `FileSource::cut` each take
    the lock once, seek to the offset they were asked for, read, and release the lock at the end of the
    block: the shape `atomicAccess` of Model/FileCursor.lean. -/
theorem gen_fileSourceProto :
    Generated.fileSourceReadProto = atomicAccess ∧ Generated.fileSourceReadExactProto = atomicAccess ∧
    Generated.fileSourceCutSmallProto = atomicAccess := by
  refine ⟨?_, ?_, ?_⟩ <;> decide

end Jubako
