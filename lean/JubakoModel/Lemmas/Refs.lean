/-
Helper lemmas for C15: `finalize`'s step sequence leaves the cells equal to the final positions;
file-level consequences (Model/Refs.lean `DirRefIn`).
-/
import JubakoModel.Model.Refs
import JubakoModel.Lemmas.DirFile

namespace Jubako

/-- invariant: the cells hold the positions of the current order -/
def CellsOk (s : FinSt) : Prop := ∀ e, s.cells e = s.order.idxOf e

theorem cellsOk_after_setIdx (s : FinSt) : CellsOk (s.step .setIdx) := by
  intro e; rfl

/-- running `finalize`'s step sequence, whatever each sort pass returns, leaves the cells equal to
    the positions in the final order, and the final order is the result of the last pass (or the
    insertion order when the store is not sorted) -/
theorem finalize_cells (order0 : List Nat) (cells0 : Cells) (passes : List (List Nat)) :
    let s := (FinSt.mk order0 cells0).run (finalizeSteps passes)
    CellsOk s ∧ s.order = passes.getLastD order0 := by
  simp only [FinSt.run, finalizeSteps, List.foldl_cons]
  have key : ∀ (passes : List (List Nat)) (s : FinSt), CellsOk s →
      CellsOk ((passes.map (fun p => [FinStep.sort p, FinStep.setIdx])).flatten.foldl FinSt.step s) ∧
      ((passes.map (fun p => [FinStep.sort p, FinStep.setIdx])).flatten.foldl FinSt.step s).order
        = passes.getLastD s.order := by
    intro passes
    induction passes with
    | nil => intro s h; exact ⟨h, rfl⟩
    | cons p rest ih =>
      intro s _
      simp only [List.map_cons, List.flatten_cons, List.cons_append, List.nil_append, List.foldl_cons]
      have h1 : CellsOk ((s.step (.sort p)).step .setIdx) := cellsOk_after_setIdx _
      obtain ⟨a, b⟩ := ih ((s.step (.sort p)).step .setIdx) h1
      refine ⟨a, ?_⟩
      rw [b]
      cases rest with
      | nil => rfl
      | cons q qs => simp [List.getLastD, FinSt.step]
  exact key passes ((FinSt.mk order0 cells0).step .setIdx) (cellsOk_after_setIdx _)


/-- the state after `finalize`, in closed form -/
theorem finalize_state (n : Nat) (passes : List (List Nat)) :
    let s := (FinSt.mk (List.range n) (fun _ => 0)).run (finalizeSteps passes)
    s.order = passes.getLastD (List.range n) ∧ s.cells = fun e => (passes.getLastD (List.range n)).idxOf e := by
  obtain ⟨h1, h2⟩ := finalize_cells (List.range n) (fun _ => 0) passes
  simp only at h1 h2 ⊢
  refine ⟨h2, ?_⟩
  funext e
  rw [h1 e, h2]

theorem filterMap_all_some {α β} (g : α → Option β) (l : List α) (h : ∀ a ∈ l, (g a).isSome = true) :
    (l.filterMap g).length = l.length ∧ ∀ i : Nat, (l.filterMap g)[i]? = (l[i]?).bind g := by
  induction l with
  | nil => simp
  | cons a l ih =>
    obtain ⟨b, hb⟩ := Option.isSome_iff_exists.mp (h a List.mem_cons_self)
    obtain ⟨ih1, ih2⟩ := ih (fun x hx => h x (List.mem_cons_of_mem _ hx))
    rw [List.filterMap_cons_some hb]
    refine ⟨by simp [ih1], ?_⟩
    intro i
    cases i with
    | zero => simp [hb]
    | succ i => simpa using ih2 i

/-- the final order of a store: the result of the last sort pass, or the insertion order -/
def DirRefIn.finalOrder (d : DirRefIn) (passes : List (List Nat)) : List Nat :=
  passes.getLastD (List.range d.entries.length)

theorem DirRefIn.finalize_entries (d : DirRefIn) (passes : List (List Nat))
    (hperm : (d.finalOrder passes).Perm (List.range d.entries.length)) :
    (d.finalize passes).entries.length = d.entries.length ∧
    ∀ (e : Nat) (he : e < d.entries.length),
      (d.finalOrder passes).idxOf e < d.entries.length ∧
      (d.finalize passes).entries[(d.finalOrder passes).idxOf e]? =
        some (d.entries[e].resolve (fun t => (d.finalOrder passes).idxOf t)) := by
  obtain ⟨ho, hc⟩ := finalize_state d.entries.length passes
  have hall : ∀ id ∈ d.finalOrder passes,
      ((d.entries[id]?).map (EntryRefIn.resolve fun t => (d.finalOrder passes).idxOf t)).isSome = true := by
    intro id hid
    have : id ∈ List.range d.entries.length := hperm.mem_iff.mp hid
    have hlt : id < d.entries.length := List.mem_range.mp this
    simp [List.getElem?_eq_getElem hlt]
  obtain ⟨hlen, hget⟩ := filterMap_all_some _ _ hall
  have hentries : (d.finalize passes).entries = (d.finalOrder passes).filterMap
      (fun id => (d.entries[id]?).map (EntryRefIn.resolve fun t => (d.finalOrder passes).idxOf t)) := by
    simp only [DirRefIn.finalize, DirRefIn.finalOrder, ho, hc]
  constructor
  · rw [hentries, hlen, hperm.length_eq, List.length_range]
  · intro e he
    have hmem : e ∈ d.finalOrder passes := hperm.mem_iff.mpr (List.mem_range.mpr he)
    have hidx : (d.finalOrder passes).idxOf e < (d.finalOrder passes).length := List.idxOf_lt_length_iff.mpr hmem
    refine ⟨by rw [hperm.length_eq, List.length_range] at hidx; exact hidx, ?_⟩
    rw [hentries, hget, List.getElem?_eq_getElem hidx, List.getElem_idxOf hidx]
    simp [List.getElem?_eq_getElem he]

theorem DirRefIn.boundOf_eq (d : DirRefIn) (passes : List (List Nat)) (e : Nat) :
    d.boundOf passes e = (d.finalOrder passes).idxOf e := by
  obtain ⟨_, hc⟩ := finalize_state d.entries.length passes
  simp only [DirRefIn.boundOf, hc, DirRefIn.finalOrder]

end Jubako
