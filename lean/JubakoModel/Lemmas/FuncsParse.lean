/-
The reader's property-header parser (`reader/directory_pack/raw_layout.rs`: `RawProperty::parse`, with
`PropType::try_from` and `ByteSize::try_from`) translated from the source on every run
(Generated/FuncsParse.lean) is `RawProp.decode` of the reader model: same value, same unread rest, same
kind of failure (format error / panic) on every byte string.
-/
import JubakoModel.Model.DirLayout
import JubakoModel.Model.ContentPack
import JubakoModel.Generated.FuncsParse
import JubakoModel.Lemmas.OutcomeLemmas
import JubakoModel.Lemmas.Codec
import JubakoModel.Lemmas.Slice

set_option linter.unusedSimpArgs false

namespace Jubako

/-- the source-side value (`RawProperty` with `enum PropertyKind`) of a property of the reader model -/
def RawProp.toSrcRaw (p : RawProp) : Nat × Generated.SrcPropertyKind × Bytes :=
  (p.size,
   (match p.kind with
    | .padding => .padding
    | .content ps cs d => .contentAddress ps cs d
    | .uint sz d => .unsignedInt sz d
    | .sint sz d => .signedInt sz d
    | .array l f dep dflt => .array l f dep dflt
    | .variantId => .variantId
    | .deportedInt signed sz store id =>
      let i : Generated.SrcDeportedDefault := match id with | .inl v => .value v | .inr k => .keySize k
      if signed then .deportedSignedInt sz store i else .deportedUnsignedInt sz store i),
   p.name)

theorem bits_info : ∀ ty < 16, ∀ d < 16, (16 * ty + d) &&& 240 = 16 * ty ∧ (16 * ty + d) &&& 15 = d := by decide

theorem bits_d : ∀ d < 16, ((d &&& 4) >>> 2) = (d / 4) % 2 ∧ (d &&& 3) = d % 4 ∧ ((d &&& 8) ≠ 0 ↔ d / 8 = 1) ∧ (d &&& 7) = d % 8 := by
  decide

theorem bits_c (c : Nat) : c &&& 31 = c % 32 ∧ c >>> 5 = c / 32 ∧ c &&& 7 = c % 8 := by
  refine ⟨?_, ?_, ?_⟩
  · exact Nat.and_two_pow_sub_one_eq_mod c 5
  · exact Nat.shiftRight_eq_div_pow c 5
  · exact Nat.and_two_pow_sub_one_eq_mod c 3

theorem byteSize_ok (x : Nat) (h1 : 1 ≤ x) (h8 : x ≤ 8) : Generated.unwrapped (Generated.byteSizeTryFrom x) = .ok x := by
  have : x = 1 ∨ x = 2 ∨ x = 3 ∨ x = 4 ∨ x = 5 ∨ x = 6 ∨ x = 7 ∨ x = 8 := by omega
  rcases this with h | h | h | h | h | h | h | h <;> subst h <;> rfl

theorem takeLE_one (b : UInt8) (rest : Bytes) : takeLE (b :: rest) 1 = .ok (b.toNat, rest) := by
  simp [takeLE, leNat]

theorem takeLE_one_lt (bs : Bytes) (a : Nat × Bytes) (h : takeLE bs 1 = .ok a) : a.1 < 256 := by
  unfold takeLE at h
  split at h
  · cases bs with
    | nil => simp at *
    | cons b r =>
      simp only [Outcome.ok.injEq] at h
      subst h
      simp [leNat]
      exact b.toNat_lt
  · simp at h

/-- **`RawProperty::parse` translated on every run is `RawProp.decode` of the reader model**, on every byte
    string: the same property (size in the entry, kind with all its fields, name), the same unread rest, and
    the same kind of failure — a format error where bytes are missing or the type nibble is unknown, a panic
    exactly at `todo!()` (type `0b0100`) and at `array_len_size.unwrap()` (a default array without length
    field). -/
theorem gen_rawPropertyParse (bs : Bytes) :
    (Generated.rawPropertyParse bs).Same ((RawProp.decode bs).map' (fun x => (x.1.toSrcRaw, x.2))) := by
  cases bs with
  | nil => rfl
  | cons info rest =>
    have hlt := info.toNat_lt
    obtain ⟨ty, d, hty, hd, hn⟩ : ∃ ty d, ty < 16 ∧ d < 16 ∧ info.toNat = 16 * ty + d :=
      ⟨info.toNat / 16, info.toNat % 16, by omega, by omega, by omega⟩
    have hdiv : info.toNat / 16 = ty := by omega
    have hmod : info.toNat % 16 = d := by omega
    obtain ⟨b1, b2⟩ := bits_info ty hty d hd
    obtain ⟨d1, d2, d3, d4⟩ := bits_d d hd
    rw [← hn] at b1 b2
    have m16 : ∀ x, x < 17 → x % 65536 = x := fun x hx => Nat.mod_eq_of_lt (by omega)
    unfold Generated.rawPropertyParse RawProp.decode
    simp only [takeLE_one, Outcome.bind_ok, hdiv, hmod, b1, b2, bind, pure]
    have hc : ty = 0 ∨ ty = 1 ∨ ty = 2 ∨ ty = 3 ∨ ty = 4 ∨ ty = 5 ∨ ty = 6 ∨ ty = 7 ∨ ty = 8 ∨ ty = 9 ∨ ty = 10 ∨
        ty = 11 ∨ ty = 12 ∨ ty = 13 ∨ ty = 14 ∨ ty = 15 := by omega
    rcases hc with h | h | h | h | h | h | h | h | h | h | h | h | h | h | h | h <;> subst h
    · have e : Generated.propTypeTryFrom (16 * 0) = .ok .padding := rfl
      simp [e, RawProp.toSrcRaw, m16 d (by omega), Outcome.Same] <;> same_close
    · have e : Generated.propTypeTryFrom (16 * 1) = .ok .contentAddress := rfl
      have s1 := byteSize_ok (d / 4 % 2 + 1) (by omega) (by omega)
      have s2 := byteSize_ok (d % 4 + 1) (by omega) (by omega)
      simp only [e, Outcome.bind_ok, d1, d2, m16 (d % 4) (by omega), s1, s2]
      by_cases h8 : d / 8 = 1
      · have h8' : d &&& 8 ≠ 0 := d3.mpr h8
        simp [h8, h8', Outcome.map'_bind, RawProp.toSrcRaw, Outcome.Same] <;> same_close
      · have h8' : ¬ (d &&& 8 ≠ 0) := fun h => h8 (d3.mp h)
        simp [h8, h8', Outcome.map'_bind, RawProp.toSrcRaw, m16 (d / 4 % 2 + 1) (by omega)]
    · have e : Generated.propTypeTryFrom (16 * 2) = .ok .unsignedInt := rfl
      have s1 := byteSize_ok (d % 8 + 1) (by omega) (by omega)
      simp only [e, Outcome.bind_ok, d4, s1]
      by_cases h8 : d / 8 = 1
      · have h8' : d &&& 8 ≠ 0 := d3.mpr h8
        simp [h8, h8', Outcome.map'_bind, RawProp.toSrcRaw, Outcome.Same] <;> same_close
      · have h8' : ¬ (d &&& 8 ≠ 0) := fun h => h8 (d3.mp h)
        simp [h8, h8', Outcome.map'_bind, RawProp.toSrcRaw, m16 (d % 8 + 1) (by omega)] <;> same_close
    · have e : Generated.propTypeTryFrom (16 * 3) = .ok .signedInt := rfl
      have s1 := byteSize_ok (d % 8 + 1) (by omega) (by omega)
      simp only [e, Outcome.bind_ok, d4, s1]
      by_cases h8 : d / 8 = 1
      · have h8' : d &&& 8 ≠ 0 := d3.mpr h8
        simp [h8, h8', Outcome.map'_bind, RawProp.toSrcRaw, Generated.takeLEs, Outcome.bind_assoc'] <;> same_close
      · have h8' : ¬ (d &&& 8 ≠ 0) := fun h => h8 (d3.mp h)
        simp [h8, h8', Outcome.map'_bind, RawProp.toSrcRaw, m16 (d % 8 + 1) (by omega)]
    · have e : Generated.propTypeTryFrom (16 * 4) = .panic "" := rfl
      simp [e, Outcome.Same, Outcome.erase]
    · have e : Generated.propTypeTryFrom (16 * 5) = .ok .array := rfl
      simp only [e, Outcome.bind_ok, d2]
      by_cases h4 : d % 4 = 0
      · by_cases h8 : d / 8 = 1
        · have h8' : d &&& 8 ≠ 0 := d3.mpr h8
          simp only [h4, h8, h8', Outcome.map'_bind, ne_eq, not_true_eq_false, not_false_eq_true, if_true, if_false, decide_true,
            decide_false, Nat.reduceEqDiff, or_self]
          apply Outcome.same_bind'
          intro a ha
          have hl := takeLE_one_lt _ _ ha
          obtain ⟨c1, c2, c3⟩ := bits_c a.1
          by_cases hk : a.1 / 32 = 0
          · simp [c1, c2, hk, RawProp.toSrcRaw, Outcome.map'_bind, Generated.unwrapOpt] <;> same_close
          · have sk := byteSize_ok (a.1 / 32) (by omega) (by omega)
            simp [c1, c2, hk, sk, RawProp.toSrcRaw, Outcome.map'_bind, Generated.unwrapOpt, Outcome.bind_assoc'] <;> same_close
        · have h8' : ¬ (d &&& 8 ≠ 0) := fun h => h8 (d3.mp h)
          simp only [h4, h8, h8', Outcome.map'_bind, ne_eq, not_true_eq_false, not_false_eq_true, if_true, if_false, decide_true,
            decide_false, Nat.reduceEqDiff, or_self]
          apply Outcome.same_bind'
          intro a ha
          have hl := takeLE_one_lt _ _ ha
          obtain ⟨c1, c2, c3⟩ := bits_c a.1
          have m1 : a.1 % 32 % 65536 = a.1 % 32 := Nat.mod_eq_of_lt (by omega)
          have m2 : a.1 / 32 % 65536 = a.1 / 32 := Nat.mod_eq_of_lt (by omega)
          by_cases hk : a.1 / 32 = 0
          · simp [c1, c2, hk, m1, RawProp.toSrcRaw, Outcome.map'_bind, Generated.unwrapOpt, h4] <;> same_close
          · have sk := byteSize_ok (a.1 / 32) (by omega) (by omega)
            simp [c1, c2, hk, sk, m1, m2, RawProp.toSrcRaw, Outcome.map'_bind, Generated.unwrapOpt, Outcome.bind_assoc', h4] <;> same_close
      · have s4 := byteSize_ok (d % 4) (by omega) (by omega)
        have m4 : d % 4 % 65536 = d % 4 := Nat.mod_eq_of_lt (by omega)
        by_cases h8 : d / 8 = 1
        · have h8' : d &&& 8 ≠ 0 := d3.mpr h8
          simp only [h4, h8, h8', s4, Outcome.bind_ok, Outcome.map'_bind, ne_eq, not_true_eq_false, not_false_eq_true, if_true, if_false, decide_true,
            decide_false, Nat.reduceEqDiff, or_self]
          apply Outcome.same_bind'
          intro a ha
          have hl := takeLE_one_lt _ _ ha
          obtain ⟨c1, c2, c3⟩ := bits_c a.1
          by_cases hk : a.1 / 32 = 0
          · simp [c1, c2, hk, RawProp.toSrcRaw, Outcome.map'_bind, Generated.unwrapOpt] <;> same_close
          · have sk := byteSize_ok (a.1 / 32) (by omega) (by omega)
            simp [c1, c2, hk, sk, RawProp.toSrcRaw, Outcome.map'_bind, Generated.unwrapOpt, Outcome.bind_assoc'] <;> same_close
        · have h8' : ¬ (d &&& 8 ≠ 0) := fun h => h8 (d3.mp h)
          simp only [h4, h8, h8', s4, Outcome.bind_ok, Outcome.map'_bind, ne_eq, not_true_eq_false, not_false_eq_true, if_true, if_false, decide_true,
            decide_false, Nat.reduceEqDiff, or_self]
          apply Outcome.same_bind'
          intro a ha
          have hl := takeLE_one_lt _ _ ha
          obtain ⟨c1, c2, c3⟩ := bits_c a.1
          have m1 : a.1 % 32 % 65536 = a.1 % 32 := Nat.mod_eq_of_lt (by omega)
          have m2 : a.1 / 32 % 65536 = a.1 / 32 := Nat.mod_eq_of_lt (by omega)
          by_cases hk : a.1 / 32 = 0
          · simp [c1, c2, hk, m1, m4, RawProp.toSrcRaw, Outcome.map'_bind, Generated.unwrapOpt, h4] <;> same_close
          · have sk := byteSize_ok (a.1 / 32) (by omega) (by omega)
            simp [c1, c2, hk, sk, m1, m2, m4, RawProp.toSrcRaw, Outcome.map'_bind, Generated.unwrapOpt, Outcome.bind_assoc', h4] <;> same_close
    · have e : Generated.propTypeTryFrom (16 * 6) = .err .format := rfl
      simp [e] <;> same_close
    · have e : Generated.propTypeTryFrom (16 * 7) = .err .format := rfl
      simp [e] <;> same_close
    · have e : Generated.propTypeTryFrom (16 * 8) = .ok .variantId := rfl
      simp [e, RawProp.toSrcRaw, Outcome.map'_bind] <;> same_close
    · have e : Generated.propTypeTryFrom (16 * 9) = .err .format := rfl
      simp [e] <;> same_close
    · have e : Generated.propTypeTryFrom (16 * 10) = .ok .deportedUnsignedInt := rfl
      have s1 := byteSize_ok (d % 8 + 1) (by omega) (by omega)
      simp only [e, Outcome.bind_ok, d4, s1, Outcome.map'_bind]
      simp only [Nat.reduceEqDiff, if_false, or_self, or_true, true_or, if_true, Outcome.map'_bind]
      apply Outcome.same_bind'
      intro a ha
      have hl := takeLE_one_lt _ _ ha
      obtain ⟨c1, c2, c3⟩ := bits_c a.1
      have sk := byteSize_ok (a.1 % 8 + 1) (by omega) (by omega)
      have mk : (a.1 % 8 + 1) % 65536 = a.1 % 8 + 1 := Nat.mod_eq_of_lt (by omega)
      by_cases h8 : d / 8 = 1
      · have h8' : d &&& 8 ≠ 0 := d3.mpr h8
        simp [c3, sk, h8, h8', RawProp.toSrcRaw, Outcome.map'_bind] <;> same_close
      · have h8' : ¬ (d &&& 8 ≠ 0) := fun h => h8 (d3.mp h)
        simp [c3, sk, mk, h8, h8', RawProp.toSrcRaw, Outcome.map'_bind] <;> same_close
    · have e : Generated.propTypeTryFrom (16 * 11) = .ok .deportedSignedInt := rfl
      have s1 := byteSize_ok (d % 8 + 1) (by omega) (by omega)
      simp only [e, Outcome.bind_ok, d4, s1, Outcome.map'_bind]
      simp only [Nat.reduceEqDiff, if_false, or_self, or_true, true_or, if_true, Outcome.map'_bind]
      apply Outcome.same_bind'
      intro a ha
      have hl := takeLE_one_lt _ _ ha
      obtain ⟨c1, c2, c3⟩ := bits_c a.1
      have sk := byteSize_ok (a.1 % 8 + 1) (by omega) (by omega)
      have mk : (a.1 % 8 + 1) % 65536 = a.1 % 8 + 1 := Nat.mod_eq_of_lt (by omega)
      by_cases h8 : d / 8 = 1
      · have h8' : d &&& 8 ≠ 0 := d3.mpr h8
        simp [c3, sk, h8, h8', RawProp.toSrcRaw, Outcome.map'_bind] <;> same_close
      · have h8' : ¬ (d &&& 8 ≠ 0) := fun h => h8 (d3.mp h)
        simp [c3, sk, mk, h8, h8', RawProp.toSrcRaw, Outcome.map'_bind] <;> same_close
    · have e : Generated.propTypeTryFrom (16 * 12) = .err .format := rfl
      simp [e] <;> same_close
    · have e : Generated.propTypeTryFrom (16 * 13) = .err .format := rfl
      simp [e] <;> same_close
    · have e : Generated.propTypeTryFrom (16 * 14) = .err .format := rfl
      simp [e] <;> same_close
    · have e : Generated.propTypeTryFrom (16 * 15) = .err .format := rfl
      simp [e] <;> same_close

/-! ### `ContentPack::get_content` -/

/-- the three lookups of `get_content` in the reader model: the content-info table entry, the cluster
    (tail parsed, start of its payload), a blob of the cluster (decompressed first when needed) -/
def modelInfoAt (f : Bytes) (ch : ContentHeader) (i : Nat) : Outcome (Nat × Nat) := do
  let infoTable ← readBlock f ch.contentPtrPos (4 * ch.contentCount)
  .ok (contentInfoDecode (slice infoTable (4 * i) 4))

def modelGetCluster (f : Bytes) (ch : ContentHeader) (cl : Nat) : Outcome (ClusterTail × Nat) := do
  let ptrTable ← readBlock f ch.clusterPtrPos (8 * ch.clusterCount)
  clusterAt f (sizedOffsetDecode (slice ptrTable (8 * cl) 8))

def modelGetBytes (decompress : Nat → Bytes → Option Bytes) (f : Bytes) (c : ClusterTail × Nat) (blob : Nat) : Outcome Bytes :=
  let payload := slice f c.2 c.1.rawSize
  if c.1.comp = 0 then blobOf c.1 payload blob
  else
    match decompress c.1.comp payload with
    | none => .err .io
    | some plain => blobOf c.1 (plain.take c.1.dataSize) blob

/-- **The order of checks and lookups of `ContentPack::get_content` translated on every run is the reader
    model's**: an index beyond the content count answers "no such content" before anything is read; the
    content-info entry is read; a cluster index beyond the cluster count is a format error; then the cluster is
    located and parsed, then the blob is cut out of it. -/
theorem gen_contentGet (decompress : Nat → Bytes → Option Bytes) (f : Bytes) (i : Nat) :
    contentGet decompress f i =
      (contentOpen f).bind fun o =>
        Generated.contentPackGetContent o.2.contentCount o.2.clusterCount (modelInfoAt f o.2) (modelGetCluster f o.2)
          (modelGetBytes decompress f) i := by
  unfold contentGet Generated.contentPackGetContent modelInfoAt modelGetCluster modelGetBytes
  simp only [bind, pure]
  cases contentOpen f with
  | ok o =>
    obtain ⟨a, ch⟩ := o
    simp only [Outcome.bind_ok, Generated.idxIsValid, decide_eq_true_eq, Nat.not_lt, ge_iff_le]
    by_cases h : ch.contentCount ≤ i
    · simp [h]
    · simp only [h, if_false]
      simp only [Outcome.bind_assoc', Outcome.bind_ok]
      congr 1; funext infoTable
      split
      · rfl
      · congr 1; funext ptrTable
        congr 1; funext r2
        split
        · rfl
        · rename_i hc
          cases hd : decompress r2.1.comp (slice f r2.2 r2.1.rawSize) <;> simp [hd]
  | _ => rfl

/-! ### `RawLayout::parse` -/

theorem rawLayout_loop (k : Nat) : ∀ (bs : Bytes) (acc : List RawProp),
    ((Generated.rawLayoutParse_loop bs (acc.reverse.map RawProp.toSrcRaw) k).map' (·.1)).Same
      ((rawLayoutDecode.go k bs acc).map' (List.map RawProp.toSrcRaw)) := by
  induction k with
  | zero => intro bs acc; simp [Generated.rawLayoutParse_loop, rawLayoutDecode.go]
  | succ k ih =>
    intro bs acc
    unfold Generated.rawLayoutParse_loop rawLayoutDecode.go
    simp only [bind]
    rcases Outcome.same_cases _ _ (gen_rawPropertyParse bs) with ⟨v, h1, h2⟩ | ⟨e, h1, h2⟩ | ⟨s, t, h1, h2⟩ | ⟨h1, h2⟩ | ⟨h1, h2⟩
    · cases hd : RawProp.decode bs with
      | ok x =>
        rw [hd] at h2
        simp only [Outcome.map'_ok, Outcome.ok.injEq] at h2
        subst h2
        rw [h1]
        simp only [Outcome.bind_ok]
        have := ih x.2 (x.1 :: acc)
        simpa using this
      | _ => rw [hd] at h2; simp [Outcome.map'] at h2
    · cases hd : RawProp.decode bs with
      | err k2 =>
        rw [hd] at h2
        simp only [Outcome.map'_err, Outcome.err.injEq] at h2
        subst h2
        rw [h1]; rfl
      | _ => rw [hd] at h2; simp [Outcome.map'] at h2
    · cases hd : RawProp.decode bs with
      | panic s2 => rw [h1]; rfl
      | _ => rw [hd] at h2; simp [Outcome.map'] at h2
    · cases hd : RawProp.decode bs with
      | hang => rw [h1]; rfl
      | _ => rw [hd] at h2; simp [Outcome.map'] at h2
    · cases hd : RawProp.decode bs with
      | fault => rw [h1]; rfl
      | _ => rw [hd] at h2; simp [Outcome.map'] at h2

/-- **`RawLayout::parse` translated on every run (count byte, then that many properties, each by the translated
    `RawProperty::parse`) is `rawLayoutDecode` of the reader model** on every byte string — including
    termination of the loop, which recurses on the count. -/
theorem gen_rawLayoutParse (bs : Bytes) :
    ((Generated.rawLayoutParse bs).map' (·.1)).Same ((rawLayoutDecode bs).map' (List.map RawProp.toSrcRaw)) := by
  cases bs with
  | nil => rfl
  | cons n rest =>
    unfold Generated.rawLayoutParse rawLayoutDecode
    simp only [takeLE_one, Outcome.bind_ok]
    have := rawLayout_loop n.toNat rest []
    simp only [List.reverse_nil, List.map_nil] at this
    cases h : Generated.rawLayoutParse_loop rest [] n.toNat <;> simp_all <;> exact this

/-! ### the value of one property of an entry (`PropertyBuilderTrait::create`) -/

/-- **Unsigned integers**: `IntProperty::create` translated on every run, for a property stored in the entry
    or defaulted, is `decodeProp` of the reader model — whatever the width (the source has special cases for
    1, 2, 4 and 8 bytes). -/
theorem gen_intPropertyCreate (stores : Nat → Outcome (ValueStoreTail × Bytes)) (e : Bytes) (off sz : Nat) (nm : Bytes)
    (dflt : Option Nat) (g : Nat → Nat → Option Nat → Outcome Bytes) :
    (Generated.intPropertyCreate e off sz dflt none g).map' Val.u = decodeProp stores e ⟨off, nm, .uint sz dflt⟩ := by
  unfold Generated.intPropertyCreate decodeProp
  cases dflt with
  | some d => rfl
  | none =>
    simp only [bind]
    split <;> (cases h : entryLE e off _ <;> first | rfl | (simp [h]; done) | (simp [h] <;> rfl))

/-- **Signed integers**: `SignedProperty::create` — read in the property's width and sign-extended. -/
theorem gen_signedPropertyCreate (stores : Nat → Outcome (ValueStoreTail × Bytes)) (e : Bytes) (off sz : Nat) (nm : Bytes)
    (dflt : Option Int) (g : Nat → Nat → Option Nat → Outcome Bytes) :
    (Generated.signedPropertyCreate e off sz dflt none g).map' Val.s = decodeProp stores e ⟨off, nm, .sint sz dflt⟩ := by
  unfold Generated.signedPropertyCreate decodeProp
  cases dflt with
  | some d => rfl
  | none =>
    simp only [bind, Generated.entryLEs]
    split <;> (cases h : entryLE e off _ <;> first | rfl | (simp [h]; done) | (simp [h] <;> rfl))

theorem takeLE_drop (e : Bytes) (off n : Nat) (hn : 1 ≤ n) :
    takeLE (e.drop off) n = (entryLE e off n).bind fun v => .ok (v, e.drop (off + n)) := by
  unfold takeLE entryLE
  by_cases h : off + n ≤ e.length
  · have h' : n ≤ (e.drop off).length := by simp; omega
    simp [h, h', slice, List.drop_drop]
    omega
  · have h' : ¬ n ≤ (e.drop off).length := by simp; omega
    simp [h, h']
    omega

/-- **Content addresses**: `ContentProperty::create` translated on every run (a sequential parser opened at
    the property's offset: pack id unless defaulted, then content id) is `decodeProp` of the reader model,
    for the widths a header can hold. -/
theorem gen_contentPropertyCreate (stores : Nat → Outcome (ValueStoreTail × Bytes)) (e : Bytes) (off ps cs : Nat) (nm : Bytes)
    (dflt : Option Nat) (hps : 1 ≤ ps) (hcs : 1 ≤ cs) (hcs4 : cs ≤ 4) :
    (Generated.contentPropertyCreate (e.drop off) dflt ps cs).map' (fun x => Val.content x.1.1 x.1.2) =
      decodeProp stores e ⟨off, nm, .content ps cs dflt⟩ := by
  have hmod : ∀ o, ∀ v, entryLE e o cs = .ok v → v % 4294967296 = v := by
    intro o v h
    unfold entryLE at h
    split at h
    · simp only [Outcome.ok.injEq] at h
      subst h
      apply Nat.mod_eq_of_lt
      have h1 := leNat_lt (slice e o cs)
      have h2 := slice_length_le e o cs
      have : 256 ^ (slice e o cs).length ≤ 256 ^ 4 := Nat.pow_le_pow_right (by omega) (by omega)
      omega
    · simp at h
  unfold Generated.contentPropertyCreate decodeProp
  cases dflt with
  | none =>
    simp only [Outcome.bind_ok, bind, takeLE_drop e off ps hps, Outcome.bind_assoc']
    cases h1 : entryLE e off ps with
    | ok pk =>
      simp only [Outcome.bind_ok, List.drop_drop, takeLE_drop e (off + ps) cs hcs, Outcome.bind_assoc']
      cases h2 : entryLE e (off + ps) cs with
      | ok c => simp [hmod _ _ h2]
      | _ => rfl
    | _ => rfl
  | some d =>
    simp only [Outcome.bind_ok, bind, takeLE_drop e off cs hcs, Outcome.bind_assoc']
    cases h2 : entryLE e off cs with
    | ok c => simp [hmod _ _ h2]
    | _ => rfl

theorem valueStoreGet_length (vs : ValueStoreTail × Bytes) (id sz : Nat) (data : Bytes)
    (h : valueStoreGet vs id (some sz) = .ok data) : data.length = sz := by
  obtain ⟨t, d⟩ := vs
  unfold valueStoreGet at h
  simp only at h
  split at h
  · split at h
    · simp at h
    · split at h
      · rename_i hb
        simp only [Outcome.ok.injEq] at h
        subst h
        exact slice_length _ _ _ hb
      · simp at h
  · split at h
    · rename_i hb
      simp only [Outcome.ok.injEq] at h
      subst h
      exact slice_length _ _ _ hb
    · simp at h

theorem takeLE_full (data : Bytes) (sz : Nat) (h : data.length = sz) :
    Generated.unwrapped ((takeLE data sz).bind fun x => .ok x.1) = .ok (leNat data) := by
  unfold takeLE
  simp [h.symm, Generated.unwrapped]

/-- **Deported integers** (the entry holds a key into a value store, the store holds the integer):
    `IntProperty::create` / `SignedProperty::create` translated on every run are `decodeProp` of the reader
    model, given the store the property was built with. -/
theorem gen_deportedIntCreate (stores : Nat → Outcome (ValueStoreTail × Bytes)) (vs : ValueStoreTail × Bytes)
    (e : Bytes) (off sz ks store : Nat) (nm : Bytes) (hs : stores store = .ok vs) (hsz : sz < 256) :
    (Generated.intPropertyCreate e off sz none (some (ks, store)) (fun _ key size => valueStoreGet vs key size)).map' Val.u =
      decodeProp stores e ⟨off, nm, .deportedInt false sz store (.inr ks)⟩ := by
  unfold Generated.intPropertyCreate decodeProp
  simp only [bind, pure, hs, Outcome.bind_ok, Nat.mod_eq_of_lt hsz]
  have key : ∀ k, (((entryLE e off k).bind fun r1 =>
        (valueStoreGet vs r1 (some sz)).bind fun r2 =>
          (Generated.unwrapped ((takeLE r2 sz).bind fun x => .ok x.1)).bind fun r3 => Outcome.ok r3).map' Val.u) =
      (entryLE e off k).bind fun key => (valueStoreGet vs key (some sz)).bind fun data =>
        Outcome.ok (if false = true then Val.s (signExtend (leNat data) sz) else Val.u (leNat data)) := by
    intro k
    cases h1 : entryLE e off k with
    | ok key =>
      simp only [Outcome.bind_ok]
      cases h2 : valueStoreGet vs key (some sz) with
      | ok data => simp [takeLE_full data sz (valueStoreGet_length vs key sz data h2)]
      | _ => rfl
    | _ => rfl
  split <;> exact key _

theorem takeLEs_full (data : Bytes) (sz : Nat) (h : data.length = sz) :
    Generated.unwrapped ((Generated.takeLEs data sz).bind fun x => .ok x.1) = .ok (signExtend (leNat data) sz) := by
  unfold Generated.takeLEs takeLE
  simp [h.symm, Generated.unwrapped]

theorem gen_deportedSignedCreate (stores : Nat → Outcome (ValueStoreTail × Bytes)) (vs : ValueStoreTail × Bytes)
    (e : Bytes) (off sz ks store : Nat) (nm : Bytes) (hs : stores store = .ok vs) (hsz : sz < 256) :
    (Generated.signedPropertyCreate e off sz none (some (ks, store)) (fun _ key size => valueStoreGet vs key size)).map' Val.s =
      decodeProp stores e ⟨off, nm, .deportedInt true sz store (.inr ks)⟩ := by
  unfold Generated.signedPropertyCreate decodeProp
  simp only [bind, pure, hs, Outcome.bind_ok, Nat.mod_eq_of_lt hsz]
  have key : ∀ k, (((entryLE e off k).bind fun r1 =>
        (valueStoreGet vs r1 (some sz)).bind fun r2 =>
          (Generated.unwrapped ((Generated.takeLEs r2 sz).bind fun x => .ok x.1)).bind fun r3 => Outcome.ok r3).map' Val.s) =
      (entryLE e off k).bind fun key => (valueStoreGet vs key (some sz)).bind fun data =>
        Outcome.ok (if true = true then Val.s (signExtend (leNat data) sz) else Val.u (leNat data)) := by
    intro k
    cases h1 : entryLE e off k with
    | ok key =>
      simp only [Outcome.bind_ok]
      cases h2 : valueStoreGet vs key (some sz) with
      | ok data => simp [takeLEs_full data sz (valueStoreGet_length vs key sz data h2)]
      | _ => rfl
    | _ => rfl
  split <;> exact key _

theorem takeBytes_drop (e : Bytes) (o n : Nat) (ho : o ≤ e.length) :
    takeBytes (e.drop o) n = if o + n ≤ e.length then .ok (slice e o n, e.drop (o + n)) else .err .format := by
  unfold takeBytes
  by_cases h : o + n ≤ e.length
  · have h' : n ≤ (e.drop o).length := by simp; omega
    simp [h, h', slice, List.drop_drop]
    omega
  · have h' : ¬ n ≤ (e.drop o).length := by simp; omega
    simp [h, h']
    omega

theorem entryLE_ok_bound (e : Bytes) (o n v : Nat) (h : entryLE e o n = .ok v) : o + n ≤ e.length := by
  unfold entryLE at h
  split at h
  · assumption
  · simp at h

/-- **Arrays**: `ArrayProperty::create` translated on every run (length field, inline prefix, key of the
    remainder in the value store — or the default of the header), followed by the model's
    `Array::resolve_to_vec`, is `decodeProp` of the reader model, for a property lying inside the entry, a
    length field of at most 3 bytes (the source asserts it) and a non-empty key. -/
theorem gen_arrayPropertyCreate (stores : Nat → Outcome (ValueStoreTail × Bytes)) (e : Bytes) (off : Nat) (nm : Bytes)
    (lenSize : Option Nat) (fixedLen : Nat) (dep : Option (Nat × Nat)) (dflt : Option (Nat × Bytes × Option Nat))
    (hoff : off ≤ e.length) (hl : ∀ l, lenSize = some l → 1 ≤ l ∧ l ≤ 3) (hd : ∀ ks st, dep = some (ks, st) → 1 ≤ ks) :
    ((Generated.arrayPropertyCreate (e.drop off) lenSize fixedLen dep dflt).bind fun r =>
        (resolveArray stores r.1 r.2.1 fixedLen r.2.2).map' Val.arr).Same
      (decodeProp stores e ⟨off, nm, .array lenSize fixedLen dep dflt⟩) := by
  unfold Generated.arrayPropertyCreate decodeProp
  cases dflt with
  | some d =>
    obtain ⟨sz, fixed, kid⟩ := d
    cases dep with
    | none => simp [bind, pure] <;> same_close
    | some dd =>
      obtain ⟨ks, st⟩ := dd
      cases kid with
      | none => simp [bind, pure, Generated.unwrapOpt] <;> same_close
      | some k => simp [bind, pure, Generated.unwrapOpt] <;> same_close
  | none =>
    simp only [Outcome.bind_ok, bind, pure]
    cases lenSize with
    | none =>
      simp only [Nat.add_zero, takeBytes_drop e off fixedLen hoff, Outcome.bind_ok]
      by_cases hb : off + fixedLen ≤ e.length
      · simp only [hb, if_true, Outcome.bind_ok]
        cases dep with
        | none => simp <;> same_close
        | some dd =>
          obtain ⟨ks, st⟩ := dd
          have hks := hd ks st rfl
          simp only [List.drop_drop, takeLE_drop e (off + fixedLen) ks hks, Outcome.bind_assoc', Outcome.bind_ok]
          simp only [Outcome.map'_eq_bind]
          same_close
      · simp [hb] <;> same_close
    | some l =>
      obtain ⟨hl1, hl3⟩ := hl l rfl
      have hm : l % 256 ≤ 3 := by omega
      simp only [hm, if_true, takeLE_drop e off l hl1, Outcome.bind_assoc', Outcome.bind_ok]
      cases h1 : entryLE e off l with
      | ok sz =>
        have hb1 := entryLE_ok_bound e off l sz h1
        simp only [Outcome.bind_ok, takeBytes_drop e (off + l) fixedLen hb1]
        by_cases hb : off + l + fixedLen ≤ e.length
        · simp only [hb, if_true, Outcome.bind_ok]
          cases dep with
          | none => simp [Outcome.map'_eq_bind] <;> same_close
          | some dd =>
            obtain ⟨ks, st⟩ := dd
            have hks := hd ks st rfl
            simp only [List.drop_drop, takeLE_drop e (off + l + fixedLen) ks hks, Outcome.bind_assoc', Outcome.bind_ok,
              Outcome.map'_eq_bind]
            same_close
        · simp [hb] <;> same_close
      | _ => same_close

/-! ### the check block -/

def CheckInfo.toSrc : CheckInfo → Option Bytes
  | CheckInfo.none => Option.none
  | CheckInfo.blake3 h => some h

/-- **The check block is parsed as the source parses it**: `CheckInfo::parse` / `CheckKind::parse`
    (`common/check.rs`) translated on every run give the stored hash (or its absence) the model's
    `CheckInfo.decode` gives, on every byte string: kind byte 0 ⇒ no hash, 1 ⇒ the next 32 bytes, anything else
    (or missing bytes) ⇒ a format error. -/
theorem gen_checkInfoParse (bs : Bytes) :
    (Generated.checkInfoParse bs).map' (·.1) = (CheckInfo.decode bs).map' CheckInfo.toSrc := by
  cases bs with
  | nil => rfl
  | cons k rest =>
    unfold Generated.checkInfoParse Generated.checkKindParse CheckInfo.decode
    simp only [takeLE_one, Outcome.bind_ok]
    by_cases h0 : k = 0
    · subst h0
      simp [show (0 : UInt8).toNat = 0 from rfl, CheckInfo.toSrc]
    · by_cases h1 : k = 1
      · subst h1
        simp only [show (1 : UInt8).toNat = 1 from rfl, Outcome.bind_ok, takeBytes]
        by_cases hl : 32 ≤ rest.length
        · have : rest.length ≥ 32 := hl
          simp [hl, this, CheckInfo.toSrc]
        · have : ¬ rest.length ≥ 32 := hl
          simp [hl, this]
      · have hk0 : k.toNat ≠ 0 := fun h => h0 (UInt8.toNat_inj.mp h)
        have hk1 : k.toNat ≠ 1 := fun h => h1 (UInt8.toNat_inj.mp h)
        simp only [h0, h1, if_false]
        rfl

/-! ### the index header -/

/-- **The index header is parsed as the source parses it**: `IndexHeader::parse`
    (`reader/directory_pack/index.rs`) translated on every run is `IndexInfo.decode` of the reader model on every
    byte string: store id, entry count, first entry (4 bytes each, little endian), 4 bytes of free data, the
    key-property byte, the name as a p-string. -/
theorem gen_indexHeaderParse (bs : Bytes) :
    (Generated.indexHeaderParse bs).map' (fun r => (⟨r.1.1, r.1.2.1, r.1.2.2.1, r.1.2.2.2.1, r.1.2.2.2.2.1, r.1.2.2.2.2.2⟩ : IndexInfo)) =
      IndexInfo.decode bs := by
  unfold Generated.indexHeaderParse IndexInfo.decode
  simp only [bind, Outcome.map'_bind]
  cases h1 : takeLE bs 4 with
  | ok a =>
    simp only [Outcome.bind_ok]
    cases h2 : takeLE a.2 4 with
    | ok b =>
      simp only [Outcome.bind_ok]
      cases h3 : takeLE b.2 4 with
      | ok c =>
        simp only [Outcome.bind_ok]
        cases h4 : takeBytes c.2 4 with
        | ok d =>
          simp only [Outcome.bind_ok]
          cases h5 : takeLE d.2 1 with
          | ok e =>
            simp only [Outcome.bind_ok]
            cases takePString e.2 <;> rfl
          | _ => rfl
        | _ => rfl
      | _ => rfl
    | _ => rfl
  | _ => rfl

/-! ### the head of `Layout::parse` -/

/-- the statements of `Layout.decode` before the properties are split into common part and variants -/
def layoutHead (bs : Bytes) : Outcome (Nat × Bool × Nat × Nat × List RawProp) :=
  (takeLE bs 4).bind fun a => (takeLE a.2 1).bind fun b => (takeLE b.2 2).bind fun c => (takeLE c.2 1).bind fun d =>
    (rawLayoutDecode d.2).bind fun raw => .ok (a.1, decide (b.1 % 2 = 1), c.1, d.1, raw)

/-- **The head of `Layout::parse` is the head of the model's `Layout.decode`**: entry count (4 bytes), the flag
    byte whose lowest bit says whether every entry carries its own CRC, the entry size (2 bytes), the variant
    count, then the property list by the (translated) `RawLayout::parse` — translated on every run from the
    statements that precede the splitting into common part and variants. -/
theorem gen_layoutParseHead (bs : Bytes) :
    ((Generated.layoutParseHead bs).map' (fun r => (r.1.1, r.1.2.1, r.1.2.2.1, r.1.2.2.2.1, r.1.2.2.2.2))).Same
      ((layoutHead bs).map' (fun h => (h.1, h.2.1, h.2.2.1, h.2.2.2.1, h.2.2.2.2.map RawProp.toSrcRaw))) := by
  unfold Generated.layoutParseHead layoutHead
  cases h1 : takeLE bs 4 with
  | ok a =>
    simp only [Outcome.bind_ok]
    cases h2 : takeLE a.2 1 with
    | ok b =>
      simp only [Outcome.bind_ok]
      cases h3 : takeLE b.2 2 with
      | ok c =>
        simp only [Outcome.bind_ok]
        cases h4 : takeLE c.2 1 with
        | ok d =>
          simp only [Outcome.bind_ok]
          have hflag : decide ((b.1 &&& 1) ≠ 0) = decide (b.1 % 2 = 1) := by
            rw [Nat.and_one_is_mod]
            rcases Nat.mod_two_eq_zero_or_one b.1 with h | h <;> simp [h]
          rcases Outcome.same_cases _ _ (gen_rawLayoutParse d.2) with ⟨v, e1, e2⟩ | ⟨e, e1, e2⟩ | ⟨s, t, e1, e2⟩ | ⟨e1, e2⟩ | ⟨e1, e2⟩
          · cases hp : Generated.rawLayoutParse d.2 with
            | ok x =>
              cases hq : rawLayoutDecode d.2 with
              | ok raw =>
                rw [hp] at e1; rw [hq] at e2
                simp only [Outcome.map'_ok, Outcome.ok.injEq] at e1 e2
                simp only [Outcome.bind_ok, Outcome.map'_ok, hflag]
                rw [e1, e2]
                exact Outcome.same_refl _
              | _ => rw [hq] at e2; simp [Outcome.map'] at e2
            | _ => rw [hp] at e1; simp [Outcome.map'] at e1
          · cases hp : Generated.rawLayoutParse d.2 with
            | err k1 =>
              cases hq : rawLayoutDecode d.2 with
              | err k2 =>
                rw [hp] at e1; rw [hq] at e2
                simp only [Outcome.map'_err, Outcome.err.injEq] at e1 e2
                subst e1 e2
                exact Outcome.same_refl _
              | _ => rw [hq] at e2; simp [Outcome.map'] at e2
            | _ => rw [hp] at e1; simp [Outcome.map'] at e1
          · cases hp : Generated.rawLayoutParse d.2 with
            | panic s1 =>
              cases hq : rawLayoutDecode d.2 with
              | panic s2 => exact Outcome.same_panic _ _
              | _ => rw [hq] at e2; simp [Outcome.map'] at e2
            | _ => rw [hp] at e1; simp [Outcome.map'] at e1
          · cases hp : Generated.rawLayoutParse d.2 with
            | hang =>
              cases hq : rawLayoutDecode d.2 with
              | hang => exact Outcome.same_refl _
              | _ => rw [hq] at e2; simp [Outcome.map'] at e2
            | _ => rw [hp] at e1; simp [Outcome.map'] at e1
          · cases hp : Generated.rawLayoutParse d.2 with
            | fault =>
              cases hq : rawLayoutDecode d.2 with
              | fault => exact Outcome.same_refl _
              | _ => rw [hq] at e2; simp [Outcome.map'] at e2
            | _ => rw [hp] at e1; simp [Outcome.map'] at e1
        | _ => exact Outcome.same_refl _
      | _ => exact Outcome.same_refl _
    | _ => exact Outcome.same_refl _
  | _ => exact Outcome.same_refl _


/-- what `Layout.decode` does with the head: split the properties into the common part and the variants -/
def layoutRest (h : Nat × Bool × Nat × Nat × List RawProp) : Outcome Layout :=
  let entryCount := h.1
  let checked := h.2.1
  let entrySize := h.2.2.1
  let variantCount := h.2.2.2.1
  let raw := h.2.2.2.2
  let commonRaw := raw.takeWhile (fun p => !isVariantId p)
  let restRaw := raw.dropWhile (fun p => !isVariantId p)
  let commonSize := (commonRaw.map (·.size)).sum
  let common := placeProps 0 commonRaw
  if variantCount ≠ 0 then
    if entrySize < commonSize + 1 then .panic "layout/mod.rs: entry_size - common_size underflow"
    else
      (splitVariants (entrySize - (commonSize + 1)) (commonSize + 1) restRaw none []).bind fun vs =>
        if vs.length ≠ variantCount then .err .format
        else .ok ⟨entryCount, checked, entrySize, common, some commonSize, vs⟩
  else .ok ⟨entryCount, checked, entrySize, common, none, []⟩

theorem layoutDecode_head (bs : Bytes) : Layout.decode bs = (layoutHead bs).bind layoutRest := by
  unfold Layout.decode layoutHead layoutRest
  simp only [bind]
  cases takeLE bs 4 with
  | ok a =>
    simp only [Outcome.bind_ok]
    cases takeLE a.2 1 with
    | ok b =>
      simp only [Outcome.bind_ok]
      cases takeLE b.2 2 with
      | ok c =>
        simp only [Outcome.bind_ok]
        cases takeLE c.2 1 with
        | ok d =>
          simp only [Outcome.bind_ok]
          cases rawLayoutDecode d.2 with
          | ok raw =>
            simp only [Outcome.bind_ok]
          | _ => rfl
        | _ => rfl
      | _ => rfl
    | _ => rfl
  | _ => rfl


end Jubako
