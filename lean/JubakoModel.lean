-- Root of the `JubakoModel` library: everything the checks build.
import JubakoModel.Theorems.C01
import JubakoModel.Theorems.C02
import JubakoModel.Theorems.C03
import JubakoModel.Theorems.C04
import JubakoModel.Theorems.C05
import JubakoModel.Theorems.C06
import JubakoModel.Theorems.C07
import JubakoModel.Theorems.C08
import JubakoModel.Theorems.C09
import JubakoModel.Theorems.C10
import JubakoModel.Theorems.C11
import JubakoModel.Theorems.C12
import JubakoModel.Theorems.C13
import JubakoModel.Theorems.C14
import JubakoModel.Theorems.C15
import JubakoModel.Theorems.C16
import JubakoModel.Lemmas.CreatorFast
