import JubakoModel.Model.Bytes
import JubakoModel.Model.Crc
import JubakoModel.Model.View
import JubakoModel.Lemmas.Slice
import JubakoModel.Theorems.C13
