/- Driver op `ct.open`: open a container from a directory of files and dump its logical content. -/
import JubakoModel.Model.Container
import Driver.OpsDir
import Driver.OpsContent

namespace Jubako.Driver
open Jubako

def readDirFS (dir : String) : IO FS := do
  let entries ← System.FilePath.readDir dir
  let mut fs : FS := []
  for e in entries do
    if !(← e.path.isDir) then
      let b ← readFileBytes e.path.toString
      fs := (e.fileName, b) :: fs
  return fs

def strBytes (s : String) : Bytes := s.toUTF8.toList

def lookupVal (vals : List (Bytes × Val)) (name : String) : Option Val :=
  (vals.find? (fun p => p.1 == strBytes name)).map (·.2)

def errStr {α} : Outcome α → String
  | .ok _ => "ok"
  | .err k => "err:" ++ k.toString
  | .panic s => "panic " ++ s
  | .hang => "hang"
  | .fault => "fault"

def runContainerOpen (args : List String) : IO String := do
  match args with
  | [dir, entry, decdir] =>
    let fs ← readDirFS dir
    match containerOpen fs entry with
    | .ok c =>
      match decodeDirPack c.dirPack with
      | .ok d =>
        match d.indexes.find? (fun ix => ix.name == strBytes "main") with
        | none => return "err:noindex"
        | some ix =>
          match d.stores[ix.storeId]? with
          | some (.ok (l, data)) =>
            let getVS : Nat → Outcome (ValueStoreTail × Bytes) := fun i =>
              match d.vstores[i]? with
              | some r => r
              | none => .panic "value store index out of bounds"
            -- decoded content packs, by pack id
            let mut packCache : List (Nat × Option DecPack × String) := []
            let mut lines : List String := [s!"count {ix.count}"]
            for k in [0:ix.count] do
              let gi := ix.offset + k
              let stride := if l.checked then l.entrySize + 4 else l.entrySize
              match decodeEntry getVS l (slice data (gi * stride) l.entrySize) with
              | .ok e =>
                match lookupVal e.values "name", lookupVal e.values "num", lookupVal e.values "content" with
                | some (.arr nm), some (.u num), some (.content p i) =>
                  -- pack lookup (cached)
                  let cached := packCache.find? (fun x => x.1 == p)
                  let (dp, status) ← match cached with
                    | some (_, dp, st) => pure (dp, st)
                    | none => do
                      let r ← (match containerGetPack fs c p with
                        | .ok .unknown => pure (none, "nopack")
                        | .ok (.missing info) => pure (none, s!"missing:{toHex info.uuid}:{locationString info.location}")
                        | .ok (.found bytes) => do
                          let uu := match (do let hd ← readBlock bytes 0 60; PackHeader.decode hd : Outcome PackHeader) with
                            | .ok h => toHex h.uuid
                            | _ => "nouuid"
                          match ← decodeContentPack bytes s!"{decdir}/{uu}" with
                          | .ok dp => pure (some dp, "found")
                          | r => pure (none, errStr r)
                        | r => pure (none, errStr r) : IO (Option DecPack × String))
                      packCache := (p, r.1, r.2) :: packCache
                      pure r
                  let dataStr := match dp with
                    | none => status
                    | some dp =>
                      match dp.infos[i]? with
                      | none => "nocontent"
                      | some (cl, blob) =>
                        match dp.clusters[cl]? with
                        | none => "err:format"
                        | some cc => match cc.blobs[blob]? with
                          | none => "panic blob index"
                          | some b => s!"{b.length}:{hex64 (fnv64 b)}"
                  lines := lines ++ [s!"e{k} name={toHexP nm} num={num} addr={p}:{i} data={dataStr}"]
                | _, _, _ => lines := lines ++ [s!"e{k} bad-entry"]
              | r => return errStr r
            return ";".intercalate lines
          | some r => return errStr r
          | none => return "panic store index"
      | r => return errStr r
    | r => return errStr r
  | _ => return "bad-args"

end Jubako.Driver
