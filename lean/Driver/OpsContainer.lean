/- Driver op `ct.open`: open a container from a directory of files and dump its logical content. -/
import JubakoModel.Model.Container
import Driver.OpsDir
import Driver.OpsContent

namespace Jubako.Driver
open Jubako

def readDirFS (dir : String) : IO FS := do
  let entries ← System.FilePath.readDir dir
  let mut fs : FS := []
  for e in entries do
    if !(← e.path.isDir) then
      let b ← readFileBytes e.path.toString
      fs := (e.fileName, b) :: fs
  return fs

def strBytes (s : String) : Bytes := s.toUTF8.toList

def lookupVal (vals : List (Bytes × Val)) (name : String) : Option Val :=
  (vals.find? (fun p => p.1 == strBytes name)).map (·.2)

def errStr {α} : Outcome α → String
  | .ok _ => "ok"
  | .err k => "err:" ++ k.toString
  | .panic s => "panic " ++ s
  | .hang => "hang"
  | .fault => "fault"

def runContainerOpen (args : List String) : IO String := do
  match args with
  | [dir, entry, decdir] =>
    let fs ← readDirFS dir
    match containerOpen fs entry with
    | .ok c =>
      match decodeDirPack c.dirPack with
      | .ok d =>
        match lookupIndexByName d.indexOutcomes (strBytes "main") with
        | .ok none => return "noindex"
        | .ok (some ix) =>
          match d.stores[ix.storeId]? with
          | some (.ok (l, data)) =>
            let getVS : Nat → Outcome (ValueStoreTail × Bytes) := fun i =>
              match d.vstores[i]? with
              | some r => r
              | none => .panic "value store index out of bounds"
            -- decoded content packs, by pack id
            let mut packCache : List (Nat × Option DecPack × String) := []
            let mut lines : List String := [s!"count {ix.count}"]
            for k in [0:ix.count] do
              let gi := ix.offset + k
              let stride := if l.checked then l.entrySize + 4 else l.entrySize
              match decodeEntry getVS l (slice data (gi * stride) l.entrySize) with
              | .ok e =>
                match lookupVal e.values "name", lookupVal e.values "num", lookupVal e.values "content" with
                | some (.arr nm), some (.u num), some (.content p i) =>
                  -- pack lookup (cached)
                  let cached := packCache.find? (fun x => x.1 == p)
                  let (dp, status) ← match cached with
                    | some (_, dp, st) => pure (dp, st)
                    | none => do
                      let r ← (match containerGetPack fs c p with
                        | .ok .unknown => pure (none, "nopack")
                        | .ok (.missing info) => pure (none, s!"missing:{toHex info.uuid}:{locationString info.location}")
                        | .ok (.found bytes) => do
                          let uu := match (do let hd ← readBlock bytes 0 60; PackHeader.decode hd : Outcome PackHeader) with
                            | .ok h => toHex h.uuid
                            | _ => "nouuid"
                          match ← decodeContentPack bytes s!"{decdir}/{uu}-{hex64 (fnv64 bytes)}" with
                          | .ok dp => pure (some dp, "found")
                          | r => pure (none, errStr r)
                        | r => pure (none, errStr r) : IO (Option DecPack × String))
                      packCache := (p, r.1, r.2) :: packCache
                      pure r
                  let dataStr := match dp with
                    | none => status
                    | some dp =>
                      match dp.infos[i]? with
                      | none => "nocontent"
                      | some (cl, blob) =>
                        match dp.clusters[cl]? with
                        | none => "err:format"
                        | some cc => match cc.blobs[blob]? with
                          | none => "panic blob index"
                          | some b => s!"{b.length}:{hex64 (fnv64 b)}"
                  lines := lines ++ [s!"e{k} name={toHexP nm} num={num} addr={p}:{i} data={dataStr}"]
                | _, _, _ => lines := lines ++ [s!"e{k} bad-entry"]
              | r => return errStr r
            return ";".intercalate lines
          | some r => return errStr r
          | none => return "panic store index"
        | r => return errStr r
      | r => return errStr r
    | r => return errStr r
  | _ => return "bad-args"

end Jubako.Driver

namespace Jubako.Driver
open Jubako

/-- the whole reader script of the damaged-file runner, with the implementation's "first error
    aborts the script" semantics: `Container::new`, every entry of index "main" with its values and
    its content streamed, then `Container::check` -/
def containerReadScript (fs : FS) (entry decdir : String) : IO (Outcome String) := do
  match containerOpen fs entry with
  | .ok c =>
    match decodeDirPack c.dirPack with
    | .ok d =>
      match lookupIndexByName d.indexOutcomes (strBytes "main") with
      | .ok none => return .ok "noindex"
      | .ok (some ix) =>
        match d.stores[ix.storeId]? with
        | some (.ok (l, data)) =>
          let getVS : Nat → Outcome (ValueStoreTail × Bytes) := fun i =>
            match d.vstores[i]? with
            | some r => r
            | none => .panic "value store index out of bounds"
          -- AnyBuilder::new opens the value stores of every array property first
          for p in l.common ++ (l.variants.map (·.2)).flatten do
            match p.kind with
            | .array _ _ (some (_, st)) _ =>
              match getVS st with
              | .ok _ => pure ()
              | .err k => return .err k
              | .panic s => return .panic s
              | .hang => return .hang
              | .fault => return .fault
            | _ => pure ()
          let mut packCache : List (Nat × Outcome (Option DecPack) × String) := []
          let mut lines : List String := [s!"count {ix.count}"]
          for k in [0:ix.count] do
            let gi := ix.offset + k
            if gi ≥ l.entryCount then return .err .other
            let stride := if l.checked then l.entrySize + 4 else l.entrySize
            match decodeEntry getVS l (slice data (gi * stride) l.entrySize) with
            | .ok e =>
              match lookupVal e.values "name", lookupVal e.values "num", lookupVal e.values "content" with
              | some (.arr nm), some (.u num), some (.content p i) =>
                let cached := packCache.find? (fun x => x.1 == p)
                let (dp, status) ← match cached with
                  | some (_, dp, st) => pure (dp, st)
                  | none => do
                    let r : Outcome (Option DecPack) × String ← (match containerGetPack fs c p with
                      | .ok .unknown => pure (.ok none, "nopack")
                      | .ok (.missing info) => pure (.ok none, s!"missing:{toHex info.uuid}:{locationString info.location}")
                      | .ok (.found bytes) => do
                        let uu := match (do let hd ← readBlock bytes 0 60; PackHeader.decode hd : Outcome PackHeader) with
                          | .ok h => toHex h.uuid
                          | _ => "nouuid"
                        -- ContentPack::new only; clusters are opened lazily per content
                        match contentOpen bytes with
                        | .ok _ =>
                          match ← decodeContentPack bytes s!"{decdir}/{uu}-{hex64 (fnv64 bytes)}" with
                          | .ok dp => pure (.ok (some dp), "found")
                          | _ => pure (.ok none, "lazy-cluster-error")
                        | .err k => pure (.err k, "")
                        | .panic s => pure (.panic s, "")
                        | .hang => pure (.hang, "")
                        | .fault => pure (.fault, "")
                      | .err k => pure (.err k, "")
                      | .panic s => pure (.panic s, "")
                      | .hang => pure (.hang, "")
                      | .fault => pure (.fault, "") : IO (Outcome (Option DecPack) × String))
                    packCache := (p, r.1, r.2) :: packCache
                    pure r
                match dp with
                | .err k => return .err k
                | .panic s => return .panic s
                | .hang => return .hang
                | .fault => return .fault
                | .ok none =>
                  if status = "lazy-cluster-error" then
                    -- a cluster of that pack does not parse: decide per content with the model reader
                    match containerGetPack fs c p with
                    | .ok (.found bytes) =>
                      match contentGet (fun _ _ => none) bytes i with
                      | .err k => return .err k
                      | .panic s => return .panic s
                      | _ => return .err .other
                    | _ => return .err .other
                  else lines := lines ++ [s!"e{k} name={toHexP nm} num={num} addr={p}:{i} data={status}"]
                | .ok (some dp) =>
                  match dp.infos[i]? with
                  | none => lines := lines ++ [s!"e{k} name={toHexP nm} num={num} addr={p}:{i} data=nocontent"]
                  | some (cl, blob) =>
                    match dp.clusters[cl]? with
                    | none => return .err .format
                    | some cc =>
                      let bounds := (0 :: cc.tail.offsets) ++ [cc.tail.dataSize]
                      let b0 := bounds.getD blob 0
                      let b1 := bounds.getD (blob + 1) 0
                      if blob + 1 ≥ bounds.length then return .panic "cluster.rs: blob index out of bounds"
                      else if b1 < b0 then return .panic "offset.rs: subtraction underflow"
                      else if cc.tail.comp = 0 then
                        -- raw cluster: the region is cut in the file; reading past it is an I/O error
                        if b1 ≤ cc.payload.length then
                          let b := slice cc.payload b0 (b1 - b0)
                          lines := lines ++ [s!"e{k} name={toHexP nm} num={num} addr={p}:{i} data={b.length}:{hex64 (fnv64 b)}"]
                        else return .err .io
                      else if b1 ≤ cc.plain.length then
                        let b := slice cc.plain b0 (b1 - b0)
                        lines := lines ++ [s!"e{k} name={toHexP nm} num={num} addr={p}:{i} data={b.length}:{hex64 (fnv64 b)}"]
                      else return .err .io       -- decoder failed or ended before this content (repaired code, D11)
              | _, _, _ => return .err .other
            | .err k => return .err k
            | .panic s => return .panic s
            | .hang => return .hang
            | .fault => return .fault
          let chk := match containerCheck H fs c with
            | .ok true => "true"
            | .ok false => "false"
            | .err k => "err:" ++ k.toString
            | .panic s => "panic " ++ s
            | _ => "crash"
          return .ok (s!"check={chk} " ++ ";".intercalate lines)
        | some (.err k) => return .err k
        | some (.panic s) => return .panic s
        | some _ => return .hang
        | none => return .panic "store index"
      | .err k => return .err k
      | .panic s => return .panic s
      | _ => return .hang
    | .err k => return .err k
    | .panic s => return .panic s
    | _ => return .hang
  | .err k => return .err k
  | .panic s => return .panic s
  | _ => return .hang

def runContainerRead (args : List String) : IO String := do
  match args with
  | [dir, entry, decdir] =>
    let fs ← readDirFS dir
    match ← containerReadScript fs entry decdir with
    | .ok s => return "value " ++ s
    | .err _ => return "error"
    | .panic s => return "crash panic " ++ s
    | .hang => return "crash hang"
    | .fault => return "crash fault"
  | _ => return "bad-args"

end Jubako.Driver
