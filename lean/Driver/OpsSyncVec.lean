/- Driver op `hist.syncvec`: replay of an observed hook-event history of one shared decode buffer
   on the SyncVec transition system: every event must be an enabled step. -/
import JubakoModel.Model.SyncVec
import Driver.Util

namespace Jubako.Driver
open Jubako

/-- events as logged by the hooks of `bases/io/compression.rs` (in global sequence order):
    `P<d>` publish (with the bytes written since the previous publish), `F` fail,
    `W<t>:<end>` thread t starts waiting for `end`, `K<t>:<d>` thread t woke observing `d`,
    `X<t>:<d>` thread t woke on failure, `S<t>:<len>` thread t sliced `len` bytes -/
inductive SVEvent where
  | publish (d : Nat)
  | fail
  | wait (t end_ : Nat)
  | woke (t d : Nat)
  | wokeFailed (t d : Nat)
  | slice (t len : Nat)

def parseSVEvent (s : String) : Option SVEvent :=
  match s.toList with
  | 'P' :: rest => (String.ofList rest).toNat?.map SVEvent.publish
  | ['F'] => some .fail
  | c :: rest =>
    match (String.ofList rest).splitOn ":" with
    | [a, b] => match a.toNat?, b.toNat? with
      | some a, some b =>
        if c = 'W' then some (.wait a b) else if c = 'K' then some (.woke a b)
        else if c = 'X' then some (.wokeFailed a b) else if c = 'S' then some (.slice a b) else none
      | _, _ => none
    | _ => none
  | _ => none

structure ConfSt where
  sv : SV
  /-- thread ↦ (reader index of its current read, has it sliced already?) -/
  cur : List (Nat × Nat × Bool)
  nextReader : Nat

def stepN (sv : SV) (acts : List SVAct) : Option SV := sv.run acts

/-- split a publication of `k` new bytes into chunk-sized writes, each followed by nothing (the
    intermediate lengths were not published) — the code writes at most one chunk per publish, so
    more than one chunk is a conformance failure -/
def conformStep (st : ConfSt) : SVEvent → Except String ConfSt
  | .publish d =>
    if d < st.sv.buf.length then .error s!"publish {d} below written {st.sv.buf.length}"
    else
      let k := d - st.sv.buf.length
      match st.sv.run ((if k = 0 then [] else [SVAct.write k]) ++ [SVAct.publish]) with
      | some sv => .ok { st with sv := sv }
      | none => .error s!"write {k} / publish {d} not enabled (written {st.sv.buf.length}, published {st.sv.d}, chunk {Consts.decodeChunk})"
  | .fail =>
    match st.sv.step .fail with
    | some sv => .ok { st with sv := sv }
    | none => .error s!"fail not enabled at d={st.sv.d}"
  | .wait t end_ =>
    let r := st.nextReader
    match st.sv.step (.request r 0 end_) with
    | some sv => .ok { sv := sv, cur := (t, r, false) :: st.cur.filter (fun x => x.1 != t), nextReader := r + 1 }
    | none => .error s!"thread {t}: wait for {end_} not enabled (total {st.sv.total})"
  | .woke t d =>
    match st.cur.find? (fun x => x.1 == t) with
    | none => .error s!"thread {t}: woke without wait"
    | some (_, r, _) =>
      if d ≠ st.sv.d then .error s!"thread {t}: woke observing {d} but the published length is {st.sv.d}"
      else match st.sv.step (.wake r) with
        | some sv => match sv.readers[r]? with
          | some (.woke _ _) => .ok { st with sv := sv }
          | _ => .error s!"thread {t}: woke as success but the model says failure"
        | none => .error s!"thread {t}: wake not enabled (published {st.sv.d})"
  | .wokeFailed t _ =>
    match st.cur.find? (fun x => x.1 == t) with
    | none => .error s!"thread {t}: woke without wait"
    | some (_, r, _) =>
      match st.sv.step (.wake r) with
      | some sv => match sv.readers[r]? with
        | some (.failed _ _) => .ok { st with sv := sv }
        | _ => .error s!"thread {t}: reported failure but enough bytes were published"
      | none => .error s!"thread {t}: failure wake-up not enabled"
  | .slice t len =>
    match st.cur.find? (fun x => x.1 == t) with
    | none => .error s!"thread {t}: slice without wait"
    | some (_, r, sliced) =>
      if len > st.sv.d then .error s!"thread {t}: slice of {len} bytes above the published length {st.sv.d}"
      else if sliced then .ok st     -- a second look at the buffer within the same read (read_exact)
      else match st.sv.step (.slice r) with
        | some sv =>
          -- the slice must cover the requested end
          match st.sv.readers[r]? with
          | some (.woke _ end_) =>
            if len < end_ then .error s!"thread {t}: slice of {len} bytes does not cover the requested end {end_}"
            else .ok { st with sv := sv, cur := st.cur.map (fun x => if x.1 == t then (x.1, x.2.1, true) else x) }
          | _ => .error "internal"
        | none => .error s!"thread {t}: slice not enabled (reader not woken)"

def runSyncVecHist (args : List String) : String :=
  match args with
  | [total, avail, nreads, events] =>
    match total.toNat?, avail.toNat?, nreads.toNat?, (if events = "-" then some [] else (events.splitOn ",").mapM parseSVEvent) with
    | some total, some avail, some nreads, some evs =>
      let sv0 := SV.init (List.replicate total 0) avail nreads
      let r := evs.foldlM conformStep (⟨sv0, [], 0⟩ : ConfSt)
      match r with
      | .ok st =>
        -- every finished read holds exactly the right bytes in the model (here: zeros of the right length)
        if st.sv.readers.all (fun p => match p with | .done off end_ res => res.length == end_ - off | _ => true) then "ok"
        else "bad-result-length"
      | .error e => "not-accepted: " ++ e
    | _, _, _, _ => "bad-args"
  | _ => "bad-args"

end Jubako.Driver
