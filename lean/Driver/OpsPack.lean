/- Driver ops on pack frames and manifests: `b3`, `pk.check`, `mp.infos`, `mp.setloc`. -/
import JubakoModel.Model.Open
import Driver.Util
import Driver.Blake3

namespace Jubako.Driver
open Jubako

def H : Bytes → Bytes := Blake3.hashList

/-- `pos:xor,pos:xor` (or `-`) applied to a byte list -/
def parsePatches (s : String) : Option (List (Nat × Nat)) :=
  if s = "-" then some []
  else (s.splitOn ",").mapM (fun p =>
    match p.splitOn ":" with
    | [a, b] => match a.toNat?, b.toNat? with
      | some a, some b => some (a, b)
      | _, _ => none
    | _ => none)

def applyPatches (bs : Bytes) (ps : List (Nat × Nat)) : Bytes :=
  if ps.isEmpty then bs else
  let arr := ps.foldl (fun (a : Array UInt8) (p : Nat × Nat) =>
    if p.1 < a.size then a.set! p.1 (a[p.1]! ^^^ UInt8.ofNat p.2) else a) bs.toArray
  arr.toList

def verdict : Outcome Bool → String
  | .ok true => "true"
  | _ => "nottrue"

def exact : Outcome Bool → String := outcomeStr (fun b => toString b)

def hexOfOpt : Option Bytes → String
  | some b => toHexP b
  | none => "none"

def infoStr (p : PackInfo) : String :=
  s!"{toHex p.uuid}/{p.packSize}/{p.checkInfoPos.1}:{p.checkInfoPos.2}/{p.packId}/{p.kind.toString}/{p.group}/{p.freeDataId}/{toHexP p.location}"

def manifestInfos (f : Bytes) : Outcome (List PackInfo) := do
  let hd ← readBlock f 0 60
  let h ← PackHeader.decode hd
  let mh ← readBlock f 64 60
  let m ← ManifestHeader.decode mh
  let base := packInfosOffset h.checkInfoPos m.packCount
  (List.range m.packCount).foldlM (fun acc k => do
    let pb ← readBlock f (base + k * packInfoBlockSize) 252
    let info ← PackInfo.decode pb
    pure (acc ++ [info])) []

/-- generic pack check by kind letter -/
def checkByKind (kind : String) (f : Bytes) : Outcome Bool :=
  if kind = "m" then manifestOpenCheck H f
  else if kind = "d" then directoryOpenCheck H f
  else if kind = "c" then contentOpenCheck H f
  else packCheck H id f

def firstDiff (a b : Bytes) : Option Nat :=
  let rec go (i : Nat) : Bytes → Bytes → Option Nat
    | [], [] => none
    | x :: xs, y :: ys => if x = y then go (i + 1) xs ys else some i
    | _, _ => some i
  go 0 a b

def runPack (fileOf : String → IO Bytes) (op : String) (args : List String) : IO String := do
  match op, args with
  | "b3", [file, origin, len] =>
    match origin.toNat?, len.toNat? with
    | some o, some l => do
      let f ← fileOf file
      return toHex (H (slice f o l))
    | _, _ => return "bad-args"
  | "pk.check", [file, origin, size, kind, patches] =>
    match origin.toNat?, size.toNat?, parsePatches patches with
    | some o, some s, some ps => do
      let f ← fileOf file
      let pack := slice (applyPatches f ps) o s
      return verdict (checkByKind kind pack)
    | _, _, _ => return "bad-args"
  | "pk.checkx", [file, origin, size, kind, patches] =>
    match origin.toNat?, size.toNat?, parsePatches patches with
    | some o, some s, some ps => do
      let f ← fileOf file
      let pack := slice (applyPatches f ps) o s
      return exact (checkByKind kind pack)
    | _, _, _ => return "bad-args"
  | "mp.infos", [file, origin, size] =>
    match origin.toNat?, size.toNat? with
    | some o, some s => do
      let f ← fileOf file
      return outcomeStr (fun l => " ".intercalate (l.map infoStr)) (manifestInfos (slice f o s))
    | _, _ => return "bad-args"
  | "mp.setloc", [before, origin, uuid, loc, after] =>
    match origin.toNat?, fromHex uuid, fromHex loc with
    | some o, some u, some l => do
      let f ← fileOf before
      let g ← fileOf after
      match setLocationAt f o u l with
      | .ok (f', old) =>
        match firstDiff f' g with
        | none => return s!"ok same old={hexOfOpt old}"
        | some i => return s!"ok differ@{i} old={hexOfOpt old}"
      | r => return outcomeStr (fun _ => "") r
    | _, _, _ => return "bad-args"
  | _, _ => return "bad-op"

end Jubako.Driver
