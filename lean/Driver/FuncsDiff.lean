/-
Counterexample search at model level for the translated function bodies (DESIGN.md §12.7): when an
equality theorem of Lemmas/Funcs*.lean no longer checks, this script evaluates the generated
definition (the source as it is now) and the model function side by side on boundary grids and
prints the first input on which they differ, one line per function:

    lake env lean --run Driver/FuncsDiff.lean

It imports only Model/ and Generated/ (not the lemma files, which do not build in that situation).
A line `diff <function> <input> source=<..> model=<..>` is a concrete input for the search stage of
the check; `same <function> <n inputs>` means no difference on the grid.  This is a search aid, not a
proof.
-/
import JubakoModel.Model.Bytes
import JubakoModel.Model.ContentPack
import JubakoModel.Model.DirWriter
import JubakoModel.Model.Search
import JubakoModel.Model.View
import JubakoModel.Model.Pack
import JubakoModel.Model.Order
import JubakoModel.Model.DirLayout
import JubakoModel.Generated.FuncsBytes
import JubakoModel.Generated.FuncsContent
import JubakoModel.Generated.FuncsDir
import JubakoModel.Generated.FuncsOrder
import JubakoModel.Generated.FuncsSearch
import JubakoModel.Generated.FuncsView
import JubakoModel.Generated.FuncsCheck
import JubakoModel.Generated.FuncsLookup
import JubakoModel.Generated.FuncsStats
import JubakoModel.Generated.FuncsEntry
import JubakoModel.Generated.FuncsParse
import JubakoModel.Generated.FuncsOpen
import JubakoModel.Generated.FuncsRefs

open Jubako

/-- the source-side value of a model property (copy of `RawProp.toSrc` of Lemmas/FuncsDir.lean, which this
    script cannot import) -/
def Jubako.RawProp.toSrcD (p : RawProp) : Option Generated.SrcProperty :=
  match p.kind with
  | .padding => some (.padding p.size)
  | .variantId => some (.variantId p.name)
  | .uint sz dflt => some (.unsignedInt sz dflt p.name)
  | .sint sz dflt => some (.signedInt sz dflt p.name)
  | .content ps cs dflt => some (.contentAddress cs ps dflt p.name)
  | .array lenSize fixedLen dep _ => some (.array lenSize fixedLen dep p.name)
  | .deportedInt _ _ _ _ => none

/-- the translated `Property::process` over a column (copy of `processColumn` of Lemmas/FuncsStats.lean) -/
def processColumnD (p : Generated.SrcSchemaProp) : List Generated.SrcValue → Option Generated.SrcSchemaProp
  | [] => some p
  | v :: vs => (Generated.schemaPropertyProcess p v).bind (fun p' => processColumnD p' vs)

/-- copy of `entryValueOf` of Lemmas/FuncsEntry.lean -/
def entryValueOfD (stores : List VStore) (p : RawProp) (v : Val) : Generated.SrcEntryValue :=
  match p.kind with
  | .uint _ _ => .unsigned (uintOf v)
  | .sint _ _ => .signed (sintOf v)
  | .content _ _ _ => .content (packOf v, cidOf v)
  | .array lenSize fixed dep _ =>
    let a := arrayOf v
    let vs := stores.getD ((dep.map (·.2)).getD 0) ⟨false, []⟩
    match lenSize with
    | none => .indirectArray (vs.idOf a)
    | some _ => .array (a.length, a.take fixed, vs.idOf (a.drop fixed))
  | _ => .unsigned 0

/-- copy of `RawProp.toSrcRaw` of Lemmas/FuncsParse.lean, and outcomes as text (panic texts dropped) -/
def toSrcRawD (p : RawProp) : Nat × Generated.SrcPropertyKind × Bytes :=
  (p.size,
   (match p.kind with
    | .padding => .padding
    | .content ps cs d => .contentAddress ps cs d
    | .uint sz d => .unsignedInt sz d
    | .sint sz d => .signedInt sz d
    | .array l f dep dflt => .array l f dep dflt
    | .variantId => .variantId
    | .deportedInt signed sz store id =>
      let i : Generated.SrcDeportedDefault := match id with | .inl v => .value v | .inr k => .keySize k
      if signed then .deportedSignedInt sz store i else .deportedUnsignedInt sz store i),
   p.name)

def outcomeText {α} [Repr α] : Outcome α → String
  | .ok a => "ok " ++ reprStr a
  | .err k => "err " ++ reprStr k
  | .panic _ => "panic"
  | .hang => "hang"
  | .fault => "fault"

/-- copy of `drainOffsets` of Lemmas/FuncsLookup.lean -/
def drainOffsetsD (B : Nat) : Nat → Nat → Nat → List Nat
  | 0, _, _ => []
  | fuel + 1, off, left =>
    match Generated.packOffsetsNext B off left with
    | (some o, off', left') => o :: drainOffsetsD B fuel off' left'
    | (none, _, _) => []

def grid : List Nat :=
  [0, 1, 2, 3, 4, 37, 38, 39, 127, 128, 255, 256, 257, 4094, 4095, 4096, 65535, 65536, 65537, 16777215, 16777216,
   4194303, 4194304, 4194305, 4294967295, 4294967296, 281474976710655, 281474976710656,
   4611686018427387903, 4611686018427387904, 9223372036854775807, 9223372036854775808, 18446744073709551615]

def small : List Nat := [0, 1, 2, 3, 5, 37, 38, 39, 100, 218, 255, 256, 257, 300, 4095, 4096, 65536]

def pairs (a b : List Nat) : List (Nat × Nat) := a.flatMap (fun x => b.map (fun y => (x, y)))

def cmp1 {α β} [ToString α] [ToString β] [BEq β] (name : String) (inputs : List α) (src mdl : α → β) : IO Unit := do
  match inputs.find? (fun x => !(src x == mdl x)) with
  | some x => IO.println s!"diff {name} input={x} source={src x} model={mdl x}"
  | none => IO.println s!"same {name} {inputs.length}"

def ordOf (n : Nat) : Ordering := if n % 3 = 0 then .lt else if n % 3 = 1 then .eq else .gt

instance : ToString RawProp := ⟨fun p => reprStr p⟩

instance : ToString Val := ⟨fun p => reprStr p⟩

instance : ToString (Option Generated.SrcProperty) := ⟨fun p => reprStr p⟩

instance : ToString Ordering := ⟨fun o => match o with | .lt => "lt" | .eq => "eq" | .gt => "gt"⟩

def main : IO Unit := do
  cmp1 "neededBytes" grid (fun v => Generated.neededBytes v) (fun v => some (neededBytes v))
  cmp1 "sizedOffsetPack" (pairs grid grid) (fun p => leBytes (Generated.sizedOffsetPack p.1 p.2 % 2 ^ 64) 8)
    (fun p => sizedOffsetEncode p.1 p.2)
  cmp1 "sizedOffsetUnpack" grid (fun v => let r := Generated.sizedOffsetUnpack v; (r.2, r.1))
    (fun v => sizedOffsetDecode (leBytes v 8))
  cmp1 "contentInfoPack" (pairs grid grid) (fun p => leBytes (Generated.contentInfoPack p.1 p.2 % 2 ^ 32) 4)
    (fun p => contentInfoEncode p.1 p.2)
  cmp1 "contentInfoUnpack" grid (fun v => Generated.contentInfoUnpack (v % 2 ^ 32)) (fun v => contentInfoDecode (leBytes v 4))
  cmp1 "idxIsValid" (pairs small small) (fun p => Generated.idxIsValid p.1 p.2) (fun p => decide (p.1 < p.2))
  cmp1 "offsetIsValid" (pairs small small) (fun p => Generated.offsetIsValid p.1 p.2) (fun p => decide (p.1 ≤ p.2))
  -- split rule: (blobs, compressed, data size, incoming size)
  let isFullIn : List (Nat × Bool × Nat × Nat) :=
    [0, 1, 4094, 4095, 4096].flatMap fun nb => [true, false].flatMap fun c =>
      [0, 1, 4194303, 4194304, 4194305].flatMap fun d => [0, 1, 4194304, 4194305].map fun s => (nb, c, d, s)
  cmp1 "clusterIsFull" isFullIn (fun x => Generated.clusterIsFull x.1 x.2.1 x.2.2.1 x.2.2.2)
    (fun x => (x.1 == Consts.maxBlobsPerCluster) || (x.2.1 && !(x.1 == 0) && decide (x.2.2.1 + x.2.2.2 > Consts.clusterSize)))
  -- cluster tail: (comp, blobs as sizes, raw size)
  let tailIn : List (Nat × List Nat × Nat) :=
    [0, 3].flatMap fun comp => [[5], [0, 0], [1, 2, 3], [255, 1], [65535, 1, 0], [70000, 30000, 1]].flatMap fun sizes =>
      [0, 1, 300, 70000, 20000000].map fun raw => (comp, sizes, raw)
  cmp1 "clusterTailWrites" tailIn
    (fun x =>
      let blobs := x.2.1.map (fun n => List.replicate n (0 : UInt8))
      let c : Cluster := ⟨0, x.1 != 0, blobs⟩
      let r := Generated.clusterTailWrites x.1 c.blobs.length c.dataSize (endOffsets c.blobs 0) x.2.2
      [UInt8.ofNat r.1.1, UInt8.ofNat r.1.2.1] ++ leBytes r.1.2.2 2 ++ (r.2.map (fun p => leBytes p.1 p.2)).flatten)
    (fun x =>
      let blobs := x.2.1.map (fun n => List.replicate n (0 : UInt8))
      let c : Cluster := ⟨0, x.1 != 0, blobs⟩
      (c.tail x.1 x.2.2).encode)
  let ints : List Int := (grid.filter (· < 2 ^ 63)).flatMap (fun (n : Nat) => [(n : Int), -(n : Int), -(n : Int) - 1])
  cmp1 "signedSizeKey" ints (fun v => Generated.signedSizeKey v) (fun v => (signedSizeKey v : Int))
  -- search: windows of up to 7 entries, every probe position, both modes, offsets 0 and 3
  let findIn : List (Nat × Nat × Nat × Bool) :=
    (List.range 8).flatMap fun count => (List.range 9).flatMap fun target => [0, 3].flatMap fun off =>
      [true, false].map fun o => (count, target, off, o)
  cmp1 "rangeFind" findIn
    (fun x => Generated.rangeFind (fun i => compare (2 * i) (2 * (x.2.2.1 + x.2.1) - 1 + (x.2.1 % 2))) x.2.2.2 x.2.2.1 x.1)
    (fun x =>
      let c := fun i => compare (2 * (x.2.2.1 + i)) (2 * (x.2.2.1 + x.2.1) - 1 + (x.2.1 % 2))
      some (if x.2.2.2 then findOrdered c x.1 else findLinear c x.1))
  let winIn : List (Nat × Nat × Nat) := [0, 3, 7].flatMap fun o => [0, 1, 4].flatMap fun c => (List.range 12).map fun k => (o, c, k)
  cmp1 "rangeGetEntry" winIn (fun x => Generated.rangeGetEntry x.1 x.2.1 x.2.2) (fun x => if x.2.2 < x.2.1 then some (x.1 + x.2.2) else none)
  let regs : List (Nat × Nat × Nat × Nat) := small.flatMap fun b => [0, 7, 300].flatMap fun len =>
    [0, 1, 5].flatMap fun o => [0, 1, 2].map fun s => (b, b + len, o, s)
  cmp1 "regionCutRel" regs (fun x => Generated.regionCutRel x.1 x.2.1 x.2.2.1 x.2.2.2)
    (fun x => let r := (Region.mk x.1 x.2.1).cutRel x.2.2.1 x.2.2.2; (r.b, r.e))
  let sts : List (Nat × Nat × Nat) := small.flatMap fun b => [0, 7, 300].flatMap fun len => [0, 1, 7].map fun c => (b, b + len, b + c)
  cmp1 "streamSizeLeft" sts (fun x => Generated.streamSizeLeft x.1 x.2.1 x.2.2) (fun x => (Stream.mk [] ⟨x.1, x.2.1⟩ x.2.2).sizeLeft)
  cmp1 "streamSize" sts (fun x => Generated.streamSize x.1 x.2.1 x.2.2) (fun x => (Stream.mk [] ⟨x.1, x.2.1⟩ x.2.2).size)
  cmp1 "streamOffset" sts (fun x => Generated.streamOffset x.1 x.2.1 x.2.2) (fun x => (Stream.mk [] ⟨x.1, x.2.1⟩ x.2.2).offset)
  -- check stream: (pack offset, number of infos, stream offset, buffer length)
  let csIn : List (Nat × Nat × Nat × Nat) :=
    [128, 65000].flatMap fun po => [0, 1, 3].flatMap fun n =>
      ([0, 1, 127, 128, 129, 165, 166, 167, 383, 384, 385, 421, 422, 640, 895, 896, 897, 65536].map (· + po - 128)).flatMap fun pos =>
        [0, 1, 37, 38, 218, 219, 256, 65536].map fun req => (po, n, pos, req)
  let src : Bytes := (List.range 70000).map (fun i => UInt8.ofNat (i % 251 + 1))
  cmp1 "checkStreamStep" csIn
    (fun x =>
      let r := Generated.checkStreamStep packInfoBlockSize x.1 (x.1 + x.2.1 * packInfoBlockSize) x.2.2.1 x.2.2.2
      let s := src.drop x.2.2.1
      ((if r.2 then zeros (s.take r.1).length else s.take r.1), (s.drop r.1).length))
    (fun x =>
      let r := checkStreamRead x.1 x.2.1 x.2.2.1 (src.drop x.2.2.1) x.2.2.2
      (r.1, r.2.length))
  let vsIn : List (Bool × List Nat) := [true, false].flatMap fun ix => [[], [0], [3], [0, 2], [1, 2, 3], [255, 1], [200, 100, 7], [65535, 1, 0]].map fun l => (ix, l)
  cmp1 "valueStoreTailWrites" vsIn
    (fun x =>
      let s : VStore := ⟨x.1, x.2.map (fun n => List.replicate n (7 : UInt8))⟩
      ((if x.1 then Generated.indexedStoreTailWrites s.values s.dataSize else Generated.plainStoreTailWrites s.dataSize).map
        (fun p => leBytes p.1 p.2)).flatten)
    (fun x => (VStore.mk x.1 (x.2.map (fun n => List.replicate n (7 : UInt8)))).tailBytes)
  let ixIn : List (Nat × Nat × Nat × Nat) := [0, 1, 255, 65536, 4294967295].flatMap fun a => [0, 7].flatMap fun b => [0, 300].flatMap fun c => [0, 3, 255].map fun k => (a, b, c, k)
  cmp1 "indexTailWrites" ixIn
    (fun x => ((Generated.indexTailWrites x.1 x.2.1 x.2.2.1 [1, 2, 3, 4] x.2.2.2 [109, 97, 105, 110]).map (fun p => leBytes p.1 p.2)).flatten)
    (fun x => (IndexInfo.mk x.1 x.2.1 x.2.2.1 [1, 2, 3, 4] x.2.2.2 [109, 97, 105, 110]).encode)
  let ords : List Ordering := [.lt, .eq, .gt]
  let cmpIn : List (Ordering × Nat × Nat × Nat × Nat) := ords.flatMap fun o => [0, 1, 5].flatMap fun a => [0, 1, 5].flatMap fun b => [0, 2].flatMap fun c => [0, 2, 9].map fun d => (o, a, b, c, d)
  cmp1 "writerArrayCmp" cmpIn (fun x => Generated.writerArrayCmp x.1 x.2.1 x.2.2.1 x.2.2.2.1 x.2.2.2.2)
    (fun x => x.1.then ((compare x.2.1 x.2.2.1).then (compare x.2.2.2.1 x.2.2.2.2)))
  let props : List RawProp :=
    [⟨1, [], .padding⟩, ⟨16, [], .padding⟩, ⟨1, [118], .variantId⟩, ⟨1, [120], .uint 1 none⟩, ⟨0, [120], .uint 8 (some 72057594037927936)⟩,
     ⟨3, [121], .sint 3 none⟩, ⟨0, [121], .sint 2 (some (-300))⟩, ⟨2, [99], .content 1 1 none⟩, ⟨4, [99], .content 1 4 (some 7)⟩,
     ⟨3, [99], .content 2 1 none⟩, ⟨2, [99], .content 2 2 (some 300)⟩, ⟨5, [97], .array (some 1) 3 (some (1, 0)) none⟩,
     ⟨4, [97], .array (some 2) 2 none none⟩, ⟨2, [97], .array none 0 (some (2, 5)) none⟩, ⟨31, [97], .array none 31 none none⟩]
  cmp1 "propertyWrites" (props.map (fun p => (reprStr p, p)))
    (fun x => match x.2.toSrcD with
      | some sp => ((Generated.propertyWrites sp).map (fun p => leBytes p.1 p.2)).flatten
      | none => [])
    (fun x => x.2.encode)
  let optLists : List (List (Option Nat)) := [[], [none], [some 1], [none, some 2], [some 1, some 2], [none, none, some 3], [none, none]]
  cmp1 "chainedLocate" optLists (fun l => Generated.chainedLocate l) (fun l => some (l.findSome? id))
  let idLists : List (List Nat × Nat) := [([], 1), ([1], 1), ([2, 1], 1), ([1, 3, 2], 2), ([1, 2, 3], 4), ([3, 3], 3)]
  cmp1 "manifestPackInfoById" idLists (fun x => Generated.manifestPackInfoById x.1 x.2) (fun x => x.1.find? (· == x.2))
  let vl : List (List (Option Bool)) := [[], [none], [some true], [some false], [none, some false], [some true, none, some false, some true], [none, none, some true]]
  let ccIn : List (Bool × Bool × List (Option Bool)) := [true, false].flatMap fun m => [true, false].flatMap fun d => vl.map fun v => (m, d, v)
  cmp1 "containerCheck" ccIn (fun x => Generated.containerCheck x.1 x.2.1 x.2.2) (fun x => some (x.1 && x.2.1 && x.2.2.all (fun p => p.getD true)))
  cmp1 "packSizes" small
    (fun c => (Generated.contentPackSize c 64, Generated.directoryPackSize c 64, Generated.manifestPackSize c 64, Generated.containerPackSize c 64))
    (fun c => (c + 37 + 64, c + 37 + 64, c + 37 + 64, c + 5 + 64))
  -- column statistics end to end: Property::process over a column, then Property::finalize
  let ucols : List (List Nat) := [[], [0], [5], [5, 5], [5, 6], [255, 255, 255], [0, 256], [65535, 65536], [16777216], [4294967296, 1],
    [72057594037927936, 72057594037927936], [18446744073709551615, 0]]
  cmp1 "schemaProperty(uint)" ucols
    (fun c => (processColumnD (.unsignedInt .none (.auto 0) [120]) (c.map (fun (n : Nat) => Generated.SrcValue.unsigned (n : Int)))).map (Generated.schemaPropertyFinalize (fun _ => 0)))
    (fun c => (finalizeProp [] ⟨[120], .uint⟩ (c.map Val.u)).toSrcD)
  let scols : List (List Int) := [[], [0], [-1], [-1, -1], [127, -128], [128], [-129], [32767, -32768], [32768], [-8388609], [2147483648, 0],
    [-9223372036854775808, 9223372036854775807]]
  cmp1 "schemaProperty(sint)" scols
    (fun c => (processColumnD (.signedInt .none (.auto 0) [121]) (c.map (fun (n : Int) => Generated.SrcValue.signed n))).map (Generated.schemaPropertyFinalize (fun _ => 0)))
    (fun c => (finalizeProp [] ⟨[121], .sint⟩ (c.map Val.s)).toSrcD)
  let ccols : List (List (Nat × Nat)) := [[], [(0, 0)], [(1, 5), (1, 300)], [(1, 5), (2, 5)], [(255, 16777215)], [(256, 16777216), (256, 0)]]
  cmp1 "schemaProperty(content)" ccols
    (fun c => (processColumnD (.contentAddress .none (.auto 0) (.auto 0) [99]) (c.map (fun (x : Nat × Nat) => Generated.SrcValue.content ((x.1 : Int), (x.2 : Int))))).map (Generated.schemaPropertyFinalize (fun _ => 0)))
    (fun c => (finalizeProp [] ⟨[99], .content⟩ (c.map (fun x => Val.content x.1 x.2))).toSrcD)
  let acols : List (Nat × List Nat) := [0, 1, 3, 31].flatMap fun f => [[], [0], [3], [3, 300], [255, 256], [65536]].map fun l => (f, l)
  let st : List VStore := [⟨false, [[1, 2, 3]]⟩]
  cmp1 "schemaProperty(array)" acols
    (fun x => (processColumnD (.array (.auto 0) x.1 0 [97]) (x.2.map (fun (n : Nat) => Generated.SrcValue.array (n : Int)))).map
      (Generated.schemaPropertyFinalize (fun s => (st.getD s ⟨false, []⟩).keySize)))
    (fun x => (finalizeProp st ⟨[97], .array x.1 0⟩ (x.2.map (fun n => Val.arr (List.replicate n 7)))).toSrcD)
  -- the entry serialiser: size of a property, variant padding, bytes of one property of one entry
  cmp1 "layoutPropertySize" (props.map (fun p => (reprStr p, p)))
    (fun x => x.2.toSrcD.map Generated.layoutPropertySize) (fun x => some x.2.size)
  let fts : List (Nat × Nat) := pairs [0, 1, 5, 16, 17] [0, 1, 15, 16, 17, 31, 32, 33, 48, 100, 255, 300]
  cmp1 "fillToSize" (fts.filter (fun x => x.1 ≤ x.2)) (fun x => Generated.fillToSize x.1 x.2) (fun x => some ((paddingProps (x.2 - x.1)).map (·.size)))
  let est : List VStore := [⟨false, [[3, 4], [5], [9, 9, 9]]⟩, ⟨true, [[1], [1, 2, 3, 4], [7, 7]]⟩]
  let evals : List (RawProp × Val) :=
    [(⟨1, [120], .uint 1 none⟩, .u 7), (⟨3, [120], .uint 3 none⟩, .u 16777215), (⟨8, [120], .uint 8 none⟩, .u 18446744073709551615),
     (⟨0, [120], .uint 2 (some 513)⟩, .u 513), (⟨1, [121], .sint 1 none⟩, .s (-128)), (⟨2, [121], .sint 2 none⟩, .s (-129)),
     (⟨8, [121], .sint 8 none⟩, .s (-9223372036854775808)), (⟨0, [121], .sint 1 (some (-2))⟩, .s (-2)),
     (⟨2, [99], .content 1 1 none⟩, .content 3 200), (⟨5, [99], .content 2 3 none⟩, .content 300 70000), (⟨2, [99], .content 1 2 (some 4)⟩, .content 4 513),
     (⟨4, [97], .array (some 1) 2 (some (1, 0)) none⟩, .arr [1, 2, 3, 4]), (⟨4, [97], .array (some 1) 2 (some (1, 0)) none⟩, .arr [1]),
     (⟨4, [97], .array (some 1) 2 (some (1, 0)) none⟩, .arr []), (⟨6, [97], .array (some 2) 3 (some (1, 1)) none⟩, .arr [1, 2, 3, 7, 7]),
     (⟨1, [97], .array none 0 (some (1, 1)) none⟩, .arr [1, 2, 3, 4]), (⟨3, [], .padding⟩, .u 0), (⟨16, [], .padding⟩, .u 0), (⟨1, [118], .variantId⟩, .u 0)]
  cmp1 "entryPropertyWrites" evals
    (fun (x : RawProp × Val) => match x.1.toSrcD with
      | some k => (Generated.entryPropertyWrites k (entryValueOfD est x.1 x.2) (some 2)).map (fun ws => (ws.map (fun p => leBytes p.1 p.2)).flatten)
      | none => none)
    (fun (x : RawProp × Val) => some (serializeProp est x.1 x.2 (some 2)))
  -- the reader's property-header parser: every type nibble x every data nibble, over a tail long enough for
  -- every branch, and over truncated tails
  let tails : List Bytes := [[0x85, 0x0F, 0x04, 0x00, 0x00, 97, 98, 99, 100, 0, 0xfc, 0xfd, 0xfe, 0xff, 1, 97, 9, 9],
    [0xB5, 0x0F, 0x04, 0x00, 0x00] ++ List.replicate 40 (0x61 : UInt8) ++ [2, 97, 98], [0x1F, 1, 97], [0x21, 0x02, 0x01, 2, 97, 98], [0xff, 0x03, 0x02], [1], []]
  let heads : List Bytes := ((List.range 256).map (fun i => UInt8.ofNat i)).flatMap fun b => tails.map fun t => b :: t
  cmp1 "rawPropertyParse" ([] :: heads)
    (fun bs => outcomeText (Generated.rawPropertyParse bs))
    (fun bs => outcomeText ((RawProp.decode bs).map' (fun x => (toSrcRawD x.1, x.2))))
  -- the value of one property of an entry: integers of every width at several offsets of short and long entries
  let ent : Bytes := (List.range 24).map (fun i => UInt8.ofNat (i * 37 + 129))
  let ents : List Bytes := [ent, ent.take 9, ent.take 3, []]
  let ioffs : List (Bytes × Nat × Nat) := ents.flatMap fun e => [0, 1, 5, 8, 20].flatMap fun o => [1, 2, 3, 4, 5, 8].map fun w => (e, o, w)
  let noStore : Nat → Outcome (ValueStoreTail × Bytes) := fun _ => .err .format
  let noData : Nat → Nat → Option Nat → Outcome Bytes := fun _ _ _ => .err .format
  cmp1 "intPropertyCreate" ioffs
    (fun x => outcomeText ((Generated.intPropertyCreate x.1 x.2.1 x.2.2 none none noData).map' Val.u))
    (fun x => outcomeText (decodeProp noStore x.1 ⟨x.2.1, [], .uint x.2.2 none⟩))
  cmp1 "signedPropertyCreate" ioffs
    (fun x => outcomeText ((Generated.signedPropertyCreate x.1 x.2.1 x.2.2 none none noData).map' Val.s))
    (fun x => outcomeText (decodeProp noStore x.1 ⟨x.2.1, [], .sint x.2.2 none⟩))
  let coffs : List (Bytes × Nat × Nat × Nat × Option Nat) := ents.flatMap fun e => [0, 2, 7, 21].flatMap fun o => [1, 2].flatMap fun ps =>
    [1, 2, 3, 4].flatMap fun cs => [none, some 5].map fun d => (e, o, ps, cs, d)
  cmp1 "contentPropertyCreate" coffs
    (fun x => outcomeText ((Generated.contentPropertyCreate (x.1.drop x.2.1) x.2.2.2.2 x.2.2.1 x.2.2.2.1).map' (fun y => Val.content y.1.1 y.1.2)))
    (fun x => outcomeText (decodeProp noStore x.1 ⟨x.2.1, [], .content x.2.2.1 x.2.2.2.1 x.2.2.2.2⟩))
  let aoffs : List (Bytes × Nat × Option Nat × Nat) := ents.flatMap fun e => [0, 2, 7].flatMap fun o => [none, some 1, some 2].flatMap fun l =>
    [0, 1, 4, 31].map fun f => (e, o, l, f)
  cmp1 "arrayPropertyCreate" (aoffs.filter (fun x => x.2.1 ≤ x.1.length))
    (fun x => outcomeText ((Generated.arrayPropertyCreate (x.1.drop x.2.1) x.2.2.1 x.2.2.2 none none).bind fun r =>
      (resolveArray noStore r.1 r.2.1 x.2.2.2 r.2.2).map' Val.arr))
    (fun x => outcomeText (decodeProp noStore x.1 ⟨x.2.1, [], .array x.2.2.1 x.2.2.2 none none⟩))
  let poIn : List (Nat × Nat) := pairs [0, 128, 384, 1000, 65536, 70000] [0, 1, 2, 3, 7]
  cmp1 "packOffsets" poIn
    (fun x => let st := Generated.packOffsetsNew packInfoBlockSize x.1 x.2; drainOffsetsD packInfoBlockSize (x.2 + 1) st.1 st.2)
    (fun x => (List.range x.2).map (fun k => packInfosOffset x.1 x.2 + k * packInfoBlockSize))
  let caIn : List (List Nat × Nat) := [([], 0), ([], 5), ([3], 0), ([3, 3], 9), ([1, 300, 70000], 4096), ([5, 10], 1)]
  cmp1 "clusterAddContent" caIn
    (fun x => Generated.clusterAddContent (endOffsets (x.1.map (fun n => List.replicate n (7 : UInt8))) 0) 3 x.2)
    (fun x => some (endOffsets ((x.1.map (fun n => List.replicate n (7 : UInt8))) ++ [List.replicate x.2 7]) 0, (3, x.1.length)))
  -- the pack header: 60-byte blocks with every kind byte class, magic and version variations
  let hdr (magic : Bytes) (kind maj min : Nat) : Bytes :=
    magic ++ [UInt8.ofNat kind] ++ [1, 2, 3, 4] ++ [UInt8.ofNat maj, UInt8.ofNat min] ++ (List.range 16).map (fun i => UInt8.ofNat (i + 17)) ++
      [5] ++ zeros 5 ++ leBytes 123456789 8 ++ leBytes 4321 8 ++ zeros 12
  let hdrs : List Bytes := [[106, 98, 107], [106, 98, 108], [0, 0, 0]].flatMap fun m => [109, 100, 99, 67, 68, 0, 255].flatMap fun k =>
    [(0, 2), (0, 1), (1, 2), (0, 3)].map fun v => hdr m k v.1 v.2
  cmp1 "packHeaderParse" hdrs
    (fun bs => outcomeText ((Generated.packHeaderParse bs).map' (fun r => (r.1.1.toString, r.1.2.1, r.1.2.2.1, r.1.2.2.2.1, r.1.2.2.2.2.1, r.1.2.2.2.2.2.1, r.1.2.2.2.2.2.2.1, r.1.2.2.2.2.2.2.2))))
    (fun bs => outcomeText ((PackHeader.decode bs).map' (fun h => (h.kind.toString, h.vendor, h.major, h.minor, h.uuid, h.flags, h.packSize, h.checkInfoPos))))
  cmp1 "sortShape" [()] (fun _ => Generated.entryStoreSortShape.map reprStr) (fun _ => (finalizeSteps [[], []]).map (fun s => reprStr s.kind))
  -- tails of value stores: plain, indexed with 0..3 values, widths 1 and 2, bound violations, truncations
  let vsTails : List Bytes := [[0, 5, 0, 0, 0, 0, 0, 0, 0], [0, 5, 0, 0], [1, 0, 0, 0, 0, 0, 0, 0, 0, 1, 0], [1, 1, 0, 0, 0, 0, 0, 0, 0, 1, 9],
    [1, 3, 0, 0, 0, 0, 0, 0, 0, 1, 9, 2, 5], [1, 3, 0, 0, 0, 0, 0, 0, 0, 1, 9, 2, 10], [1, 3, 0, 0, 0, 0, 0, 0, 0, 2, 9, 1, 2, 0, 5, 1],
    [1, 3, 0, 0, 0, 0, 0, 0, 0, 1, 9, 2], [1, 3, 0, 0, 0, 0, 0, 0, 0, 0, 9, 2, 5], [1, 3, 0, 0, 0, 0, 0, 0, 0, 9, 9, 2, 5], [2, 0], []]
  cmp1 "valueStoreBuilderParse" vsTails
    (fun bs => outcomeText ((Generated.valueStoreBuilderParse bs).map' (fun r => r.1)))
    (fun bs => outcomeText ((valueStoreTailDecode bs).map' (fun t => ((if t.indexed then some t.offsets else none), t.dataSize))))
  -- tails of clusters (header bytes, stored size, data size, offsets)
  let clTails : List Bytes := [[0, 1, 1, 0, 7, 7], [0, 1, 3, 0, 9, 9, 2, 5], [3, 1, 3, 0, 4, 9, 2, 5], [0, 1, 3, 0, 8, 9, 2, 5], [0, 1, 3, 0, 9, 9, 2, 10],
    [0, 2, 2, 0, 9, 0, 9, 0, 4, 0], [0, 1, 3, 0, 9, 9, 2], [1, 1, 2, 0, 9]]
  cmp1 "clusterBuilderParse" clTails
    (fun bs => outcomeText ((Generated.clusterBuilderParse (bs.drop 4) ((bs.getD 0 0).toNat, (bs.getD 1 0).toNat, leNat (slice bs 2 2))).map'
      (fun r => (r.1.1.1, r.1.1.2.1, r.1.1.2.2, r.1.2))))
    (fun bs => outcomeText ((ClusterTail.decode bs).map' (fun t => (0 :: t.offsets ++ [t.dataSize], t.dataSize, t.comp, t.rawSize))))
  -- the fixed-width wrappers (`Count<uN>::parse`, `Size::parse`, `Offset::parse`): reads of 1, 2, 4, 8, 8, 8 bytes
  let wrapIn : List Bytes := [[], [7], [1, 2], [1, 2, 3], [1, 2, 3, 4, 5], [1, 2, 3, 4, 5, 6, 7], [1, 2, 3, 4, 5, 6, 7, 8], [255, 255, 255, 255, 255, 255, 255, 255, 9]]
  cmp1 "fixedWidthParsers" wrapIn
    (fun bs => [Generated.countU8Parse bs, Generated.countU16Parse bs, Generated.countU32Parse bs, Generated.countU64Parse bs,
      Generated.sizeParse bs, Generated.offsetParse bs].map outcomeText)
    (fun bs => [takeLE bs 1, takeLE bs 2, takeLE bs 4, takeLE bs 8, takeLE bs 8, takeLE bs 8].map outcomeText)
  cmp1 "indexWrappers" wrapIn
    (fun bs => [Generated.idxU8Parse bs, Generated.idxU16Parse bs, Generated.idxU32Parse bs, Generated.idxU64Parse bs,
      Generated.idU8Parse bs, Generated.idU16Parse bs].map outcomeText)
    (fun bs => [takeLE bs 1, takeLE bs 2, takeLE bs 4, takeLE bs 8, takeLE bs 1, takeLE bs 2].map outcomeText)
  -- the cluster header in front of the tail: every compression byte class, offset widths 0, 1, 8, 9, truncations
  let compNat : Generated.SrcCompression → Nat := fun c => match c with | .none => 0 | .lz4 => 1 | .lzma => 2 | .zstd => 3
  let clHeads : List Bytes := clTails ++ [[], [0], [4], [0, 1], [0, 0, 1, 0], [0, 9, 1, 0], [0, 8, 1, 0, 7], [2, 8, 255, 255], [4, 1, 1, 0], [255, 1, 1, 0], [3, 1, 1]]
  cmp1 "clusterHeaderParse" clHeads
    (fun bs => outcomeText ((Generated.clusterHeaderParse bs).map' (fun r => ((compNat r.1.1, r.1.2.1, r.1.2.2), r.2))))
    (fun bs => outcomeText (
      if bs.length < 4 then (.err .format : Outcome ((Nat × Nat × Nat) × Bytes)) else
      if (bs.getD 0 0).toNat > 3 then .err .format else
      if (bs.getD 1 0).toNat = 0 ∨ (bs.getD 1 0).toNat > 8 then .err .format else
      .ok (((bs.getD 0 0).toNat, (bs.getD 1 0).toNat, leNat (slice bs 2 2)), bs.drop 4)))
