/- Line-protocol driver: one operation per input line, one canonical line out. -/
import Driver.Util
import Driver.OpsView

open Jubako Jubako.Driver

def dispatch (line : String) : IO String := do
  match line.trimAscii.toString.splitOn " " with
  | "c13" :: args => return runView args
  | ["ping"] => return "pong"
  | _ => return "bad-op"

partial def loop (hin : IO.FS.Stream) (hout : IO.FS.Stream) : IO Unit := do
  let line ← hin.getLine
  if line.isEmpty then return ()
  let out ← dispatch line
  hout.putStrLn out
  loop hin hout

def main (args : List String) : IO Unit := do
  match args with
  | [inp, outp] =>
    let hin ← IO.FS.Handle.mk inp .read
    let hout ← IO.FS.Handle.mk outp .write
    loop (IO.FS.Stream.ofHandle hin) (IO.FS.Stream.ofHandle hout)
    hout.flush
  | _ =>
    loop (← IO.getStdin) (← IO.getStdout)
