/- Line-protocol driver: one operation per input line, one canonical line out. -/
import Driver.Util
import Driver.OpsView
import Driver.OpsPack
import Driver.OpsContent
import Driver.OpsPipeline
import Driver.OpsDir
import Driver.OpsSearch
import Driver.OpsContainer
import Driver.OpsSyncVec
import Driver.OpsFs

open Jubako Jubako.Driver

/-- one-entry file cache: consecutive ops on the same file read it once -/
initialize fileCache : IO.Ref (String × Bytes) ← IO.mkRef ("", [])

def fileOf (path : String) : IO Bytes := do
  let (p, b) ← fileCache.get
  if p == path then return b
  let b ← readFileBytes path
  fileCache.set (path, b)
  return b

def dispatch (line : String) : IO String := do
  match line.trimAscii.toString.splitOn " " with
  | "c13" :: args => return runView args
  | "b3" :: args => runPack fileOf "b3" args
  | "pk.check" :: args => runPack fileOf "pk.check" args
  | "pk.checkx" :: args => runPack fileOf "pk.checkx" args
  | "mp.infos" :: args => runPack fileOf "mp.infos" args
  | "mp.setloc" :: args => runPack readFileBytes "mp.setloc" args
  | "cp.decode" :: args => runContent fileOf "cp.decode" args
  | "cp.encode" :: args => runContent fileOf "cp.encode" args
  | "hist.pipeline" :: args => runPipelineHist fileOf args
  | "dp.decode" :: args => runDir fileOf "dp.decode" args
  | "dp.encode" :: args => runDirEncode fileOf args
  | "find" :: args => return runFind args
  | "ct.open" :: args => runContainerOpen args
  | "ct.read" :: args => runContainerRead args
  | "hist.syncvec" :: args => return runSyncVecHist args
  | "hist.fs" :: args => return runFsHist args
  | ["ping"] => return "pong"
  | _ => return "bad-op"

partial def loop (hin : IO.FS.Stream) (hout : IO.FS.Stream) : IO Unit := do
  let line ← hin.getLine
  if line.isEmpty then return ()
  let out ← dispatch line
  hout.putStrLn out
  loop hin hout

def main (args : List String) : IO Unit := do
  match args with
  | [inp, outp] =>
    let hin ← IO.FS.Handle.mk inp .read
    let hout ← IO.FS.Handle.mk outp .write
    loop (IO.FS.Stream.ofHandle hin) (IO.FS.Stream.ofHandle hout)
    hout.flush
  | _ =>
    loop (← IO.getStdin) (← IO.getStdout)
