/- Driver op `find`: binary / linear search of `RangeTrait::find` over a window of sorted keys. -/
import JubakoModel.Model.Search
import JubakoModel.Model.Order
import Driver.Util

namespace Jubako.Driver
open Jubako

def parseKey (s : String) : Option Key :=
  match s.toList with
  | 'u' :: rest => (String.ofList rest).toNat?.map Key.u
  | 's' :: rest => (String.ofList rest).toInt?.map Key.s
  | 'a' :: rest => (fromHex (String.ofList rest)).map Key.a
  | _ => none

def parseKeys (s : String) : Option (List Key) := (s.splitOn ",").mapM parseKey

def runFind (args : List String) : String :=
  match args with
  | [mode, off, cnt, probe, keys] =>
    match off.toNat?, cnt.toNat?, parseKeys probe, (if keys = "-" then some [] else (keys.splitOn ";").mapM parseKeys) with
    | some off, some cnt, some probe, some keys =>
      let arr := keys.toArray
      let cmp : Nat → Ordering := fun i => readerKeysCmp (arr.getD (off + i) []) probe
      let r := if mode = "bin" then findOrdered cmp cnt else findLinear cmp cnt
      match r with
      | some i => s!"some {i}"
      | none => "none"
    | _, _, _, _ => "bad-args"
  | _ => "bad-args"

end Jubako.Driver
