/- Driver op `hist.pipeline`: conformance of an observed Progress-event history with the pipeline
   model, and of the writer's completion order with the order of the clusters in the file. -/
import JubakoModel.Model.Pipeline
import Driver.OpsContent

namespace Jubako.Driver
open Jubako

def parseEvent (s : String) : Option PEvent :=
  match s.toList with
  | 'n' :: rest =>
    let comp := rest.getLast? == some 'c'
    (String.ofList rest.dropLast).toNat?.map (fun i => PEvent.newCluster i comp)
  | 'h' :: rest =>
    let comp := rest.getLast? == some 'c'
    (String.ofList rest.dropLast).toNat?.map (fun i => PEvent.handle i comp)
  | 'w' :: rest => (String.ofList rest).toNat?.map PEvent.written
  | _ => none

def runPipelineHist (fileOf : String → IO Bytes) (args : List String) : IO String := do
  match args with
  | [file, origin, size, events] =>
    match origin.toNat?, size.toNat?, (if events = "" then some [] else (events.splitOn ",").mapM parseEvent) with
    | some o, some s, some evs => do
      let f := slice (← fileOf file) o s
      match (Obs.mk [] [] [] 0).run evs with
      | none => return "history-not-accepted"
      | some obs =>
        -- order of clusters in the file
        match contentOpen f with
        | .ok (_, ch) =>
          match readBlock f ch.clusterPtrPos (8 * ch.clusterCount) with
          | .ok tbl =>
            let sos := (List.range ch.clusterCount).map (fun i => ((sizedOffsetDecode (slice tbl (8 * i) 8)).1, i))
            let fileOrder := (sos.mergeSort (fun a b => a.1 ≤ b.1)).map (·.2)
            let writtenOrder := obs.written.reverse
            if fileOrder ≠ writtenOrder then return s!"written-order {writtenOrder} differs from file order {fileOrder}"
            else if obs.opened.length ≠ ch.clusterCount then return s!"opened {obs.opened.length} clusters, file has {ch.clusterCount}"
            else return "ok"
          | r => return outcomeStr (fun _ => "") r
        | r => return outcomeStr (fun _ => "") r
    | _, _, _ => return "bad-args"
  | _ => return "bad-args"

end Jubako.Driver
