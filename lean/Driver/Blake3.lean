/-
Executable BLAKE3 (hash mode, 32-byte output) for the model driver, written from the BLAKE3
specification; shares no code with the `blake3` crate the library links.  Cross-checked against the
crate on every pack of every run by the harness, and against the published test vectors below.
Used only by the driver: the theorems treat the hash as an arbitrary function.
-/
namespace Jubako.Blake3

def IV : Array UInt32 := #[0x6A09E667, 0xBB67AE85, 0x3C6EF372, 0xA54FF53A, 0x510E527F, 0x9B05688C, 0x1F83D9AB, 0x5BE0CD19]
def PERM : Array Nat := #[2, 6, 3, 10, 7, 0, 4, 13, 1, 11, 12, 5, 9, 14, 15, 8]

def CHUNK_START : UInt32 := 1
def CHUNK_END : UInt32 := 2
def PARENT : UInt32 := 4
def ROOT : UInt32 := 8

@[inline] def rotr (x : UInt32) (n : UInt32) : UInt32 := (x >>> n) ||| (x <<< (32 - n))

@[inline] def g (s : Array UInt32) (a b c d : Nat) (mx my : UInt32) : Array UInt32 :=
  let sa := s[a]! + s[b]! + mx
  let sd := rotr (s[d]! ^^^ sa) 16
  let sc := s[c]! + sd
  let sb := rotr (s[b]! ^^^ sc) 12
  let sa := sa + sb + my
  let sd := rotr (sd ^^^ sa) 8
  let sc := sc + sd
  let sb := rotr (sb ^^^ sc) 7
  (((s.set! a sa).set! b sb).set! c sc).set! d sd

def round (s m : Array UInt32) : Array UInt32 :=
  let s := g s 0 4 8 12 m[0]! m[1]!
  let s := g s 1 5 9 13 m[2]! m[3]!
  let s := g s 2 6 10 14 m[4]! m[5]!
  let s := g s 3 7 11 15 m[6]! m[7]!
  let s := g s 0 5 10 15 m[8]! m[9]!
  let s := g s 1 6 11 12 m[10]! m[11]!
  let s := g s 2 7 8 13 m[12]! m[13]!
  g s 3 4 9 14 m[14]! m[15]!

def permute (m : Array UInt32) : Array UInt32 := PERM.map (fun i => m[i]!)

/-- compression function; returns the 16-word output -/
def compress (cv : Array UInt32) (m : Array UInt32) (counter : UInt64) (blockLen flags : UInt32) : Array UInt32 :=
  let s : Array UInt32 := #[cv[0]!, cv[1]!, cv[2]!, cv[3]!, cv[4]!, cv[5]!, cv[6]!, cv[7]!,
    IV[0]!, IV[1]!, IV[2]!, IV[3]!, counter.toUInt32, (counter >>> 32).toUInt32, blockLen, flags]
  let s := round s m
  let m := permute m
  let s := round s m
  let m := permute m
  let s := round s m
  let m := permute m
  let s := round s m
  let m := permute m
  let s := round s m
  let m := permute m
  let s := round s m
  let m := permute m
  let s := round s m
  (Array.range 16).map (fun i => if i < 8 then s[i]! ^^^ s[i + 8]! else s[i]! ^^^ cv[i - 8]!)

/-- 16 little-endian words from up to 64 bytes of `ba` at `off` (zero padded) -/
def blockWords (ba : ByteArray) (off len : Nat) : Array UInt32 :=
  (Array.range 16).map (fun w =>
    let b (k : Nat) : UInt32 :=
      let i := 4 * w + k
      if i < len then (ba.get! (off + i)).toUInt32 else 0
    b 0 ||| (b 1 <<< 8) ||| (b 2 <<< 16) ||| (b 3 <<< 24))

/-- chaining value (or root output when `rootFlag`) of one chunk `ba[off, off+len)`, `len ≤ 1024` -/
def chunkOut (ba : ByteArray) (off len : Nat) (counter : UInt64) (rootFlag : Bool) : Array UInt32 :=
  let nblocks := if len = 0 then 1 else (len + 63) / 64
  let rec go (i : Nat) (fuel : Nat) (cv : Array UInt32) : Array UInt32 :=
    match fuel with
    | 0 => cv
    | fuel + 1 =>
      let bl := min 64 (len - 64 * i)
      let last := i + 1 == nblocks
      let flags : UInt32 := (if i == 0 then CHUNK_START else 0) ||| (if last then CHUNK_END else 0)
        ||| (if last && rootFlag then ROOT else 0)
      let out := compress cv (blockWords ba (off + 64 * i) bl) counter bl.toUInt32 flags
      if last then out else go (i + 1) fuel (out.extract 0 8)
  go 0 nblocks IV

def parentOut (l r : Array UInt32) (rootFlag : Bool) : Array UInt32 :=
  compress IV (l.extract 0 8 ++ r.extract 0 8) 0 64 (PARENT ||| (if rootFlag then ROOT else 0))

/-- largest power of two strictly less than `n` (n ≥ 2) -/
def leftChunks (n : Nat) : Nat :=
  let rec go (p : Nat) (fuel : Nat) : Nat :=
    match fuel with
    | 0 => p
    | fuel + 1 => if 2 * p < n then go (2 * p) fuel else p
  go 1 64

def subtree (ba : ByteArray) (off len : Nat) (counter : UInt64) (rootFlag : Bool) : Nat → Array UInt32
  | 0 => chunkOut ba off (min len 1024) counter rootFlag
  | fuel + 1 =>
    if len ≤ 1024 then chunkOut ba off len counter rootFlag
    else
      let nchunks := (len + 1023) / 1024
      let lc := leftChunks nchunks
      let l := subtree ba off (lc * 1024) counter false fuel
      let r := subtree ba (off + lc * 1024) (len - lc * 1024) (counter + lc.toUInt64) false fuel
      parentOut l r rootFlag

def hash (ba : ByteArray) : ByteArray :=
  let out := subtree ba 0 ba.size 0 true 64
  (out.extract 0 8).foldl (fun (acc : ByteArray) (w : UInt32) =>
    (((acc.push w.toUInt8).push (w >>> 8).toUInt8).push (w >>> 16).toUInt8).push (w >>> 24).toUInt8) ByteArray.empty

def hashList (bs : List UInt8) : List UInt8 := (hash (ByteArray.mk bs.toArray)).toList

end Jubako.Blake3
