/- Driver utilities: line protocol helpers (core Lean only). -/
import JubakoModel.Model.Bytes

namespace Jubako.Driver

def splitOn (s : String) (sep : String) : List String := s.splitOn sep

def nat? (s : String) : Option Nat := s.toNat?

def readFileBytes (path : String) : IO Bytes := do
  let ba ← IO.FS.readBinFile path
  return ba.toList

def outcomeStr {α} (f : α → String) : Outcome α → String
  | .ok a => "ok " ++ f a
  | .err k => "err " ++ k.toString
  | .panic s => "panic " ++ s
  | .hang => "hang"
  | .fault => "fault"

end Jubako.Driver
