/- Driver op `c13`: region / slice / stream algebra. -/
import JubakoModel.Model.View
import Driver.Util

namespace Jubako.Driver
open Jubako

structure ViewSt where
  view : View
  stream : Option Stream

def viewOp (st : ViewSt) (op : String) : ViewSt × String :=
  match op.splitOn ":" with
  | ["cut", o, s] =>
    match o.toNat?, s.toNat? with
    | some o, some s =>
      if st.view.r.CutOk o s then ({ st with view := st.view.cut o s }, "ok")
      else (st, "badcut")
    | _, _ => (st, "bad-op")
  | ["slice", o, s] =>
    match o.toNat?, s.toNat? with
    | some o, some s =>
      if st.view.r.CutOk o s then (st, toHexP (st.view.getSlice o s)) else (st, "badcut")
    | _, _ => (st, "bad-op")
  | ["bytes"] => (st, toHexP (st.view.getSlice 0 st.view.size))
  | ["size"] => (st, toString st.view.size)
  | ["stream"] => ({ st with stream := some st.view.stream }, "ok")
  | ["fromregion"] => ({ st with stream := some (Stream.ofRegion st.view) }, "ok")
  | ["read", n, k] =>
    match st.stream, n.toNat?, k.toNat? with
    | some s, some n, some k =>
      -- `k` = number of bytes the implementation's source actually returned for this call; the
      -- model accepts it iff it is a legal (possibly short) read, and returns its own bytes.
      let maxLen := (s.read n 0).1.length
      if k > maxLen ∨ (k = 0 ∧ maxLen > 0 ∧ n > 0) then (st, "illegal-read-length max=" ++ toString maxLen)
      else
        let (chunk, s') := s.read n k
        let chunk := if k = 0 then [] else chunk
        let s' := if k = 0 then s else s'
        ({ st with stream := some s' },
          toHexP chunk ++ "," ++ toString s'.offset ++ "," ++ toString s'.sizeLeft ++ "," ++ toString s'.size)
    | _, _, _ => (st, "bad-op")
  | _ => (st, "bad-op")

def runView (args : List String) : String :=
  match args with
  | [src, b, e, ops] =>
    match fromHex src, b.toNat?, e.toNat? with
    | some src, some b, some e =>
      if b ≤ e ∧ e ≤ src.length then
        let st0 : ViewSt := ⟨⟨src, ⟨b, e⟩⟩, none⟩
        let (_, outs) := (ops.splitOn ";").foldl
          (fun (acc : ViewSt × List String) op =>
            let (st', o) := viewOp acc.1 op
            (st', o :: acc.2)) (st0, [])
        ";".intercalate outs.reverse
      else "bad-region"
    | _, _, _ => "bad-args"
  | _ => "bad-args"

end Jubako.Driver
