/- Driver ops `cp.decode` / `cp.encode`: independent content-pack decoder and writer model. -/
import JubakoModel.Model.ContentPack
import JubakoModel.Model.CreatorFast
import Driver.OpsPack

namespace Jubako.Driver
open Jubako

def fnv64 (bs : Bytes) : UInt64 :=
  bs.foldl (fun h b => (h ^^^ b.toUInt64) * 0x100000001b3) 0xcbf29ce484222325

def hex64 (v : UInt64) : String :=
  let ds := (List.range 16).map (fun i => hexDigit ((v >>> (UInt64.ofNat (4 * (15 - i)))).toNat % 16))
  String.ofList ds

structure DecCluster where
  idx : Nat
  tail : ClusterTail
  so : Nat × Nat
  start : Nat
  payload : Bytes
  plain : Bytes
  blobs : Array Bytes

structure DecPack where
  header : PackHeader
  ch : ContentHeader
  infos : Array (Nat × Nat)
  clusters : Array DecCluster
  check : Outcome Bool

/-- decode a whole content pack; compressed clusters get their plain data from `<decdir>/cluster<i>.dec` -/
def decodeContentPack (f : Bytes) (decdir : String) : IO (Outcome DecPack) := do
  match contentOpen f with
  | .ok (h, ch) =>
    match readBlock f ch.contentPtrPos (4 * ch.contentCount), readBlock f ch.clusterPtrPos (8 * ch.clusterCount) with
    | .ok infoTable, .ok ptrTable =>
      let mut clusters : Array DecCluster := #[]
      let mut rest := ptrTable
      for i in [0:ch.clusterCount] do
        let so := sizedOffsetDecode (rest.take 8)
        rest := rest.drop 8
        match clusterAt f so with
        | .ok (t, start) =>
          let payload := slice f start t.rawSize
          let plain ← if t.comp = 0 then pure payload else do
            let p := s!"{decdir}/cluster{i}.dec"
            if ← System.FilePath.pathExists p then readFileBytes p else pure []
          let blobs := (splitAtOffsets plain (t.offsets ++ [t.dataSize]) 0).toArray
          clusters := clusters.push ⟨i, t, so, start, payload, plain, blobs⟩
        | .err k => return .err k
        | .panic s => return .panic s
        | .hang => return .hang
        | .fault => return .fault
      let mut infos : Array (Nat × Nat) := #[]
      let mut irest := infoTable
      for _ in [0:ch.contentCount] do
        infos := infos.push (contentInfoDecode (irest.take 4))
        irest := irest.drop 4
      return .ok ⟨h, ch, infos, clusters, packCheck H id f⟩
    | .ok _, r => return r.map' (fun _ => default)
    | r, _ => return r.map' (fun _ => default)
  | r => return r.map' (fun _ => default)
where default : DecPack := ⟨⟨.content, [], 0, 0, [], 0, 0, 0⟩, ⟨0, 0, 0, 0, []⟩, #[], #[], .err .other⟩

def contentLine (d : DecPack) (flagsL : List Char) : String :=
  let flags := flagsL.toArray
  let items := (List.range d.infos.size).map (fun i =>
    let (cl, blob) := d.infos[i]!
    match d.clusters[cl]? with
    | none => "badcluster"
    | some c =>
      match c.blobs[blob]? with
      | none => "badblob"
      | some b =>
        let fl := flags.getD i 'd'
        let compStr := if fl = 'd' then "?" else toString c.tail.comp
        if c.plain.length < c.tail.dataSize then "short"
        else s!"{b.length}:{hex64 (fnv64 b)}:{compStr}")
  s!"count={d.infos.size} check={verdict d.check} " ++ ",".intercalate items

def parseSpec (s : String) : Option (List (Nat × Char)) :=
  if s = "-" then some [] else
  (s.splitOn ",").mapM (fun p =>
    match p.splitOn ":" with
    | [a, b] => match a.toNat?, b.toList with
      | some a, [c] => some (a, c)
      | _, _ => none
    | _ => none)

def splitItems (data : Bytes) : List (Nat × Char) → List (Bytes × Char)
  | [] => []
  | (n, c) :: rest => (data.take n, c) :: splitItems (data.drop n) rest

def runContent (fileOf : String → IO Bytes) (op : String) (args : List String) : IO String := do
  match op, args with
  | "cp.decode", [file, origin, size, flags, decdir] =>
    match origin.toNat?, size.toNat? with
    | some o, some s => do
      let f := slice (← fileOf file) o s
      match ← decodeContentPack f decdir with
      | .ok d => return "ok " ++ contentLine d (if flags = "-" then [] else flags.toList)
      | r => return outcomeStr (fun _ => "") r
    | _, _ => return "bad-args"
  | "cp.encode", [file, origin, size, itemsfile, spec, packcomp, decdir] =>
    match origin.toNat?, size.toNat?, parseSpec spec, packcomp.toNat? with
    | some o, some s, some spec, some pc => do
      let f := slice (← fileOf file) o s
      match ← decodeContentPack f decdir with
      | .ok d =>
        let raw ← readFileBytes itemsfile
        let parts := splitItems raw spec
        -- compression decision per content: y/n from the hint, d(etect) read out of the file
        let items : List Item := parts.zipIdx.map (fun ((data, fl), i) =>
          let comp :=
            if pc = 0 then false
            else if fl = 'y' then true
            else if fl = 'n' then false
            else match d.infos[i]? with
              | some (cl, _) => match d.clusters[cl]? with
                | some c => c.tail.comp ≠ 0
                | none => false
              | none => false
          ⟨data, comp⟩)
        -- `FastCreator` is the O(1)-per-item implementation of the creator model; theorem
        -- `fast_finalize_eq` (Lemmas/CreatorFast.lean): (FastCreator.addAll items).finalize = (Creator.init.addAll items).finalize
        let (closed, infos) := (FastCreator.addAll items).finalize
        -- arrival order = order of the clusters in the file
        let order := (d.clusters.toList.map (fun c => (c.so.1, c.idx))).mergeSort (fun a b => a.1 ≤ b.1)
        let arrival := order.filterMap (fun (_, idx) => closed.find? (fun c => c.idx == idx))
        if arrival.length ≠ closed.length ∨ closed.length ≠ d.clusters.size then
          return s!"cluster-set-mismatch model={closed.length} file={d.clusters.size}"
        let table := d.clusters.toList.filter (fun c => c.tail.comp ≠ 0)
        let codec : Codec := {
          byte := pc,
          compress := fun data => match table.find? (fun c => c.plain == data) with
            | some c => c.payload
            | none => [],
          decompress := fun _ => none }
        let m : ContentPackMeta := ⟨d.header.vendor, d.header.uuid, d.ch.freeData⟩
        let g := contentPackWrite H codec m arrival infos
        match firstDiff g f with
        | none => return "same"
        | some i => return s!"differ@{i} modelLen={g.length} fileLen={f.length}"
      | r => return outcomeStr (fun _ => "") r
    | _, _, _, _ => return "bad-args"
  | _, _ => return "bad-op"

end Jubako.Driver
