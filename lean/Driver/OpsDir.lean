/- Driver op `dp.decode`: independent directory-pack decoder (indexes, layouts, value stores, entries). -/
import JubakoModel.Model.DirLayout
import JubakoModel.Model.DirWriter
import Driver.OpsPack

namespace Jubako.Driver
open Jubako

def valStr : Val → String
  | .u n => s!"u{n}"
  | .s i => s!"s{i}"
  | .arr b => "a" ++ toHexP b
  | .content p i => s!"c{p}.{i}"

def bytesLt (a b : Bytes) : Bool :=
  match a, b with
  | [], [] => false
  | [], _ => true
  | _, [] => false
  | x :: xs, y :: ys => if x < y then true else if x > y then false else bytesLt xs ys

def entryStr (e : EntryVal) : String :=
  let vs := e.values.mergeSort (fun a b => !bytesLt b.1 a.1)
  let v := match e.variant with | none => "v-" | some i => s!"v{i}"
  ",".intercalate (v :: vs.map (fun (n, x) => toHexP n ++ "=" ++ valStr x))

structure DirPack where
  header : PackHeader
  dh : DirectoryHeader
  indexes : List IndexInfo
  /-- every index tail as the reader gets it when it is looked at (tails are read lazily, in table
      order, by `get_index_from_name`; by position by `get_index`) -/
  indexOutcomes : List (Outcome IndexInfo)
  stores : Array (Outcome (Layout × Bytes))
  vstores : Array (Outcome (ValueStoreTail × Bytes))

def tableEntries (tbl : Bytes) (n : Nat) : List (Nat × Nat) :=
  (List.range n).map (fun i => sizedOffsetDecode (slice tbl (8 * i) 8))

def decodeDirPack (f : Bytes) : Outcome DirPack := do
  let (h, dh) ← directoryOpen f
  let vt ← readBlock f dh.valueStorePtrPos (8 * dh.valueStoreCount)
  let et ← readBlock f dh.entryStorePtrPos (8 * dh.entryStoreCount)
  let it ← readBlock f dh.indexPtrPos (8 * dh.indexCount)
  let indexOutcomes : List (Outcome IndexInfo) := (tableEntries it dh.indexCount).map (fun so => do
    let b ← readBlock f so.1 so.2
    IndexInfo.decode b)
  let indexes := indexOutcomes.filterMap (fun r => match r with | .ok i => some i | _ => none)
  let vstores := ((tableEntries vt dh.valueStoreCount).map (fun so => valueStoreOpen f so)).toArray
  let stores := ((tableEntries et dh.entryStoreCount).map (fun so => entryStoreOpen f so)).toArray
  .ok ⟨h, dh, indexes, indexOutcomes, stores, vstores⟩

/-- the first index tail that does not decode, if any (`dp.decode` reads every index) -/
def DirPack.firstIndexFailure (d : DirPack) : Option (Outcome IndexInfo) :=
  d.indexOutcomes.find? (fun r => match r with | .ok _ => false | _ => true)

def dirDumpLine (d : DirPack) : String :=
  let getVS : Nat → Outcome (ValueStoreTail × Bytes) := fun i =>
    match d.vstores[i]? with
    | some r => r
    | none => .panic "cache.rs: value store index out of bounds"
  let parts := d.indexes.map (fun ix =>
    let head := s!"idx:{toHexP ix.name}:{ix.storeId}:{ix.count}:{ix.offset}:{ix.key}"
    match d.stores[ix.storeId]? with
    | none => head ++ "{panic store index out of bounds}"
    | some (.ok (l, data)) =>
      let es := (List.range ix.count).map (fun k =>
        let gi := ix.offset + k
        if gi < l.entryCount then
          let stride := if l.checked then l.entrySize + 4 else l.entrySize
          outcomeStr entryStr (decodeEntry getVS l (slice data (gi * stride) l.entrySize))
        else "none")
      head ++ "{" ++ ";".intercalate es ++ "}"
    | some r => head ++ "{" ++ outcomeStr (fun _ => "") r ++ "}")
  " ".intercalate parts

def runDir (fileOf : String → IO Bytes) (op : String) (args : List String) : IO String := do
  match op, args with
  | "dp.decode", [file, origin, size] =>
    match origin.toNat?, size.toNat? with
    | some o, some s => do
      let f := slice (← fileOf file) o s
      match decodeDirPack f with
      | .ok d =>
        match d.firstIndexFailure with
        | some r => return outcomeStr (fun _ => "") r
        | none => return s!"ok check={verdict (packCheck H id f)} " ++ dirDumpLine d
      | r => return outcomeStr (fun _ => "") r
    | _, _ => return "bad-args"
  | _, _ => return "bad-op"

end Jubako.Driver

namespace Jubako.Driver
open Jubako

def parseTy (s : String) : Option PDef :=
  match s.toList with
  | ['u'] => some .uint
  | ['s'] => some .sint
  | ['c'] => some .content
  | 'a' :: rest =>
    match (String.ofList rest).splitOn "." with
    | [f, st] => match f.toNat?, st.toNat? with
      | some f, some st => some (.array f st)
      | _, _ => none
    | _ => none
  | _ => none

def parsePropDef (s : String) : Option PropDef :=
  match s.splitOn ":" with
  | [n, t] => match fromHex n, parseTy t with
    | some n, some t => some ⟨n, t⟩
    | _, _ => none
  | _ => none

def parseVal (s : String) : Option Val :=
  match s.toList with
  | 'u' :: rest => (String.ofList rest).toNat?.map Val.u
  | 's' :: rest => (String.ofList rest).toInt?.map Val.s
  | 'a' :: rest => (fromHex (String.ofList rest)).map Val.arr
  | 'c' :: rest =>
    match (String.ofList rest).splitOn "." with
    | [p, i] => match p.toNat?, i.toNat? with
      | some p, some i => some (.content p i)
      | _, _ => none
    | _ => none
  | _ => none

def parseDirSpec (text : String) : Option DirIn :=
  let init : DirIn := ⟨[], ⟨[], []⟩, [], []⟩
  let r : Option DirIn := (text.splitOn "\n").foldlM (fun (d : DirIn) (line : String) =>
    match line.trimAscii.toString.splitOn " " with
    | [""] => some d
    | "stores" :: [k] => some { d with storeKinds := if k = "-" then [] else k.toList.map (· == 'i') }
    | "common" :: ps => (ps.mapM parsePropDef).map (fun ps => { d with schema := { d.schema with common := ps } })
    | "variant" :: vn :: ps =>
      match fromHex vn, ps.mapM parsePropDef with
      | some vn, some ps => some { d with schema := { d.schema with variants := d.schema.variants ++ [(vn, ps)] } }
      | _, _ => none
    | "entry" :: v :: vals =>
      match (if v = "-" then some none else v.toNat?.map some), vals.mapM parseVal with
      | some v, some vals => some { d with entries := ⟨v, vals⟩ :: d.entries }
      | _, _ => none
    | ["index", n, c, o] =>
      match fromHex n, c.toNat?, o.toNat? with
      | some n, some c, some o => some { d with indexes := d.indexes ++ [⟨n, c, o⟩] }
      | _, _, _ => none
    | _ => none) init
  r.map (fun d => { d with entries := d.entries.reverse })

def runDirEncode (fileOf : String → IO Bytes) (args : List String) : IO String := do
  match args with
  | [file, origin, size, specfile] =>
    match origin.toNat?, size.toNat? with
    | some o, some s => do
      let f := slice (← fileOf file) o s
      let text ← IO.FS.readFile specfile
      match parseDirSpec text, directoryOpen f with
      | some d, .ok (h, dh) =>
        let g := dirPackWrite H h.vendor h.uuid dh.freeData d
        match firstDiff g f with
        | none => return "same"
        | some i => return s!"differ@{i} modelLen={g.length} fileLen={f.length}"
      | none, _ => return "bad-spec"
      | _, r => return outcomeStr (fun _ => "") r
    | _, _ => return "bad-args"
  | _ => return "bad-args"

end Jubako.Driver
