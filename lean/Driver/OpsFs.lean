/- Driver op `hist.fs`: is the recorded file-system trace of a creation run disciplined? -/
import JubakoModel.Model.AtomicFs
import JubakoModel.Model.BasicCreatorFs
import Driver.Util

namespace Jubako.Driver
open Jubako

/-- `C:<path>` create, `W:<path>` write, `R:<src>><dst>` rename, `U:<path>` unlink -/
def parseFsOps (s : String) : Option (List FsOp) :=
  let items := if s = "-" then [] else s.splitOn ","
  let r := items.foldl (fun (acc : Option (List FsOp × Nat)) it =>
    match acc with
    | none => none
    | some (ops, n) =>
      match it.toList with
      | 'C' :: ':' :: rest => some (FsOp.create (String.ofList rest) :: ops, n)
      | 'W' :: ':' :: rest => some (FsOp.write (String.ofList rest) n :: ops, n + 1)
      | 'U' :: ':' :: rest => some (FsOp.unlink (String.ofList rest) :: ops, n)
      | 'R' :: ':' :: rest =>
        match (String.ofList rest).splitOn ">" with
        | [a, b] => some (FsOp.rename a b :: ops, n)
        | _ => none
      | _ => none) (some ([], 0))
  r.map (fun p => p.1.reverse)

def isTempName (p : FPath) : Bool := p.startsWith ".tmp"

def modeOfString : String → Option ConcatMode
  | "onefile" => some .oneFile
  | "twofiles" => some .twoFiles
  | "noconcat" => some .noConcat
  | _ => none

def runFsHist3 (entry old ops : String) : String :=
  match [entry, old, ops] with
  | [entry, old, ops] =>
    match parseFsOps ops with
    | some t =>
      let oldPaths := if old = "-" then [] else old.splitOn ","
      if Discipline isTempName entry oldPaths t then
        -- every crash prefix: entry is old or complete (computed, as a cross-check of the theorem)
        let oldFs : FSt := ⟨oldPaths.map (fun p => (p, [0]))⟩
        let bad := (List.range (t.length + 1)).find? (fun k =>
          let fs := oldFs.run (t.take k)
          let e := fs.get entry
          !(e == oldFs.get entry || (renamesOf (t.take k)).any (fun r => r.2 == entry && e == some (allWritesTo r.1 t))))
        match bad with
        | none => s!"disciplined ops={t.length} renames={(renamesOf t).length}"
        | some k => s!"disciplined-but-prefix-{k}-bad"
      else
        -- report the first rejected operation
        let rec firstBad (s : DiscSt) (i : Nat) : List FsOp → String
          | [] => "rejected-at-end"
          | op :: rest => match discStep isTempName entry oldPaths s op with
            | some s' => firstBad s' (i + 1) rest
            | none => s!"not-disciplined at op {i}: {repr op}"
        firstBad ⟨[], [], [], false⟩ 0 t
    | none => "bad-ops"
  | _ => "bad-args"

/-- args: [mode,] entry name, comma list of pre-existing names (or `-`), the ops.  With a mode the
    answer also says whether the recorded trace is an instance of the model's `creationTrace` for
    that packaging (the object of `c09_modes`). -/
def runFsHist (args : List String) : String :=
  match args with
  | [entry, old, ops] => runFsHist3 entry old ops
  | [mode, entry, old, ops] =>
    match modeOfString mode, parseFsOps ops with
    | some m, some t =>
      let inst := if isCreationInstance m entry t then "instance-of-model" else
        s!"NOT-instance-of-model shape={repr (eraseWrites t)}"
      runFsHist3 entry old ops ++ " " ++ inst
    | _, _ => "bad-args"
  | _ => "bad-args"

end Jubako.Driver
