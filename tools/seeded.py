#!/usr/bin/env python3
"""Run checks against a seeded change:  tools/seeded.py <seeded-id> [--checks C01,C08] [--tier quick]

Applies /verif/seeded/<id>/patch.diff to /repo (git apply), runs the listed checks (default: the
property named in meta.json), records exit status and VIOLATION lines in
/verif/seeded/<id>/result.json, and restores /repo (git checkout -- .) whatever happens.
"""
import json
import os
import subprocess
import sys
import time

VERIF = os.path.normpath(os.path.join(os.path.dirname(os.path.abspath(__file__)), ".."))
REPO = "/repo"


def sh(cmd, **kw):
    return subprocess.run(cmd, stdout=subprocess.PIPE, stderr=subprocess.STDOUT, text=True, **kw)


def main():
    sid = sys.argv[1]
    d = os.path.join(VERIF, "seeded", sid)
    meta = json.load(open(os.path.join(d, "meta.json")))
    checks = [meta["property"]]
    tier = "quick"
    if "--checks" in sys.argv:
        checks = sys.argv[sys.argv.index("--checks") + 1].split(",")
    if "--tier" in sys.argv:
        tier = sys.argv[sys.argv.index("--tier") + 1]
    st = sh(["git", "-C", REPO, "status", "--porcelain", "--untracked-files=no"]).stdout.strip()
    if st:
        print("refusing: /repo has uncommitted changes:\n" + st)
        return 2
    r = sh(["git", "-C", REPO, "apply", os.path.join(d, "patch.diff")])
    if r.returncode != 0:
        print("patch does not apply:", r.stdout)
        return 2
    results = {}
    try:
        for c in checks:
            t0 = time.time()
            p = sh([os.path.join(VERIF, "check"), c, "--tier", tier], cwd=VERIF)
            lines = [l for l in p.stdout.splitlines() if l.startswith("VIOLATION") or l.startswith("KNOWN-FINDING")]
            replays = []
            for l in lines:
                if "replay=" in l:
                    rp = l.split("replay=")[1].split()[0]
                    try:
                        j = json.load(open(rp))
                        replays.append({"signature": j.get("signature", j.get("kind")), "what": (j.get("what") or str(j.get("no_longer_checks")))[:400]})
                    except Exception:
                        pass
            results[c] = {"exit": p.returncode, "violation_lines": lines, "replays": replays, "wall_s": round(time.time() - t0, 1), "tail": p.stdout.strip().splitlines()[-1:] }
            print(c, "exit", p.returncode, *lines, sep="\n  ")
    finally:
        sh(["git", "-C", REPO, "checkout", "--", "."])
        sh(["git", "-C", REPO, "clean", "-fdq", "tests", "examples"])
    out = {"seeded": sid, "tier": tier, "results": results, "detected_by": [c for c, v in results.items() if v["exit"] == 1]}
    with open(os.path.join(d, "result.json"), "w") as f:
        json.dump(out, f, indent=1)
    return 0


if __name__ == "__main__":
    sys.exit(main())
