#!/usr/bin/env python3
"""Regenerate lean/JubakoModel/Generated/Funcs.lean from /repo/src: the bodies of small pure functions
(width rules, bit packing, split rule, binary search, region/stream arithmetic, check-stream masking, …)
translated from Rust to Lean by tools/rs2lean.py.  Lemmas/Funcs*.lean prove each generated definition
equal to the hand-written model function the property theorems are stated over, so a change of one of
these bodies breaks a proof obligation directly.

Fail-soft: a body the translator cannot handle keeps the pinned text (status "not-derived: …").
Prints a JSON status object; writes the Lean file only when its text changes.
"""
import json
import os
import sys

sys.path.insert(0, os.path.dirname(os.path.abspath(__file__)))
import rs2lean  # noqa: E402
import extract_layouts  # noqa: E402  (type widths derived from the source)

REPO = os.environ.get("JBK_REPO", "/repo")
HERE = os.path.dirname(os.path.abspath(__file__))
OUTDIR = os.environ.get("JBK_FUNCS_OUT") or os.path.normpath(os.path.join(HERE, "..", "lean", "JubakoModel", "Generated"))
PINNED = os.path.join(HERE, "funcs_pinned.json")

N = "Nat"

TARGETS = [
    # ---- bases
    dict(name="neededBytes", group="Bytes", file="src/bases/mod.rs", fn="needed_bytes",
         cfg=dict(params=[("val", N)], ret=N, fuel="val + 1")),
    dict(name="sizedOffsetPack", group="Bytes", file="src/bases/types/sized_offset.rs", fn="serialize", after=r"impl Serializable for SizedOffset",
         cfg=dict(params=[("offset", N), ("size", N)], ret=N, self_fields={"offset": "offset", "size": "size"},
                  self_methods={}, methods={"write_u64": "{0}"}, exprs={}, funcs={},
                  )),
    dict(name="sizedOffsetUnpack", group="Bytes", file="src/bases/types/sized_offset.rs", fn="parse", after=r"impl Parsable for SizedOffset",
         cfg=dict(params=[("data", N)], ret="Nat × Nat", exprs={"parser.read_u64()": "data"},
                  funcs={"Self::new": "({0}, {1})"})),
    dict(name="contentInfoPack", group="Bytes", file="src/common/content_info.rs", fn="serialize", after=r"impl Serializable for ContentInfo",
         cfg=dict(params=[("cluster", N), ("blob", N)], ret=N, self_fields={"cluster_index": "cluster", "blob_index": "blob"},
                  methods={"write_u32": "{0}"})),
    dict(name="contentInfoUnpack", group="Bytes", file="src/common/content_info.rs", fn="parse", after=r"impl Parsable for ContentInfo",
         cfg=dict(params=[("v", N)], ret="Nat × Nat", exprs={"parser.read_u32()": "v"},
                  struct_as={"Self": ["cluster_index", "blob_index"]})),
    # ---- content pack creator
    dict(name="clusterIsFull", group="Content", file="src/creator/content_pack/cluster.rs", fn="is_full",
         cfg=dict(params=[("nblobs", N), ("compressed", "Bool"), ("dataSize", N), ("size", N)], ret="Bool",
                  exprs={"self.offsets.len()": "nblobs", "self.offsets.is_empty()": "decide (nblobs = 0)"},
                  self_fields={"compressed": "compressed"}, self_methods={"data_size": "dataSize"},
                  paths={"MAX_BLOBS_PER_CLUSTER": "Consts.maxBlobsPerCluster", "CLUSTER_SIZE": "Consts.clusterSize"})),
    # ---- directory pack creator
    dict(name="signedSizeKey", group="Dir", file="src/creator/directory_pack/schema/property.rs", fn="signed_size_key",
         cfg=dict(params=[("v", "Int")], ret="Int", int=True,
                  methods={"checked_mul": "(if {recv} * {0} ≤ 9223372036854775807 then some ({recv} * {0}) else none)",
                           "unwrap_or": "(({recv}).getD {0})"},
                  paths={"i64::MAX": "9223372036854775807"})),
    # ---- reader: search
    dict(name="rangeFind", group="Search", file="src/reader/directory_pack/range.rs", fn="find",
         cfg=dict(params=[("cmpAt", "Nat → Ordering"), ("ordered", "Bool"), ("off", N), ("count", N)], ret="Option Nat",
                  self_methods={"count": "count", "offset": "off"},
                  exprs={"comparator.ordered()": "ordered"},
                  methods={"compare_entry": "cmpAt {0}"},
                  local_types={"cmp": "Ordering"},
                  for_counts={"self.count()": ("0", "count")},
                  fuel="count + 1")),
    # ---- regions and streams
    dict(name="regionCutRel", group="View", file="src/bases/types/range.rs", fn="cut_rel",
         cfg=dict(params=[("rbegin", N), ("rend", N), ("offset", N), ("size", N)], ret="Nat × Nat",
                  self_methods={"begin": "rbegin", "end": "rend"},
                  funcs={"Self::new": "({0}, {1})"})),
    dict(name="streamSizeLeft", group="View", file="src/reader/byte_stream.rs", fn="size_left",
         cfg=dict(params=[("rbegin", N), ("rend", N), ("cursor", N)], ret=N, self_fields={"offset": "cursor"},
                  exprs={"self.region.end()": "rend", "self.region.begin()": "rbegin", "self.region.size()": "(rend - rbegin)"})),
    dict(name="streamSize", group="View", file="src/reader/byte_stream.rs", fn="size",
         cfg=dict(params=[("rbegin", N), ("rend", N), ("cursor", N)], ret=N, self_fields={"offset": "cursor"},
                  exprs={"self.region.end()": "rend", "self.region.begin()": "rbegin", "self.region.size()": "(rend - rbegin)"})),
    dict(name="streamOffset", group="View", file="src/reader/byte_stream.rs", fn="offset", after=r"impl ByteStream",
         cfg=dict(params=[("rbegin", N), ("rend", N), ("cursor", N)], ret=N, self_fields={"offset": "cursor"},
                  exprs={"self.region.end()": "rend", "self.region.begin()": "rbegin", "self.region.size()": "(rend - rbegin)"})),
    # ---- the manifest's masked check stream: one `read` call = (bytes asked of the source, delivered as zeros?)
    dict(name="checkStreamStep", group="Check", file="src/common/check.rs", fn="read", after=r"impl<S: Read> Read for ManifestCheckStream",
         cfg=dict(params=[("blk", N), ("packOffset", N), ("startSafeZone", N), ("offset", N), ("bufLen", N)], ret="Nat × Bool",
                  prelude="let zeroed := false", prelude_scope=["zeroed"], local_types={"zeroed": "Bool"},
                  self_fields={"current_offset": "offset", "pack_offset": "packOffset", "start_safe_zone": "startSafeZone"},
                  paths={"PACK_INFO_SIZE": "blk", "PACK_INFO_TO_CHECK": "Consts.packInfoToCheck"},
                  exprs={"self.source.read(&buf[..size])": "size", "self.source.read(buf)": "bufLen", "buf.len()": "bufLen",
                         "Ok(read_size)": "(read_size, zeroed)"},
                  effects={"buf[..size].fill(0)": "let zeroed := true"})),
    # ---- cluster tail: the sequence of (value, width) writes after the cluster header
    dict(name="clusterTailWrites", group="Content", file="src/creator/content_pack/clusterwriter.rs", fn="serialize_cluster_tail",
         cfg=dict(params=[("compression", N), ("nblobs", N), ("dataSize", N), ("offsets", "List Nat"), ("raw_data_size", N)],
                  ret="(Nat × Nat × Nat) × List (Nat × Nat)", writes=True, no_loops=True,
                  prelude="let out : List (Nat × Nat) := []", prelude_scope=["out"],
                  exprs={"cluster.data_size()": "dataSize", "cluster.offsets.len()": "nblobs", "Ok(())": "(cluster_header, out)"},
                  funcs={"needed_bytes": "((Generated.neededBytes {0}).getD 0)", "ClusterHeader::new": "({0}, {1}, {2})"},
                  serializes={"cluster_header": "[]"},
                  iters={"&cluster.offsets[..cluster.offsets.len() - 1]": "offsets.dropLast"})),
    # ---- pack sizes declared by the four creators
    dict(name="blockCheckSize", group="Check", file="src/bases/block.rs", fn="size", after=r"impl BlockCheck",
         cfg=dict(params=[("kind", N)], ret=N, exprs={}, paths={"self": "kind"}, patterns={"Self::None": "0", "Self::Crc32": "_"})),
    dict(name="checkKindBlockSize", group="Check", file="src/common/check.rs", fn="block_size", after=r"impl CheckKind",
         cfg=dict(params=[("kind", N)], ret=N, paths={"self": "kind"}, patterns={"Self::None": "0", "Self::Blake3": "_"},
                  exprs={"BlockCheck::Crc32.size()": "(blockCheckSize 1)"})),
    dict(name="containerPackSize", group="Check", file="src/creator/container_pack.rs", fn="finalize", let="pack_size",
         cfg=dict(params=[("check_info_pos", N), ("headerBlock", N)], ret=N, paths={"PackHeader::BLOCK_SIZE": "headerBlock"}, exprs={"CheckKind::None.block_size()": "(checkKindBlockSize 0)", "CheckKind::Blake3.block_size()": "(checkKindBlockSize 1)"})),
    dict(name="contentPackSize", group="Check", file="src/creator/content_pack/creator.rs", fn="finalize", let="pack_size",
         cfg=dict(params=[("check_offset", N), ("headerBlock", N)], ret=N, paths={"PackHeader::BLOCK_SIZE": "headerBlock"}, exprs={"CheckKind::None.block_size()": "(checkKindBlockSize 0)", "CheckKind::Blake3.block_size()": "(checkKindBlockSize 1)"})),
    dict(name="directoryPackSize", group="Check", file="src/creator/directory_pack/directory_pack.rs", fn="write", let="pack_size", after=r"impl FinalizedDirectoryPackCreator",
         cfg=dict(params=[("check_offset", N), ("headerBlock", N)], ret=N, paths={"PackHeader::BLOCK_SIZE": "headerBlock"}, exprs={"CheckKind::None.block_size()": "(checkKindBlockSize 0)", "CheckKind::Blake3.block_size()": "(checkKindBlockSize 1)"})),
    dict(name="manifestPackSize", group="Check", file="src/creator/manifest_pack.rs", fn="finalize", let="pack_size",
         cfg=dict(params=[("check_offset", N), ("headerBlock", N)], ret=N, paths={"PackHeader::BLOCK_SIZE": "headerBlock"}, exprs={"CheckKind::None.block_size()": "(checkKindBlockSize 0)", "CheckKind::Blake3.block_size()": "(checkKindBlockSize 1)"})),
    dict(name="idxIsValid", group="Bytes", file="src/bases/types/idx.rs", fn="is_valid",
         cfg=dict(params=[("idx", N), ("s", N)], ret="Bool", exprs={"self.0": "idx"})),
    dict(name="offsetIsValid", group="Bytes", file="src/bases/types/offset.rs", fn="is_valid",
         cfg=dict(params=[("off", N), ("s", N)], ret="Bool", exprs={"self.0": "off"})),
    # ---- value store tails (writer mode)
    dict(name="plainStoreTailWrites", group="Dir", file="src/creator/directory_pack/value_store.rs", fn="serialize_tail", after=r"impl WritableTell for PlainValueStore",
         cfg=dict(params=[("dataSize", N)], ret="List (Nat × Nat)", writes=True, no_loops=True,
                  prelude="let out : List (Nat × Nat) := []", prelude_scope=["out"],
                  serializes={"self.size()": ("dataSize", "Size")}, exprs={"Ok(())": "out"})),
    dict(name="indexedStoreTailWrites", group="Dir", file="src/creator/directory_pack/value_store.rs", fn="serialize_tail", after=r"impl WritableTell for IndexedValueStore",
         cfg=dict(params=[("values", "List (List UInt8)"), ("dataSize", N)], ret="List (Nat × Nat)", writes=True, no_loops=True,
                  prelude="let out : List (Nat × Nat) := []", prelude_scope=["out"],
                  funcs={"needed_bytes": "((Generated.neededBytes {0}).getD 0)"},
                  serializes={"offset_size": ("offset_size", "ByteSize")},
                  exprs={"self.0.sorted_indirect.len()": "values.length", "self.0.size.into_u64()": "dataSize",
                         "self.0.sorted_indirect.is_empty()": "decide (values = [])", "self.0.data[*idx].0": "idx",
                         "data.len()": "data.length", "Ok(())": "out"},
                  iters={"&self.0.sorted_indirect[..(self.0.sorted_indirect.len() - 1)]": "values.dropLast"})),
    # ---- index tail (writer mode; field widths from the struct definition and the type table)
    dict(name="indexTailWrites", group="Dir", file="src/creator/directory_pack/mod.rs", fn="serialize_tail", after=r"impl super::private::WritableTell for Index",
         struct="Index",
         cfg=dict(params=[("storeId", N), ("count", N), ("offset", N), ("freeData", "List UInt8"), ("key", N), ("name", "List UInt8")],
                  ret="List (Nat × Nat)", writes=True, no_loops=True,
                  prelude="let out : List (Nat × Nat) := []", prelude_scope=["out"],
                  self_fields={"store_id": "storeId", "count": "count", "offset": "offset", "free_data": "(leNat freeData)", "index_key": "key", "name": "name"},
                  exprs={"Ok(())": "out"})),
    # ---- the creator's order on array values (inline prefix bytes, value id, length)
    dict(name="writerArrayCmp", group="Order", file="src/creator/directory_pack/value.rs", fn="cmp", after=r"impl Array \{",
         cfg=dict(params=[("dataCmp", "Ordering"), ("id1", N), ("id2", N), ("s1", N), ("s2", N)], ret="Ordering",
                  exprs={"self.data.cmp(&other.data)": "dataCmp",
                         "self.value_id.get().cmp(&other.value_id.get())": "(compare id1 id2)",
                         "self.size.cmp(&other.size)": "(compare s1 s2)"})),
    # ---- the layout header: one property (`Property::serialize`), as a sequence of writes
    dict(name="propertyWrites", group="Dir", file="src/creator/directory_pack/layout/property.rs", fn="serialize",
         after=r"impl<PN: PropertyName> Serializable for Property<PN>",
         enums=[dict(rust="Property", file="src/creator/directory_pack/layout/property.rs", lean="SrcProperty",
                     types={"&'static str": "List UInt8", "PN": "List UInt8", "u8": "Nat", "ByteSize": "Nat", "StoreHandle": "Nat",
                            "Option<ByteSize>": "Option Nat", "Option<(ByteSize, StoreHandle)>": "Option (Nat × Nat)",
                            "Option<u16>": "Option Nat", "Option<u64>": "Option Nat", "Option<i64>": "Option Int"}),
                dict(rust="PropType", file="src/bases/prop_type.rs", discriminants=True)],
         cfg=dict(params=[("p", "SrcProperty")], ret="List (Nat × Nat)", writes=True, no_loops=True,
                  prelude="let out : List (Nat × Nat) := []", prelude_scope=["out"],
                  paths={"self": "p"}, patterns={"ByteSize::U2": "2"},
                  serializes={"store.get_idx().unwrap()": ("store", "ValueStoreIdx"), "store_handle.get_idx().unwrap()": ("store_handle", "ValueStoreIdx")},
                  exprs={"Ok(written)": "out"})),
    # ---- the layout header of an entry store and the entry-store tail (writer mode, on top of propertyWrites)
    dict(name="entryLayoutWrites", group="Dir", file="src/creator/directory_pack/layout/entry.rs", fn="serialize",
         after=r"Serializable for Entry<PN, VN>",
         cfg=dict(params=[("entrySize", N), ("keyCount", N), ("common", "List SrcProperty"), ("variants", "List (List SrcProperty)")],
                  ret="List (Nat × Nat)", writes=True, no_loops=True,
                  prelude="let out : List (Nat × Nat) := []", prelude_scope=["out"],
                  self_fields={"entry_size": "entrySize"},
                  exprs={"self.variants.len()": "variants.length", "Ok(written)": "out"},
                  serializes={"self.key_count()": ("keyCount", "u8"), "self.common": "(common.flatMap propertyWrites)",
                              "variant": "(variant.flatMap propertyWrites)"},
                  iters={"&self.variants": "variants"})),
    dict(name="entryStoreTailWrites", group="Dir", file="src/creator/directory_pack/entry_store.rs", fn="serialize_tail",
         cfg=dict(params=[("nEntries", N), ("layoutWrites", "List (Nat × Nat)")], ret="List (Nat × Nat)", writes=True, no_loops=True,
                  prelude="let out : List (Nat × Nat) := []", prelude_scope=["out"],
                  exprs={"self.entries.len()": "nEntries", "Ok(())": "out"},
                  serializes={"entry_count": ("entry_count", "EntryCount"), "self.layout": "layoutWrites"})),
    # ---- the window of an index: which store entry (if any) relative id `id` designates
    dict(name="rangeGetEntry", group="Search", file="src/reader/directory_pack/range.rs", fn="get_entry",
         cfg=dict(params=[("off", N), ("count", N), ("rid", N)], ret="Option Nat", paths={"id": "rid"},
                  self_methods={"count": "count", "offset": "off"},
                  methods={"is_valid": "(Generated.idxIsValid {recv} {0})", "create_entry": "(some {0})"},
                  exprs={"Ok(None)": "none"})),
    # ---- the protocol of accesses to the one open file shared by all readers (FileSource)
    dict(name="fileSourceReadProto", group="Proto", file="src/bases/io/file.rs", fn="read", after=r"impl Source for FileSource", proto=True, cfg={}),
    dict(name="fileSourceReadExactProto", group="Proto", file="src/bases/io/file.rs", fn="read_exact", after=r"impl Source for FileSource", proto=True, cfg={}),
    dict(name="fileSourceCutSmallProto", group="Proto", file="src/bases/io/file.rs", fn="cut", after=r"impl Source for FileSource", proto=True,
         select=r"if full_size\.into_u64\(\) < 4 \* 1024 \{", cfg={}),
    # ---- the back-pressure protocol of the cluster pipeline (main thread side and worker side)
    dict(name="pipelineDispatchShape", group="Pipe", file="src/creator/content_pack/clusterwriter.rs", fn="write_cluster", after=r"impl<O: OutStream \+ 'static> ClusterWriterProxy<O>", cfg={},
         shape=dict(type="PStmt", select=r"if should_compress \{", touch=r"count|cvar|dispatch_tx|fusion_tx|nb_cluster_in_queue",
                    rules=[(r"let \(count, cvar\) = &\*self\.nb_cluster_in_queue", None),
                           (r"let mut count = cvar ?\.wait_while\(count\.lock\(\)\.unwrap\(\), \|c\| \*c >= self\.max_queue_size\) ?\.unwrap\(\)", "waitBelowMax"),
                           (r"\*count \+= 1", "incr"),
                           (r"self\.dispatch_tx ?\.send\(cluster\) ?\.expect\(.*\)", "sendDispatch")])),
    dict(name="pipelineRawShape", group="Pipe", file="src/creator/content_pack/clusterwriter.rs", fn="write_cluster", after=r"impl<O: OutStream \+ 'static> ClusterWriterProxy<O>", cfg={},
         shape=dict(type="PStmt", select=r"if should_compress \{", else_block=True, touch=r"count|cvar|dispatch_tx|fusion_tx|nb_cluster_in_queue",
                    rules=[(r"self\.fusion_tx ?\.send\(cluster\.into\(\)\) ?\.expect\(.*\)", "sendFusion")])),
    dict(name="pipelineWorkerShape", group="Pipe", file="src/creator/content_pack/clusterwriter.rs", fn="run", after=r"impl ClusterCompressor", cfg={},
         shape=dict(type="PStmt", select=r"while let Ok\(cluster\) = self\.input\.recv\(\) \{", first="recvDispatch",
                    touch=r"count|cvar|self\.output|nb_cluster_in_queue|compress_cluster|self\.input",
                    rules=[(r"let sized_offset = self\.compress_cluster\(cluster, &mut cursor\)\?", "compress"),
                           (r"self\.output ?\.send\(WriteTask::Compressed\(data, sized_offset, cluster_idx\)\) ?\.unwrap\(\)", "sendFusion"),
                           (r"let \(count, cvar\) = &\*self\.nb_cluster_in_queue", None),
                           (r"let mut count = count\.lock\(\)\.unwrap\(\)", "lock"),
                           (r"\*count -= 1", "decr"),
                           (r"cvar\.notify_one\(\)", "notify")])),
    # ---- the length-publication protocol of the background decoder (bases/io/compression.rs)
    dict(name="svWaitPredicate", group="Sync", file="src/bases/io/compression.rs", fn="wait_for",
         expr_rx=r"\|s\| (.*?)\)\s*\.unwrap\(\)",
         cfg=dict(params=[("decoded", N), ("failed", "Bool"), ("end_", N)], ret="Bool", paths={"end": "end_"},
                  exprs={"s.decoded": "decoded", "s.failed": "failed"})),
    dict(name="svWaitResult", group="Sync", file="src/bases/io/compression.rs", fn="wait_for",
         expr_rx=r"(if state\.decoded < end \{\s*Err.*?\} else \{.*?\})\s*$",
         cfg=dict(params=[("decoded", N), ("end_", N)], ret="Bool", paths={"end": "end_"},
                  exprs={"state.decoded": "decoded"}, call_raw={"Err": "false", "Ok": "true"})),
    dict(name="svDecoderLoopShape", group="Sync", file="src/bases/io/compression.rs", fn="decode_to_end", cfg={},
         shape=dict(type="SVStmt", select=r"while uncompressed < total_size \{", touch=r"decoder|buffer|state|cvar|lock|uncompressed",
                    rules=[(r"#\[cfg\(jubako_verif\)\] crate::verif_hooks::point\(.*\)", None),
                           (r"let size = std::cmp::min\(total_size - uncompressed, chunk_size\)", None),
                           (r"let read = decoder ?\.by_ref\(\) ?\.take\(size as u64\) ?\.read_to_end\(&mut buffer\.data\) ?\.and_then\(.*\)", "readChunk"),
                           (r"let \(lock, cvar\) = &\*buffer\.decoded", None),
                           (r"let mut state = lock\.lock\(\)\.unwrap\(\)", "lock"),
                           (r"match read \{.*\}", "branchOnRead")])),
    dict(name="svDecoderOkShape", group="Sync", file="src/bases/io/compression.rs", fn="decode_to_end", cfg={},
         shape=dict(type="SVStmt", select=r"Ok\(read\) => \{", touch=r"decoder|buffer|state|cvar|lock|uncompressed",
                    rules=[(r"#\[cfg\(jubako_verif\)\] crate::verif_hooks::point\(.*\)", None),
                           (r"uncompressed \+= read", "advance"),
                           (r"state\.decoded = uncompressed", "publish"),
                           (r"cvar\.notify_all\(\)", "notifyAll")])),
    dict(name="svDecoderErrShape", group="Sync", file="src/bases/io/compression.rs", fn="decode_to_end", cfg={},
         shape=dict(type="SVStmt", select=r"Err\(e\) => \{", touch=r"decoder|buffer|state|cvar|lock|uncompressed",
                    rules=[(r"#\[cfg\(jubako_verif\)\] crate::verif_hooks::point\(.*\)", None),
                           (r"state\.failed = true", "setFailed"),
                           (r"cvar\.notify_all\(\)", "notifyAll"),
                           (r"return Err\(e\)", "stop")])),
    # ---- the order in which BasicCreator::finalize creates temporary files and publishes (renames) them
    dict(name="basicCreatorPublications", group="Fs", file="src/creator/basic_creator.rs", fn="finalize", after=r"impl BasicCreator", cfg={},
         occurrences=dict(type="PubStmt", forbid=r"remove_file|std::fs::rename|\.persist\(|remove_dir|std::fs::copy|std::fs::write",
                          rules=[(r"container_file\.close_file\(\)\?;\s*let new_container", "publishContentFile"),
                                 (r"let atomic_container_pack = AtomicOutFile::new\(&self\.outpath\)\?", "tempEntryContainer"),
                                 (r"extra_pack_file\.close_file\(\)\?", "publishExtra"),
                                 (r"AtomicOutFile::new\(new_with_extension\(&self\.outpath, \"\.jbkd\"\)\)\?", "tempDirectory"),
                                 (r"let directory_pack_path = atomic_tmp_file\.close_file\(\)\?", "publishDirectory"),
                                 (r"let mut atomic_tmp_file = AtomicOutFile::new\(&self\.outpath\)\?", "tempEntryManifest"),
                                 (r"manifest_creator\.finalize\(&mut atomic_tmp_file\)\?;\s*atomic_tmp_file\.close_file\(\)\?", "publishEntryManifest"),
                                 (r"let container_file = container\.finalize\(\)\?;\s*container_file\.close_file\(\)\?;\s*\}\s*Ok\(\(\)\)", "publishEntryContainer")])),
    # ---- lookups of the container reader
    dict(name="manifestPackInfoById", group="Lookup", file="src/reader/manifest_pack.rs", fn="get_content_pack_info",
         cfg=dict(params=[("packIds", "List Nat"), ("pack_id", N)], ret="Option Nat",
                  self_fields={"pack_infos": "packIds"}, methods={".pack_id": "{recv}"})),
    dict(name="chainedLocate", group="Lookup", file="src/reader/locator.rs", fn="locate", after=r"impl PackLocatorTrait for ChainedLocator",
         cfg=dict(implicit="{α : Type}", params=[("answers", "List (Option α)")], ret="Option α", fuel="answers.length + 1",
                  for_lists={"&self.0": ("answers", "none")}, local_types={"locator": "Option α", "reader": "Option α", "locator_idx": "Nat"},
                  exprs={"locator.locate(uuid, path)": "locator", "Ok(None)": "none"})),
    # ---- Container::check: manifest, directory pack, then every content pack that can be located
    dict(name="containerCheck", group="Lookup", file="src/reader/jubako.rs", fn="check", after=r"/// Check the container",
         cfg=dict(params=[("manifestOk", "Bool"), ("directoryOk", "Bool"), ("packs", "List (Option Bool)")], ret="Bool",
                  fuel="packs.length + 1",
                  for_lists={"self.manifest_pack.get_pack_infos().iter()": ("packs", "none")},
                  local_types={"pack_info": "Option Bool", "pack_info_idx": "Nat", "pack_reader": "Option Bool"},
                  exprs={"self.manifest_pack.check()": "manifestOk", "self.directory_pack.check()": "directoryOk",
                         "self.locator.locate(pack_info.uuid, &pack_info.pack_location)": "pack_info",
                         "open_as_container_pack(r)": "r", "pseudo_container_pack.check()": "pseudo_container_pack"})),
    # ---- column statistics of the schema (creator/directory_pack/schema/property.rs)
    dict(name="valueCounterProcess", group="Stats", file="src/creator/directory_pack/schema/property.rs", fn="process", after=r"impl<T> ValueCounter<T>",
         enums=[dict(rust="ValueCounter", file="src/creator/directory_pack/schema/property.rs", lean="SrcCounter", types={"T": "Int"})],
         cfg=dict(params=[("c", "SrcCounter"), ("v", "Int")], ret="SrcCounter", prelude="let self_ := c", paths={"self": "self_", "Self::Many": "SrcCounter.many"},
                  result="self_", mutself=dict(var="self_", arm_results={}),
                  patterns={"Self::None": "SrcCounter.none", "Self::One": "SrcCounter.one", "Self::Many": "SrcCounter.many"},
                  funcs={"Self::One": "(SrcCounter.one {0})"}, )),
    dict(name="valueCounterDefault", group="Stats", file="src/creator/directory_pack/schema/property.rs", fn="from", after=r"From<ValueCounter<T>> for Option<T>",
         cfg=dict(params=[("v", "SrcCounter")], ret="Option Int", patterns={"ValueCounter::One": "SrcCounter.one"})),
    dict(name="propertySizeProcess", group="Stats", file="src/creator/directory_pack/schema/property.rs", fn="process", after=r"impl<T> PropertySize<T>",
         enums=[dict(rust="PropertySize", file="src/creator/directory_pack/schema/property.rs", lean="SrcSize", types={"T": "Int", "ByteSize": "Nat"})],
         cfg=dict(params=[("s", "SrcSize"), ("v", "Int")], ret="SrcSize", prelude="let self_ := s", paths={"self": "self_"},
                  result="self_", ignore_macros=["assert"], int=True,
                  mutself=dict(var="self_", arm_results={"Self::Auto": "(SrcSize.auto {0})", "Self::Fixed": "(SrcSize.fixed {0})"}),
                  patterns={"Self::Fixed": "SrcSize.fixed", "Self::Auto": "SrcSize.auto"})),
    dict(name="propertySizeBytes", group="Stats", file="src/creator/directory_pack/schema/property.rs", fn="from", after=r"From<PropertySize<T>> for ByteSize",
         cfg=dict(params=[("p", "SrcSize")], ret="Nat", patterns={"PropertySize::Fixed": "SrcSize.fixed", "PropertySize::Auto": "SrcSize.auto"},
                  funcs={"needed_bytes": "((Generated.neededBytes (Int.toNat {0})).getD 0)"})),
    # ---- the per-property statistics pass (`Property::process`) and the conversion to the layout (`finalize`)
    dict(name="schemaPropertyProcess", group="Stats", file="src/creator/directory_pack/schema/property.rs", fn="process", after=r"pub fn new_content_address",
         enums=[dict(rust="Property", file="src/creator/directory_pack/schema/property.rs", lean="SrcSchemaProp", self_prefix=True,
                     types={"ValueCounter<u64>": "SrcCounter", "ValueCounter<i64>": "SrcCounter", "ValueCounter<u16>": "SrcCounter",
                            "PropertySize<u64>": "SrcSize", "PropertySize<i64>": "SrcSize", "PropertySize<usize>": "SrcSize",
                            "PropertySize<u16>": "SrcSize", "PropertySize<u32>": "SrcSize", "PN": "List UInt8", "usize": "Nat",
                            "StoreHandle": "Nat", "u8": "Nat"}),
                dict(rust="Value", file="src/creator/directory_pack/value.rs", lean="SrcValue",
                     types={"ContentAddress": "(Int × Int)", "u64": "Int", "i64": "Int", "Box<Word<u64>>": "Int", "Box<Word<i64>>": "Int",
                            "Box<ValueHandle>": "Nat", "Box<ArrayS<0>>": "Int", "Box<ArrayS<1>>": "Int", "Box<ArrayS<2>>": "Int", "Box<Array>": "Int"})],
         cfg=dict(params=[("p", "SrcSchemaProp"), ("val", "SrcValue")], ret="SrcSchemaProp", partial=True, int=True,
                  prelude="let self_ := p", paths={"self": "self_"}, result="self_", ignore_macros=["assert"],
                  mutself=dict(var="self_", arm_results={}),
                  exprs={"entry.value(name).as_ref()": "val"},
                  methods={"get": "{recv}", ".size": "{recv}", ".pack_id": "({recv}).1", ".content_id": "({recv}).2"},
                  funcs={"signed_size_key": "(Generated.signedSizeKey {0})"},
                  mut_methods={("counter", "process"): "valueCounterProcess", ("size", "process"): "propertySizeProcess",
                               ("pack_id_counter", "process"): "valueCounterProcess", ("pack_id_size", "process"): "propertySizeProcess",
                               ("content_id_size", "process"): "propertySizeProcess", ("max_array_size", "process"): "propertySizeProcess"})),
    dict(name="schemaPropertyFinalize", group="Stats", file="src/creator/directory_pack/schema/property.rs", fn="finalize", after=r"pub\(crate\) fn process",
         enums=[dict(rust="Property", file="src/creator/directory_pack/schema/property.rs", lean="SrcSchemaProp", self_prefix=True, declare=False,
                     types={"ValueCounter<u64>": "SrcCounter", "ValueCounter<i64>": "SrcCounter", "ValueCounter<u16>": "SrcCounter",
                            "PropertySize<u64>": "SrcSize", "PropertySize<i64>": "SrcSize", "PropertySize<usize>": "SrcSize",
                            "PropertySize<u16>": "SrcSize", "PropertySize<u32>": "SrcSize", "PN": "List UInt8", "usize": "Nat",
                            "StoreHandle": "Nat", "u8": "Nat"}),
                dict(rust="Property", file="src/creator/directory_pack/layout/property.rs", lean="SrcProperty", declare=False, ctor_prefixes=["layout::Property"],
                     types={"&'static str": "List UInt8", "PN": "List UInt8", "u8": "Nat", "ByteSize": "Nat", "StoreHandle": "Nat",
                            "Option<ByteSize>": "Option Nat", "Option<(ByteSize, StoreHandle)>": "Option (Nat × Nat)",
                            "Option<u16>": "Option Nat", "Option<u64>": "Option Nat", "Option<i64>": "Option Int"})],
         cfg=dict(params=[("keySize", "Nat → Nat"), ("p", "SrcSchemaProp")], ret="SrcProperty", paths={"self": "p"},
                  exprs={"store_handle.key_size()": "(keySize store_handle)", "store_handle.clone()": "store_handle",
                         "max_array_size.into()": "(propertySizeBytes max_array_size)", "size.into()": "(propertySizeBytes size)",
                         "content_id_size.into()": "(propertySizeBytes content_id_size)", "pack_id_size.into()": "(propertySizeBytes pack_id_size)"},
                  block_match=True,
                  arm_exprs={"Self::UnsignedInt": {"counter.into()": "((valueCounterDefault counter).map Int.toNat)"},
                             "Self::SignedInt": {"counter.into()": "(valueCounterDefault counter)"},
                             "Self::ContentAddress": {"pack_id_counter.into()": "((valueCounterDefault pack_id_counter).map Int.toNat)"}})),
    # ---- the creator's entry serialiser: size of a layout property, variant padding, bytes of one property of one entry
    dict(name="layoutPropertySize", group="Entry", file="src/creator/directory_pack/layout/property.rs", fn="size",
         after=r"impl<PN: PropertyName> Property<PN> \{",
         enums=[dict(rust="Property", file="src/creator/directory_pack/layout/property.rs", lean="SrcProperty", declare=False,
                     types={"&'static str": "List UInt8", "PN": "List UInt8", "u8": "Nat", "ByteSize": "Nat", "StoreHandle": "Nat",
                            "Option<ByteSize>": "Option Nat", "Option<(ByteSize, StoreHandle)>": "Option (Nat × Nat)",
                            "Option<u16>": "Option Nat", "Option<u64>": "Option Nat", "Option<i64>": "Option Int"})],
         cfg=dict(params=[("p", "SrcProperty")], ret="Nat", paths={"self": "p"}, methods={"is_some": "({recv}).isSome"}, block_match=True)),
    dict(name="fillToSize", group="Entry", file="src/creator/directory_pack/layout/properties.rs", fn="fill_to_size",
         cfg=dict(params=[("entrySize", N), ("size_", N)], ret="List Nat", fuel="size_ + 1",
                  prelude="let pads : List Nat := []", prelude_scope=["pads"], result="pads",
                  local_types={"pads": "List Nat"},
                  exprs={"self.entry_size()": "entrySize"}, paths={"size": "size_"},
                  push_stmts={"self.0.push(Property::Padding(16))": ("pads", "16"),
                              "self.0.push(Property::Padding(padding_size as u8))": ("pads", "(padding_size % 256)")})),
    dict(name="entryPropertyWrites", group="Entry", file="src/creator/directory_pack/layout/properties.rs", fn="serialize_entry",
         inner_block=r"for key in keys",
         enums=[dict(rust="Property", file="src/creator/directory_pack/layout/property.rs", lean="SrcProperty", declare=False,
                     types={"&'static str": "List UInt8", "PN": "List UInt8", "u8": "Nat", "ByteSize": "Nat", "StoreHandle": "Nat",
                            "Option<ByteSize>": "Option Nat", "Option<(ByteSize, StoreHandle)>": "Option (Nat × Nat)",
                            "Option<u16>": "Option Nat", "Option<u64>": "Option Nat", "Option<i64>": "Option Int"}),
                dict(rust="Value", file="src/creator/directory_pack/value.rs", lean="SrcEntryValue",
                     types={"ContentAddress": "(Nat × Nat)", "u64": "Nat", "i64": "Int", "Box<Word<u64>>": "Nat", "Box<Word<i64>>": "Int",
                            "Box<ValueHandle>": "Nat", "Box<ArrayS<0>>": "(Nat × List UInt8 × Nat)", "Box<ArrayS<1>>": "(Nat × List UInt8 × Nat)",
                            "Box<ArrayS<2>>": "(Nat × List UInt8 × Nat)", "Box<Array>": "(Nat × List UInt8 × Nat)"})],
         cfg=dict(params=[("key", "SrcProperty"), ("val", "SrcEntryValue"), ("variant_id", "Option Nat")], ret="List (Nat × Nat)",
                  writes=True, partial=True, write_data=True, vec_macro="UInt8", assert_panics=True,
                  prelude="let out : List (Nat × Nat) := []", prelude_scope=["out"], result="out",
                  exprs={"entry.value(name).as_ref()": "val", "deported_info.as_ref().unwrap()": "(deported_info.getD (0, 0))"},
                  methods={"get": "{recv}", "into_u64": "{recv}", "into_u16": "{recv}", "as_slice": "{recv}", "len": "({recv}).length",
                           "is_some": "({recv}).isSome", ".size": "({recv}).1", ".data": "({recv}).2.1", ".value_id": "({recv}).2.2",
                           ".pack_id": "({recv}).1", ".content_id": "({recv}).2"},
                  serializes={"variant_id.unwrap()": ("(variant_id.getD 0)", "VariantIdx")})),
    # ---- the reader's property-header parser (outcome mode: a sequential parser over a byte list)
    dict(name="propTypeTryFrom", group="Parse", file="src/bases/prop_type.rs", fn="try_from",
         enums=[dict(rust="PropType", file="src/bases/prop_type.rs", lean="SrcPropType", self_prefix=True, types={})],
         cfg=dict(params=[("v", N)], ret="SrcPropType", outcome=True, stateful=False)),
    dict(name="byteSizeTryFrom", group="Parse", file="src/bases/types/byte_size.rs", fn="try_from",
         enums=[dict(rust="ByteSize", file="src/bases/types/byte_size.rs", discriminants=True, self_prefix=True)],
         cfg=dict(params=[("v", N)], ret="Nat", outcome=True, stateful=False)),
    dict(name="rawPropertyParse", group="Parse", file="src/reader/directory_pack/raw_layout.rs", fn="parse",
         after=r"impl Parsable for RawProperty",
         enums=[dict(rust="DeportedDefault", file="src/reader/directory_pack/raw_layout.rs", lean="SrcDeportedDefault",
                     types={"u64": "Nat", "ByteSize": "Nat"}, ctor_prefixes=["DeportedDefault"]),
                dict(rust="PropertyKind", file="src/reader/directory_pack/raw_layout.rs", lean="SrcPropertyKind",
                     types={"ByteSize": "Nat", "Option<PackId>": "Option Nat", "Option<u64>": "Option Nat", "Option<i64>": "Option Int",
                            "ValueStoreIdx": "Nat", "DeportedDefault": "SrcDeportedDefault", "Option<ByteSize>": "Option Nat", "u8": "Nat",
                            "Option<DeportedInfo>": "Option (Nat × Nat)", "Option<(ASize, BaseArray, Option<u64>)>": "Option (Nat × List UInt8 × Option Nat)",
                            "u64": "Nat"}, ctor_prefixes=["PropertyKind"]),
                dict(rust="PropType", file="src/bases/prop_type.rs", lean="SrcPropType", declare=False, types={})],
         cfg=dict(params=[("bs", "Bytes")], ret="(Nat × SrcPropertyKind × List UInt8)", outcome=True,
                  reads={"read_u8": "takeLE bs 1", "read_usized": "takeLE bs {0}", "read_isized": "takeLEs bs {0}"},
                  read_calls={"PString::parse": "takePString bs", "BaseArray::parse": "takeBytes bs {0}"},
                  try_calls={"PropType::try_from": "propTypeTryFrom {0}", "ByteSize::try_from": "byteSizeTryFrom {0}"},
                  unwrap_options=True, funcs={"SmallString::default": "[]"},
                  struct_as={"DeportedInfo": ["id_size", "value_store_idx"], "Self": ["size", "kind", "name"]})),
    # ---- reader: ContentPack::get_content (order of the checks and lookups; the lookups are parameters)
    dict(name="contentPackGetContent", group="Parse", file="src/reader/content_pack/mod.rs", fn="get_content",
         cfg=dict(params=[("contentCount", N), ("clusterCount", N), ("infoAt", "Nat → Outcome (Nat × Nat)"),
                          ("getCluster", "Nat → Outcome C"), ("getBytes", "C → Nat → Outcome Bytes"), ("index", N)],
                  ret="Option Bytes", outcome=True, stateful=False, implicit="{C : Type}",
                  exprs={"self.header.content_count": "contentCount", "self.header.cluster_count": "clusterCount"},
                  methods={"is_valid": "(Generated.idxIsValid {recv} {0})", ".cluster_index": "({recv}).1", ".blob_index": "({recv}).2"},
                  try_exprs={"self.content_infos.index(*index)": "infoAt index",
                             "self.get_cluster(content_info.cluster_index)": "getCluster (content_info).1",
                             "cluster.get_bytes(content_info.blob_index)": "getBytes cluster (content_info).2"})),
    dict(name="rawLayoutParse", group="Parse", file="src/reader/directory_pack/raw_layout.rs", fn="parse",
         after=r"impl Parsable for RawLayout",
         cfg=dict(params=[("bs", "Bytes")], ret="List (Nat × SrcPropertyKind × List UInt8)", outcome=True,
                  read_calls={"Count::parse": "takeLE bs 1", "RawProperty::parse": "rawPropertyParse bs"},
                  funcs={"Vec::with_capacity": "[]", "Self": "{0}"},
                  for_counts={"property_count": "property_count"},
                  loop_vars=[("properties", "List (Nat × SrcPropertyKind × List UInt8)")])),
    # ---- the creator's storage-class decision
    dict(name="detectCompression", group="Content", file="src/creator/content_pack/creator.rs", fn="detect_compression",
         enums=[dict(rust="CompHint", file="src/creator/content_pack/mod.rs", lean="SrcCompHint", types={})],
         cfg=dict(params=[("compressionIsNone", "Bool"), ("comp_hint", "SrcCompHint"), ("entropyLow", "Bool")], ret="Bool",
                  self_fields={"compression": "compressionIsNone"}, patterns={"Compression::None": "true"},
                  funcs={"Vec::with_capacity": "()", "shannon_entropy": "()"},
                  exprs={"entropy <= 6.0": "entropyLow"}, ignore_stmts=["content."], block_match=True)),
    # ---- reader: the value of one property of an entry (`PropertyBuilderTrait::create`)
    dict(name="intPropertyCreate", group="Parse", file="src/reader/directory_pack/builder/property.rs", fn="create",
         after=r"impl PropertyBuilderTrait for IntProperty",
         enums=[dict(rust="ByteSize", file="src/bases/types/byte_size.rs", discriminants=True)],
         cfg=dict(params=[("e", "Bytes"), ("offset", N), ("size_", N), ("default", "Option Nat"), ("deported", "Option (Nat × Nat)"),
                          ("getData", "Nat → Nat → Option Nat → Outcome Bytes")],
                  ret="Nat", outcome=True, stateful=False,
                  self_fields={"offset": "offset", "size": "size_", "default": "default", "deported": "deported"},
                  reads_at={"read_u8": "entryLE e {0} 1", "read_u16": "entryLE e {0} 2", "read_u32": "entryLE e {0} 4", "read_u64": "entryLE e {0} 8",
                            "read_usized": "entryLE e {0} {1}", "read_i8": "entryLEs e {0} 1", "read_i16": "entryLEs e {0} 2",
                            "read_i32": "entryLEs e {0} 4", "read_i64": "entryLEs e {0} 8", "read_isized": "entryLEs e {0} {1}"},
                  try_methods={("value_store", "get_data"): "getData value_store {0} {1}"},
                  slice_parsers={"data_parser": "value_data"}, call_raw={"SliceParser::new": "()"})),
    dict(name="signedPropertyCreate", group="Parse", file="src/reader/directory_pack/builder/property.rs", fn="create",
         after=r"impl PropertyBuilderTrait for SignedProperty",
         enums=[dict(rust="ByteSize", file="src/bases/types/byte_size.rs", discriminants=True)],
         cfg=dict(params=[("e", "Bytes"), ("offset", N), ("size_", N), ("default", "Option Int"), ("deported", "Option (Nat × Nat)"),
                          ("getData", "Nat → Nat → Option Nat → Outcome Bytes")],
                  ret="Int", outcome=True, stateful=False,
                  self_fields={"offset": "offset", "size": "size_", "default": "default", "deported": "deported"},
                  reads_at={"read_u8": "entryLE e {0} 1", "read_u16": "entryLE e {0} 2", "read_u32": "entryLE e {0} 4", "read_u64": "entryLE e {0} 8",
                            "read_usized": "entryLE e {0} {1}", "read_i8": "entryLEs e {0} 1", "read_i16": "entryLEs e {0} 2",
                            "read_i32": "entryLEs e {0} 4", "read_i64": "entryLEs e {0} 8", "read_isized": "entryLEs e {0} {1}"},
                  try_methods={("value_store", "get_data"): "getData value_store {0} {1}"},
                  slice_parsers={"data_parser": "value_data"}, call_raw={"SliceParser::new": "()"})),
    dict(name="contentPropertyCreate", group="Parse", file="src/reader/directory_pack/builder/property.rs", fn="create",
         after=r"impl PropertyBuilderTrait for ContentProperty",
         cfg=dict(params=[("bs", "Bytes"), ("pack_id_default", "Option Nat"), ("pack_id_size", N), ("content_id_size", N)],
                  ret="(Nat × Nat)", outcome=True, parser="seq_parser",
                  self_fields={"pack_id_default": "pack_id_default", "pack_id_size": "pack_id_size", "content_id_size": "content_id_size"},
                  reads={"read_usized": "takeLE bs {0}"}, funcs={"ContentAddress::new": "({0}, {1})"},
                  try_exprs={"parser.create_parser(self.offset)": "(Outcome.ok ())"})),
    dict(name="arrayPropertyCreate", group="Parse", file="src/reader/directory_pack/builder/property.rs", fn="create",
         after=r"impl PropertyBuilderTrait for ArrayProperty",
         cfg=dict(params=[("bs", "Bytes"), ("array_len_size", "Option Nat"), ("fixed_array_len", N), ("deported_array_info", "Option (Nat × Nat)"),
                          ("default", "Option (Nat × Bytes × Option Nat)")],
                  ret="(Option Nat × Bytes × Option (Nat × Nat))", outcome=True, stateful=False, parser="seq_parser",
                  self_fields={"array_len_size": "array_len_size", "fixed_array_len": "fixed_array_len",
                               "deported_array_info": "deported_array_info", "default": "default"},
                  reads={"read_usized": "takeLE bs {0}"}, read_calls={"BaseArray::parse": "takeBytes bs {0}"},
                  try_exprs={"parser.create_parser(self.offset)": "(Outcome.ok ())"},
                  effect_prefixes={"self.deported_array_info.as_ref().map(":
                                   "(match deported_array_info with | none => Outcome.ok none | some (_, store) => (unwrapOpt value_id).bind fun v => .ok (some (store, v)))"},
                  funcs={"Array::new": "({0}, {1}, {3})", "Extend::new": "({0}, {1})", "Arc::clone": "{0}"})),
    # ---- creator: a content enters the open cluster (blob index, end offset, returned address)
    dict(name="clusterAddContent", group="Content", file="src/creator/content_pack/cluster.rs", fn="add_content",
         cfg=dict(params=[("offsets", "List Nat"), ("index", N), ("content_size", N)], ret="(List Nat × (Nat × Nat))",
                  partial=True, assert_panics=True, no_loops=True,
                  self_fields={"index": "index"}, paths={"MAX_BLOBS_PER_CLUSTER": "Consts.maxBlobsPerCluster"},
                  exprs={"self.offsets.len()": "offsets.length", "content.size()": "content_size",
                         "self.offsets.last().unwrap_or(&0)": "(offsets.getLast?.getD 0)",
                         "Ok(ContentInfo::new(self.index, BlobIdx::from(idx)))": "(offsets, (index, idx))"},
                  methods={"into_u64": "{recv}"},
                  ignore_stmts=["self.data.push("],
                  push_stmts={"self.offsets.push(new_offset)": ("offsets", "new_offset")})),
    # ---- reader: where the pack infos of a manifest sit (`PackOffsetsIter`)
    dict(name="packOffsetsNew", group="Lookup", file="src/reader/manifest_pack.rs", fn="new", after=r"impl PackOffsetsIter",
         cfg=dict(params=[("blockSize", N), ("check_info_pos", N), ("pack_count", N)], ret="(Nat × Nat)",
                  paths={"PackInfo::BLOCK_SIZE": "blockSize"}, methods={"into_u16": "{recv}"},
                  struct_as={"Self": ["offset", "left"]})),
    dict(name="packOffsetsNext", group="Lookup", file="src/reader/manifest_pack.rs", fn="next", after=r"impl Iterator for PackOffsetsIter",
         cfg=dict(params=[("blockSize", N), ("st_offset", N), ("st_left", N)], ret="(Option Nat × Nat × Nat)",
                  self_fields={"offset": "st_offset", "left": "st_left"},
                  paths={"PackInfo::BLOCK_SIZE": "blockSize", "None": "(none, st_offset, st_left)"},
                  exprs={"Some(offset)": "(some offset, st_offset, st_left)"})),
    dict(name="streamReadRequest", group="View", file="src/reader/byte_stream.rs", fn="read", let="max_len",
         cfg=dict(params=[("rbegin", N), ("rend", N), ("cursor", N), ("bufLen", N)], ret=N, self_fields={"offset": "cursor"},
                  exprs={"self.region.end()": "rend", "self.region.begin()": "rbegin", "buf.len()": "bufLen"})),
    dict(name="fsLocatorLocate", group="Lookup", file="src/reader/locator.rs", fn="locate", after=r"impl PackLocatorTrait for FsLocator",
         cfg=dict(params=[("isFile", "Bool"), ("openFile", "Outcome F"), ("openContainer", "F → Outcome C"), ("getPackReader", "C → Option R")],
                  ret="Option R", outcome=True, stateful=False, implicit="{F C R : Type}",
                  exprs={"self.base_dir.join(path)": "()", "path.is_file()": "isFile"},
                  try_calls={"FileSource::open": "openFile", "super::jubako::open_as_container_pack": "openContainer {0}"},
                  methods={"get_pack_reader": "(getPackReader {recv})"}, funcs={"Reader::from": "{0}"})),
    # ---- reader: blind open of a file as a (possibly fake) container pack
    dict(name="openAsContainerPack", group="Open", file="src/reader/jubako.rs", fn="open_as_container_pack",
         cfg=dict(params=[("fileLen", N), ("unchecked", "Outcome PackHeader"), ("checked", "Outcome PackHeader"),
                          ("tailHeader", "Outcome PackHeader"), ("cutReader", "Nat → Nat → Outcome R"),
                          ("containerNew", "R → Outcome C"), ("fake", "R → Bytes → C")],
                  ret="C", outcome=True, stateful=False, implicit="{R C : Type}",
                  result_exprs={"reader.parse_block_unchecked_at(Offset::zero())": "unchecked",
                                "reader.parse_block_at(Offset::zero())": "checked"},
                  try_exprs={"end_reader.parse_block_at(Offset::zero())": "tailHeader"},
                  try_methods={("reader", "cut"): "cutReader {0} {1}"},
                  result_calls={"ContainerPack::new": "containerNew {0}"},
                  funcs={"ContainerPack::new_fake": "(fake {0} {1})", "Offset::zero": "0"},
                  exprs={"reader.size()": "fileLen"},
                  methods={".magic": "({recv}).kind", ".file_size": "({recv}).packSize", ".uuid": "({recv}).uuid"},
                  patterns={"ErrorKind::Version": "ErrKind.version", "PackKind::Container": "PackKind.container"},
                  patterns_noargs=["ErrorKind::Version"],
                  ignore_lets=["buffer_reader", "end_reader"], ignore_stmts=["reader.create_stream(", "buffer_reader.reverse("])),
    # ---- reader: Container::_get_pack (unknown id / missing pack / found pack)
    dict(name="containerGetPackInner", group="Lookup", file="src/reader/jubako.rs", fn="_get_pack",
         cfg=dict(params=[("getInfo", "Nat → Option I"), ("locate", "I → Outcome (Option R)"), ("openContent", "R → Outcome P"), ("pack_id", N)],
                  ret="Option (Sum I P)", outcome=True, stateful=False, implicit="{I R P : Type}",
                  exprs={"self.manifest_pack.get_content_pack_info(pack_id)": "(getInfo pack_id)", "pack_info.clone()": "pack_info"},
                  try_exprs={"self.locator.locate(pack_info.uuid, &pack_info.pack_location)": "locate pack_info",
                             "MayMissPack::FOUND(ContentPack::new(r)).transpose()": "((openContent r).bind fun p => Outcome.ok (Sum.inr p))"},
                  funcs={"MayMissPack::MISSING": "(Sum.inl {0})"})),
    dict(name="containerPackNew", group="Open", file="src/reader/container_pack.rs", fn="new", after=r"impl ContainerPack",
         cfg=dict(params=[("locBlock", N), ("packHeader", "Outcome PackHeader"), ("containerHeader", "Outcome ContainerHeader"),
                          ("locatorAt", "Nat → Outcome PackLocator"), ("cutReader", "Nat → Nat → Outcome R")],
                  ret="(List Bytes × List (Bytes × R))", outcome=True, stateful=False, implicit="{R : Type}",
                  try_exprs={"reader.parse_block_at(Offset::zero())": "packHeader",
                             "reader.parse_block_at(Offset::from(PackHeader::BLOCK_SIZE))": "containerHeader"},
                  try_methods={("reader", "parse_block_at"): "locatorAt {0}", ("reader", "cut"): "cutReader {0} {1}"},
                  paths={"PackKind::Container": "PackKind.container", "PackLocator::BLOCK_SIZE": "locBlock"},
                  methods={".magic": "({recv}).kind", ".pack_locators_pos": "({recv}).locatorsPos", ".pack_count": "({recv}).packCount",
                           ".pack_pos": "({recv}).pos", ".pack_size": "({recv}).size", ".uuid": "({recv}).uuid", "into_usize": "{recv}"},
                  funcs={"Vec::with_capacity": "[]", "HashMap::with_capacity": "[]"},
                  struct_as={"Self": ["packs_uuid", "packs"]}, map_vars=["packs"],
                  for_counts={"header.pack_count": "(header).packCount"},
                  loop_vars=[("pack_offset", "Nat"), ("packs_uuid", "List Bytes"), ("packs", "List (Bytes × R)")])),
    # ---- the check block: its parser and the verdict
    dict(name="checkKindParse", group="Parse", file="src/common/check.rs", fn="parse", after=r"impl Parsable for CheckKind",
         enums=[dict(rust="CheckKind", file="src/common/check.rs", lean="SrcCheckKind", types={}, ctor_prefixes=["CheckKind"])],
         cfg=dict(params=[("bs", "Bytes")], ret="SrcCheckKind", outcome=True, reads={"read_u8": "takeLE bs 1"})),
    dict(name="checkInfoParse", group="Parse", file="src/common/check.rs", fn="parse", after=r"impl Parsable for CheckInfo",
         enums=[dict(rust="CheckKind", file="src/common/check.rs", lean="SrcCheckKind", types={}, declare=False)],
         cfg=dict(params=[("bs", "Bytes")], ret="Option Bytes", outcome=True,
                  read_calls={"CheckKind::parse": "checkKindParse bs", "blake3::Hash::parse": "takeBytes bs 32"},
                  struct_as={"Self": ["b3hash"]})),
    dict(name="checkInfoCheck", group="Check", file="src/common/check.rs", fn="check", after=r"impl CheckInfo",
         cfg=dict(params=[("b3hash_", "Option (List UInt8)"), ("hashOfSource", "List UInt8")], ret="Bool",
                  self_fields={"b3hash": "b3hash_"}, call_raw={"blake3::Hasher::new": "()"},
                  exprs={"hasher.finalize()": "hashOfSource"}, ignore_stmts=["hasher.update_reader("])),
    dict(name="packHeaderCheckInfoSize", group="Check", file="src/common/headers/pack.rs", fn="check_info_size",
         cfg=dict(params=[("file_size", N), ("check_info_pos", N), ("headerBlock", N)], ret=N,
                  self_fields={"file_size": "file_size", "check_info_pos": "check_info_pos"},
                  paths={"Self::BLOCK_SIZE": "headerBlock"},
                  exprs={"BlockCheck::Crc32.size()": "(blockCheckSize 1)"}, methods={"into_u64": "{recv}"})),
    # ---- reader: ManifestPack::new (the loop over the pack infos)
    dict(name="manifestPackNew", group="Open", file="src/reader/manifest_pack.rs", fn="new", after=r"impl ManifestPack",
         cfg=dict(params=[("packHeader", "Outcome PackHeader"), ("manifestHeader", "Outcome ManifestHeader"), ("offsets", "PackHeader → ManifestHeader → List Nat"),
                          ("infoAt", "Nat → Outcome PackInfo"), ("valueStoreAt", "(Nat × Nat) → Outcome V")],
                  ret="(PackHeader × ManifestHeader × PackInfo × List PackInfo × Option V × Nat)", outcome=True, stateful=False, implicit="{V : Type}",
                  try_exprs={"reader.parse_block_at(Offset::zero())": "packHeader",
                             "reader.parse_block_at(Offset::from(PackHeader::BLOCK_SIZE))": "manifestHeader"},
                  try_methods={("reader", "parse_block_at"): "infoAt {0}", ("reader", "parse_data_block"): "valueStoreAt {0}"},
                  exprs={"PackOffsetsIter::new(pack_header.check_info_pos, header.pack_count)": "(offsets pack_header header)"},
                  paths={"PackKind::Manifest": "PackKind.manifest"}, patterns={"PackKind::Directory": "PackKind.directory"},
                  methods={".magic": "({recv}).kind", ".pack_kind": "({recv}).kind", ".pack_id": "({recv}).packId", ".value_store_posinfo": "({recv}).valueStore",
                           "into_u16": "{recv}", "into_usize": "{recv}", "is_zero": "decide ({recv} = (0, 0))", ".pack_count": "({recv}).packCount"},
                  funcs={"Vec::with_capacity": "[]", "OnceLock::new": "()"}, unwrap_options=True,
                  struct_as={"Self": ["pack_header", "header", "directory_pack_info", "pack_infos", "value_store", "max_id"]},
                  for_lists={"pack_offsets": ("pack_offsets", "Nat")},
                  loop_vars=[("directory_pack_info", "Option PackInfo"), ("pack_infos", "List PackInfo"), ("max_id", "Nat")])),
    # ---- reader: ContentPack::new and DirectoryPack::new (header, kind, header of the kind, pointer tables)
    dict(name="contentPackNew", group="Open", file="src/reader/content_pack/mod.rs", fn="new", after=r"impl ContentPack",
         cfg=dict(params=[("packHeader", "Outcome PackHeader"), ("contentHeader", "Outcome ContentHeader"),
                          ("tableAt", "Nat → Nat → Nat → Outcome T")],
                  ret="(PackHeader × ContentHeader)", outcome=True, stateful=False, implicit="{T : Type}", parser="reader",
                  try_exprs={"reader.parse_block_at(Offset::zero())": "packHeader",
                             "reader.parse_block_at(Offset::from(PackHeader::BLOCK_SIZE))": "contentHeader",
                             "ArrayReader::new_memory_from_reader(&reader, header.content_ptr_pos, *header.content_count)": "tableAt 4 (header).contentPtrPos (header).contentCount",
                             "ArrayReader::new_memory_from_reader(&reader, header.cluster_ptr_pos, *header.cluster_count)": "tableAt 8 (header).clusterPtrPos (header).clusterCount"},
                  paths={"PackKind::Content": "PackKind.content"}, methods={".magic": "({recv}).kind"},
                  struct_as={"ContentPack": ["pack_header", "header"]})),
    dict(name="directoryPackNew", group="Open", file="src/reader/directory_pack/mod.rs", fn="new", after=r"impl DirectoryPack",
         cfg=dict(params=[("packHeader", "Outcome PackHeader"), ("directoryHeader", "Outcome DirectoryHeader"),
                          ("tableAt", "Nat → Nat → Nat → Outcome T")],
                  ret="(PackHeader × DirectoryHeader)", outcome=True, stateful=False, implicit="{T : Type}", parser="reader",
                  try_exprs={"reader.cut(Offset::zero(), reader.size(), true)": "(Outcome.ok ())",
                             "reader.parse_block_at(Offset::zero())": "packHeader",
                             "reader.parse_block_at(Offset::from(PackHeader::BLOCK_SIZE))": "directoryHeader",
                             "ArrayReader::new_memory_from_reader(&reader, header.value_store_ptr_pos, *header.value_store_count)": "tableAt 8 (header).valueStorePtrPos (header).valueStoreCount",
                             "ArrayReader::new_memory_from_reader(&reader, header.entry_store_ptr_pos, *header.entry_store_count)": "tableAt 8 (header).entryStorePtrPos (header).entryStoreCount",
                             "ArrayReader::new_memory_from_reader(&reader, header.index_ptr_pos, *header.index_count)": "tableAt 8 (header).indexPtrPos (header).indexCount"},
                  paths={"PackKind::Directory": "PackKind.directory"}, methods={".magic": "({recv}).kind"},
                  struct_as={"DirectoryPack": ["pack_header", "header"]})),
    dict(name="indexHeaderParse", group="Parse", file="src/reader/directory_pack/index.rs", fn="parse", after=r"impl Parsable for IndexHeader",
         cfg=dict(params=[("bs", "Bytes")], ret="(Nat × Nat × Nat × List UInt8 × Nat × List UInt8)", outcome=True,
                  reads={"read_u8": "takeLE bs 1"},
                  read_calls={"Idx<u32>::parse": "takeLE bs 4", "Count<u32>::parse": "takeLE bs 4", "IndexFreeData::parse": "takeBytes bs 4",
                              "PString::parse": "takePString bs"},
                  struct_as={"Self": ["store_id", "entry_count", "entry_offset", "free_data", "index_property", "name"]})),
    dict(name="plainStoreKeySize", group="Dir", file="src/creator/directory_pack/value_store.rs", fn="key_size", after=r"impl PlainValueStore",
         cfg=dict(params=[("size_", N)], ret=N, exprs={"self.size()": "size_"}, methods={"into_u64": "{recv}"},
                  funcs={"needed_bytes": "((Generated.neededBytes {0}).getD 0)"})),
    dict(name="indexedStoreKeySize", group="Dir", file="src/creator/directory_pack/value_store.rs", fn="key_size", after=r"impl IndexedValueStore",
         cfg=dict(params=[("count", N)], ret=N, exprs={"self.0.sorted_indirect.len()": "count"},
                  funcs={"needed_bytes": "((Generated.neededBytes {0}).getD 0)"})),
    # ---- the CRC check of a block
    dict(name="assertSliceCrc", group="Check", file="src/bases/block.rs", fn="assert_slice_crc",
         cfg=dict(params=[("crc", "List UInt8 → Nat"), ("beNat", "List UInt8 → Nat"), ("buf", "List UInt8")], ret="Unit", outcome=True, stateful=False,
                  err_kind=".corrupted",
                  exprs={"buf.len()": "buf.length", "buf[..data_size]": "(buf.take data_size)", "buf[data_size..]": "(buf.drop data_size)",
                         "CRC.digest()": "()", "digest.finalize()": "(crc slice)", "checksum.to_be_bytes()": "()"},
                  ignore_stmts=["digest.update("], funcs={"BE::read_u32": "(beNat {0})"})),
    # ---- the statements of EntryStore::sort: every sort pass is followed by a renumbering
    dict(name="entryStoreSortShape", group="Refs", file="src/creator/directory_pack/entry_store.rs", fn="sort", after=r"impl<PN, VN, Entry> EntryStoreTrait for EntryStore", cfg={},
         occurrences=dict(type="SortStmt", forbid=r"set_idx\(|\.swap\(|\.reverse\(|\.sort\(|sort_by_key|sort_unstable\(|\.retain\(|\.dedup",
                          rules=[(r"set_entry_idx\(&mut self\.entries\)", "setIdx"),
                                 (r"self\.entries\.par_sort_unstable_by\(compare\)", "sort")])),
    dict(name="directoryFinalizePhases", group="Refs", file="src/creator/directory_pack/directory_pack.rs", fn="finalize", after=r"impl DirectoryPackCreator", cfg={},
         occurrences=dict(type="MPhase", forbid=r"\be\.sort\(\)|\.sort\(\)[^;{}]*\.finalize\(\)|\.map\(\|[^|]*\|\s*\{[^}]*sort",
                          rules=[(r"for entry_store in &mut self\.entry_stores \{\s*entry_store\.sort\(\);\s*\}", "sortAll"),
                                 (r"\.into_iter\(\)\s*\.map\(\|e\| e\.finalize\(\)\)\s*\.collect\(\)", "sizeAll")])),
    # ---- the pack header: magic and kind, version gate, fields
    dict(name="fullPackKindParse", group="Open", file="src/common/pack_kind.rs", fn="parse", after=r"impl Parsable for FullPackKind",
         cfg=dict(params=[("bs", "Bytes")], ret="PackKind", outcome=True,
                  reads={"read_u8": "takeLE bs 1"}, read_into={"magic": "takeBytes bs 3"}, ignore_lets=["magic"],
                  paths={"JBK_MAGIC": "([106, 98, 107] : Bytes)", "PackKind::Manifest": "PackKind.manifest", "PackKind::Directory": "PackKind.directory",
                         "PackKind::Content": "PackKind.content", "PackKind::Container": "PackKind.container"})),
    dict(name="packHeaderParse", group="Open", file="src/common/headers/pack.rs", fn="parse", after=r"impl Parsable for PackHeader",
         cfg=dict(params=[("bs", "Bytes")], ret="(PackKind × Bytes × Nat × Nat × Bytes × Nat × Nat × Nat)", outcome=True, err_kind=".version",
                  reads={"read_u8": "takeLE bs 1", "skip": "takeBytes bs {0}"},
                  read_calls={"FullPackKind::parse": "fullPackKindParse bs", "VendorId::parse": "takeBytes bs 4", "Uuid::parse": "takeBytes bs 16",
                              "Size::parse": "takeLE bs 8", "Offset::parse": "takeLE bs 8"},
                  struct_as={"PackHeader": ["magic", "app_vendor_id", "major_version", "minor_version", "uuid", "flags", "file_size", "check_info_pos"]})),
    # ---- the headers of the four pack kinds and the pack locator
    dict(name="containerHeaderParse", group="Open", file="src/common/headers/container_pack.rs", fn="parse",
         cfg=dict(params=[("bs", "Bytes")], ret="(Nat × Nat × Bytes)", outcome=True, reads={"read_u16": "takeLE bs 2", "skip": "takeBytes bs {0}"}, read_calls={"Offset::parse": "takeLE bs 8", "Size::parse": "takeLE bs 8", "Count<u32>::parse": "takeLE bs 4", "Count<u16>::parse": "takeLE bs 2", "Count<u8>::parse": "takeLE bs 1", "PackFreeData::parse": "takeBytes bs 24", "Uuid::parse": "takeBytes bs 16", "SizedOffset::parse": "takeLE bs 8"},
                  struct_as={"ContainerPackHeader": ["pack_locators_pos", "pack_count", "free_data"]})),
    dict(name="contentHeaderParse", group="Open", file="src/common/headers/content_pack.rs", fn="parse",
         cfg=dict(params=[("bs", "Bytes")], ret="(Nat × Nat × Nat × Nat × Bytes)", outcome=True, reads={"skip": "takeBytes bs {0}"}, read_calls={"Offset::parse": "takeLE bs 8", "Size::parse": "takeLE bs 8", "Count<u32>::parse": "takeLE bs 4", "Count<u16>::parse": "takeLE bs 2", "Count<u8>::parse": "takeLE bs 1", "PackFreeData::parse": "takeBytes bs 24", "Uuid::parse": "takeBytes bs 16", "SizedOffset::parse": "takeLE bs 8"},
                  struct_as={"ContentPackHeader": ["content_ptr_pos", "cluster_ptr_pos", "content_count", "cluster_count", "free_data"]})),
    dict(name="directoryHeaderParse", group="Open", file="src/common/headers/directory_pack.rs", fn="parse",
         cfg=dict(params=[("bs", "Bytes")], ret="(Nat × Nat × Nat × Nat × Nat × Nat × Bytes)", outcome=True, reads={"skip": "takeBytes bs {0}"}, read_calls={"Offset::parse": "takeLE bs 8", "Size::parse": "takeLE bs 8", "Count<u32>::parse": "takeLE bs 4", "Count<u16>::parse": "takeLE bs 2", "Count<u8>::parse": "takeLE bs 1", "PackFreeData::parse": "takeBytes bs 24", "Uuid::parse": "takeBytes bs 16", "SizedOffset::parse": "takeLE bs 8"},
                  struct_as={"DirectoryPackHeader": ["index_ptr_pos", "entry_store_ptr_pos", "value_store_ptr_pos", "index_count", "entry_store_count", "value_store_count", "free_data"]})),
    dict(name="manifestHeaderParse", group="Open", file="src/common/headers/manifest_pack.rs", fn="parse",
         cfg=dict(params=[("bs", "Bytes")], ret="(Nat × Nat × Bytes)", outcome=True, reads={"skip": "takeBytes bs {0}"}, read_calls={"Offset::parse": "takeLE bs 8", "Size::parse": "takeLE bs 8", "Count<u32>::parse": "takeLE bs 4", "Count<u16>::parse": "takeLE bs 2", "Count<u8>::parse": "takeLE bs 1", "PackFreeData::parse": "takeBytes bs 24", "Uuid::parse": "takeBytes bs 16", "SizedOffset::parse": "takeLE bs 8"},
                  struct_as={"Self": ["pack_count", "value_store_posinfo", "free_data"]})),
    dict(name="packLocatorParse", group="Open", file="src/common/pack_locator.rs", fn="parse", after=r"impl Parsable for PackLocator",
         cfg=dict(params=[("bs", "Bytes")], ret="(Bytes × Nat × Nat)", outcome=True, read_calls={"Offset::parse": "takeLE bs 8", "Size::parse": "takeLE bs 8", "Count<u32>::parse": "takeLE bs 4", "Count<u16>::parse": "takeLE bs 2", "Count<u8>::parse": "takeLE bs 1", "PackFreeData::parse": "takeBytes bs 24", "Uuid::parse": "takeBytes bs 16", "SizedOffset::parse": "takeLE bs 8"},
                  struct_as={"Self": ["uuid", "pack_size", "pack_pos"]})),
    dict(name="packKindParse", group="Open", file="src/common/pack_kind.rs", fn="parse", after=r"impl Parsable for PackKind",
         cfg=dict(params=[("bs", "Bytes")], ret="PackKind", outcome=True, reads={"read_u8": "takeLE bs 1"},
                  paths={"PackKind::Manifest": "PackKind.manifest", "PackKind::Directory": "PackKind.directory",
                         "PackKind::Content": "PackKind.content", "PackKind::Container": "PackKind.container"})),
    dict(name="packInfoParse", group="Open", file="src/common/pack_info.rs", fn="parse", after=r"impl Parsable for PackInfo",
         cfg=dict(params=[("bs", "Bytes")], ret="(Bytes × Nat × Nat × Nat × PackKind × Nat × Nat × Bytes)", outcome=True, checked_sub=True,
                  reads={"read_u8": "takeLE bs 1", "read_u16": "takeLE bs 2", "skip": "takeBytes bs {0}"}, read_calls={"Offset::parse": "takeLE bs 8", "Size::parse": "takeLE bs 8", "Uuid::parse": "takeBytes bs 16", "SizedOffset::parse": "takeLE bs 8", "PackKind::parse": "packKindParse bs", "PString::parse": "takePString bs"},
                  methods={"len": "({recv}).length"},
                  struct_as={"Self": ["uuid", "pack_size", "check_info_pos", "pack_id", "pack_kind", "pack_group", "free_data_id", "pack_location"]})),
    dict(name="clusterBuilderParse", group="Open", file="src/reader/content_pack/cluster.rs", fn="parse", after=r"impl Parsable for ClusterBuilder",
         cfg=dict(params=[("bs", "Bytes"), ("header", "(Nat × Nat × Nat)")], ret="((List Nat × Nat × Nat) × Nat)", outcome=True,
                  reads={"read_usized": "takeLE bs {0}"}, try_exprs={"ClusterHeader::parse(parser)": "(Outcome.ok header)"},
                  methods={".offset_size": "({recv}).2.1", ".blob_count": "({recv}).2.2", ".compression": "({recv}).1", "into_usize": "{recv}",
                           "is_valid": "(Generated.offsetIsValid {recv} {0})", "set_len": "()"},
                  funcs={"Vec::with_capacity": "[]", "Offset::zero": "0"}, paths={"CompressionType::None": "0"},
                  ignore_lets=["uninit"], ignore_stmts=["unsafe"],
                  push_stmts={"elem.write(value)": ("blob_offsets", "value")},
                  for_counts={"&uninit[0..blob_count]": "blob_count"}, loop_unused_ok=True,
                  loop_vars=[("first", "Bool"), ("blob_offsets", "List Nat")], loop_consts=[("data_size", "Nat")],
                  struct_as={"ClusterBuilder": ["blob_offsets", "data_size", "compression"]})),
    dict(name="valueStoreKindParse", group="Open", file="src/reader/directory_pack/value_store.rs", fn="parse", after=r"impl Parsable for ValueStoreKind",
         enums=[dict(rust="ValueStoreKind", file="src/reader/directory_pack/value_store.rs", lean="SrcVsKind", types={}, ctor_prefixes=["ValueStoreKind"])],
         cfg=dict(params=[("bs", "Bytes")], ret="SrcVsKind", outcome=True, reads={"read_u8": "takeLE bs 1"})),
    dict(name="valueStoreBuilderParse", group="Open", file="src/reader/directory_pack/value_store.rs", fn="parse", after=r"impl Parsable for ValueStoreBuilder",
         strip_rx=[r"#\[cfg\(target_pointer_width = \"32\"\)\]\s*let value_count = if[^;]*?\};", r"#\[cfg\(target_pointer_width = \"64\"\)\]"],
         cfg=dict(params=[("bs", "Bytes")], ret="(Option (List Nat) × Nat)", outcome=True,
                  reads={"read_usized": "takeLE bs {0}"},
                  read_calls={"ValueStoreKind::parse": "valueStoreKindParse bs", "Size::parse": "takeLE bs 8", "Count<u64>::parse": "takeLE bs 8",
                              "ByteSize::parse": "((takeLE bs 1).bind fun (v, bs) => (byteSizeTryFrom v).bind fun s => Outcome.ok (s, bs))"},
                  patterns={"ValueStoreKind::Plain": "SrcVsKind.plain", "ValueStoreKind::Indexed": "SrcVsKind.indexed"},
                  methods={"into_u64": "{recv}", "into_usize": "{recv}", "is_valid": "(Generated.offsetIsValid {recv} {0})", "set_len": "()"},
                  funcs={"Vec::with_capacity": "[]", "Offset::zero": "0", "ValueStoreBuilder::Indexed": "(some {0})"},
                  paths={"ValueStoreBuilder::Plain": "none"},
                  ignore_lets=["uninit"], push_stmts={"elem.write(value)": ("value_offsets", "value")},
                  for_counts={"&uninit[0..value_count]": "value_count"}, loop_unused_ok=True,
                  loop_vars=[("first", "Bool"), ("value_offsets", "List Nat")], loop_consts=[("offset_size", "Nat"), ("data_size", "Nat")])),
    dict(name="checkInfoWrites", group="Check", file="src/common/check.rs", fn="serialize", after=r"impl Serializable for CheckInfo",
         cfg=dict(params=[("b3hash_", "Option (List UInt8)")], ret="List (Nat × Nat)", writes=True, no_loops=True, write_data=True,
                  prelude="let out : List (Nat × Nat) := []", prelude_scope=["out"], result="out",
                  self_fields={"b3hash": "b3hash_"}, methods={"as_bytes": "{recv}"},
                  serializes={"CheckKind::None": "[(0, 1)]", "CheckKind::Blake3": "[(1, 1)]"}, exprs={"Ok(33)": "out"})),
    # ---- the tail of an entry store: store kind, then the layout (a parameter)
    dict(name="storeKindParse", group="Open", file="src/reader/directory_pack/entry_store.rs", fn="parse", after=r"impl Parsable for StoreKind",
         enums=[dict(rust="StoreKind", file="src/reader/directory_pack/entry_store.rs", lean="SrcStoreKind", types={}, ctor_prefixes=["StoreKind"])],
         cfg=dict(params=[("bs", "Bytes")], ret="SrcStoreKind", outcome=True, reads={"read_u8": "takeLE bs 1"})),
    dict(name="entryStoreBuilderParse", group="Open", file="src/reader/directory_pack/entry_store.rs", fn="parse", after=r"impl Parsable for EntryStoreBuilder",
         enums=[dict(rust="StoreKind", file="src/reader/directory_pack/entry_store.rs", lean="SrcStoreKind", types={}, declare=False)],
         cfg=dict(params=[("bs", "Bytes"), ("layoutParse", "Bytes → Outcome (L × Bytes)")], ret="L", outcome=True, implicit="{L : Type}",
                  read_calls={"StoreKind::parse": "storeKindParse bs", "Layout::parse": "layoutParse bs"})),
    # ---- the cluster header (compression byte, offset size, blob count) in front of the cluster tail
    dict(name="compressionTypeParse", group="Open", file="src/common/compression_type.rs", fn="parse", after=r"impl Parsable for CompressionType",
         enums=[dict(rust="CompressionType", file="src/common/compression_type.rs", lean="SrcCompression", types={}, ctor_prefixes=["CompressionType"])],
         cfg=dict(params=[("bs", "Bytes")], ret="SrcCompression", outcome=True, reads={"read_u8": "takeLE bs 1"})),
    dict(name="clusterHeaderParse", group="Open", file="src/common/headers/cluster.rs", fn="parse", after=r"impl Parsable for ClusterHeader",
         cfg=dict(params=[("bs", "Bytes")], ret="(SrcCompression × Nat × Nat)", outcome=True,
                  read_calls={"CompressionType::parse": "compressionTypeParse bs", "Count<u16>::parse": "takeLE bs 2",
                              "ByteSize::parse": "((takeLE bs 1).bind fun (v, bs) => (byteSizeTryFrom v).bind fun s => Outcome.ok (s, bs))"},
                  struct_as={"ClusterHeader": ["compression", "offset_size", "blob_count"]})),
    # ---- the fixed-width wrappers the tables of the other targets stand `takeLE bs w` for
    dict(name="countU8Parse", group="Open", file="src/bases/types/count.rs", fn="parse", after=r"impl Parsable for Count<u8>",
         cfg=dict(params=[("bs", "Bytes")], ret="Nat", outcome=True, reads={"read_u8": "takeLE bs 1"})),
    dict(name="countU16Parse", group="Open", file="src/bases/types/count.rs", fn="parse", after=r"impl Parsable for Count<u16>",
         cfg=dict(params=[("bs", "Bytes")], ret="Nat", outcome=True, reads={"read_u16": "takeLE bs 2"})),
    dict(name="countU32Parse", group="Open", file="src/bases/types/count.rs", fn="parse", after=r"impl Parsable for Count<u32>",
         cfg=dict(params=[("bs", "Bytes")], ret="Nat", outcome=True, reads={"read_u32": "takeLE bs 4"})),
    dict(name="countU64Parse", group="Open", file="src/bases/types/count.rs", fn="parse", after=r"impl Parsable for Count<u64>",
         cfg=dict(params=[("bs", "Bytes")], ret="Nat", outcome=True, reads={"read_u64": "takeLE bs 8"})),
    dict(name="sizeParse", group="Open", file="src/bases/types/size.rs", fn="parse", after=r"impl Parsable for Size",
         cfg=dict(params=[("bs", "Bytes")], ret="Nat", outcome=True, reads={"read_u64": "takeLE bs 8"})),
    dict(name="offsetParse", group="Open", file="src/bases/types/offset.rs", fn="parse", after=r"impl Parsable for Offset",
         cfg=dict(params=[("bs", "Bytes")], ret="Nat", outcome=True, reads={"read_u64": "takeLE bs 8"})),
    dict(name="idxU8Parse", group="Open", file="src/bases/types/idx.rs", fn="parse", after=r"impl Parsable for Idx<u8>",
         cfg=dict(params=[("bs", "Bytes")], ret="Nat", outcome=True, reads={"read_u8": "takeLE bs 1"})),
    dict(name="idxU16Parse", group="Open", file="src/bases/types/idx.rs", fn="parse", after=r"impl Parsable for Idx<u16>",
         cfg=dict(params=[("bs", "Bytes")], ret="Nat", outcome=True, reads={"read_u16": "takeLE bs 2"})),
    dict(name="idxU32Parse", group="Open", file="src/bases/types/idx.rs", fn="parse", after=r"impl Parsable for Idx<u32>",
         cfg=dict(params=[("bs", "Bytes")], ret="Nat", outcome=True, reads={"read_u32": "takeLE bs 4"})),
    dict(name="idxU64Parse", group="Open", file="src/bases/types/idx.rs", fn="parse", after=r"impl Parsable for Idx<u64>",
         cfg=dict(params=[("bs", "Bytes")], ret="Nat", outcome=True, reads={"read_u64": "takeLE bs 8"})),
    dict(name="idU8Parse", group="Open", file="src/bases/types/id.rs", fn="parse", after=r"impl Parsable for Id<u8>",
         cfg=dict(params=[("bs", "Bytes")], ret="Nat", outcome=True, reads={"read_u8": "takeLE bs 1"})),
    dict(name="idU16Parse", group="Open", file="src/bases/types/id.rs", fn="parse", after=r"impl Parsable for Id<u16>",
         cfg=dict(params=[("bs", "Bytes")], ret="Nat", outcome=True, reads={"read_u16": "takeLE bs 2"})),
    # ---- the head of Layout::parse (the statements before the properties are split into common part and variants)
    dict(name="layoutParseHead", group="Parse", file="src/reader/directory_pack/layout/mod.rs", fn="parse", after=r"impl Parsable for Layout",
         prefix_until=(r"let mut common_properties", ["entry_count", "is_entry_checked", "entry_size", "variant_count", "raw_layout"]),
         cfg=dict(params=[("bs", "Bytes")], ret="(Nat × Bool × Nat × Nat × List (Nat × SrcPropertyKind × List UInt8))", outcome=True,
                  reads={"read_u8": "takeLE bs 1", "read_u16": "takeLE bs 2"},
                  read_calls={"Count<u32>::parse": "takeLE bs 4", "Count<u8>::parse": "takeLE bs 1", "RawLayout::parse": "rawLayoutParse bs"})),
]


def read(path):
    with open(os.path.join(REPO, path)) as f:
        return f.read()


def proto_actions(body, select=None):
    """the sequence of actions a function body performs on the mutex-protected file of `FileSource`:
    `lock` (`let mut f = self.lock().unwrap()`), `seek` (`f.seek(SeekFrom::Start(..))?`), `read`
    (`f.read(..)`, `f.read_exact(..)`, `f.by_ref().take(..).read_to_end(..)?`), `unlock` (end of the block
    holding the guard).  `select` = regex of an `if … {` whose then-block is the part to look at.
    Anything else touching the guard, the lock or the source makes the body untranslatable."""
    import re
    text = re.sub(r"//[^\n]*", "", body)
    if select:
        m = re.search(select, text)
        if not m:
            raise rs2lean.Untranslatable("branch not found: " + select)
        i = text.index("{", m.end() - 1)
        d = 0
        for j in range(i, len(text)):
            d += (text[j] == "{") - (text[j] == "}")
            if d == 0:
                text = text[i + 1:j]
                break
    # statements at the top level of the block
    sts, cur, d = [], "", 0
    for c in text:
        if c in "({[":
            d += 1
        elif c in ")}]":
            d -= 1
        if c == ";" and d == 0:
            sts.append(" ".join(cur.split()))
            cur = ""
        else:
            cur += c
    if cur.strip():
        sts.append(" ".join(cur.split()))
    acts = []
    guard = None
    for st in sts:
        m = re.fullmatch(r"let mut (\w+) = self\.lock\(\)\.unwrap\(\)", st)
        if m:
            if guard:
                raise rs2lean.Untranslatable("second lock in one access")
            guard = m.group(1)
            acts.append("lock")
            continue
        if guard and re.fullmatch(r"%s\.seek\(SeekFrom::Start\((.*)\)\)\?" % guard, st):
            acts.append("seek")
            continue
        if guard and (re.fullmatch(r"%s\.read(_exact)?\(buf\)\??" % guard, st)
                      or re.fullmatch(r"%s\.by_ref\(\) ?\.take\(.*\) ?\.read_to_end\(&mut buf\)\?" % guard, st)):
            acts.append("read")
            continue
        if (guard and re.search(r"\b%s\b" % guard, st)) or ".lock()" in st or "self.source" in st:
            raise rs2lean.Untranslatable("statement touching the shared file not understood: " + st[:80])
    if guard:
        acts.append("unlock")
    return acts


def block_after(text, rx, else_block=False):
    """text of the `{ … }` block opened by the first match of `rx` (or of the `else { … }` following it)"""
    import re
    m = re.search(rx, text)
    if not m:
        raise rs2lean.Untranslatable("block not found: " + rx)
    i = text.index("{", m.end() - 1)

    def close(i):
        d = 0
        for j in range(i, len(text)):
            d += (text[j] == "{") - (text[j] == "}")
            if d == 0:
                return j
        raise rs2lean.Untranslatable("unbalanced braces")
    j = close(i)
    if else_block:
        m2 = re.match(r"\s*else\s*\{", text[j + 1:])
        if not m2:
            raise rs2lean.Untranslatable("no else block after: " + rx)
        i = j + 1 + m2.end() - 1
        j = close(i)
    return text[i + 1:j]


def shape_actions(body, rules, touch, select=None, else_block=False, first=None):
    """the sequence of protocol actions performed by the statements of a block: every statement is matched
    against `rules` [(regex, action or None)]; a statement matching none of them which mentions one of the
    protocol objects (`touch` regex) makes the body untranslatable; other statements are ignored"""
    import re
    text = re.sub(r"//[^\n]*", "", body)
    if select:
        text = block_after(text, select, else_block)
    sts, cur, d = [], "", 0
    for c in text:
        if c in "({[":
            d += 1
        elif c in ")}]":
            d -= 1
        if c == ";" and d == 0:
            sts.append(" ".join(cur.split()))
            cur = ""
        else:
            cur += c
    if cur.strip():
        sts.append(" ".join(cur.split()))
    acts = [first] if first else []
    for st in sts:
        for rx, act in rules:
            if re.fullmatch(rx, st):
                if act:
                    acts.append(act)
                break
        else:
            if re.search(touch, st):
                raise rs2lean.Untranslatable("statement of the protocol not understood: " + st[:90])
    return acts


def occurrence_sequence(body, rules, forbid=None):
    """the protocol events of a body in textual order: every match of one of the `rules` regexes
    [(regex, event name)] anywhere in the text, sorted by position; `forbid` = regex of text that must not
    occur at all (operations on the file system outside the modelled ones)"""
    import re
    text = re.sub(r"//[^\n]*", "", body)
    if forbid:
        m = re.search(forbid, text)
        if m:
            raise rs2lean.Untranslatable("operation outside the modelled ones: " + m.group(0)[:60])
    found = []
    for rx, ev in rules:
        for m in re.finditer(rx, text):
            found.append((m.start(), ev))
    found.sort()
    # two rules matching at the same place would be ambiguous
    for a, b in zip(found, found[1:]):
        if a[0] == b[0]:
            raise rs2lean.Untranslatable("ambiguous protocol event at one position")
    return [ev for _, ev in found]


def lower_first(s):
    return s[0].lower() + s[1:]


def apply_enums(t):
    """for a target with `enums`: the Lean inductive declarations mirroring the Rust enums (field order
    and names from the source) and the pattern / path tables derived from them"""
    decls = []
    cfg = t["cfg"]
    for en in t.get("enums", []):
        variants = rs2lean.enum_decl(read(en["file"]), en["rust"])
        if en.get("discriminants"):
            prev = None
            for v, _f, disc in variants:
                if disc is None and prev is not None:
                    disc = str(prev + 1)      # Rust: an implicit discriminant is the previous one plus one
                if disc is None:
                    raise rs2lean.Untranslatable(f"enum {en['rust']}: variant {v} has no discriminant")
                prev = int(rs2lean.int_literal(disc))
                cfg.setdefault("paths", {})[f"{en['rust']}::{v}"] = rs2lean.int_literal(disc)
                cfg.setdefault("patterns", {})[f"{en['rust']}::{v}"] = rs2lean.int_literal(disc)
                if en.get("self_prefix"):
                    cfg.setdefault("paths", {})[f"Self::{v}"] = rs2lean.int_literal(disc)
            continue
        declare = en.get("declare", True)
        lines = [f"inductive {en['lean']} where"]
        for v, fields, _d in variants:
            ctor = lower_first(v)
            args = []
            for k, (fname, fty) in enumerate(fields or []):
                if fty not in en["types"]:
                    raise rs2lean.Untranslatable(f"enum {en['rust']}: field type not in the table: {fty}")
                args.append(f"({fname or 'x' + str(k)} : {en['types'][fty]})")
            lines.append(f"  | {ctor} " + " ".join(args))
            for pre in en.get("ctor_prefixes", []):
                if fields and fields[0][0] is not None:
                    cfg.setdefault("struct_ctors", {})[f"{pre}::{v}"] = (f"{en['lean']}.{ctor}", [f for f, _ in fields])
                else:
                    cfg.setdefault("funcs", {})[f"{pre}::{v}"] = f"({en['lean']}.{ctor}" + "".join(" {%d}" % i for i in range(len(fields or []))) + ")"
            for full in [f"{en['rust']}::{v}"] + ([f"Self::{v}"] if en.get("self_prefix") else []):
                if fields and fields[0][0] is not None:
                    cfg.setdefault("struct_patterns", {})[full] = (f"{en['lean']}.{ctor}", [f for f, _ in fields])
                else:
                    cfg.setdefault("patterns", {})[full] = f"{en['lean']}.{ctor}"
                    if not fields:
                        cfg.setdefault("paths", {})[full] = f"{en['lean']}.{ctor}"
        lines.append("  deriving Repr, DecidableEq")
        if declare:
            decls.append("\n".join(lines) + "\n")
    return "\n".join(decls)


GROUP_IMPORTS = {"Refs": ["JubakoModel.Model.Refs", "JubakoModel.Model.MultiStore"], "Check": ["JubakoModel.Model.Bytes"], "Open": ["JubakoModel.Model.Container", "JubakoModel.Generated.FuncsParse"], "Parse": ["JubakoModel.Model.DirLayout", "JubakoModel.Generated.FuncsBytes"], "Entry": ["JubakoModel.Generated.FuncsBytes", "JubakoModel.Generated.FuncsDir"], "Stats": ["JubakoModel.Generated.FuncsBytes", "JubakoModel.Generated.FuncsDir"], "Lookup": ["JubakoModel.Model.Bytes"], "Fs": ["JubakoModel.Model.BasicCreatorFs"], "Sync": ["JubakoModel.Model.SyncVec"], "Pipe": ["JubakoModel.Model.Pipeline"], "Proto": ["JubakoModel.Model.FileCursor"], "Search": ["JubakoModel.Generated.FuncsBytes"], "Content": ["JubakoModel.Generated.FuncsBytes"], "Dir": ["JubakoModel.Generated.FuncsBytes", "JubakoModel.Model.Bytes"]}
GROUP_PREAMBLE = {"Parse": """/- semantics of the effects of the parsing code (trusted, DESIGN.md §12.7): `unwrap()` of an `Err` / `None` is a
   panic; `read_isized(n)` reads `n` bytes little-endian and sign-extends (`LE::read_int`) -/
def unwrapped {α : Type} : Outcome α → Outcome α
  | .err _ => .panic ""
  | o => o

def unwrapOpt {α : Type} : Option α → Outcome α
  | some v => .ok v
  | none => .panic ""

def takeLEs (bs : Bytes) (n : Nat) : Outcome (Int × Bytes) :=
  (takeLE bs n).bind fun (v, r) => .ok (signExtend v n, r)

def entryLEs (e : Bytes) (off n : Nat) : Outcome Int :=
  (entryLE e off n).bind fun v => .ok (signExtend v n)

"""}
GROUP_ORDER = ["Bytes", "Content", "Dir", "Order", "Search", "View", "Check", "Proto", "Pipe", "Sync", "Fs", "Lookup", "Stats", "Entry", "Parse", "Open", "Refs"]


def main():
    pinned = {}
    if os.path.exists(PINNED):
        pinned = json.load(open(PINNED))
    status = {}
    chunks = {g: [] for g in GROUP_ORDER}
    try:
        widths, _notes = extract_layouts.type_widths()
    except Exception:
        widths = {}
    for t in TARGETS:
        name = t["name"]
        t["cfg"].setdefault("type_widths", widths)
        if t.get("struct"):
            try:
                t["cfg"]["struct_fields"] = extract_layouts.struct_fields(read(t["file"]), t["struct"]) or {}
            except Exception:
                t["cfg"]["struct_fields"] = {}
        st = "extracted"
        text = None
        try:
            src = read(t["file"])
            sig, body = rs2lean.function_source(src, t["fn"], t.get("after"))
            for rx in t.get("strip_rx", []):
                import re as _re2
                body = _re2.sub(rx, "", body, flags=_re2.S)
            if t.get("prefix_until"):
                # only the statements before a marker are translated; the value is the tuple of locals the table names
                import re as _re3
                mm = _re3.search(t["prefix_until"][0], body)
                if not mm:
                    raise rs2lean.Untranslatable("prefix marker not found: " + t["prefix_until"][0])
                body = body[:mm.start()] + "\nOk((" + ", ".join(t["prefix_until"][1]) + "))\n"
            decls = apply_enums(t) if t.get("enums") else ""
            if t.get("proto"):
                acts = proto_actions(body, t.get("select"))
                text = f"def {name} : List FAct := [" + ", ".join("." + a for a in acts) + "]\n"
            elif t.get("expr_rx"):
                import re as _re
                m = _re.search(t["expr_rx"], body, _re.S)
                if not m:
                    raise rs2lean.Untranslatable("expression not found: " + t["expr_rx"])
                text = rs2lean.translate_expr(name, m.group(1), t["cfg"])
            elif t.get("occurrences"):
                oc = t["occurrences"]
                evs = occurrence_sequence(body, oc["rules"], oc.get("forbid"))
                text = f"def {name} : List {oc['type']} := [" + ", ".join("." + a for a in evs) + "]\n"
            elif t.get("shape"):
                sh = t["shape"]
                acts = shape_actions(body, sh["rules"], sh["touch"], sh.get("select"), sh.get("else_block", False), sh.get("first"))
                text = f"def {name} : List {sh['type']} := [" + ", ".join("." + a for a in acts) + "]\n"
            elif t.get("let"):
                text = rs2lean.translate_expr(name, rs2lean.let_initialiser(body, t["let"]), t["cfg"])
            else:
                if t.get("inner_block"):
                    import re as _re
                    body = block_after(_re.sub(r"//[^\n]*", "", body), t["inner_block"])
                text = rs2lean.translate(name, body, t["cfg"])
            text = (decls + "\n" if decls else "") + text
            if name in pinned and pinned[name] != text:
                st = "extracted-changed"
        except rs2lean.Untranslatable as e:
            st = "not-derived: " + str(e)[:200]
        except Exception as e:  # noqa
            st = "not-derived: " + type(e).__name__ + " " + str(e)[:160]
        if text is None:
            text = pinned.get(name, f"-- {name}: not derived and no pinned text\n")
        status[name] = {"status": st, "file": t["file"], "fn": t["fn"], "group": t["group"]}
        chunks[t["group"]].append(f"/- `{t['fn']}` in {t['file']} -/\n" + text)
        if "--pin" in sys.argv and st.startswith("extracted"):
            pinned[name] = text
    if "--pin" in sys.argv:
        json.dump(pinned, open(PINNED, "w"), indent=1, ensure_ascii=False)
    for g in GROUP_ORDER:
        imports = "".join(f"import {m}\n" for m in ["JubakoModel.Generated.Consts"] + GROUP_IMPORTS.get(g, []))
        header = ("/- GENERATED by tools/extract_funcs.py (translator: tools/rs2lean.py) from /repo/src on every run. Do not edit.\n"
                  "   Bodies of small pure Rust functions translated to Lean; semantics of the translation: DESIGN.md §12.7. -/\n"
                  + imports +
                  "set_option linter.unusedVariables false\n"
                  "namespace Jubako.Generated\nopen Jubako\n\n" + GROUP_PREAMBLE.get(g, ""))
        text = header + "\n".join(chunks[g]) + "\nend Jubako.Generated\n"
        if "--stdout" in sys.argv:
            print(text)
            continue
        out = os.path.join(OUTDIR, f"Funcs{g}.lean")
        os.makedirs(OUTDIR, exist_ok=True)
        old = open(out).read() if os.path.exists(out) else None
        if old != text:
            with open(out, "w") as f:
                f.write(text)
    if "--stdout" not in sys.argv:
        json.dump(status, sys.stdout, indent=1)
        print()


if __name__ == "__main__":
    main()
