#!/usr/bin/env python3
"""Regenerate lean/JubakoModel/Generated/Funcs.lean from /repo/src: the bodies of small pure functions
(width rules, bit packing, split rule, binary search, region/stream arithmetic, check-stream masking, …)
translated from Rust to Lean by tools/rs2lean.py.  Lemmas/Funcs*.lean prove each generated definition
equal to the hand-written model function the property theorems are stated over, so a change of one of
these bodies breaks a proof obligation directly.

Fail-soft: a body the translator cannot handle keeps the pinned text (status "not-derived: …").
Prints a JSON status object; writes the Lean file only when its text changes.
"""
import json
import os
import sys

sys.path.insert(0, os.path.dirname(os.path.abspath(__file__)))
import rs2lean  # noqa: E402

REPO = os.environ.get("JBK_REPO", "/repo")
HERE = os.path.dirname(os.path.abspath(__file__))
OUT = os.environ.get("JBK_FUNCS_OUT") or os.path.normpath(os.path.join(HERE, "..", "lean", "JubakoModel", "Generated", "Funcs.lean"))
PINNED = os.path.join(HERE, "funcs_pinned.json")

N = "Nat"

TARGETS = [
    # ---- bases
    dict(name="neededBytes", file="src/bases/mod.rs", fn="needed_bytes",
         cfg=dict(params=[("val", N)], ret=N, fuel="val + 1")),
    dict(name="sizedOffsetPack", file="src/bases/types/sized_offset.rs", fn="serialize", after=r"impl Serializable for SizedOffset",
         cfg=dict(params=[("offset", N), ("size", N)], ret=N, self_fields={"offset": "offset", "size": "size"},
                  self_methods={}, methods={"write_u64": "{0}"}, exprs={}, funcs={},
                  )),
    dict(name="sizedOffsetUnpack", file="src/bases/types/sized_offset.rs", fn="parse", after=r"impl Parsable for SizedOffset",
         cfg=dict(params=[("data", N)], ret="Nat × Nat", exprs={"parser.read_u64()": "data"},
                  funcs={"Self::new": "({0}, {1})"})),
    dict(name="contentInfoPack", file="src/common/content_info.rs", fn="serialize", after=r"impl Serializable for ContentInfo",
         cfg=dict(params=[("cluster", N), ("blob", N)], ret=N, self_fields={"cluster_index": "cluster", "blob_index": "blob"},
                  methods={"write_u32": "{0}"})),
    dict(name="contentInfoUnpack", file="src/common/content_info.rs", fn="parse", after=r"impl Parsable for ContentInfo",
         cfg=dict(params=[("v", N)], ret="Nat × Nat", exprs={"parser.read_u32()": "v"},
                  struct_as={"Self": ["cluster_index", "blob_index"]})),
    # ---- content pack creator
    dict(name="clusterIsFull", file="src/creator/content_pack/cluster.rs", fn="is_full",
         cfg=dict(params=[("nblobs", N), ("compressed", "Bool"), ("dataSize", N), ("size", N)], ret="Bool",
                  exprs={"self.offsets.len()": "nblobs", "self.offsets.is_empty()": "decide (nblobs = 0)"},
                  self_fields={"compressed": "compressed"}, self_methods={"data_size": "dataSize"},
                  paths={"MAX_BLOBS_PER_CLUSTER": "Consts.maxBlobsPerCluster", "CLUSTER_SIZE": "Consts.clusterSize"})),
    # ---- directory pack creator
    dict(name="signedSizeKey", file="src/creator/directory_pack/schema/property.rs", fn="signed_size_key",
         cfg=dict(params=[("v", "Int")], ret="Int", int=True,
                  methods={"checked_mul": "(if {recv} * {0} ≤ 9223372036854775807 then some ({recv} * {0}) else none)",
                           "unwrap_or": "(({recv}).getD {0})"},
                  paths={"i64::MAX": "9223372036854775807"})),
    # ---- reader: search
    dict(name="rangeFind", file="src/reader/directory_pack/range.rs", fn="find",
         cfg=dict(params=[("cmpAt", "Nat → Ordering"), ("ordered", "Bool"), ("off", N), ("count", N)], ret="Option Nat",
                  self_methods={"count": "count", "offset": "off"},
                  exprs={"comparator.ordered()": "ordered"},
                  methods={"compare_entry": "cmpAt {0}"},
                  local_types={"cmp": "Ordering"},
                  for_counts={"self.count()": ("0", "count")},
                  fuel="count + 1")),
    # ---- regions and streams
    dict(name="regionCutRel", file="src/bases/types/range.rs", fn="cut_rel",
         cfg=dict(params=[("rbegin", N), ("rend", N), ("offset", N), ("size", N)], ret="Nat × Nat",
                  self_methods={"begin": "rbegin", "end": "rend"},
                  funcs={"Self::new": "({0}, {1})"})),
    dict(name="streamSizeLeft", file="src/reader/byte_stream.rs", fn="size_left",
         cfg=dict(params=[("rbegin", N), ("rend", N), ("cursor", N)], ret=N, self_fields={"offset": "cursor"},
                  exprs={"self.region.end()": "rend", "self.region.begin()": "rbegin", "self.region.size()": "(rend - rbegin)"})),
    dict(name="streamSize", file="src/reader/byte_stream.rs", fn="size",
         cfg=dict(params=[("rbegin", N), ("rend", N), ("cursor", N)], ret=N, self_fields={"offset": "cursor"},
                  exprs={"self.region.end()": "rend", "self.region.begin()": "rbegin", "self.region.size()": "(rend - rbegin)"})),
    dict(name="streamOffset", file="src/reader/byte_stream.rs", fn="offset", after=r"impl ByteStream",
         cfg=dict(params=[("rbegin", N), ("rend", N), ("cursor", N)], ret=N, self_fields={"offset": "cursor"},
                  exprs={"self.region.end()": "rend", "self.region.begin()": "rbegin", "self.region.size()": "(rend - rbegin)"})),
    # ---- the manifest's masked check stream: one `read` call = (bytes asked of the source, delivered as zeros?)
    dict(name="checkStreamStep", file="src/common/check.rs", fn="read", after=r"impl<S: Read> Read for ManifestCheckStream",
         cfg=dict(params=[("blk", N), ("packOffset", N), ("startSafeZone", N), ("offset", N), ("bufLen", N)], ret="Nat × Bool",
                  prelude="let zeroed := false", prelude_scope=["zeroed"], local_types={"zeroed": "Bool"},
                  self_fields={"current_offset": "offset", "pack_offset": "packOffset", "start_safe_zone": "startSafeZone"},
                  paths={"PACK_INFO_SIZE": "blk", "PACK_INFO_TO_CHECK": "Consts.packInfoToCheck"},
                  exprs={"self.source.read(&buf[..size])": "size", "self.source.read(buf)": "bufLen", "buf.len()": "bufLen",
                         "Ok(read_size)": "(read_size, zeroed)"},
                  effects={"buf[..size].fill(0)": "let zeroed := true"})),
    # ---- cluster tail: the sequence of (value, width) writes after the cluster header
    dict(name="clusterTailWrites", file="src/creator/content_pack/clusterwriter.rs", fn="serialize_cluster_tail",
         cfg=dict(params=[("compression", N), ("nblobs", N), ("dataSize", N), ("offsets", "List Nat"), ("raw_data_size", N)],
                  ret="(Nat × Nat × Nat) × List (Nat × Nat)", writes=True, no_loops=True,
                  prelude="let out : List (Nat × Nat) := []", prelude_scope=["out"],
                  exprs={"cluster.data_size()": "dataSize", "cluster.offsets.len()": "nblobs", "Ok(())": "(cluster_header, out)"},
                  funcs={"needed_bytes": "((Generated.neededBytes {0}).getD 0)", "ClusterHeader::new": "({0}, {1}, {2})"},
                  serializes={"cluster_header": "[]"},
                  iters={"&cluster.offsets[..cluster.offsets.len() - 1]": "offsets.dropLast"})),
]


def read(path):
    with open(os.path.join(REPO, path)) as f:
        return f.read()


def main():
    pinned = {}
    if os.path.exists(PINNED):
        pinned = json.load(open(PINNED))
    status = {}
    chunks = []
    only = set(sys.argv[2:]) if len(sys.argv) > 2 and sys.argv[1] == "--only" else None
    for t in TARGETS:
        name = t["name"]
        if only and name not in only:
            continue
        st = "extracted"
        text = None
        try:
            src = read(t["file"])
            sig, body = rs2lean.function_source(src, t["fn"], t.get("after"))
            text = rs2lean.translate(name, body, t["cfg"])
            if name in pinned and pinned[name] != text:
                st = "extracted-changed"
        except rs2lean.Untranslatable as e:
            st = "not-derived: " + str(e)[:200]
        except Exception as e:  # noqa
            st = "not-derived: " + type(e).__name__ + " " + str(e)[:160]
        if text is None:
            text = pinned.get(name, f"-- {name}: not derived and no pinned text\n")
        status[name] = {"status": st, "file": t["file"], "fn": t["fn"]}
        chunks.append(f"/- `{t['fn']}` in {t['file']} -/\n" + text)
        if "--pin" in sys.argv and st.startswith("extracted"):
            pinned[name] = text
    header = ("/- GENERATED by tools/extract_funcs.py (translator: tools/rs2lean.py) from /repo/src on every run. Do not edit.\n"
              "   Bodies of small pure Rust functions translated to Lean; semantics of the translation: DESIGN.md §12.7. -/\n"
              "import JubakoModel.Generated.Consts\n"
              "set_option linter.unusedVariables false\n"
              "namespace Jubako.Generated\nopen Jubako\n\n")
    text = header + "\n".join(chunks) + "\nend Jubako.Generated\n"
    if "--pin" in sys.argv:
        json.dump(pinned, open(PINNED, "w"), indent=1, ensure_ascii=False)
    if "--stdout" in sys.argv:
        print(text)
        return
    if not only:
        os.makedirs(os.path.dirname(OUT), exist_ok=True)
        old = open(OUT).read() if os.path.exists(OUT) else None
        if old != text:
            with open(OUT, "w") as f:
                f.write(text)
    json.dump(status, sys.stdout, indent=1)
    print()


if __name__ == "__main__":
    main()
