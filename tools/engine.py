"""Check engine: proof step, correspondence step, verdict, evidence.  See /verif/check."""
import fcntl
import glob
import hashlib
import json
import os
import re
import shutil
import subprocess
import sys
import time

VERIF = os.path.normpath(os.path.join(os.path.dirname(os.path.abspath(__file__)), ".."))
LEAN = os.path.join(VERIF, "lean")
HARNESS = os.path.join(VERIF, "harness")
WORK = os.path.join(VERIF, "work")
REPO = os.environ.get("JBK_REPO", "/repo")
GUARD_FLAGS = "--cfg jubako_verif"
ALLOWED_AXIOMS = {"propext", "Classical.choice", "Quot.sound"}
FORBIDDEN = re.compile(r"\b(sorry|admit|native_decide|implemented_by|unsafe)\b|^\s*axiom\s|maxHeartbeats\s+0", re.M)

sys.path.insert(0, os.path.dirname(os.path.abspath(__file__)))
import props  # noqa: E402


def log(*a):
    print(*a, file=sys.stderr, flush=True)


def run(cmd, cwd=None, env=None, timeout=None, capture=True):
    e = dict(os.environ)
    e["CARGO_NET_OFFLINE"] = "true"
    if env:
        e.update(env)
    t0 = time.time()
    try:
        p = subprocess.run(cmd, cwd=cwd, env=e, timeout=timeout, stdout=subprocess.PIPE if capture else None,
                           stderr=subprocess.STDOUT if capture else None, text=True, errors="replace")
        return p.returncode, p.stdout or "", time.time() - t0
    except subprocess.TimeoutExpired as ex:
        out = ex.stdout if isinstance(ex.stdout, str) else (ex.stdout or b"").decode("utf8", "replace") if ex.stdout else ""
        return 124, out + "\n[timeout]", time.time() - t0


class Lock:
    def __init__(self, name):
        os.makedirs(WORK, exist_ok=True)
        self.path = os.path.join(WORK, name + ".lock")

    def __enter__(self):
        self.f = open(self.path, "w")
        fcntl.flock(self.f, fcntl.LOCK_EX)
        return self

    def __exit__(self, *a):
        fcntl.flock(self.f, fcntl.LOCK_UN)
        self.f.close()


# ---------------------------------------------------------------- A. proof

def strip_comments(src):
    # remove /- ... -/ (nested) and -- ... comments
    out = []
    i = 0
    depth = 0
    n = len(src)
    while i < n:
        if src.startswith("/-", i):
            depth += 1
            i += 2
        elif depth > 0 and src.startswith("-/", i):
            depth -= 1
            i += 2
        elif depth > 0:
            i += 1
        elif src.startswith("--", i):
            while i < n and src[i] != "\n":
                i += 1
        else:
            out.append(src[i])
            i += 1
    return "".join(out)


def local_imports(module, seen=None):
    """transitive closure of JubakoModel.* imports of a module (as file paths)"""
    if seen is None:
        seen = {}
    path = os.path.join(LEAN, module.replace(".", "/") + ".lean")
    if module in seen or not os.path.exists(path):
        return seen
    seen[module] = path
    for m in re.findall(r"^import\s+(\S+)", open(path).read(), re.M):
        if m.startswith("JubakoModel."):
            local_imports(m, seen)
    return seen


DECL_RX = re.compile(r"^(?:@\[[^\]]*\]\s*)?(?:private\s+|protected\s+)?(theorem|lemma|example)\s+([^\s:({\[]*)", re.M)


def proof_step(pid, cfg, ev):
    res = {"ok": True, "problems": []}
    with Lock("lean"):
        rc, out, _ = run([sys.executable, os.path.join(VERIF, "tools", "extract_consts.py")])
        try:
            consts = json.loads(out[out.index("{"):])
        except Exception:
            consts = {}
        ev["consts"] = {k: v["status"] for k, v in consts.items() if v["status"] != "extracted"} or "all 21 constants re-derived from /repo/src, unchanged"
        ev["consts_changed"] = [k for k, v in consts.items() if v["status"] == "extracted-changed"]
        # layouts of the fixed-layout structures, translated from the serialize / parse bodies
        rc, out, _ = run([sys.executable, os.path.join(VERIF, "tools", "extract_layouts.py")])
        try:
            lay = json.loads(out[out.index("{"):])
        except Exception:
            lay = {}
        bad = {k: v["status"] for k, v in lay.items() if isinstance(v, dict) and v.get("status") != "extracted"}
        ev["layouts"] = bad or f"all {len([k for k in lay if not k.startswith('_')])} structure layouts (writer and reader) translated from /repo/src, unchanged"
        ev["layouts_changed"] = [k for k, v in lay.items() if isinstance(v, dict) and v.get("status") == "extracted-changed"]
        # bodies of small pure functions, translated from Rust to Lean (tools/rs2lean.py)
        rc, out, _ = run([sys.executable, os.path.join(VERIF, "tools", "extract_funcs.py")])
        try:
            fns = json.loads(out[out.index("{"):])
        except Exception:
            fns = {}
        badf = {k: v["status"] for k, v in fns.items() if isinstance(v, dict) and v.get("status") != "extracted"}
        ev["functions"] = badf or f"all {len(fns)} function bodies translated from /repo/src, unchanged"
        ev["functions_changed"] = [k for k, v in fns.items() if isinstance(v, dict) and v.get("status") == "extracted-changed"]
        mod = cfg["theorems"]
        # a body this property's theorems are tied to and which can no longer be translated: the
        # obligation `model function = source function` no longer checks (DESIGN.md §12.7)
        imported = local_imports(mod)
        mine = {k: v for k, v in fns.items() if isinstance(v, dict) and f"JubakoModel.Lemmas.Funcs{v.get('group')}" in imported}
        ev["functions_tied_to_this_property"] = sorted(mine)
        for k, v in sorted(mine.items()):
            if v["status"].startswith("not-derived"):
                res["ok"] = False
                res["problems"].append(f"the body of `{v['fn']}` ({v['file']}) can no longer be translated ({v['status'][13:]}): "
                                       f"Generated.{k} = model function is no longer checked against the source")
        # the same policy for the translated structure layouts, for the properties whose theorems are stated
        # over them (those importing Lemmas/Layouts.lean): a serialize / parse body that no longer translates
        # leaves `layout of the model = layout of the source` unchecked
        if "JubakoModel.Lemmas.Layouts" in imported:
            for k, st in sorted((bad or {}).items()):
                if str(st).startswith("not-derived"):
                    res["ok"] = False
                    res["problems"].append(f"the layout of `{k}` can no longer be translated from its serialize / parse bodies ({str(st)[12:][:160]}): "
                                           f"the layout theorems are no longer checked against the source")
        targets = [mod, "jbkmodel"]
        rc, out, dt = run(["lake", "build"] + targets, cwd=LEAN, timeout=3000)
        ev["lake_build_s"] = round(dt, 1)
        if rc != 0:
            res["ok"] = False
            errs = [l for l in out.splitlines() if "error" in l][:12]
            res["problems"].append("lake build failed: " + " | ".join(errs))
            res["build_log"] = out[-6000:]
            # a translated function body may be what no longer matches the model: look for a concrete
            # input on which source and model functions differ (search aid, DESIGN.md §12.7)
            if ev.get("functions_changed"):
                rc2, out2, _ = run(["lake", "env", "lean", "--run", "Driver/FuncsDiff.lean"], cwd=LEAN, timeout=600)
                wit = [l for l in out2.splitlines() if l.startswith("diff ")]
                res["function_witnesses"] = wit or [f"no difference on the grids of Driver/FuncsDiff.lean (rc={rc2})"]
                for w in wit[:6]:
                    res["problems"].append("translated source function differs from the model function: " + w[:300])
            return res
        mods = local_imports(mod)
        # forbidden tokens
        for m, path in mods.items():
            src = strip_comments(open(path).read())
            for hit in FORBIDDEN.finditer(src):
                res["ok"] = False
                res["problems"].append(f"forbidden token {hit.group(0).strip()!r} in {m}")
        # obligations: theorem/lemma/example declarations in the property file and the lemma
        # modules it depends on
        obligations = 0
        names = []
        per_mod = {}
        for m, path in mods.items():
            if ".Theorems." in m or ".Lemmas." in m:
                src = strip_comments(open(path).read())
                ds = DECL_RX.findall(src)
                per_mod[m] = len(ds)
                obligations += len(ds)
                if m == mod:
                    names = [n for k, n in ds if k != "example" and n]
        ev["obligations_per_module"] = per_mod
        # axioms audit
        audit = os.path.join(WORK, f"audit_{pid}.lean")
        os.makedirs(WORK, exist_ok=True)
        with open(audit, "w") as f:
            f.write(f"import {mod}\nopen Jubako\n")
            for n in names:
                f.write(f"#print axioms {n}\n")
        rc, out, dt = run(["lake", "env", "lean", audit], cwd=LEAN, timeout=1200)
        axioms = {}
        # one message per theorem; names may themselves contain apostrophes (foo', map'_x)
        flat = out.replace("\n", " ")
        for m in re.finditer(r"'(\S+?)' depends on axioms: \[([^\]]*)\]|'(\S+?)' does not depend on any axioms", flat):
            if m.group(1):
                axioms[m.group(1)] = [a.strip() for a in m.group(2).split(",") if a.strip()]
            else:
                axioms[m.group(3)] = []
        if rc != 0 or len(axioms) < len(names):
            res["ok"] = False
            res["problems"].append("axiom audit failed: " + out[-400:])
        extra = {}
        for n, ax in axioms.items():
            bad = [a for a in ax if a not in ALLOWED_AXIOMS and not (cfg.get("allow_bv_decide") and "bv_decide" in a)]
            if bad:
                extra[n] = bad
        if extra:
            res["ok"] = False
            res["problems"].append(f"theorems depend on non-allowed axioms: {extra}")
        used = sorted({a for ax in axioms.values() for a in ax})
        ev["axioms_used"] = used
        ev["theorems"] = names
        res["obligations"] = obligations
        res["discharged"] = obligations if res["ok"] else 0
        if cfg.get("leanchecker", True) and ev.get("tier") == "thorough":
            rc, out, dt = run(["lake", "env", "leanchecker", mod], cwd=LEAN, timeout=3000)
            ev["leanchecker"] = {"rc": rc, "s": round(dt, 1)}
            if rc != 0:
                res["ok"] = False
                res["problems"].append("leanchecker rejected " + mod + ": " + out[-300:])
    return res


# ---------------------------------------------------------------- B. correspondence

def build_harness(profile):
    with Lock("cargo-" + profile):
        cmd = ["cargo", "build", "--offline", "--bin", "jbkverif"]
        if profile == "release":
            cmd.append("--release")
        env = {"RUSTFLAGS": GUARD_FLAGS, "CARGO_TARGET_DIR": os.path.join(HARNESS, "target")}
        rc, out, dt = run(cmd, cwd=HARNESS, env=env, timeout=3000)
        exe = os.path.join(HARNESS, "target", "release" if profile == "release" else "debug", "jbkverif")
        return rc == 0, out, dt, exe


def run_harness(exe, cfg, seed, tier, outdir, case=None, timeout=None):
    if os.path.isdir(outdir):
        shutil.rmtree(outdir)
    os.makedirs(outdir)
    cmd = [exe, cfg["harness"], "--seed", str(seed), "--tier", tier, "--out", outdir]
    if case is not None:
        cmd += ["--case", str(case)]
    rc, out, dt = run(cmd, cwd=VERIF, timeout=timeout or (1500 if tier == "quick" else 7200))
    return rc, out, dt


def run_driver(outdir):
    exe = os.path.join(LEAN, ".lake", "build", "bin", "jbkmodel")
    ops = os.path.join(outdir, "ops.txt")
    model = os.path.join(outdir, "model.txt")
    rc, out, dt = run([exe, ops, model], cwd=outdir, timeout=7200)
    return rc, out, dt


def read_lines(p):
    if not os.path.exists(p):
        return []
    with open(p, errors="replace") as f:
        return f.read().split("\n")[:-1]


def compare(outdir):
    ops = read_lines(os.path.join(outdir, "ops.txt"))
    imp = read_lines(os.path.join(outdir, "impl.txt"))
    mod = read_lines(os.path.join(outdir, "model.txt"))
    ids = read_lines(os.path.join(outdir, "ids.txt"))
    dis = []
    n = max(len(imp), len(mod))
    for i in range(n):
        a = imp[i] if i < len(imp) else "<missing>"
        b = mod[i] if i < len(mod) else "<missing>"
        if a != b:
            dis.append({"line": i, "case": int(ids[i]) if i < len(ids) and ids[i].isdigit() else -1,
                        "op": ops[i] if i < len(ops) else "", "impl": a, "model": b})
    return len(ops), dis


def first_diff(a, b):
    # locate first differing ';'-separated field for readable reports
    fa, fb = a.split(";"), b.split(";")
    for i in range(max(len(fa), len(fb))):
        x = fa[i] if i < len(fa) else "<none>"
        y = fb[i] if i < len(fb) else "<none>"
        if x != y:
            return i, x[:200], y[:200]
    return -1, "", ""


def oracle_failures(outdir):
    fails = []
    for l in read_lines(os.path.join(outdir, "oracle.txt")):
        p = l.split("\t", 2)
        if len(p) == 3:
            fails.append({"case": int(p[0]) if p[0].lstrip("-").isdigit() else -1, "sig": p[1], "what": p[2]})
    return fails


def load_known():
    p = os.path.join(VERIF, "known_findings.json")
    if not os.path.exists(p):
        return []
    return json.load(open(p)).get("findings", [])


def match_known(pid, f, known):
    for k in known:
        if k.get("property") != pid:
            continue
        m = k.get("match", {})
        if "sig" in m and not re.search(m["sig"], f["sig"]):
            continue
        if "what" in m and not re.search(m["what"], f["what"]):
            continue
        return k
    return None


def write_replay(pid, name, obj):
    d = os.path.join(VERIF, "replays", pid)
    os.makedirs(d, exist_ok=True)
    p = os.path.join(d, name + ".json")
    with open(p, "w") as f:
        json.dump(obj, f, indent=1)
    return p


def trunc(s, n=4000):
    return s if len(s) <= n else s[:n] + f"...[{len(s)} chars]"


# ---------------------------------------------------------------- main

def main(argv):
    if not argv:
        print(__doc__)
        return 2
    pid = argv[0].upper()
    tier = os.environ.get("VERIF_TIER", "quick")
    seed = int(os.environ.get("VERIF_SEED", "1") or 1)
    replay = None
    i = 1
    while i < len(argv):
        if argv[i] == "--tier":
            tier = argv[i + 1]; i += 2
        elif argv[i] == "--seed":
            seed = int(argv[i + 1]); i += 2
        elif argv[i] == "--replay":
            replay = argv[i + 1]; i += 2
        else:
            i += 1
    if tier not in ("quick", "thorough"):
        tier = "quick"
    if pid not in props.PROPS:
        print(f"unknown property {pid}")
        return 2
    cfg = props.PROPS[pid]
    if replay:
        return do_replay(pid, cfg, replay)
    t0 = time.time()
    cov = {"tier": tier}
    violations = []   # (replay_path, suffix)
    known_lines = []
    known = load_known()

    # ---- A
    pr = proof_step(pid, cfg, cov)
    log(f"[{pid}] proof step: ok={pr['ok']} obligations={pr.get('obligations')} {pr['problems']}")

    # ---- B
    corr_problems = []
    all_dis = []
    all_fail = []
    evaluations = 0
    distinct = 0
    lines_compared = 0
    samples = []
    distribution = {}
    profiles = cfg.get("profiles", ["debug"])
    if tier == "quick":
        profiles = cfg.get("quick_profiles", profiles)
    custom = cfg.get("custom")
    for profile in profiles:
        ok, out, dt, exe = build_harness(profile)
        cov[f"harness_build_{profile}_s"] = round(dt, 1)
        if not ok:
            errs = [l for l in out.splitlines() if l.startswith("error")][:8]
            corr_problems.append(f"harness build ({profile}) against /repo failed: " + " | ".join(errs))
            continue
        outdir = os.path.join(WORK, f"{pid}-{tier}-{profile}")
        if custom:
            r = custom(dict(pid=pid, cfg=cfg, exe=exe, seed=seed, tier=tier, outdir=outdir, profile=profile, engine=sys.modules[__name__]))
        else:
            r = standard_run(pid, cfg, exe, seed, tier, outdir, profile)
        corr_problems += r["problems"]
        all_dis += r["dis"]
        all_fail += r["fails"]
        evaluations += r["evaluations"]
        distinct += r["distinct"]
        lines_compared += r["lines"]
        samples += r["samples"]
        for k, v in r["distribution"].items():
            distribution[f"{profile}:{k}" if len(profiles) > 1 else k] = v

    # For C14 the independent decoder *is* the property's oracle: a generated container on which the Lean
    # decoder / re-encoder does not agree with the bytes the library wrote (or read) is a failing input.
    if cfg.get("disagreement_is_failure"):
        have = {f["case"] for f in all_fail}
        for d in all_dis:
            if d["case"] in have:
                continue
            have.add(d["case"])
            fi = first_diff(d["impl"], d["model"])
            all_fail.append({"case": d["case"], "sig": "independent-decoder-differs", "profile": profiles[0], "op": d.get("op", ""),
                             "what": f"the independent (Lean) decoder/encoder and the library disagree on this generated container, field {fi[0]}: library={trunc(str(fi[1]))!r} independent={trunc(str(fi[2]))!r}"})
    # ---- C verdict
    new_fails = []
    seen_known = {}
    for f in all_fail:
        k = match_known(pid, f, known)
        if k:
            seen_known.setdefault(k["id"], (k, 0))
            seen_known[k["id"]] = (k, seen_known[k["id"]][1] + 1)
        else:
            new_fails.append(f)
    for kid, (k, n) in seen_known.items():
        known_lines.append(f"KNOWN-FINDING: property={pid} {k['id']} {k['description']} ({n} failing cases this run)")

    if new_fails:
        # group by signature; one replay per signature (first = smallest case)
        by_sig = {}
        for f in new_fails:
            by_sig.setdefault(f["sig"], []).append(f)
        for sig, fs in by_sig.items():
            f0 = fs[0]
            name = f"{tier}-seed{seed}-case{f0['case']}-{re.sub(r'[^A-Za-z0-9_.-]', '_', sig)[:40]}"
            path = write_replay(pid, name, {
                "property": pid, "kind": "oracle-failure", "seed": seed, "tier": tier, "case": f0["case"], "profile": f0.get("profile", profiles[0]),
                "signature": sig, "what": f0["what"], "count_same_signature": len(fs),
                "op": trunc(f0.get("op", "")),
                "rerun": f"./check {pid} --replay replays/{pid}/{name}.json"})
            violations.append((path, ""))
    broken = []
    if not pr["ok"]:
        broken += ["proof: " + p for p in pr["problems"]]
    if corr_problems:
        broken += ["correspondence: " + p for p in corr_problems]
    # disagreements: those on cases whose oracle failed on a known finding are explained by the
    # finding (model follows the repaired/intended code); others are a broken correspondence
    known_cases = {f["case"] for f in all_fail if match_known(pid, f, known)}
    failing_cases = {f["case"] for f in all_fail}
    unexplained = [d for d in all_dis if d["case"] not in failing_cases]
    if unexplained:
        d0 = unexplained[0]
        fi = first_diff(d0["impl"], d0["model"])
        broken.append(f"correspondence: {len(unexplained)} model/implementation disagreements, first at case {d0['case']} field {fi[0]}: impl={fi[1]!r} model={fi[2]!r}")
    if broken and not new_fails:
        # search for a failing input with more seeds before giving up
        found = None
        search_log = []
        if not any(p.startswith("correspondence: harness build") for p in broken):
            budget = cfg.get("search_seeds", 3 if tier == "quick" else 8)
            if custom:
                budget = 1 if tier == "quick" else 2
            ok, out, dt, exe = build_harness(profiles[0])
            for k in range(budget):
                s2 = seed * 1000 + 17 + k
                outdir = os.path.join(WORK, f"{pid}-search")
                if custom:
                    # custom runners: same seed first, exhaustively (thorough tier), then another seed
                    s2 = seed if k == 0 else s2
                    r = custom(dict(pid=pid, cfg=cfg, exe=exe, seed=s2, tier="thorough", outdir=outdir, profile=profiles[0], engine=sys.modules[__name__]))
                else:
                    r = standard_run(pid, cfg, exe, s2, "thorough" if k else tier, outdir, profiles[0], model=False)
                nf = [f for f in r["fails"] if not match_known(pid, f, known)]
                search_log.append({"seed": s2, "cases": r["evaluations"], "oracle_failures": len(nf)})
                if nf:
                    found = (s2, "thorough" if (k or custom) else tier, nf[0])
                    break
        if found:
            s2, t2, f0 = found
            name = f"search-seed{s2}-case{f0['case']}"
            path = write_replay(pid, name, {"property": pid, "kind": "oracle-failure-found-by-search", "seed": s2, "tier": t2, "case": f0["case"],
                                            "signature": f0["sig"], "what": f0["what"], "broken": broken,
                                            "rerun": f"./check {pid} --replay replays/{pid}/{name}.json"})
            violations.append((path, ""))
        else:
            name = f"{tier}-seed{seed}-unchecked"
            obj = {"property": pid, "kind": "no-failing-input-found", "seed": seed, "tier": tier,
                   "no_longer_checks": broken, "search": search_log}
            if unexplained:
                d0 = unexplained[0]
                obj["first_disagreement"] = {"case": d0["case"], "op": trunc(d0["op"]), "impl": trunc(d0["impl"]), "model": trunc(d0["model"])}
            if not pr["ok"] and "build_log" in pr:
                obj["lake_build_log_tail"] = pr["build_log"][-3000:]
            if pr.get("function_witnesses"):
                obj["source_vs_model_function_witnesses"] = pr["function_witnesses"]
            path = write_replay(pid, name, obj)
            violations.append((path, " no-failing-input-found"))

    wall = time.time() - t0
    cov.update({
        "obligations": pr.get("obligations", 0) or 1,
        "discharged": pr.get("discharged", 0),
        "checker_cmd": f"cd lean && lake build {cfg['theorems']} && lake env lean <#print axioms of every theorem>" + (" && lake env leanchecker " + cfg['theorems'] if cfg.get('leanchecker', True) and tier == 'thorough' else ""),
        "trusted_base": props.TRUSTED_BASE + cfg.get("trusted_extra", []),
        "evaluations": evaluations,
        "distinct_nontrivial": distinct,
        "rule": cfg["rule"],
        "samples": samples[:6] or ["(no case ran)"],
        "traces_validated_against_impl": lines_compared,
        "model_impl_disagreements": len(all_dis),
        "oracle_failures_total": len(all_fail),
        "oracle_failures_matching_known_findings": len(all_fail) - len(new_fails),
        "input_distribution": distribution,
        "proof_problems": pr["problems"],
        "correspondence_problems": corr_problems,
        "exhaustive": False,
        "explanation": cfg.get("explanation", ""),
    })
    evidence = {
        "property_id": pid, "tier": tier, "seed": seed, "level": "proof", "coverage": cov,
        "assumptions": cfg.get("assumptions", []), "wall_s": round(wall, 1), "violations": len(violations),
    }
    os.makedirs(os.path.join(VERIF, "evidence"), exist_ok=True)
    with open(os.path.join(VERIF, "evidence", pid + ".json"), "w") as f:
        json.dump(evidence, f, indent=1)
    # scratch data of a clean run is not kept (the evidence file describes what was covered)
    if not violations:
        for profile in profiles:
            shutil.rmtree(os.path.join(WORK, f"{pid}-{tier}-{profile}", "work"), ignore_errors=True)
            for sub in glob.glob(os.path.join(WORK, f"{pid}-{tier}-{profile}", "s[0-9]*")) + [os.path.join(WORK, f"{pid}-{tier}-{profile}", "prev")]:
                shutil.rmtree(sub, ignore_errors=True)
        shutil.rmtree(os.path.join(WORK, f"{pid}-search"), ignore_errors=True)
    for l in known_lines:
        print(l)
    for path, suffix in violations:
        print(f"VIOLATION property={pid} replay={path}{suffix}")
    log(f"[{pid}] {tier} seed={seed}: {evaluations} cases, {lines_compared} lines compared, {len(all_dis)} disagreements, {len(all_fail)} oracle failures ({len(new_fails)} new), {wall:.1f}s")
    return 1 if violations else 0


def standard_run(pid, cfg, exe, seed, tier, outdir, profile, model=True, case=None):
    r = {"problems": [], "dis": [], "fails": [], "evaluations": 0, "distinct": 0, "lines": 0, "samples": [], "distribution": {}}
    rc, out, dt = run_harness(exe, cfg, seed, tier, outdir, case=case)
    died = None
    if rc != 0:
        infl = os.path.join(outdir, "inflight.txt")
        if os.path.exists(infl):
            try:
                died = int(open(infl).read().strip())
            except Exception:
                died = -1
            with open(os.path.join(outdir, "oracle.txt"), "a") as f:
                tail = out.strip().splitlines()[-1][:200] if out.strip() else ""
                f.write(f"{died}\tprocess-died\tharness process died (exit status {rc}) while the library was running case {died}: {tail}\n")
        else:
            r["problems"].append(f"harness run ({profile}) exited {rc}: {out[-300:]}")
    st = {}
    try:
        st = json.load(open(os.path.join(outdir, "stats.json")))
    except Exception:
        if rc == 0:
            r["problems"].append("harness wrote no stats.json")
    r["evaluations"] = st.get("cases", 0)
    r["distinct"] = st.get("distinct_nontrivial", 0)
    r["samples"] = st.get("samples", [])
    r["distribution"] = st.get("distribution", {})
    r["distribution"]["harness_s"] = round(dt, 1)
    fails = oracle_failures(outdir)
    ops = read_lines(os.path.join(outdir, "ops.txt"))
    ids = read_lines(os.path.join(outdir, "ids.txt"))
    case_op = {}
    for i, c in enumerate(ids):
        case_op.setdefault(c, ops[i] if i < len(ops) else "")
    inc = cfg.get("sig_include")
    exc = cfg.get("sig_exclude")
    if inc:
        fails = [f for f in fails if re.search(inc, f["sig"])]
    if exc:
        fails = [f for f in fails if not re.search(exc, f["sig"])]
    for f in fails:
        f["profile"] = profile
        f["op"] = case_op.get(str(f["case"]), "")
    r["fails"] = fails
    if model and ops:
        rc, out, dt = run_driver(outdir)
        r["distribution"]["model_driver_s"] = round(dt, 1)
        if rc != 0:
            r["problems"].append(f"model driver exited {rc}: {out[-300:]}")
        n, dis = compare(outdir)
        r["lines"] = n
        r["dis"] = dis
    return r


def do_replay(pid, cfg, path):
    obj = json.load(open(path))
    print(json.dumps({k: v for k, v in obj.items() if k not in ("op",)}, indent=1))
    if obj.get("kind") == "no-failing-input-found" or "case" not in obj:
        print("nothing to re-run: this replay names the theorem / correspondence that no longer checks")
        return 0
    profile = obj.get("profile", "debug")
    ok, out, dt, exe = build_harness(profile)
    if not ok:
        print("harness build failed")
        return 2
    outdir = os.path.join(WORK, f"{pid}-replay")
    if cfg.get("custom"):
        r = cfg["custom"](dict(pid=pid, cfg=cfg, exe=exe, seed=obj["seed"], tier=obj["tier"], outdir=outdir, profile=profile, engine=sys.modules[__name__], case=obj["case"]))
    else:
        r = standard_run(pid, cfg, exe, obj["seed"], obj["tier"], outdir, profile, case=obj["case"])
    for f in r["fails"]:
        print(f"ORACLE-FAILURE case={f['case']} {f['sig']}: {f['what']}")
    for d in r["dis"]:
        fi = first_diff(d["impl"], d["model"])
        print(f"DISAGREEMENT case={d['case']} field {fi[0]}: impl={fi[1]!r} model={fi[2]!r}")
    if r["fails"] or r["dis"]:
        print(f"VIOLATION property={pid} replay={path}")
        return 1
    print("replay: case passes now")
    return 0
