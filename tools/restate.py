#!/usr/bin/env python3
"""restate.py <lemma-file.lean> old_prefix new_prefix name1 name2 …  → prints Lean source restating the theorems
`old_prefix+name` of the lemma file under the names `new_prefix+name` (same binders, same statement, doc comment
kept), proved by applying the lemma.  Used to keep the property statements readable in Theorems/Cxx.lean while the
proofs live in Lemmas/."""
import re, sys

def split_binders(sig):
    """sig: text between the theorem name and the final ' :=' ; returns (binders_text, type_text, explicit_names)"""
    depth = 0; i = 0; n = len(sig); names = []; last_end = 0
    # walk over leading binder groups
    while i < n:
        while i < n and sig[i].isspace(): i += 1
        if i < n and sig[i] in "({[":
            open_c = sig[i]; j = i; depth = 0
            while j < n:
                if sig[j] in "({[": depth += 1
                elif sig[j] in ")}]":
                    depth -= 1
                    if depth == 0: break
                j += 1
            grp = sig[i + 1:j]
            if open_c == "(":
                # names before the first top-level ':'
                d = 0; k = 0
                while k < len(grp):
                    if grp[k] in "({[": d += 1
                    elif grp[k] in ")}]": d -= 1
                    elif grp[k] == ":" and d == 0 and grp[k:k+2] != ":=": break
                    k += 1
                names += grp[:k].split()
            i = j + 1; last_end = i
        else:
            break
    rest = sig[last_end:]
    m = re.match(r"\s*:\s*", rest)
    return sig[:last_end], rest[m.end():], names

def main():
    path, oldp, newp = sys.argv[1:4]
    want = sys.argv[4:]
    src = open(path).read()
    out = []
    for nm in want:
        m = re.search(r"((?:/--(?:(?!-/).)*-/\s*)?)theorem " + re.escape(oldp + nm) + r"\b(.*?):=\s*(?:by\b|\n|[A-Za-z⟨(@fun])", src, re.S)
        if not m:
            sys.exit("not found: " + oldp + nm)
        doc, sig = m.group(1), m.group(2)
        binders, typ, names = split_binders(sig.rstrip())
        out.append(f"{doc}theorem {newp}{nm}{binders} :\n    {typ.strip()} :=\n  {oldp}{nm} {' '.join(names)}\n")
    print("\n".join(out))

if __name__ == "__main__":
    main()
