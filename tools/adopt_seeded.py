#!/usr/bin/env python3
"""adopt a confirmed candidate: tools/adopt_seeded.py <ID> [<suffix>]   (/tmp/mut/<ID>-out -> /verif/seeded/<ID>-<suffix>/)"""
import json, os, re, shutil, sys
pid = sys.argv[1]; suf = sys.argv[2] if len(sys.argv) > 2 else "1"
base = os.environ.get("MUT_BASE", "/tmp/mut"); src = f"{base}/{pid}-out"; dst = f"/verif/seeded/{pid}-{suf}"
log = open(os.path.join(src, "confirm.log")).read()
m = re.search(r"suite_with_patch_rc=(\d+)", log)
demos = re.findall(r"demo=(\S+) with_patch_rc=(\d+) without_patch_rc=(\d+)", log)
ok = m and all(int(a) != 0 and int(b) == 0 for _, a, b in demos) and demos
if not ok and "--force" not in sys.argv:
    print("not confirmed:", m and m.group(0), demos); sys.exit(1)
os.makedirs(dst, exist_ok=True)
shutil.copy(os.path.join(src, "patch.diff"), dst)
if os.path.isdir(os.path.join(dst, "demo")): shutil.rmtree(os.path.join(dst, "demo"))
shutil.copytree(os.path.join(src, "demo"), os.path.join(dst, "demo"))
am = json.load(open(os.path.join(src, "meta.json")))
results = [l for l in log.splitlines() if l.startswith("test result")]
meta = {
  "property": pid,
  "summary": am.get("summary"),
  "needs_to_manifest": am.get("needs_to_manifest"),
  "origin": "written by a sub-agent that was given the property text and its own scratch worktree only",
  "confirmed_by_me": {
    "where": f"scratch worktree {base}/{pid} of /repo (removed afterwards)",
    "ran": [
      "git apply patch.diff (on a clean checkout of /repo HEAD)",
      "cargo build --offline",
      "cargo test --workspace --no-fail-fast --offline   (own TMPDIR; the pinned integration test uses fixed names under temp_dir())",
      "cp demo/<name>.rs tests/ && cargo test --offline --test <name>    with the patch, then after `git checkout -- src`",
    ],
    "suite_with_patch": results,
    "suite_rc": int(m.group(1)),
    "demos": [{"demo": d, "rc_with_patch": int(a), "rc_without_patch": int(b)} for d, a, b in demos],
  },
}
if len(sys.argv) > 3 and not sys.argv[3].startswith("--"): meta["note"] = sys.argv[3]
json.dump(meta, open(os.path.join(dst, "meta.json"), "w"), indent=1)
print("adopted", dst)
