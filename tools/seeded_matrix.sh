#!/bin/bash
# every seeded change against its own property's check and the checks most likely to notice it too
cd /verif
run() { python3 tools/seeded.py "$1" --checks "$2" > "seeded/$1/last_run.log" 2>&1; echo "$1 detected_by=$(python3 -c "import json;print(','.join(json.load(open('seeded/$1/result.json'))['detected_by']))")"; }
run C01-1 C01,C16,C08,C14,C10
run C02-1 C02,C14,C03
run C03-1 C03,C15
run C04-1 C04,C11,C10
run C05-1 C05,C06,C01
run C06-1 C06,C05,C04
run C07-1 C07,C01
run C08-1 C08,C01
run C09-1 C09,C10
run C10-1 C10,C06,C11
run C11-1 C11,C04
run C12-1 C12,C04
run C13-1 C13,C01
run C14-1 C14,C02,C03
run C15-1 C15,C03
run C16-1 C16,C01
git -C /repo status --porcelain
