#!/usr/bin/env python3
"""A translator from a small functional/imperative fragment of Rust to Lean 4 definitions.

Used by tools/extract_funcs.py to regenerate lean/JubakoModel/Generated/Funcs.lean from /repo/src on
every run.  The fragment: integer / boolean / `Ordering` expressions, `let [mut]`, assignment and
compound assignment, `if / else if / else` (statement and expression), `while`, `for x in <count>`,
`match` on paths, `return`, method calls and paths mapped through per-target tables, struct
literals mapped to tuples.  Everything else raises `Untranslatable` (the caller keeps the pinned
text and reports "not-derived": fail-soft).

Semantics of the output (what is trusted about this file, see DESIGN.md §12.7):
  * integers are Lean `Nat` (or `Int` where the target says so): `+ * / %` are exact, `-` is
    truncated subtraction, `<<`/`>>` are exact shifts; wrap-around is applied only at `as uN` casts;
  * `?`, `.into()`, newtype wrappers (`Offset::from(..)`, `.into_u64()` …), references and derefs are
    erased; `debug_assert!` is dropped;
  * statements are translated in continuation-passing style: what follows an `if` is duplicated into
    its branches, what follows a `while` is placed in the exit branch of a fuelled recursive
    function `<name>_loop<k>` taking the variables in scope; out of fuel = `none`.
"""
import re


class Untranslatable(Exception):
    pass


# ------------------------------------------------------------------ tokens

TOKEN_RX = re.compile(r"""
    (?P<ws>\s+|//[^\n]*|/\*.*?\*/)
  | (?P<str>b?"(?:[^"\\]|\\.)*")
  | (?P<chr>b?'(?:[^'\\]|\\.)')
  | (?P<life>'[A-Za-z_]\w*)
  | (?P<num>0b[01_]+(?:_?[iu](?:8|16|32|64|128|size))?|0x[0-9A-Fa-f_]+(?:_?[iu](?:8|16|32|64|128|size))?|[0-9][0-9_]*(?:\.[0-9]+)?(?:_?(?:[iu](?:8|16|32|64|128|size)|f32|f64))?)
  | (?P<id>[A-Za-z_]\w*)
  | (?P<op><<=|>>=|\.\.=|::|->|=>|==|!=|<=|>=|&&|\|\||<<|>>|\+=|-=|\*=|/=|%=|\|=|&=|\^=|\.\.|[-+*/%&|^!<>=.,;:()\[\]{}?#@])
""", re.X | re.S)


def tokenize(src):
    out = []
    pos = 0
    while pos < len(src):
        m = TOKEN_RX.match(src, pos)
        if not m:
            raise Untranslatable("cannot tokenize at: " + src[pos:pos + 30])
        pos = m.end()
        k = m.lastgroup
        if k == "ws":
            continue
        out.append((k, m.group(k)))
    return out


def function_source(src, fn_name, after_rx=None):
    """(signature text, body text) of `fn <fn_name>` — the first one after a match of `after_rx`."""
    start = 0
    if after_rx:
        m = re.search(after_rx, src)
        if not m:
            raise Untranslatable(f"anchor {after_rx!r} not found")
        start = m.end()
    m = re.compile(r"\bfn\s+%s\b" % re.escape(fn_name)).search(src, start)
    if not m:
        raise Untranslatable(f"fn {fn_name} not found")
    # the body starts at the first `{` which is not inside (), [] or <> of the signature
    i = m.end()
    depth = 0
    while i < len(src):
        c = src[i]
        if c in "([":
            depth += 1
        elif c in ")]":
            depth -= 1
        elif c == "{" and depth == 0:
            break
        elif c == ";" and depth == 0:
            raise Untranslatable(f"fn {fn_name} has no body")
        i += 1
    sig = src[m.start():i]
    d = 0
    for j in range(i, len(src)):
        if src[j] == "{":
            d += 1
        elif src[j] == "}":
            d -= 1
            if d == 0:
                return sig, src[i + 1:j]
    raise Untranslatable("unbalanced braces")


def enum_decl(src, name):
    """variants of `enum <name>`: list of (variant, fields or None, discriminant text or None);
    fields = [(field name or None, type text)]"""
    m = re.search(r"\benum\s+%s\b[^{]*\{" % re.escape(name), src)
    if not m:
        raise Untranslatable(f"enum {name} not found")
    i = m.end()
    depth = 1
    j = i
    while depth:
        c = src[j]
        depth += (c == "{") - (c == "}")
        j += 1
    body = re.sub(r"//[^\n]*|/\*.*?\*/", "", src[i:j - 1], flags=re.S)
    # split on top-level commas
    parts, cur, d = [], "", 0
    for c in body:
        if c in "({<[":
            d += 1
        elif c in ")}>]":
            d -= 1
        if c == "," and d == 0:
            parts.append(cur)
            cur = ""
        else:
            cur += c
    parts.append(cur)
    out = []
    for part in parts:
        part = re.sub(r"#\[[^\]]*\]", "", part).strip()
        if not part:
            continue
        vm = re.match(r"(\w+)\s*(.*)$", part, re.S)
        vname, rest = vm.group(1), vm.group(2).strip()
        if rest.startswith("{"):
            inner = rest[1:rest.rindex("}")]
            fields, cur, d = [], "", 0
            for c in inner + ",":
                if c in "({<[":
                    d += 1
                elif c in ")}>]":
                    d -= 1
                if c == "," and d == 0:
                    if cur.strip():
                        fn, ft = cur.split(":", 1)
                        fields.append((fn.strip().split()[-1], " ".join(ft.split())))
                    cur = ""
                else:
                    cur += c
            out.append((vname, fields, None))
        elif rest.startswith("("):
            inner = rest[1:rest.rindex(")")]
            fields, cur, d = [], "", 0
            for c in inner + ",":
                if c in "({<[":
                    d += 1
                elif c in ")}>]":
                    d -= 1
                if c == "," and d == 0:
                    if cur.strip():
                        fields.append((None, " ".join(cur.split())))
                    cur = ""
                else:
                    cur += c
            out.append((vname, fields, None))
        elif rest.startswith("="):
            out.append((vname, None, rest[1:].strip()))
        else:
            out.append((vname, None, None))
    return out


# ------------------------------------------------------------------ parser (AST = nested tuples)

BINOPS = [  # lowest precedence first
    ("||",), ("&&",), ("==", "!=", "<", ">", "<=", ">="), ("|",), ("^",), ("&",), ("<<", ">>"), ("+", "-"), ("*", "/", "%"),
]
PREC = {op: i for i, ops in enumerate(BINOPS) for op in ops}
ASSIGN_OPS = {"=", "+=", "-=", "*=", "/=", "%=", "|=", "&=", "^=", "<<=", ">>="}


class Parser:
    def __init__(self, toks):
        self.t = toks
        self.i = 0

    def peek(self, k=0):
        return self.t[self.i + k] if self.i + k < len(self.t) else ("eof", "")

    def at(self, v):
        return self.peek()[1] == v and self.peek()[0] in ("op", "id")

    def eat(self, v=None):
        tok = self.peek()
        if v is not None and tok[1] != v:
            raise Untranslatable(f"expected {v!r}, found {tok[1]!r}")
        self.i += 1
        return tok

    # ---- types (skipped, returned as text)
    def type_text(self):
        out = []
        depth = 0
        while True:
            k, v = self.peek()
            if k == "eof":
                break
            if depth == 0 and v in ("=", ";", ",", ")", "{", "}", "=>") :
                break
            if v == ">>" and depth >= 2:
                depth -= 2
            elif v in ("<", "(", "["):
                depth += 1
            elif v in (">", ")", "]"):
                if depth == 0:
                    break
                depth -= 1
            out.append(v)
            self.i += 1
        return " ".join(out)

    def generic_args(self):
        # at `<` (after `::`): skip to the matching `>`
        self.eat("<")
        depth = 1
        out = []
        while depth:
            k, v = self.eat()
            if v == "<":
                depth += 1
            elif v == ">":
                depth -= 1
            elif v == ">>":
                depth -= 2
            if depth > 0:
                out.append(v)
        return " ".join(out)

    # ---- blocks and statements
    def block(self):
        self.eat("{")
        stmts = []
        while not self.at("}"):
            stmts.append(self.stmt())
        self.eat("}")
        return ("block", stmts)

    def stmt(self):
        k, v = self.peek()
        if v == ";":
            self.eat()
            return ("empty",)
        if v == "#":  # attribute
            self.eat("#")
            if self.at("!"):
                self.eat()
            self.eat("[")
            d = 1
            while d:
                _, w = self.eat()
                d += (w == "[") - (w == "]")
            return ("empty",)
        if v == "let":
            self.eat()
            mut = False
            if self.at("mut"):
                self.eat()
                mut = True
            pat = self.pattern()
            ty = None
            if self.at(":"):
                self.eat()
                ty = self.type_text()
            init = None
            if self.at("="):
                self.eat()
                init = self.expr()
            els = None
            if self.at("else"):
                self.eat()
                els = self.block()
            self.eat(";")
            return ("let", pat, init, mut, ty, els)
        if v == "while":
            self.eat()
            c = self.expr(nostruct=True)
            b = self.block()
            return ("while", c, b)
        if v == "for":
            self.eat()
            pat = self.pattern()
            self.eat("in")
            it = self.expr(nostruct=True)
            b = self.block()
            return ("for", pat, it, b)
        if v == "loop":
            raise Untranslatable("`loop` is not in the fragment")
        e = self.expr()
        if self.peek()[1] in ASSIGN_OPS and self.peek()[0] == "op":
            op = self.eat()[1]
            rhs = self.expr()
            if self.at(";"):
                self.eat()
            return ("assign", op, e, rhs)
        if self.at(";"):
            self.eat()
            return ("expr", e, True)
        # block-like expressions may stand as statements without `;`
        if e[0] in ("if", "match", "block", "iflet") and not self.at("}"):
            return ("expr", e, True)
        return ("expr", e, False)   # tail expression

    def pattern(self):
        k, v = self.peek()
        if v == "(":
            self.eat()
            items = []
            while not self.at(")"):
                items.append(self.pattern())
                if self.at(","):
                    self.eat()
            self.eat(")")
            return ("ptuple", items)
        if v == "_":
            self.eat()
            return ("pwild",)
        if v in ("ref", "mut", "&"):
            self.eat()
            return self.pattern()
        if k == "num":
            self.eat()
            return ("plit", v)
        if k == "chr" and v.startswith("b'") and len(v) == 4:
            self.eat()
            return ("plit", str(ord(v[2])))          # a byte literal b'x'
        if k == "id":
            path = [self.eat()[1]]
            while self.at("::"):
                self.eat()
                if self.at("<"):
                    self.generic_args()
                    continue
                path.append(self.eat()[1])
            args = None
            if self.at("{") and path[-1][0].isupper():
                self.eat("{")
                fields = []
                while not self.at("}"):
                    if self.at(".."):
                        self.eat()
                        continue
                    fname = self.eat()[1]
                    sub = ("pvar", fname)
                    if self.at(":"):
                        self.eat()
                        sub = self.pattern()
                    fields.append((fname, sub))
                    if self.at(","):
                        self.eat()
                self.eat("}")
                return ("pstruct", path, fields)
            if self.at("("):
                self.eat()
                args = []
                while not self.at(")"):
                    args.append(self.pattern())
                    if self.at(","):
                        self.eat()
                self.eat(")")
            if len(path) == 1 and args is None and (path[0][0].islower() or path[0][0] == "_"):
                return ("pvar", path[0])
            return ("ppath", path, args)
        raise Untranslatable(f"pattern not understood at {v!r}")

    # ---- expressions
    def expr(self, nostruct=False, minprec=0):
        lhs = self.unary(nostruct)
        while True:
            k, v = self.peek()
            if k == "op" and v in PREC and PREC[v] >= minprec:
                # `<` after an expression is a comparison here (generics only follow `::`)
                self.eat()
                rhs = self.expr(nostruct, PREC[v] + 1)
                lhs = ("bin", v, lhs, rhs)
                continue
            if k == "op" and v in ("..", "..=") and minprec == 0:
                self.eat()
                rhs = None
                if self.peek()[1] not in ("{", ")", "]", ";", ","):
                    rhs = self.expr(nostruct, 1)
                lhs = ("range", v, lhs, rhs)
                continue
            return lhs

    def unary(self, nostruct):
        k, v = self.peek()
        if k == "op" and v in ("!", "-", "*"):
            self.eat()
            return ("un", v, self.unary(nostruct))
        if k == "op" and v in ("&", "&&"):
            self.eat()
            if self.at("mut"):
                self.eat()
            return ("ref", self.unary(nostruct))
        return self.postfix(self.primary(nostruct), nostruct)

    def args(self):
        self.eat("(")
        out = []
        while not self.at(")"):
            out.append(self.expr())
            if self.at(","):
                self.eat()
        self.eat(")")
        return out

    def postfix(self, e, nostruct):
        while True:
            k, v = self.peek()
            if v == "." and k == "op":
                self.eat()
                k2, name = self.eat()
                if k2 == "num":
                    e = ("tfield", e, name)
                    continue
                if name == "await":
                    raise Untranslatable("await")
                if self.at("::"):
                    self.eat()
                    self.generic_args()
                if self.at("("):
                    e = ("mcall", e, name, self.args())
                else:
                    e = ("field", e, name)
                continue
            if v == "(" and k == "op":
                e = ("call", e, self.args())
                continue
            if v == "[" and k == "op":
                self.eat()
                idx = self.expr()
                self.eat("]")
                e = ("index", e, idx)
                continue
            if v == "?" and k == "op":
                self.eat()
                e = ("try", e)
                continue
            if v == "as" and k == "id":
                self.eat()
                # a simple type path (the target of a cast): idents, `::`, one generic argument list
                parts = [self.eat()[1]]
                while self.at("::"):
                    self.eat()
                    parts.append(self.eat()[1])
                e = ("cast", e, "::".join(parts))
                continue
            return e

    def primary(self, nostruct):
        k, v = self.peek()
        if k == "num":
            self.eat()
            return ("num", v)
        if k in ("str", "chr"):
            self.eat()
            return ("str", v)
        if v == "(":
            self.eat()
            if self.at(")"):
                self.eat()
                return ("tuple", [])
            first = self.expr()
            if self.at(","):
                items = [first]
                while self.at(","):
                    self.eat()
                    if self.at(")"):
                        break
                    items.append(self.expr())
                self.eat(")")
                return ("tuple", items)
            self.eat(")")
            return ("paren", first)
        if v == "[":
            self.eat()
            items = []
            rep = None
            while not self.at("]"):
                items.append(self.expr())
                if self.at(";"):
                    self.eat()
                    rep = self.expr()
                if self.at(","):
                    self.eat()
            self.eat("]")
            return ("array", items, rep)
        if v == "{":
            return self.block()
        if v == "if":
            self.eat()
            if self.at("let"):
                self.eat()
                pat = self.pattern()
                self.eat("=")
                scrut = self.expr(nostruct=True)
                th = self.block()
                el = None
                if self.at("else"):
                    self.eat()
                    el = self.primary(False) if self.at("if") else self.block()
                return ("iflet", pat, scrut, th, el)
            c = self.expr(nostruct=True)
            th = self.block()
            el = None
            if self.at("else"):
                self.eat()
                el = self.primary(False) if self.at("if") else self.block()
            return ("if", c, th, el)
        if v == "match":
            self.eat()
            scrut = self.expr(nostruct=True)
            self.eat("{")
            arms = []
            while not self.at("}"):
                pats = [self.pattern()]
                while self.at("|"):
                    self.eat()
                    pats.append(self.pattern())
                guard = None
                if self.at("if"):
                    self.eat()
                    guard = self.expr()
                self.eat("=>")
                body = self.expr()
                if self.peek()[0] == "op" and self.peek()[1] in ASSIGN_OPS:
                    # an arm which is an assignment: `Pat => *self = Self::One(v),`
                    op = self.eat()[1]
                    rhs = self.expr()
                    body = ("block", [("assign", op, body, rhs)])
                if self.at(","):
                    self.eat()
                arms.append((pats, guard, body))
            self.eat("}")
            return ("match", scrut, arms)
        if v == "return":
            self.eat()
            if self.peek()[1] in (";", "}"):
                return ("return", None)
            return ("return", self.expr())
        if k == "op" and v in ("..", "..="):
            self.eat()
            rhs = None
            if self.peek()[1] not in ("{", ")", "]", ";", ","):
                rhs = self.expr(nostruct, 1)
            return ("range", v, None, rhs)
        if v in ("break", "continue"):
            raise Untranslatable(f"`{v}` is not in the fragment")
        if v in ("|", "||", "move"):
            # a closure `|p, q| body` (no type annotations, no captures by move semantics that matter here)
            if v == "move":
                self.eat()
            params = []
            if self.at("||"):
                self.eat()
            else:
                self.eat("|")
                while not self.at("|"):
                    params.append(self.pattern())
                    if self.at(":"):
                        self.eat()
                        self.type_text()
                    if self.at(","):
                        self.eat()
                self.eat("|")
            body = self.expr()
            return ("closure", params, body)
        if k == "id":
            path = [self.eat()[1]]
            gens = {}
            while True:
                if self.at("::"):
                    self.eat()
                    if self.at("<"):
                        gens[len(path) - 1] = self.generic_args().replace(" ", "")
                        continue
                    path.append(self.eat()[1])
                    continue
                break
            self.last_gens = gens
            if self.at("!") and self.peek(1)[1] in ("(", "[", "{"):
                self.eat("!")
                open_ = self.eat()[1]
                close = {"(": ")", "[": "]", "{": "}"}[open_]
                d = 1
                inner = []
                while d:
                    kk, w = self.eat()
                    if kk == "eof":
                        raise Untranslatable("unbalanced macro")
                    d += (w == open_) - (w == close)
                    if d:
                        inner.append((kk, w))
                return ("macro", path[-1], inner)
            if self.at("{") and not nostruct and (path[-1][0].isupper()):
                self.eat("{")
                fields = []
                while not self.at("}"):
                    if self.at(".."):
                        raise Untranslatable("struct update syntax")
                    name = self.eat()[1]
                    if self.at(":"):
                        self.eat()
                        val = self.expr()
                    else:
                        val = ("path", [name])
                    fields.append((name, val))
                    if self.at(","):
                        self.eat()
                self.eat("}")
                return ("struct", path, fields)
            if gens:
                return ("path", path, gens)
            return ("path", path)
        raise Untranslatable(f"expression not understood at {v!r}")


def parse_body(body_text):
    toks = tokenize("{" + body_text + "}")
    p = Parser(toks)
    b = p.block()
    if p.peek()[0] != "eof":
        raise Untranslatable("trailing tokens after the function body")
    return b


# ------------------------------------------------------------------ emitter

LEAN_RESERVED = {"end", "at", "from", "open", "in", "do", "then", "else", "fun", "let", "have", "show", "by", "match", "with",
                 "if", "def", "theorem", "where", "structure", "instance", "class", "namespace", "section", "variable",
                 "local", "private", "protected", "mutual", "deriving", "extends", "macro", "syntax", "notation", "prefix",
                 "infix", "postfix", "universe", "export", "import", "for", "return", "mut", "try", "catch", "finally",
                 "unless", "some", "none", "max", "min", "id"}

WRAP_TYPES_DEFAULT = {"Offset", "Size", "ASize", "EntryIdx", "EntryCount", "ByteSize", "BlobIdx", "ClusterIdx", "ContentIdx",
                      "PackCount", "PackId", "ValueIdx", "ValueCount", "PropertyCount", "PropertyIdx", "VariantIdx",
                      "VariantCount", "ClusterCount", "ContentCount", "BlobCount", "EntryStoreIdx", "ValueStoreIdx",
                      "IndexIdx", "IndexCount", "EntryStoreCount", "ValueStoreCount", "Count", "Idx", "u8", "u16", "u32",
                      "u64", "usize", "i64", "ContentInfo"}
ERASED_METHODS_DEFAULT = {"as_str", "as_slice", "into", "into_u64", "into_u32", "into_u16", "into_u8", "into_usize", "into_base", "clone", "unwrap",
                          "try_into", "to_owned", "borrow", "as_ref", "get", "copied", "expect"}


def int_literal(text):
    t = re.sub(r"_?(?:[iu](?:8|16|32|64|128|size)|f32|f64)$", "", text).replace("_", "")
    if t.lower().startswith("0x"):
        return str(int(t, 16))
    if t.lower().startswith("0b"):
        return str(int(t[2:], 2))
    if "." in t:
        raise Untranslatable("float literal " + text)
    return str(int(t))


class Emitter:
    """cfg keys: params [(lean name, lean type)], ret (lean type), self_fields {rust: lean expr},
    self_methods {rust method: lean expr or template with {0},{1}}, methods {name: template with {recv},{0}..},
    funcs {path text: template}, paths {path text: lean expr}, for_counts {rust iter text -> lean expr},
    struct_as {struct name: [field order]} (emitted as tuples), int (bool: use Int), fuel (lean expr),
    ok_wrap (bool: keep Ok/Some structure: Ok(x) -> x always erased; Some(x) -> some x)"""

    def __init__(self, name, cfg):
        self.name = name
        self.cfg = cfg
        self.aux = []       # auxiliary (loop) definitions, emitted before the main one
        self.nloops = 0
        self.has_loop = False
        self.used_unsupported = []

    # ---- names
    def v(self, n):
        return n + "_" if n in LEAN_RESERVED else n

    # ---- expressions
    def path_text(self, path):
        return "::".join(path)

    def tmpl(self, t, recv=None, args=()):
        out = t
        if recv is not None:
            out = out.replace("{recv}", recv)
        for i, a in enumerate(args):
            out = out.replace("{%d}" % i, a)
        return out

    def is_self(self, e):
        return e[0] == "path" and e[1] == ["self"]

    def ex(self, e):
        """value-position translation"""
        k = e[0]
        cfg = self.cfg
        if k in ("tfield", "field", "index", "bin") and self.rust_text(e) in cfg.get("exprs", {}):
            return cfg["exprs"][self.rust_text(e)]
        if k == "raw":
            return e[1]
        if k == "num":
            return int_literal(e[1])
        if k == "paren":
            return "(" + self.ex(e[1]) + ")"
        if k == "path":
            pt = self.path_text(e[1])
            if pt in cfg.get("paths", {}):
                return cfg["paths"][pt]
            if pt in ("true", "false"):
                return pt
            if pt == "Ordering::Less" or pt.endswith("Ordering::Less"):
                return "Ordering.lt"
            if pt.endswith("Ordering::Greater"):
                return "Ordering.gt"
            if pt.endswith("Ordering::Equal"):
                return "Ordering.eq"
            if pt == "None":
                return "none"
            if len(e[1]) == 1:
                return self.v(e[1][0])
            raise Untranslatable("path not mapped: " + pt)
        if k == "field":
            if self.is_self(e[1]):
                if e[2] in cfg.get("self_fields", {}):
                    return cfg["self_fields"][e[2]]
                raise Untranslatable("self field not mapped: " + e[2])
            key = "." + e[2]
            if key in cfg.get("methods", {}):
                return self.tmpl(cfg["methods"][key], self.ex(e[1]))
            raise Untranslatable("field access not mapped: ." + e[2])
        if k == "tfield":
            return f"({self.ex(e[1])}).{int(e[2]) + 1}"
        if k == "mcall":
            recv, name, args = e[1], e[2], e[3]
            # whole-expression overrides keyed by a normalised text
            txt = self.rust_text(e)
            arm = cfg.get("arm_exprs", {}).get(getattr(self, "arm_ctx", None), {})
            if txt in arm:
                return arm[txt]
            if txt in cfg.get("exprs", {}):
                return cfg["exprs"][txt]
            if self.is_self(recv):
                sm = cfg.get("self_methods", {})
                if name in sm:
                    return self.tmpl(sm[name], None, [self.ex(a) for a in args])
                raise Untranslatable("self method not mapped: " + name)
            if name in cfg.get("methods", {}):
                return self.tmpl(cfg["methods"][name], self.ex(recv), [self.ex(a) for a in args])
            if name in ERASED_METHODS_DEFAULT and len(args) <= (1 if name == "expect" else 0):
                return self.ex(recv)
            if name in ("iter", "into_iter") and not args:
                return self.ex(recv)
            if name == "find" and len(args) == 1 and args[0][0] == "closure":
                return f"(List.find? {self.ex(args[0])} {self.atom(recv)})"
            if name == "is_some" and not args:
                return f"({self.atom(recv)}).isSome"
            if name == "is_none" and not args:
                return f"({self.atom(recv)}).isNone"
            if name == "is_eq" and not args:
                return f"decide ({self.ex(recv)} = Ordering.eq)"
            if name in ("max", "min") and len(args) == 1:
                return f"({name} {self.atom(recv)} {self.atom(args[0])})"
            if name == "is_zero" and not args:
                return f"decide ({self.ex(recv)} = 0)"
            raise Untranslatable("method not mapped: ." + name)
        if k == "call":
            f, args = e[1], e[2]
            txt = self.rust_text(e)
            if txt in cfg.get("exprs", {}):
                return cfg["exprs"][txt]
            if f[0] == "path":
                pt = self.path_text(f[1])
                if pt in cfg.get("call_raw", {}):
                    return cfg["call_raw"][pt]
                if pt in cfg.get("funcs", {}):
                    return self.tmpl(cfg["funcs"][pt], None, [self.ex(a) for a in args])
                if pt in ("Ok", "Box::new", "Arc::new"):
                    return self.ex(args[0])
                if pt == "Some":
                    return f"some {self.atom(args[0])}"
                if pt in ("cmp::max", "std::cmp::max", "max"):
                    return f"(max {self.atom(args[0])} {self.atom(args[1])})"
                if pt in ("cmp::min", "std::cmp::min", "min"):
                    return f"(min {self.atom(args[0])} {self.atom(args[1])})"
                wrap = cfg.get("wrap_types", WRAP_TYPES_DEFAULT)
                if len(f[1]) == 2 and f[1][0] in wrap and f[1][1] in ("from", "new") and len(args) == 1:
                    return self.ex(args[0])
                if len(f[1]) == 1 and f[1][0] in wrap and len(args) == 1:
                    return self.ex(args[0])
                raise Untranslatable("function not mapped: " + pt)
            raise Untranslatable("call of a computed function")
        if k == "try" or k == "ref":
            return self.ex(e[1])
        if k == "cast":
            ty = e[2].strip()
            inner = self.ex(e[1])
            m = re.fullmatch(r"u(8|16|32)", ty)
            if m:
                return f"({inner} % {2 ** int(m.group(1))})"
            if ty in ("u64", "usize", "u128", "i64", "i128", "isize"):
                return inner
            raise Untranslatable("cast to " + ty)
        if k == "un":
            if e[1] == "*":
                return self.ex(e[2])
            if e[1] == "!":
                if cfg.get("int"):
                    return f"(-{self.atom(e[2])} - 1)"
                return f"decide (¬ {self.cond(e[2])})"
            if e[1] == "-":
                return f"(-{self.atom(e[2])})"
        if k == "bin":
            op, a, b = e[1], e[2], e[3]
            if op in ("==", "!=", "<", ">", "<=", ">=", "&&", "||"):
                return f"decide ({self.cond(e)})"
            lop = {"+": "+", "-": "-", "*": "*", "/": "/", "%": "%", "<<": "<<<", ">>": ">>>", "&": "&&&", "|": "|||", "^": "^^^"}[op]
            return f"({self.ex(a)} {lop} {self.ex(b)})"
        if k == "if":
            if e[3] is None:
                raise Untranslatable("`if` expression without else in value position")
            return f"(if {self.cond(e[1])} then {self.block_value(e[2])} else {self.block_value(e[3])})"
        if k == "block":
            return self.block_value(e)
        if k == "match":
            return "(" + self.match_value(e, lambda body: self.block_value(body)) + ")"
        if k == "tuple":
            return "(" + ", ".join(self.ex(x) for x in e[1]) + ")"
        if k == "struct" and self.path_text(e[1]) in cfg.get("struct_ctors", {}):
            ctor, order = cfg["struct_ctors"][self.path_text(e[1])]
            d = dict(e[2])
            return "(" + ctor + "".join(" " + self.atom(d[f]) for f in order) + ")"
        if k == "struct":
            sname = e[1][-1]
            order = cfg.get("struct_as", {}).get(sname)
            if order is None:
                raise Untranslatable("struct literal not mapped: " + sname)
            d = dict(e[2])
            return "(" + ", ".join(self.ex(d[f]) for f in order) + ")"
        if k == "closure":
            ps = " ".join(self.pat(p) for p in e[1]) or "_"
            return f"(fun {ps} => {self.ex(e[2])})"
        if k == "macro":
            if e[1] == "vec" and cfg.get("vec_macro"):
                # vec![x; n]  ↦  List.replicate n x
                parts, cur, d = [], [], 0
                for tk in e[2]:
                    if tk[1] in ("(", "[", "{"):
                        d += 1
                    elif tk[1] in (")", "]", "}"):
                        d -= 1
                    if tk[1] == ";" and d == 0:
                        parts.append(cur)
                        cur = []
                    else:
                        cur.append(tk)
                parts.append(cur)
                if len(parts) == 2:
                    sub = []
                    for part in parts:
                        q = Parser(part + [("eof", "")])
                        x = q.expr()
                        if q.peek()[0] != "eof":
                            raise Untranslatable("vec! argument")
                        sub.append(self.ex(x))
                    return f"(List.replicate ({sub[1]}) ({sub[0]} : {cfg['vec_macro']}))"
            raise Untranslatable("macro in value position: " + e[1])
        raise Untranslatable("expression kind " + k)

    def atom(self, e):
        s = self.ex(e)
        if re.fullmatch(r"[\w.]+", s) or (s.startswith("(") and s.endswith(")")):
            return s
        return "(" + s + ")"

    def cond(self, e):
        """Prop-position translation"""
        k = e[0]
        if k == "paren":
            return "(" + self.cond(e[1]) + ")"
        if k == "bin" and e[1] in ("&&", "||"):
            return f"({self.cond(e[2])} {'∧' if e[1] == '&&' else '∨'} {self.cond(e[3])})"
        if k == "bin" and e[1] in ("==", "!=", "<", ">", "<=", ">="):
            lop = {"==": "=", "!=": "≠", "<": "<", ">": ">", "<=": "≤", ">=": "≥"}[e[1]]
            return f"{self.ex(e[2])} {lop} {self.ex(e[3])}"
        if k == "un" and e[1] == "!" and not self.cfg.get("int"):
            return f"¬ ({self.cond(e[2])})"
        if k == "mcall" and e[2] == "is_eq" and not e[3]:
            return f"{self.ex(e[1])} = Ordering.eq"
        s = self.ex(e)
        m = re.fullmatch(r"decide \((.*)\)", s)
        if m:
            return m.group(1)
        return f"{s} = true"

    def block_value(self, b):
        """a block (or expression) in value position: lets then a tail expression"""
        if b[0] != "block":
            return self.ex(b)
        return self.stmts(b[1], None)

    def pat(self, p):
        if p[0] == "pwild":
            return "_"
        if p[0] == "pvar":
            return self.v(p[1])
        if p[0] == "plit":
            return int_literal(p[1])
        if p[0] == "ptuple":
            return "(" + ", ".join(self.pat(x) for x in p[1]) + ")"
        if p[0] == "pstruct":
            pt = self.path_text(p[1])
            sp = self.cfg.get("struct_patterns", {})
            if pt not in sp:
                raise Untranslatable("struct pattern not mapped: " + pt)
            ctor, order = sp[pt]
            d = dict(p[2])
            if self.cfg.get("mutself"):
                # every field is bound (under its own name when the source ignores it): the arm rebuilds `self`
                return "(" + ctor + "".join(" " + (self.pat(d[f]) if f in d and d[f][0] != "pwild" else self.v(f)) for f in order) + ")"
            return "(" + ctor + "".join(" " + (self.pat(d[f]) if f in d else "_") for f in order) + ")"
        if p[0] == "ppath":
            pt = self.path_text(p[1])
            pm = self.cfg.get("patterns", {})
            if pt in pm:
                base = pm[pt]
            elif pt == "Some":
                base = "some"
            elif pt == "None":
                base = "none"
            elif pt.endswith("Ordering::Less"):
                base = ".lt"
            elif pt.endswith("Ordering::Greater"):
                base = ".gt"
            elif pt.endswith("Ordering::Equal"):
                base = ".eq"
            else:
                raise Untranslatable("pattern not mapped: " + pt)
            if p[2] and pt not in self.cfg.get("patterns_noargs", []):
                return "(" + base + " " + " ".join(self.pat(x) for x in p[2]) + ")"
            return base
        raise Untranslatable("pattern kind")

    def match_value(self, e, body_fn):
        arms = []
        for pats, guard, body in e[2]:
            if guard is not None:
                raise Untranslatable("match guard")
            arms.append("| " + " | ".join(self.pat(p) for p in pats) + " => " + body_fn(body))
        return f"match {self.ex(e[1])} with " + " ".join(arms)

    # ---- statements, continuation-passing: `k` is a function () -> lean text for what follows
    def ret(self, text):
        return f"some ({text})" if self.has_loop else text

    def stmts(self, sts, k, scope=None, kv=None):
        """translate a statement list followed by continuation k (None = the list's value is the result);
        kv (value continuation), when given, receives the text of the list's tail value instead"""
        scope = list(scope or [])
        if not sts:
            if kv is not None:
                return kv("()", scope)
            if k is None:
                return self.ret(self.cfg.get("result", "()"))
            return k(scope)
        s, rest = sts[0], sts[1:]
        cont = lambda sc: self.stmts(rest, k, sc, kv)   # noqa: E731
        kind = s[0]
        if kind == "empty":
            return cont(scope)
        w = self.write_stmt(s) if kind in ("expr", "assign", "let") else None
        if w is not None:
            after = cont(scope)
            if kind == "expr" and not s[2] and not rest and k is None and kv is None:
                after = self.ret("out")
            if w[0] == "one":
                return f"let out := out ++ [({w[1]}, {w[2]})]\n{after}"
            return f"let out := out ++ {w[1]}\n{after}"
        if kind == "for" and self.cfg.get("writes"):
            key = self.rust_text(s[2])
            body_sts = [x for x in s[3][1] if x[0] != "empty"]
            if key in self.cfg.get("iters", {}) and len(body_sts) == 1 and s[1][0] == "pvar":
                bw = self.write_stmt(body_sts[0])
                if bw is not None and bw[0] == "one":
                    var = self.v(s[1][1])
                    return (f"let out := out ++ ({self.cfg['iters'][key]}).map (fun {var} => ({bw[1]}, {bw[2]}))\n"
                            f"{cont(scope)}")
                if bw is not None and bw[0] == "list":
                    var = self.v(s[1][1])
                    return (f"let out := out ++ ({self.cfg['iters'][key]}).flatMap (fun {var} => {bw[1]})\n"
                            f"{cont(scope)}")
        if kind == "for" and self.cfg.get("writes") and self.rust_text(s[2]) in self.cfg.get("iters", {}) and s[1][0] == "pvar":
            # a loop over a slice whose body writes and updates local variables: a left fold over the
            # list, carrying `out` and the variables the body assigns
            var = self.v(s[1][1])
            assigned = []
            for st in s[3][1]:
                if st[0] == "assign" and st[2][0] == "path" and len(st[2][1]) == 1 and st[2][1][0] != "written":
                    n = self.v(st[2][1][0])
                    if n not in assigned:
                        assigned.append(n)
            muts = ["out"] + assigned
            tup = "(" + ", ".join(muts) + ")"
            body_text = self.stmts(s[3][1], lambda sc: tup, scope + [s[1][1]])
            lst = self.cfg["iters"][self.rust_text(s[2])]
            return (f"let {tup} := ({lst}).foldl (fun {tup} {var} =>\n{indent(body_text, 4)}) {tup}\n"
                    f"{cont(scope)}")
        if kind == "let" and self.cfg.get("writes") and s[1] == ("pvar", "written"):
            if s[2] is not None and s[2][0] in ("match", "if", "iflet", "block"):
                # `let mut written = match … { … }`: the arms write; their value is not needed
                return self.stmts([("expr", s[2], True)] + rest, k, scope, kv)
            return cont(scope)
        if kind == "let":
            _, pat, init, mut, ty, els = s
            if els is not None:
                raise Untranslatable("let-else")
            if init is None:
                raise Untranslatable("let without initialiser")
            names = self.pat_names(pat)
            if init[0] in ("if", "match", "iflet", "block") and self.diverges(init):
                raise Untranslatable("diverging initialiser")
            if init[0] in ("if", "match", "iflet", "block") and self.needs_cps(init):
                ptxt = self.pat(pat)
                return self.stmts([("expr", init, False)], None, scope,
                                  kv=lambda v, sc: f"let {ptxt} := {v}\n{cont(sc + names)}")
            val = self.ex(init)
            return f"let {self.pat(pat)} := {val}\n{cont(scope + names)}"
        if kind == "assign":
            _, op, lhs, rhs = s
            if lhs[0] == "un" and lhs[1] == "*":
                lhs = lhs[2]
            if lhs[0] == "field" and self.is_self(lhs[1]) and lhs[2] in self.cfg.get("self_fields", {}):
                target = self.cfg["self_fields"][lhs[2]]
            elif lhs[0] == "path" and lhs[1] == ["self"] and self.cfg.get("mutself"):
                target = self.cfg["mutself"]["var"]
            elif lhs[0] == "path" and len(lhs[1]) == 1:
                target = self.v(lhs[1][0])
            else:
                raise Untranslatable("assignment target " + self.rust_text(lhs))
            if op == "=":
                val = self.ex(rhs)
            else:
                val = self.ex(("bin", op[:-1], lhs, rhs))
            return f"let {target} := {val}\n{cont(scope)}"
        if kind == "expr":
            _, e, semi = s
            if any(self.rust_text(e).startswith(pre) for pre in self.cfg.get("ignore_stmts", [])):
                # a statement the table declares irrelevant to the value (I/O on the content being added)
                return cont(scope)
            if e[0] == "block" and semi is not None and (rest or k is not None or kv is not None) and self.cfg.get("ignore_stmts") \
                    and all(st[0] == "expr" and any(self.rust_text(st[1]).startswith(pre) for pre in self.cfg["ignore_stmts"]) for st in e[1] if st[0] != "empty"):
                return cont(scope)
            if self.rust_text(e) in self.cfg.get("push_stmts", {}):
                # `vec.push(x)` on a list the table names: append
                var, val = self.cfg["push_stmts"][self.rust_text(e)]
                return f"let {var} := {var} ++ [{val}]\n{cont(scope)}"
            if e[0] == "macro":
                if e[1] in ("debug_assert", "debug_assert_eq", "debug_assert_ne", "trace", "debug", "println") or e[1] in self.cfg.get("ignore_macros", []):
                    return cont(scope)
                if e[1] in ("panic", "unreachable", "todo", "unimplemented") and self.cfg.get("partial"):
                    return "none"
                if e[1] in ("assert", "assert_eq", "assert_ne") and self.cfg.get("partial") and self.cfg.get("assert_panics"):
                    # a failing assertion is a panic: the partial function answers `none`
                    args, cur, d = [], [], 0
                    for tk in e[2]:
                        if tk[1] in ("(", "[", "{"):
                            d += 1
                        elif tk[1] in (")", "]", "}"):
                            d -= 1
                        if tk[1] == "," and d == 0:
                            args.append(cur)
                            cur = []
                        else:
                            cur.append(tk)
                    if cur:
                        args.append(cur)
                    need = 1 if e[1] == "assert" else 2
                    if len(args) < need:
                        raise Untranslatable("assertion arguments")
                    xs = []
                    for part in args[:need]:
                        q = Parser(part + [("eof", "")])
                        x = q.expr()
                        if q.peek()[0] != "eof":
                            raise Untranslatable("assertion argument")
                        xs.append(x)
                    if e[1] == "assert":
                        c = self.cond(xs[0])
                    else:
                        c = self.cond(("bin", "==" if e[1] == "assert_eq" else "!=", xs[0], xs[1]))
                    return f"if {c} then\n{indent(cont(scope))}\nelse\n  none"
                raise Untranslatable("macro " + e[1])
            if e[0] == "return":
                if (self.cfg.get("partial") and e[1] is not None and e[1][0] == "call" and e[1][1][0] == "path"
                        and e[1][1][1] == ["Err"]):
                    return "none"       # an error return of a partial function
                return self.ret(self.ex(e[1])) if e[1] is not None else self.ret("()")
            tail_kv = kv if (kv is not None and not rest and not semi) else None
            if e[0] == "if":
                sub_k = (lambda sc: cont(sc)) if (rest or k or semi) else None
                if tail_kv:
                    sub_k = None
                th = self.stmts(e[2][1], sub_k, scope, tail_kv)
                if e[3] is None:
                    el = cont(scope)
                elif e[3][0] == "block":
                    el = self.stmts(e[3][1], sub_k, scope, tail_kv)
                else:  # else if
                    el = self.stmts([("expr", e[3], semi)], sub_k, scope, tail_kv)
                return f"if {self.cond(e[1])} then\n{indent(th)}\nelse\n{indent(el)}"
            if e[0] == "iflet":
                th = self.stmts(e[3][1], (lambda sc: cont(sc)) if (rest or k or semi) else None, scope + self.pat_names(e[1]))
                if e[4] is None:
                    el = cont(scope)
                else:
                    el = self.stmts(e[4][1] if e[4][0] == "block" else [("expr", e[4], semi)], (lambda sc: cont(sc)) if (rest or k or semi) else None, scope)
                return f"match {self.ex(e[2])} with\n| {self.pat(e[1])} =>\n{indent(th)}\n| _ =>\n{indent(el)}"
            if e[0] == "match" and (rest or k or semi or self.has_loop or self.diverges(e) or self.cfg.get("writes") or self.cfg.get("mutself") or self.cfg.get("block_match")):
                lines = [f"match {self.ex(e[1])} with"]
                for pats, guard, body in e[2]:
                    if guard is not None:
                        raise Untranslatable("match guard")
                    b = body[1] if body[0] == "block" else [("expr", body, False)]
                    names = [n for p_ in pats for n in self.pat_names(p_)]
                    ms = self.cfg.get("mutself")
                    if ms and len(pats) == 1 and pats[0][0] == "ppath" and self.path_text(pats[0][1]) in ms.get("arm_results", {}) \
                            and "*self =" not in self.rust_stmts_text(b):
                        tmpl = ms["arm_results"][self.path_text(pats[0][1])]
                        b = list(b) + [("rawlet", ms["var"], self.tmpl(tmpl, None, [self.v(n) for n in names]))]
                    if ms and len(pats) == 1 and pats[0][0] == "pstruct" and self.path_text(pats[0][1]) in self.cfg.get("struct_patterns", {}) \
                            and "*self =" not in self.rust_stmts_text(b):
                        ctor, order = self.cfg["struct_patterns"][self.path_text(pats[0][1])]
                        d = dict(pats[0][2])
                        vars_ = [(self.pat(d[f]) if f in d and d[f][0] == "pvar" else self.v(f)) for f in order]
                        b = list(b) + [("rawlet", ms["var"], "(" + ctor + "".join(" " + x for x in vars_) + ")")]
                    saved_arm = getattr(self, "arm_ctx", None)
                    if pats[0][0] in ("ppath", "pstruct"):
                        self.arm_ctx = self.path_text(pats[0][1])
                    text = self.stmts(b, (lambda sc: cont(sc)) if (rest or k or semi) else None, scope + names, tail_kv)
                    self.arm_ctx = saved_arm
                    lines.append("| " + " | ".join(self.pat(p_) for p_ in pats) + " =>\n" + indent(text))
                return "\n".join(lines)
            if e[0] == "block":
                if tail_kv:
                    return self.stmts(e[1], None, scope, tail_kv)
                return self.stmts(e[1] + rest, k, scope, kv)
            if not semi and not rest and self.cfg.get("writes") and e == ("path", ["written"]) and (k is not None):
                return cont(scope)
            if not semi and not rest:
                # tail expression of the list
                if kv is not None:
                    return kv(self.ex(e), scope)
                if k is None:
                    return self.ret(self.ex(e))
                # value discarded? (a tail expression inside a loop body / branch followed by more code)
                return cont(scope)
            if e[0] == "mcall" and e[1][0] == "path" and len(e[1][1]) == 1 and (e[1][1][0], e[2]) in self.cfg.get("mut_methods", {}):
                var = self.v(e[1][1][0])
                f = self.cfg["mut_methods"][(e[1][1][0], e[2])]
                args = " ".join(self.atom(a) for a in e[3])
                return f"let {var} := {f} {var} {args}\n{cont(scope)}"
            if e[0] in ("mcall", "call") and self.rust_text(e) in self.cfg.get("effects", {}):
                eff = self.cfg["effects"][self.rust_text(e)]
                return f"{eff}\n{cont(scope)}"
            raise Untranslatable("expression statement with effects: " + self.rust_text(e))
        if kind == "while":
            _, c, body = s
            return self.loop(c, body[1], rest, k, scope)
        if kind == "for":
            _, pat, it, body = s
            key = self.rust_text(it)
            fc = self.cfg.get("for_counts", {})
            fl = self.cfg.get("for_lists", {})
            if key in fl and pat[0] == "pvar":
                # iterate a list by index: `for x in &list` = idx from 0 while idx < list.length, x := list[idx]
                lst, dflt = fl[key]
                var = self.v(pat[1])
                idxv = var + "_idx"
                cond = ("rawcond", f"{idxv} < ({lst}).length")
                bind = ("rawlet", var, f"({lst}).getD {idxv} {dflt}")
                inc = ("rawlet", idxv, f"{idxv} + 1")
                pre = f"let {idxv} := 0\n"
                return pre + self.loop(cond, [bind] + body[1] + [inc], rest, k, scope + [idxv])
            if key not in fc:
                raise Untranslatable("for-iterator not mapped: " + key)
            if pat[0] != "pvar":
                raise Untranslatable("for pattern")
            var = self.v(pat[1])
            lo, hi = fc[key]
            # idx := lo; while idx < hi { body; idx += 1 }
            cond = ("rawcond", f"{var} < {hi}")
            inc = ("rawlet", var, f"{var} + 1")
            pre = f"let {var} := {lo}\n"
            return pre + self.loop(cond, body[1] + [inc], rest, k, scope + [pat[1]])
        if kind == "rawlet":
            return f"let {s[1]} := {s[2]}\n{cont(scope)}"
        raise Untranslatable("statement kind " + kind)

    def write_of(self, e):
        """("one", value, width) / ("list", text) if `e` is a write to the serializer, else None"""
        if not self.cfg.get("writes"):
            return None
        if e[0] == "try":
            e = e[1]
        ser = self.cfg.get("ser", "ser")
        if e[0] == "mcall" and e[1][0] == "path" and e[1][1] == [ser]:
            m = re.fullmatch(r"write_u(8|16|32|64)", e[2])
            if m and len(e[3]) == 1:
                return ("one", self.ex(e[3][0]), str(int(m.group(1)) // 8))
            if e[2] == "write_usized" and len(e[3]) == 2:
                return ("one", self.ex(e[3][0]), self.ex(e[3][1]))
            if e[2] == "write_data" and len(e[3]) == 1 and self.cfg.get("write_data"):
                arg = e[3][0]
                while arg[0] == "un" and arg[1] in ("&", "&mut", "*"):
                    arg = arg[2]
                return ("list", f"(({self.ex(arg)}).map (fun (b : UInt8) => (b.toNat, 1)))")
            if e[2] == "write_isized" and len(e[3]) == 2:
                return ("one", f"(Int.toNat ({self.ex(e[3][0])} % 18446744073709551616))", self.ex(e[3][1]))
        if e[0] == "call" and e[1][0] == "path" and e[1][1] == ["PString", "serialize_string"] and len(e[2]) == 2:
            b = self.ex(e[2][0])
            return ("list", f"[(({b}).length, 1), (leNat ({b}), ({b}).length)]")
        if e[0] == "mcall" and e[2] == "serialize" and len(e[3]) == 1 and e[3][0][0] == "path" and e[3][0][1] == [ser]:
            key = self.rust_text(e[1])
            # a field of `self` whose type is known from the struct definition in the source
            fm = re.fullmatch(r"self\.(\w+)(?:\.get\(\))?", key)
            if fm and key not in self.cfg.get("serializes", {}) and fm.group(1) in self.cfg.get("struct_fields", {}):
                ty = re.findall(r"\w+", self.cfg["struct_fields"][fm.group(1)])[-1]
                width = self.cfg.get("type_widths", {}).get(ty)
                if width is None:
                    raise Untranslatable("width of type not known from the source: " + ty)
                val = self.cfg.get("self_fields", {}).get(fm.group(1))
                if val is None:
                    raise Untranslatable("self field not mapped: " + fm.group(1))
                return ("one", val, str(width))
            if key in self.cfg.get("serializes", {}):
                v = self.cfg["serializes"][key]
                if isinstance(v, tuple):
                    width = self.cfg.get("type_widths", {}).get(v[1])
                    if width is None:
                        raise Untranslatable("width of type not known from the source: " + v[1])
                    return ("one", v[0], str(width))
                return ("list", v)
            raise Untranslatable("serialize of an unmapped value: " + key)
        return None

    def write_stmt(self, s):
        """the write performed by statement `s` (expression statement or `written += …`), or None"""
        if s[0] == "expr" and (s[2] or self.cfg.get("writes")) and s[1][0] in ("try", "mcall", "call"):
            return self.write_of(s[1])
        if s[0] == "let" and s[1] == ("pvar", "written") and s[2] is not None and s[2][0] in ("try", "mcall", "call") and self.cfg.get("writes"):
            return self.write_of(s[2])
        if s[0] == "assign" and s[1] == "+=" and s[2][0] == "path" and s[2][1] == ["written"]:
            return self.write_of(s[3])
        return None

    # ---- outcome mode (cfg["outcome"]): the function returns `Outcome …`; reads of a sequential parser,
    # `?`, `unwrap()` and failing assertions are effects, translated in evaluation order into a chain of
    # `Outcome.bind`s (continuation-passing at expression level: what follows an `if` / `match` whose branches
    # have effects is duplicated into the branches).  The parser state is the byte list `bs`, rebound by
    # every read.
    def effect_of(self, e):
        """(template, argument expressions, stateful) if `e` is an effect of the table, else None"""
        cfg = self.cfg
        if e[0] == "try":
            e1 = e[1]
            if self.rust_text(e1) in cfg.get("try_exprs", {}):
                return (cfg["try_exprs"][self.rust_text(e1)], [], False)
            inner = self.effect_of(e[1])
            if inner is not None:
                return inner
            if e1[0] == "call" and e1[1][0] == "path" and self.path_text(e1[1][1]) in cfg.get("try_calls", {}):
                return (cfg["try_calls"][self.path_text(e1[1][1])], [a for a in e1[2] if not self.is_parser(a)], False)
            return None
        if e[0] == "call" and e[1][0] == "path" and self.path_text(e[1][1]) in cfg.get("result_calls", {}):
            # a call whose value is a `Result` in tail position: `f(x)` there is `Ok(f(x)?)`
            return (cfg["result_calls"][self.path_text(e[1][1])], list(e[2]), False)
        if e[0] in ("mcall", "call") and cfg.get("effect_prefixes"):
            txt = self.rust_text(e)
            for pre, tmpl in cfg["effect_prefixes"].items():
                if txt.startswith(pre):
                    return (tmpl, [], False)
        if e[0] == "mcall" and self.is_parser(e[1]) and e[2] in cfg.get("reads", {}):
            return (cfg["reads"][e[2]], list(e[3]), True)
        if e[0] == "mcall" and self.is_parser(e[1]) and e[2] in cfg.get("reads_at", {}):
            # a read at a given offset of a random-access parser: no parser state
            return (cfg["reads_at"][e[2]], list(e[3]), False)
        if e[0] == "mcall" and e[1][0] == "path" and len(e[1][1]) == 1 and (e[1][1][0], e[2]) in cfg.get("try_methods", {}):
            return (cfg["try_methods"][(e[1][1][0], e[2])], list(e[3]), False)
        if e[0] == "mcall" and e[2] in ("unwrap", "expect") and e[1][0] == "mcall" and e[1][1][0] == "path" \
                and len(e[1][1][1]) == 1 and e[1][1][1][0] in cfg.get("slice_parsers", {}) and e[1][2] in ("read_usized", "read_isized"):
            # `SliceParser::new(data, _).read_usized(n).unwrap()`: reading `n` bytes of `data`, a panic when too short
            data = cfg["slice_parsers"][e[1][1][1][0]]
            fn = "takeLE" if e[1][2] == "read_usized" else "takeLEs"
            return (f"(unwrapped (({fn} {data} " + "{0}).bind fun x => .ok x.1))", list(e[1][3]), False)
        if e[0] == "call" and e[1][0] == "path" and self.path_text_g(e[1]) in cfg.get("read_calls", {}):
            return (cfg["read_calls"][self.path_text_g(e[1])], [a for a in e[2] if not self.is_parser(a)], True)
        if e[0] == "call" and e[1][0] == "path" and self.path_text(e[1][1]) in cfg.get("read_calls", {}):
            return (cfg["read_calls"][self.path_text(e[1][1])], [a for a in e[2] if not self.is_parser(a)], True)
        if e[0] == "mcall" and e[2] == "unwrap" and not e[3]:
            r = e[1]
            if r[0] == "call" and r[1][0] == "path" and self.path_text(r[1][1]) in cfg.get("try_calls", {}):
                return ("(unwrapped (" + cfg["try_calls"][self.path_text(r[1][1])] + "))", list(r[2]), False)
            if cfg.get("unwrap_options") and not self.has_effect(r):
                return ("(unwrapOpt {0})", [r], False)
        return None

    def path_text_g(self, f):
        """path text with the turbofish arguments kept: `Count::<u8>::parse` ↦ `Count<u8>::parse`"""
        gens = f[2] if len(f) > 2 else {}
        return "::".join(seg + (f"<{gens[i]}>" if i in gens else "") for i, seg in enumerate(f[1]))

    def is_parser(self, e):
        while e[0] in ("ref", "paren"):
            e = e[1]
        return e[0] == "path" and e[1] == [self.cfg.get("parser", "parser")]

    def has_effect(self, e):
        if not isinstance(e, tuple):
            if isinstance(e, list):
                return any(self.has_effect(x) for x in e)
            return False
        if e and e[0] in ("try", "mcall", "call") and self.effect_of(e) is not None:
            return True
        if e and e[0] == "macro":
            return e[1] in ("panic", "unreachable", "todo", "unimplemented", "assert", "assert_eq", "assert_ne")
        if e and e[0] == "return":
            return True
        if e and e[0] == "call" and e[1][0] == "path" and e[1][1] == ["Err"]:
            return True
        if e and e[0] == "bin" and e[1] == "-" and self.cfg.get("checked_sub"):
            return True
        return any(self.has_effect(x) for x in e[1:] if isinstance(x, (tuple, list)))

    def mutates(self, e):
        """does this expression contain assignments or pushes / insertions into local collections"""
        if isinstance(e, list):
            return any(self.mutates(x) for x in e)
        if not isinstance(e, tuple) or not e:
            return False
        if e[0] == "assign":
            return True
        if e[0] == "mcall" and e[2] in ("push", "insert") and e[1][0] == "path" and len(e[1][1]) == 1:
            return True
        return any(self.mutates(x) for x in e[1:] if isinstance(x, (tuple, list)))

    def fresh(self):
        self.nfresh = getattr(self, "nfresh", 0) + 1
        return f"r{self.nfresh}"

    def o_seq(self, exprs, k):
        """evaluate expressions left to right, then continue with the list of their value nodes"""
        if not exprs:
            return k([])
        head, rest = exprs[0], exprs[1:]
        return self.o_ex(head, lambda v: self.o_seq(rest, lambda vs: k([("raw", v)] + vs)))

    def o_ex(self, e, k):
        if e[0] == "call" and e[1][0] == "path" and e[1][1] == ["Err"]:
            return "(.err .format)"
        if not self.has_effect(e) and not (e[0] in ("if", "match", "block") and self.mutates(e)):
            return k(self.ex(e))
        kind = e[0]
        if kind in ("paren", "ref"):
            return self.o_ex(e[1], lambda v: k(v))
        eff = self.effect_of(e) if kind in ("try", "mcall", "call") else None
        if eff is not None:
            tmpl, args, stateful = eff

            def emit(vs):
                r = self.fresh()
                call = self.tmpl(tmpl, None, [self.atom(a) for a in vs])
                pat = f"({r}, bs)" if stateful else r
                return f"(({call}).bind fun {pat} =>\n{k(r)})"
            return self.o_seq(args, emit)
        if kind == "try":
            return self.o_ex(e[1], k)
        if kind == "macro":
            if e[1] in ("panic", "unreachable", "todo", "unimplemented"):
                return '(.panic "")'
            raise Untranslatable("macro in an effectful expression: " + e[1])
        if kind == "return":
            return self.o_return(e)
        if kind == "tuple":
            return self.o_seq(e[1], lambda vs: k(self.ex(("tuple", vs))))
        if kind == "struct":
            names = [f for f, _ in e[2]]
            return self.o_seq([x for _, x in e[2]], lambda vs: k(self.ex(("struct", e[1], list(zip(names, vs))))))
        if kind == "bin" and e[1] == "-" and self.cfg.get("checked_sub"):
            # unsigned subtraction as the debug build performs it: an underflow is a panic
            def sub(vs):
                r = self.fresh()
                a, b = self.atom(vs[0]), self.atom(vs[1])
                return f"(((if {b} ≤ {a} then Outcome.ok ({a} - {b}) else .panic \"\") : Outcome Nat).bind fun {r} =>\n{k(r)})"
            return self.o_seq([e[2], e[3]], sub)
        if kind == "bin":
            return self.o_seq([e[2], e[3]], lambda vs: k(self.ex(("bin", e[1], vs[0], vs[1]))))
        if kind == "cast":
            return self.o_ex(e[1], lambda v: k(self.ex(("cast", ("raw", v), e[2]))))
        if kind == "un":
            return self.o_ex(e[2], lambda v: k(self.ex(("un", e[1], ("raw", v)))))
        if kind in ("field", "tfield"):
            return self.o_ex(e[1], lambda v: k(self.ex((kind, ("raw", v), e[2]))))
        if kind == "call":
            return self.o_seq(e[2], lambda vs: k(self.ex(("call", e[1], vs))))
        if kind == "mcall":
            return self.o_seq([e[1]] + list(e[3]), lambda vs: k(self.ex(("mcall", vs[0], e[2], vs[1:]))))
        if kind == "if":
            if self.has_effect(e[1]):
                raise Untranslatable("effect in a condition")
            if e[3] is None:
                raise Untranslatable("`if` without else in value position")
            return (f"(if {self.cond(e[1])} then\n{indent(self.o_blockval(e[2], k))}\nelse\n{indent(self.o_blockval(e[3], k))})")
        if kind == "match" and self.rust_text(e[1]) in self.cfg.get("result_exprs", {}):
            return self.o_result_match(self.cfg["result_exprs"][self.rust_text(e[1])], e[2], k)
        if kind == "match":
            def arms(sv):
                out = []
                for pats, guard, body in e[2]:
                    if guard is not None:
                        raise Untranslatable("match guard")
                    out.append("| " + " | ".join(self.pat(q) for q in pats) + " =>\n" + indent(self.o_blockval(body, k)))
                return f"(match {sv} with\n" + "\n".join(out) + ")"
            return self.o_ex(e[1], arms)
        if kind == "block":
            return self.o_block(e[1], k)
        raise Untranslatable("effectful expression kind " + kind)

    def o_result_match(self, lean, arms, k):
        """`match <Result-valued expression> { Ok(p) => …, Err(e) => … }` on an expression the table reifies as an
        `Outcome`: the `Ok` / `Err` arms, the other outcomes pass through"""
        out = []
        for pats, guard, body in arms:
            if guard is not None or len(pats) != 1 or pats[0][0] != "ppath" or self.path_text(pats[0][1]) not in ("Ok", "Err") \
                    or len(pats[0][2]) != 1:
                raise Untranslatable("arm of a match on a Result")
            which = self.path_text(pats[0][1])
            inner = pats[0][2][0]
            if which == "Err" and inner[0] == "pvar":
                self.err_vars = getattr(self, "err_vars", set()) | {inner[1]}
            ctor = ".ok" if which == "Ok" else ".err"
            out.append(f"| {ctor} {self.pat(inner)} =>\n" + indent(self.o_blockval(body, k)))
        out.append('| .panic s => .panic s\n| .hang => .hang\n| .fault => .fault')
        return f"(match {lean} with\n" + "\n".join(out) + ")"

    def o_blockval(self, b, k):
        if b[0] == "block":
            return self.o_block(b[1], k)
        return self.o_ex(b, k)

    def o_return(self, e):
        v = e[1]
        if v is not None and v[0] == "call" and v[1][0] == "path" and v[1][1] == ["Err"]:
            a = v[2][0] if v[2] else None
            if a is not None and a[0] == "path" and len(a[1]) == 1 and a[1][0] in getattr(self, "err_vars", set()):
                return f"(.err {self.v(a[1][0])})"       # the error caught by an enclosing `Err(e)` arm
            return f"(.err {self.cfg.get('err_kind', '.format')})"
        if v is not None and v[0] == "call" and v[1][0] == "path" and v[1][1] == ["Ok"] and not self.has_effect(v[2]) \
                and getattr(self, "final_k", None) is not None:
            return "(" + self.final_k(self.ex(v)) + ")"
        raise Untranslatable("early return of a value in outcome mode")

    def o_block(self, sts, k):
        """statements of a block, then `k` applied to the value of its tail expression"""
        sts = [x for x in sts if x[0] != "empty"]
        if not sts:
            return k("()")
        s, rest = sts[0], sts[1:]
        cont = lambda: self.o_block(rest, k)   # noqa: E731
        kind = s[0]
        if kind == "let":
            _, pat, init, mut, ty, els = s
            if pat[0] == "pvar" and pat[1] in self.cfg.get("ignore_lets", []):
                return cont()
            if els is not None or init is None:
                raise Untranslatable("let form")
            ptxt = self.pat(pat)
            return self.o_ex(init, lambda v: f"let {ptxt} := {v}\n{cont()}")
        if kind == "expr" and any(self.rust_text(s[1]).startswith(pre) for pre in self.cfg.get("ignore_stmts", [])):
            return cont()
        if kind == "expr" and s[1][0] == "try" and s[1][1][0] == "mcall" and self.is_parser(s[1][1][1]) and s[1][1][2] == "read_data" \
                and len(s[1][1][3]) == 1:
            # `parser.read_data(&mut buf)?` into a fixed-size local buffer the table knows: the bytes read become `buf`
            a = s[1][1][3][0]
            while a[0] in ("ref", "paren"):
                a = a[1]
            if a[0] == "path" and len(a[1]) == 1 and a[1][0] in self.cfg.get("read_into", {}):
                var = self.v(a[1][0])
                return f"(({self.cfg['read_into'][a[1][0]]}).bind fun ({var}, bs) =>\n{cont()})"
        if kind == "expr" and s[1][0] == "iflet" and s[1][4] is None:
            _, ipat, scrut, th, _el = s[1]
            key = self.rust_text(scrut)
            if key in self.cfg.get("result_exprs", {}) and ipat[0] == "ppath" and self.path_text(ipat[1]) == "Err" and len(ipat[2]) == 1:
                inner = ipat[2][0]
                if inner[0] == "pvar":
                    self.err_vars = getattr(self, "err_vars", set()) | {inner[1]}
                return (f"(match {self.cfg['result_exprs'][key]} with\n| .err {self.pat(inner)} =>\n"
                        f"{indent(self.o_block(th[1], lambda v: cont()))}\n| _ =>\n{indent(cont())})")
            if self.has_effect(scrut):
                raise Untranslatable("effect in the scrutinee of `if let`")
            return (f"(match {self.ex(scrut)} with\n| {self.pat(ipat)} =>\n{indent(self.o_block(th[1], lambda v: cont()))}\n"
                    f"| _ =>\n{indent(cont())})")
        if kind == "expr":
            _, e, semi = s
            if not rest and not semi:
                if e[0] == "call" and e[1][0] == "path" and e[1][1] == ["Err"]:
                    return "(.err .format)"
                return self.o_ex(e, k)
            if e[0] == "macro":
                if e[1] in ("debug_assert", "debug_assert_eq", "debug_assert_ne", "trace", "debug", "println") or e[1] in self.cfg.get("ignore_macros", []):
                    return cont()
                if e[1] in ("panic", "unreachable", "todo", "unimplemented"):
                    return '(.panic "")'
                if e[1] in ("assert", "assert_eq", "assert_ne"):
                    args, cur, d = [], [], 0
                    for tk in e[2]:
                        if tk[1] in ("(", "[", "{"):
                            d += 1
                        elif tk[1] in (")", "]", "}"):
                            d -= 1
                        if tk[1] == "," and d == 0:
                            args.append(cur)
                            cur = []
                        else:
                            cur.append(tk)
                    if cur:
                        args.append(cur)
                    need = 1 if e[1] == "assert" else 2
                    xs = []
                    for part in args[:need]:
                        q = Parser(part + [("eof", "")])
                        xs.append(q.expr())
                    c = self.cond(xs[0]) if e[1] == "assert" else self.cond(("bin", "==" if e[1] == "assert_eq" else "!=", xs[0], xs[1]))
                    return f"(if {c} then\n{indent(cont())}\nelse\n  .panic \"\")"
                raise Untranslatable("macro " + e[1])
            if e[0] == "return":
                return self.o_return(e)
            if self.rust_text(e) in self.cfg.get("push_stmts", {}):
                var, val = self.cfg["push_stmts"][self.rust_text(e)]
                return f"let {var} := {var} ++ [{val}]\n{cont()}"
            if e[0] == "mcall" and e[2] == "insert" and e[1][0] == "path" and len(e[1][1]) == 1 and len(e[3]) == 2 \
                    and e[1][1][0] in self.cfg.get("map_vars", []):
                # a map the table declares: kept as the list of its insertions, in order
                var = self.v(e[1][1][0])
                return self.o_seq(list(e[3]), lambda vs: f"let {var} := {var} ++ [({self.ex(vs[0])}, {self.ex(vs[1])})]\n{cont()}")
            if e[0] == "mcall" and e[2] == "push" and e[1][0] == "path" and len(e[1][1]) == 1 and len(e[3]) == 1:
                var = self.v(e[1][1][0])
                return self.o_ex(e[3][0], lambda v: f"let {var} := {var} ++ [{v}]\n{cont()}")
            if e[0] == "if" and e[3] is None:
                if self.has_effect(e[1]):
                    raise Untranslatable("effect in a condition")
                return f"(if {self.cond(e[1])} then\n{indent(self.o_block(e[2][1], lambda v: cont()))}\nelse\n{indent(cont())})"
            if e[0] in ("if", "match", "block"):
                return self.o_ex(e, (lambda v: cont()) if rest else k)
            return self.o_ex(e, lambda v: cont())
        if kind == "assign":
            _, op, lhs, rhs = s
            if lhs[0] == "path" and len(lhs[1]) == 1:
                target = self.v(lhs[1][0])
                val = rhs if op == "=" else ("bin", op[:-1], lhs, rhs)
                return self.o_ex(val, lambda v: f"let {target} := {v}\n{cont()}")
            raise Untranslatable("assignment target in outcome mode")
        if kind == "for":
            # `for _ in <count> { … }`: a function recursive on the count, carrying the parser state and the
            # variables the table names (`loop_vars`); the body's effects are chained as anywhere else
            key = self.rust_text(s[2])
            counts = self.cfg.get("for_counts", {})
            lvars = self.cfg.get("loop_vars")
            if key in self.cfg.get("for_lists", {}) and lvars and s[1][0] == "pvar" and not self.cfg.get("stateful", True):
                # `for x in <iterator the table gives as a list>`: structural recursion over the list
                idx = self.nloops
                self.nloops += 1
                lname = f"{self.name}_loop{idx}" if idx else f"{self.name}_loop"
                params = self.cfg["params"]
                pnames = [q for q, _ in params]
                vnames = [n for n, _ in lvars]
                tup = vnames[0] if len(vnames) == 1 else "(" + ", ".join(vnames) + ")"
                tty = lvars[0][1] if len(lvars) == 1 else "(" + " × ".join(t for _, t in lvars) + ")"
                x = self.v(s[1][1])
                ety = self.cfg["for_lists"][key][1]
                call = lambda l: " ".join([lname] + pnames + vnames + [l])   # noqa: E731
                body = self.o_block(s[3][1], lambda v: call("rest_"))
                imp = (self.cfg.get("implicit", "") + " ") if self.cfg.get("implicit") else ""
                sig = imp + " ".join(f"({q} : {t})" for q, t in params) + " " + " ".join(f"({n} : {t})" for n, t in lvars)
                self.aux.append(
                    f"def {lname} {sig} : List {ety} → Outcome ({tty})\n"
                    f"  | [] => .ok ({tup})\n"
                    f"  | {x} :: rest_ =>\n{indent(body, 4)}\n")
                return f"(({call('(' + self.cfg['for_lists'][key][0] + ')')}).bind fun {tup} =>\n{cont()})"
            unused = s[1][0] == "pwild" or (s[1][0] == "pvar" and (s[1][1].startswith("_") or self.cfg.get("loop_unused_ok")))
            if key not in counts or not lvars or not unused:
                raise Untranslatable("loop form in outcome mode")
            idx = self.nloops
            self.nloops += 1
            lname = f"{self.name}_loop{idx}" if idx else f"{self.name}_loop"
            params = self.cfg["params"]
            stateful = self.cfg.get("stateful", True)
            pnames = [q for q, _ in params if q != "bs"]
            vnames = [n for n, _ in lvars]
            tup = vnames[0] if len(vnames) == 1 else "(" + ", ".join(vnames) + ")"
            tty = lvars[0][1] if len(lvars) == 1 else "(" + " × ".join(t for _, t in lvars) + ")"
            st = ["bs"] if stateful else []
            consts = self.cfg.get("loop_consts", [])          # locals of the enclosing body the loop only reads
            pnames = pnames + [n for n, _ in consts]
            call = lambda n: " ".join([lname] + pnames + st + vnames + [n])   # noqa: E731
            body = self.o_block(s[3][1], lambda v: call("n"))
            imp = (self.cfg.get("implicit", "") + " ") if self.cfg.get("implicit") else ""
            sig = imp + " ".join(f"({q} : {t})" for q, t in list(params) + list(consts) if q != "bs") + (" (bs : Bytes) " if stateful else " ") + " ".join(f"({n} : {t})" for n, t in lvars)
            rty = f"({tty} × Bytes)" if stateful else tty
            base = f"({tup}, bs)" if stateful else tup
            self.aux.append(
                f"def {lname} {sig} : Nat → Outcome ({rty})\n"
                f"  | 0 => .ok ({base})\n"
                f"  | n + 1 =>\n{indent(body, 4)}\n")
            bindpat = f"({tup}, bs)" if stateful else tup
            return f"(({call('(' + counts[key] + ')')}).bind fun {bindpat} =>\n{cont()})"
        raise Untranslatable("statement kind in outcome mode: " + kind)

    def loop(self, c, body, rest, k, scope):
        if not self.has_loop:
            raise Untranslatable("internal: loop in a function not declared with loops")
        idx = self.nloops
        self.nloops += 1
        lname = f"{self.name}_loop{idx}" if idx else f"{self.name}_loop"
        params = self.cfg["params"]
        pnames = [p for p, _ in params]
        locals_ = [self.v(n) for n in dict.fromkeys(scope) if self.v(n) not in pnames]
        ltypes = self.cfg.get("local_types", {})
        default_ty = "Int" if self.cfg.get("int") else "Nat"
        sig = (self.cfg.get("implicit", "") + " " if self.cfg.get("implicit") else "") + " ".join(f"({p} : {t})" for p, t in params) + "".join(f" ({n} : {ltypes.get(n, default_ty)})" for n in locals_)
        callargs = " ".join(pnames + locals_)
        # the loop function: fuel is its last argument; the recursive call passes the variables in
        # scope under their current (shadowed) names
        recur = lambda sc: f"{lname} {callargs} fuel"   # noqa: E731
        ctext = c[1] if c[0] == "rawcond" else self.cond(c)
        body_text = self.stmts(body, recur, list(scope))
        exit_text = self.stmts(rest, k, scope) if (rest or k) else self.ret("()")
        ret = self.cfg["ret"]
        self.aux.append(
            f"def {lname} {sig} : Nat → Option ({ret})\n"
            f"  | 0 => none\n"
            f"  | fuel + 1 =>\n"
            f"    if {ctext} then\n{indent(body_text, 6)}\n    else\n{indent(exit_text, 6)}\n")
        return f"{lname} {callargs} ({self.cfg.get('fuel', 'fuel')})"

    def needs_cps(self, e):
        """does this block-like expression contain assignments or effect statements (then its
        branches are translated with the continuation duplicated into them)"""
        k = e[0]
        if k == "block":
            for st in e[1]:
                if st[0] == "assign":
                    return True
                if st[0] == "expr" and st[2] and st[1][0] in ("mcall", "call", "macro"):
                    return True
                if st[0] == "expr" and self.needs_cps(st[1]):
                    return True
                if st[0] == "let" and st[2] is not None and self.needs_cps(st[2]):
                    return True
            return False
        if k == "if":
            return self.needs_cps(e[2]) or (e[3] is not None and self.needs_cps(e[3]))
        if k == "iflet":
            return self.needs_cps(e[3]) or (e[4] is not None and self.needs_cps(e[4]))
        if k == "match":
            return any(self.needs_cps(b) for _, _, b in e[2])
        return False

    def diverges(self, e):
        k = e[0]
        if k == "return":
            return True
        if k == "block":
            return any(self.diverges(s[1]) for s in e[1] if s[0] == "expr") or any(s[0] in ("while", "for") and self.diverges(s[-1]) for s in e[1])
        if k == "if":
            return self.diverges(e[2]) or (e[3] is not None and self.diverges(e[3]))
        if k == "iflet":
            return self.diverges(e[3]) or (e[4] is not None and self.diverges(e[4]))
        if k == "match":
            return any(self.diverges(b) for _, _, b in e[2])
        return False

    def pat_names(self, p):
        if p[0] == "pvar":
            return [p[1]]
        if p[0] == "ptuple":
            return [n for x in p[1] for n in self.pat_names(x)]
        if p[0] == "ppath" and p[2]:
            return [n for x in p[2] for n in self.pat_names(x)]
        if p[0] == "pstruct":
            return [n for _, x in p[2] for n in self.pat_names(x)]
        return []

    def rust_stmts_text(self, sts):
        out = []
        for st in sts:
            if st[0] == "assign":
                out.append(self.rust_text(st[2]) + " = " + self.rust_text(st[3]))
            elif st[0] == "expr":
                out.append(self.rust_text(st[1]))
                if st[1][0] in ("if", "block", "match", "iflet"):
                    out.append(self.rust_block_text(st[1]))
        return "; ".join(out)

    def rust_block_text(self, e):
        if e[0] == "block":
            return self.rust_stmts_text(e[1])
        if e[0] == "if":
            return self.rust_block_text(e[2]) + " " + (self.rust_block_text(e[3]) if e[3] else "")
        if e[0] == "iflet":
            return self.rust_block_text(e[3]) + " " + (self.rust_block_text(e[4]) if e[4] else "")
        if e[0] == "match":
            return " ".join(self.rust_block_text(b) if b[0] in ("block", "if", "match") else self.rust_text(b) for _, _, b in e[2])
        return ""

    # ---- a normalised rendering of Rust expressions (keys of the override tables)
    def rust_text(self, e):
        k = e[0]
        if k == "num":
            return e[1]
        if k == "str":
            return e[1]
        if k == "path":
            return "::".join(e[1])
        if k == "paren":
            return "(" + self.rust_text(e[1]) + ")"
        if k == "field":
            return self.rust_text(e[1]) + "." + e[2]
        if k == "tfield":
            return self.rust_text(e[1]) + "." + e[2]
        if k == "mcall":
            return self.rust_text(e[1]) + "." + e[2] + "(" + ", ".join(self.rust_text(a) for a in e[3]) + ")"
        if k == "call":
            return self.rust_text(e[1]) + "(" + ", ".join(self.rust_text(a) for a in e[2]) + ")"
        if k == "try":
            return self.rust_text(e[1]) + "?"
        if k == "ref":
            return "&" + self.rust_text(e[1])
        if k == "un":
            return e[1] + self.rust_text(e[2])
        if k == "bin":
            return self.rust_text(e[2]) + " " + e[1] + " " + self.rust_text(e[3])
        if k == "cast":
            return self.rust_text(e[1]) + " as " + e[2]
        if k == "index":
            return self.rust_text(e[1]) + "[" + self.rust_text(e[2]) + "]"
        if k == "range":
            return (self.rust_text(e[2]) if e[2] else "") + e[1] + (self.rust_text(e[3]) if e[3] else "")
        if k == "tuple":
            return "(" + ", ".join(self.rust_text(x) for x in e[1]) + ")"
        if k == "macro":
            return e[1] + "!(..)"
        if k == "raw":
            return e[1]
        return "<" + k + ">"


def indent(text, n=2):
    pad = " " * n
    return "\n".join(pad + l if l else l for l in text.split("\n"))


def contains_loop(b):
    if isinstance(b, tuple):
        if b and b[0] in ("while", "for"):
            return True
        return any(contains_loop(x) for x in b[1:])
    if isinstance(b, list):
        return any(contains_loop(x) for x in b)
    return False


def let_initialiser(body_text, var):
    """source text of the initialiser of the first `let [mut] <var>[: T] = …;` in a function body"""
    m = re.search(r"\blet\s+(?:mut\s+)?%s\b[^=;]*=\s*" % re.escape(var), body_text)
    if not m:
        raise Untranslatable(f"`let {var}` not found")
    depth = 0
    for j in range(m.end(), len(body_text)):
        c = body_text[j]
        if c in "([{":
            depth += 1
        elif c in ")]}":
            depth -= 1
        elif c == ";" and depth == 0:
            return body_text[m.end():j]
    raise Untranslatable("unterminated let")


def translate_expr(name, expr_text, cfg):
    """Lean `def` whose body is the translation of one Rust expression"""
    p = Parser(tokenize(expr_text))
    e = p.expr()
    if p.peek()[0] != "eof":
        raise Untranslatable("trailing tokens after the expression")
    em = Emitter(name, cfg)
    sig = " ".join(f"({q} : {t})" for q, t in cfg["params"])
    return f"def {name} {sig} : {cfg['ret']} :=\n  {em.ex(e)}\n"


def translate_outcome(name, body_text, cfg):
    """outcome mode: `def <name> … : Outcome (ret [× Bytes])`"""
    ast = parse_body(body_text)
    em = Emitter(name, cfg)
    params = cfg["params"]
    sig = (cfg.get("implicit", "") + " " if cfg.get("implicit") else "") + " ".join(f"({p} : {t})" for p, t in params)
    stateful = cfg.get("stateful", True)
    final = (lambda v: f".ok ({v}, bs)") if stateful else (lambda v: f".ok ({v})")
    em.final_k = final
    body = em.o_block(ast[1], final)
    if cfg.get("prelude"):
        body = cfg["prelude"] + "\n" + body
    ret = f"({cfg['ret']} × Bytes)" if stateful else cfg["ret"]
    return "\n".join(em.aux) + ("\n" if em.aux else "") + f"def {name} {sig} : Outcome ({ret}) :=\n{indent(body)}\n"


def translate(name, body_text, cfg):
    """Lean text of `def <name> …` (with its loop functions) for the Rust function body `body_text`."""
    if cfg.get("outcome"):
        return translate_outcome(name, body_text, cfg)
    ast = parse_body(body_text)
    em = Emitter(name, cfg)
    em.has_loop = (contains_loop(ast) and not cfg.get("no_loops")) or bool(cfg.get("partial"))
    params = cfg["params"]
    sig = (cfg.get("implicit", "") + " " if cfg.get("implicit") else "") + " ".join(f"({p} : {t})" for p, t in params)
    body = em.stmts(ast[1], None, list(cfg.get("prelude_scope", [])))
    if cfg.get("prelude"):
        body = cfg["prelude"] + "\n" + body
    ret = cfg["ret"]
    if em.has_loop:
        fuel_sig = "" if (any(p == "fuel" for p, _ in params) or "fuel" in cfg or not (contains_loop(ast) and not cfg.get("no_loops"))) else " (fuel : Nat)"
        main = f"def {name} {sig}{fuel_sig} : Option ({ret}) :=\n{indent(body)}\n"
    else:
        main = f"def {name} {sig} : {ret} :=\n{indent(body)}\n"
    return "\n".join(em.aux) + ("\n" if em.aux else "") + main
