#!/usr/bin/env python3
"""Run checks against seeded changes in parallel, each in its own scratch copy:

    tools/par_seeded.py [-j N] [--tier quick] <seeded-id>[:C01,C16] ...

For every job a scratch slot /tmp/par/<id> gets a git worktree of /repo with the patch applied and a
copy of /verif (without work/, replays/, harness/target) whose harness depends on that worktree;
the listed checks (default: the property named in meta.json) run there with JBK_REPO pointing at the
worktree.  /repo itself is never modified.  The result is written to /verif/seeded/<id>/result.json
(same format as tools/seeded.py) and the slot is removed.  Evidence files of /verif are not touched.
"""
import json
import os
import shutil
import subprocess
import sys
import time
from concurrent.futures import ThreadPoolExecutor

VERIF = os.path.normpath(os.path.join(os.path.dirname(os.path.abspath(__file__)), ".."))
REPO = "/repo"
BASE = "/tmp/par"
import threading  # noqa: E402
GIT_LOCK = threading.Lock()


def sh(cmd, **kw):
    return subprocess.run(cmd, stdout=subprocess.PIPE, stderr=subprocess.STDOUT, text=True, **kw)


def job(spec, tier):
    sid, _, cl = spec.partition(":")
    d = os.path.join(VERIF, "seeded", sid)
    if sid == "BASELINE":
        checks = cl.split(",")
        slot_name = "BASELINE-" + cl.replace(",", "-")
    else:
        meta = json.load(open(os.path.join(d, "meta.json")))
        checks = cl.split(",") if cl else [meta["property"]]
        slot_name = sid
    slot = os.path.join(BASE, slot_name)
    repo = os.path.join(slot, "repo")
    verif = os.path.join(slot, "verif")
    with GIT_LOCK:
        shutil.rmtree(slot, ignore_errors=True)
        sh(["git", "-C", REPO, "worktree", "prune"])
    os.makedirs(slot)
    results = {}
    try:
        with GIT_LOCK:
            r = sh(["git", "-C", REPO, "worktree", "add", "--detach", repo, "HEAD"])
        if r.returncode != 0:
            return sid, {"error": "worktree: " + r.stdout[-300:]}
        if sid != "BASELINE":
            r = sh(["git", "-C", repo, "apply", os.path.join(d, "patch.diff")])
            if r.returncode != 0:
                return sid, {"error": "patch does not apply: " + r.stdout[-300:]}
        sh(["rsync", "-a", "--exclude", "/work", "--exclude", "/replays", "--exclude", "/harness/target", "--exclude", "/.git",
            "--exclude", "/seeded", VERIF + "/", verif + "/"])
        ct = os.path.join(verif, "harness", "Cargo.toml")
        txt = open(ct).read().replace('path = "/repo"', f'path = "{repo}"')
        open(ct, "w").write(txt)
        env = dict(os.environ, JBK_REPO=repo, CARGO_NET_OFFLINE="true")
        for c in checks:
            t0 = time.time()
            p = sh([os.path.join(verif, "check"), c, "--tier", tier], cwd=verif, env=env)
            lines = [l for l in p.stdout.splitlines() if l.startswith("VIOLATION") or l.startswith("KNOWN-FINDING")]
            if sid == "BASELINE" and p.returncode != 0:
                # a baseline that fails in a scratch copy: keep what it printed and its replays (the slot is removed)
                keep = f"/tmp/par_baseline_{c}_{tier}"
                shutil.rmtree(keep, ignore_errors=True)
                os.makedirs(keep, exist_ok=True)
                open(os.path.join(keep, "stdout.log"), "w").write(p.stdout)
                shutil.copytree(os.path.join(verif, "replays"), os.path.join(keep, "replays"), dirs_exist_ok=True)
            replays = []
            for l in lines:
                if "replay=" in l:
                    rp = l.split("replay=")[1].split()[0]
                    try:
                        j = json.load(open(rp))
                        replays.append({"signature": j.get("signature", j.get("kind")), "what": (j.get("what") or str(j.get("no_longer_checks")))[:600]})
                    except Exception:
                        pass
            results[c] = {"exit": p.returncode, "violation_lines": [l.replace(slot, "<slot>") for l in lines], "replays": replays,
                          "wall_s": round(time.time() - t0, 1), "tail": p.stdout.strip().splitlines()[-1:]}
    finally:
        with GIT_LOCK:
            sh(["git", "-C", REPO, "worktree", "remove", "--force", repo])
            shutil.rmtree(slot, ignore_errors=True)
            sh(["git", "-C", REPO, "worktree", "prune"])
    out = {"seeded": sid, "tier": tier, "results": results, "detected_by": [c for c, v in results.items() if v["exit"] == 1],
           "ran": "tools/par_seeded.py (scratch worktree of /repo + scratch copy of /verif)"}
    if sid != "BASELINE":
        json.dump(out, open(os.path.join(d, "result.json"), "w"), indent=1)
    return sid, out


def main():
    args = sys.argv[1:]
    jobs = 4
    tier = "quick"
    specs = []
    i = 0
    while i < len(args):
        if args[i] == "-j":
            jobs = int(args[i + 1]); i += 2
        elif args[i] == "--tier":
            tier = args[i + 1]; i += 2
        else:
            specs.append(args[i]); i += 1
    os.makedirs(BASE, exist_ok=True)
    from concurrent.futures import as_completed
    with ThreadPoolExecutor(max_workers=jobs) as ex:
        futures = [ex.submit(job, s, tier) for s in specs]
        for fut in as_completed(futures):
            sid, out = fut.result()
            if "error" in out:
                print(sid, "ERROR", out["error"], flush=True)
                continue
            det = ",".join(out["detected_by"])
            sigs = "; ".join(f"{c}:{[r['signature'] for r in v['replays']][:4]}" for c, v in out["results"].items() if v["replays"])
            exits = ",".join(f"{c}={v['exit']}/{v['wall_s']}s" for c, v in out["results"].items())
            print(f"{sid} detected_by={det} [{exits}] {sigs}", flush=True)


if __name__ == "__main__":
    main()
