"""C09 — crash / I-O-error injection with strace, trace recording, directory post-mortem.

Called by tools/engine.py as the custom runner of property C09.

For every scenario (packaging x {no previous file, previous complete container at the destination}):
  1. record: run the creation child under `strace -f -y` and keep the file-system trace (openat with
     O_CREAT, write/pwrite64/writev/copy_file_range/sendfile, rename*, unlink*) restricted to the
     destination directory; the trace is handed to the Lean model (`hist.fs`) which must accept it as
     disciplined (temp files in the destination directory, finals only as rename targets, entry-point
     renamed last, no write after rename);
  2. inject: for every output syscall index k (per thread, as strace counts) — all of them in the
     thorough tier, an evenly spread sample in the quick tier — re-run the child from a fresh directory
       (a) with `inject=<output syscalls>:error=EIO:when=k`  (the write fails, creation returns an error)
       (b) with `inject=<output syscalls>:signal=KILL:when=k` (the process dies at the syscall's entry)
     and classify the destination directory afterwards (`jbkverif c09verify`):
       entry must be absent / the previous file byte for byte / a complete container that opens, reads
       back the expected logical content and verifies (which implies that every pack file it refers to
       is complete); after an error return no temporary file of the run may remain.
"""
import json
import os
import re
import shutil
import subprocess
import time

OUT_SYSCALLS = "write,pwrite64,writev,copy_file_range,sendfile"
REN_SYSCALLS = "rename,renameat,renameat2"
TRACE_SYSCALLS = "openat,rename,renameat,renameat2,unlink,unlinkat,linkat,ftruncate," + OUT_SYSCALLS
MODES = ["onefile", "twofiles", "noconcat", "onefile-big"]


def fsize_limiter(nbytes, ignore_sigxfsz):
    """preexec: no file may grow beyond nbytes (a write crossing the limit is short, the next one fails
    with EFBIG and raises SIGXFSZ, which kills the process unless ignored)"""
    def f():
        import resource, signal
        if ignore_sigxfsz:
            signal.signal(signal.SIGXFSZ, signal.SIG_IGN)
        resource.setrlimit(resource.RLIMIT_FSIZE, (nbytes, nbytes))
    return f


def sh(cmd, timeout=120, env=None, preexec=None):
    e = dict(os.environ)
    if env:
        e.update(env)
    try:
        p = subprocess.run(cmd, stdout=subprocess.PIPE, stderr=subprocess.STDOUT, text=True, errors="replace", timeout=timeout, env=e, preexec_fn=preexec)
        return p.returncode, p.stdout
    except subprocess.TimeoutExpired as ex:
        return 124, (ex.stdout or b"").decode("utf8", "replace") if isinstance(ex.stdout, bytes) else (ex.stdout or "") + "[timeout]"


def fnv(data):
    h = 0xcbf29ce484222325
    for b in data:
        h ^= b
        h = (h * 0x100000001b3) & 0xFFFFFFFFFFFFFFFF
    return h


def fresh_dir(d, prev_src):
    if os.path.isdir(d):
        shutil.rmtree(d)
    os.makedirs(d)
    prev = None
    if prev_src:
        # a previous complete one-file container sits at the destination path
        shutil.copy(os.path.join(prev_src, "out.jbk"), os.path.join(d, "out.jbk"))
        prev = fnv(open(os.path.join(d, "out.jbk"), "rb").read())
    return prev


def parse_trace(path, dest):
    """strace -f -y output -> (ops string for hist.fs, per-thread output syscall counts)"""
    unfinished = {}
    ops = []
    counts = {}
    dest = dest.rstrip("/") + "/"
    rx = re.compile(r"^(\d+)\s+(.*)$")
    for line in open(path, errors="replace"):
        m = rx.match(line.rstrip("\n"))
        if not m:
            continue
        pid, rest = m.group(1), m.group(2)
        if rest.endswith("<unfinished ...>"):
            unfinished[pid] = rest[: -len("<unfinished ...>")].rstrip()
            continue
        mr = re.match(r"<\.\.\. (\w+) resumed>(.*)$", rest)
        if mr:
            rest = unfinished.pop(pid, mr.group(1) + "(") + mr.group(2)
        mc = re.match(r"(\w+)\((.*)\)\s*=\s*(-?\d+|\?)(.*)$", rest)
        if not mc:
            continue
        name, args, ret = mc.group(1), mc.group(2), mc.group(3)
        if ret == "?":
            continue
        ret = int(ret)
        if name in OUT_SYSCALLS.split(","):
            # first argument: fd<path>; for copy_file_range / sendfile the output fd differs
            if name == "copy_file_range":
                mo = re.findall(r"(\d+)<([^>]*)>", args)
                tgt = mo[1][1] if len(mo) > 1 else ""
            elif name == "sendfile":
                mo = re.findall(r"(\d+)<([^>]*)>", args)
                tgt = mo[0][1] if mo else ""
            else:
                mo = re.match(r"(\d+)<([^>]*)>", args)
                tgt = mo.group(2) if mo else ""
            tgt = tgt.replace(" (deleted)", "")
            if tgt.startswith(dest):
                counts[pid] = counts.get(pid, 0) + 1
                if ret > 0:
                    ops.append("W:" + tgt[len(dest):])
        elif name == "openat" and "O_CREAT" in args and ret >= 0:
            mo = re.search(r'"([^"]*)"', args)
            if mo and mo.group(1).startswith(dest):
                ops.append("C:" + mo.group(1)[len(dest):])
        elif name in ("rename", "renameat", "renameat2") and ret == 0:
            ps = re.findall(r'"([^"]*)"', args)
            if len(ps) >= 2 and ps[0].startswith(dest) and ps[1].startswith(dest):
                ops.append("R:" + ps[0][len(dest):] + ">" + ps[1][len(dest):])
        elif name in ("unlink", "unlinkat") and ret == 0:
            ps = re.findall(r'"([^"]*)"', args)
            if ps and ps[0].startswith(dest):
                ops.append("U:" + ps[0][len(dest):])
    return ops, counts


def recreate_after_death(r, dist, exe, mode, dest, seed, my, label, how):
    """after a creation that died: create again at the same destination, in the directory as the dead
    run left it (stray temporary files included); the destination must then hold the complete container"""
    rc2, out2 = sh([exe, "c09child", mode, dest, str(seed)], timeout=60)
    vrc2, vout2 = sh([exe, "c09verify", mode, dest, str(seed)])
    r["evaluations"] += 1
    line2 = vout2.strip().splitlines()[-1] if vout2.strip() else ""
    m2 = re.match(r"entry=(.*?) temps=(\d+) files=(.*)$", line2)
    state2 = m2.group(1).split(":")[0] if m2 else "unclassified"
    key = f"recreate-after-death:{'creation-ok' if rc2 == 0 else 'creation-failed'}:{state2}"
    dist[key] = dist.get(key, 0) + 1
    if rc2 == 0 and state2 != "complete":
        r["fails"].append({"case": my, "sig": "destination-after-recreation", "what": f"{label}: after a creation that died ({how}), a second, undisturbed creation at the same destination returned success but the destination is {m2.group(1) if m2 else line2[-120:]}; directory: {m2.group(3) if m2 else ''}"})
    if rc2 == 124:
        r["fails"].append({"case": my, "sig": "hang-after-recreation", "what": f"{label}: creation after a dead run ({how}) did not terminate"})


def run(ctx):
    eng = ctx["engine"]
    exe = ctx["exe"]
    seed = ctx["seed"]
    tier = ctx["tier"]
    outdir = ctx["outdir"]
    only_case = ctx.get("case")
    if os.path.isdir(outdir):
        shutil.rmtree(outdir)
    os.makedirs(outdir)
    r = {"problems": [], "dis": [], "fails": [], "evaluations": 0, "distinct": 0, "lines": 0, "samples": [], "distribution": {}}
    dist = r["distribution"]
    ops_f = open(os.path.join(outdir, "ops.txt"), "w")
    imp_f = open(os.path.join(outdir, "impl.txt"), "w")
    ids_f = open(os.path.join(outdir, "ids.txt"), "w")
    t0 = time.time()
    # the previous complete container used by the "previous file" scenarios
    prevdir = os.path.join(outdir, "prev")
    os.makedirs(prevdir)
    rc, out = sh([exe, "c09child", "onefile", prevdir, str(seed + 1000)])
    if rc != 0:
        r["problems"].append("cannot create the previous container: " + out[-200:])
        return r
    case = 0
    per_points = 14 if tier == "quick" else None
    for mode in MODES:
        for with_prev in (False, True):
            my = case
            case += 1
            if only_case is not None and only_case != my:
                continue
            label = f"{mode}{'+prev' if with_prev else ''}"
            sdir = os.path.join(outdir, f"s{my}")
            dest = os.path.join(sdir, "d")
            # ---- 1. record
            prev = fresh_dir(dest, prevdir if with_prev else None)
            trace = os.path.join(sdir, "trace.txt")
            rc, out = sh(["strace", "-f", "-y", "-o", trace, "-e", "trace=" + TRACE_SYSCALLS, exe, "c09child", mode, dest, str(seed)])
            if rc != 0:
                r["fails"].append({"case": my, "sig": "create", "what": f"{label}: undisturbed creation failed rc={rc}: {out[-200:]}"})
                continue
            rc, out = sh([exe, "c09verify", mode, dest, str(seed)] + ([str(prev)] if prev else []))
            if "entry=complete" not in out:
                r["fails"].append({"case": my, "sig": "undisturbed-incomplete", "what": f"{label}: after an undisturbed creation: {out.strip()[:200]}"})
            ops, counts = parse_trace(trace, dest)
            final_sizes = sorted({os.path.getsize(os.path.join(dest, f)) for f in os.listdir(dest) if os.path.isfile(os.path.join(dest, f))})
            old = "out.jbk" if with_prev else "-"
            ops_f.write(f"hist.fs {mode.split('-')[0]} out.jbk {old} {','.join(ops) if ops else '-'}\n")
            imp_f.write(f"disciplined ops={len(ops)} renames={sum(1 for o in ops if o.startswith('R:'))} instance-of-model\n")
            ids_f.write(f"{my}\n")
            r["lines"] += 1
            maxk = max(counts.values()) if counts else 0
            dist[f"output_syscalls:{label}"] = sum(counts.values())
            dist[f"threads_writing:{label}"] = len(counts)
            if len(r["samples"]) < 6:
                r["samples"].append(f"{label}: trace {','.join(ops[:10])}… ({len(ops)} fs ops, {sum(counts.values())} output syscalls over {len(counts)} threads); faults injected at k=1..{maxk}")
            # ---- 2. inject
            ks = list(range(1, maxk + 1))
            if per_points and len(ks) > per_points:
                step = len(ks) / per_points
                ks = sorted({ks[int(i * step)] for i in range(per_points)} | {1, 2, maxk, maxk - 1})
            # the publishing renames are fault points too: the k-th rename fails (EIO) / the process
            # dies on entering it (= right after the (k-1)-th rename took effect)
            nren = sum(1 for o in ops if o.startswith("R:"))
            dist[f"renames:{label}"] = nren
            # error returns at *every* output syscall (a one-shot error is what a swallowed result hides: it
            # may matter at exactly one write), process deaths at the sampled ones in the quick tier
            all_ks = list(range(1, maxk + 1))
            points = [("out", "EIO", k) for k in all_ks] + [("out", "KILL", k) for k in ks] + [("ren", v, k) for v in ("EIO", "KILL") for k in range(1, nren + 1)]
            for what, variant, k in points:
                if True:
                    prev = fresh_dir(dest, prevdir if with_prev else None)
                    calls = OUT_SYSCALLS if what == "out" else REN_SYSCALLS
                    inj = f"inject={calls}:error=EIO:when={k}" if variant == "EIO" else f"inject={calls}:signal=KILL:when={k}"
                    if what == "ren":
                        variant = variant + "-at-rename"
                    rc, out = sh(["strace", "-f", "-o", "/dev/null", "-e", "trace=" + calls, "-e", inj, exe, "c09child", mode, dest, str(seed)], timeout=60)
                    vrc, vout = sh([exe, "c09verify", mode, dest, str(seed)] + ([str(prev)] if prev else []))
                    r["evaluations"] += 1
                    line = vout.strip().splitlines()[-1] if vout.strip() else ""
                    m = re.match(r"entry=(.*?) temps=(\d+) files=(.*)$", line)
                    if not m:
                        r["fails"].append({"case": my, "sig": "verify", "what": f"{label} {variant}@{k}: cannot classify the directory: {vout[-200:]}"})
                        continue
                    state, temps = m.group(1), int(m.group(2))
                    key = f"{variant}:{'creation-ok' if rc == 0 else ('error-return' if rc == 1 else 'died')}:{state.split(':')[0]}"
                    dist[key] = dist.get(key, 0) + 1
                    allowed = {"complete", "absent"} if not with_prev else {"complete", "previous"}
                    if state.split(":")[0] not in allowed:
                        r["fails"].append({"case": my, "sig": f"destination-{variant}", "what": f"{label}: {variant} at syscall #{k} of its class (child rc={rc}): destination is {state}; directory: {m.group(3)}"})
                    if rc == 124:
                        r["fails"].append({"case": my, "sig": f"hang-{variant}", "what": f"{label}: {variant} at syscall #{k} of its class: creation did not terminate"})
                    # Not part of C09 (which constrains the destination path only), so counted, not
                    # reported: temporary files left after an error return, and an I/O error that ends
                    # the creation by a panic (status 101) instead of an error value.
                    if variant.startswith("EIO") and rc == 1 and temps > 0:
                        dist["stray_temp_after_error_return"] = dist.get("stray_temp_after_error_return", 0) + 1
                    if variant.startswith("EIO") and rc not in (0, 1, 124):
                        dist["io_error_ended_in_panic_or_abort"] = dist.get("io_error_ended_in_panic_or_abort", 0) + 1
                    # the injection itself must be effective: a fault at an existing syscall index cannot
                    # leave the run undisturbed *and* unreported by strace; count undisturbed runs
                    if rc == 0:
                        dist["runs_undisturbed"] = dist.get("runs_undisturbed", 0) + 1
                    if variant.startswith("KILL") and rc not in (0, 1, 124) and (tier != "quick" or k % 2 == 1):
                        recreate_after_death(r, dist, exe, mode, dest, seed, my, label, f"{variant} at syscall #{k}")
            # ---- 3. byte offsets: no output file may grow beyond N bytes (RLIMIT_FSIZE) — the write that
            # crosses byte N is short, the following one fails; process death (SIGXFSZ) and error return
            # (EFBIG) variants.  N ranges over every byte offset of the largest file in the thorough tier.
            top = max(final_sizes) if final_sizes else 0
            if tier == "quick":
                ns = {0, 1, 63, 64, 65, 127, 128, 129}
                for s in final_sizes:
                    ns |= {s - 101, s - 65, s - 64, s - 63, s - 37, s - 33, s - 32, s - 5, s - 2, s - 1}
                step = max(1, top // 9)
                ns |= set(range(step // 2, top, step))
            else:
                stride = max(1, top // 4000)
                ns = set(range(0, top, stride)) | {s - d for s in final_sizes for d in range(1, 140)}
            ns = sorted(n for n in ns if 0 <= n < top)
            dist[f"fsize_points:{label}"] = len(ns)
            for variant, ign in (("FSIZE-KILL", False), ("FSIZE-EFBIG", True)):
                for nb in ns:
                    prev = fresh_dir(dest, prevdir if with_prev else None)
                    rc, out = sh([exe, "c09child", mode, dest, str(seed)], timeout=60, preexec=fsize_limiter(nb, ign))
                    vrc, vout = sh([exe, "c09verify", mode, dest, str(seed)] + ([str(prev)] if prev else []))
                    r["evaluations"] += 1
                    line = vout.strip().splitlines()[-1] if vout.strip() else ""
                    m = re.match(r"entry=(.*?) temps=(\d+) files=(.*)$", line)
                    if not m:
                        r["fails"].append({"case": my, "sig": "verify", "what": f"{label} {variant}@{nb}: cannot classify the directory: {vout[-200:]}"})
                        continue
                    state = m.group(1)
                    key = f"{variant}:{'creation-ok' if rc == 0 else ('error-return' if rc == 1 else 'died')}:{state.split(':')[0]}"
                    dist[key] = dist.get(key, 0) + 1
                    allowed = {"complete", "absent"} if not with_prev else {"complete", "previous"}
                    if state.split(":")[0] not in allowed:
                        r["fails"].append({"case": my, "sig": f"destination-{variant}", "what": f"{label}: no file may grow beyond {nb} bytes ({variant}; child rc={rc}): destination is {state}; directory: {m.group(3)}"})
                    if rc == 124:
                        r["fails"].append({"case": my, "sig": f"hang-{variant}", "what": f"{label}: {variant} at byte {nb}: creation did not terminate"})
                    if rc == 0:
                        dist["fsize_runs_undisturbed"] = dist.get("fsize_runs_undisturbed", 0) + 1
                    if variant == "FSIZE-KILL" and rc not in (0, 1, 124) and (tier != "quick" or nb % 3 == 0):
                        recreate_after_death(r, dist, exe, mode, dest, seed, my, label, f"file size limit {nb}")
            r["distinct"] += 1
    # self-check of the injector: if (almost) every faulted run completed normally the faults are not
    # being delivered (e.g. the syscall set is not in strace's trace set) and the run proves nothing
    if r["evaluations"] >= 20 and dist.get("runs_undisturbed", 0) * 2 > r["evaluations"]:
        r["problems"].append(f"fault injection ineffective: {dist.get('runs_undisturbed', 0)} of {r['evaluations']} faulted runs completed normally")
    ops_f.close(); imp_f.close(); ids_f.close()
    dist["harness_s"] = round(time.time() - t0, 1)
    # ---- model
    rc, out, dt = eng.run_driver(outdir)
    dist["model_driver_s"] = round(dt, 1)
    n, dis = eng.compare(outdir)
    r["dis"] = dis
    for f in r["fails"]:
        f["profile"] = ctx["profile"]
        f["op"] = ""
    return r
