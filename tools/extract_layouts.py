#!/usr/bin/env python3
"""Regenerate lean/JubakoModel/Generated/Layouts.lean from /repo/src: a small translator for the
fixed-layout structures of the format.

For every structure listed in TARGETS the translator reads, in the Rust source,
  * the `struct` definition (field name -> type),
  * the body of `impl Serializable for X { fn serialize }`  -> the writer's layout,
  * the body of `impl Parsable for X { fn parse }`          -> the reader's layout,
and emits both layouts as Lean lists of (field name, width in bytes).  Widths of types come from the
source as well: `specific! {uN, Idx(..), Count, ..}` lines, `pub type X = FreeData<N>`, and the
`SizedParsable` constants of the primitive wrappers (checked against the table below).

Statements understood (anything else makes the structure "not derived": the pinned table is kept
and the status says so — fail-soft, like extract_consts.py):
  writer:  written += self.F.serialize(ser)?;            written += ser.write_uN(<expr with self.F>)?;
           written += ser.write_data(&[0_u8; N])?;       written += FullPackKind(self.F).serialize(ser)?;
           written += PString::serialize_string_padded(self.F.as_str(), N, ser)?;
  reader:  let F = T::parse(parser)?;                    let F = parser.read_uN()?...;
           parser.skip(N)?;                              let F = <..>::from(parser.read_uN()? ..);
           let F = PString::parse(parser)?; parser.skip(N - F.len())?;   (padded string of 1+N bytes)
"""
import json
import os
import re
import sys

REPO = os.environ.get("JBK_REPO", "/repo")
OUT = os.path.normpath(os.path.join(os.path.dirname(os.path.abspath(__file__)), "..", "lean", "JubakoModel", "Generated", "Layouts.lean"))

# Lean name, Rust struct, file
TARGETS = [
    ("packHeader", "PackHeader", "src/common/headers/pack.rs"),
    ("packInfo", "PackInfo", "src/common/pack_info.rs"),
    ("packLocator", "PackLocator", "src/common/pack_locator.rs"),
    ("containerHeader", "ContainerPackHeader", "src/common/headers/container_pack.rs"),
    ("contentHeader", "ContentPackHeader", "src/common/headers/content_pack.rs"),
    ("directoryHeader", "DirectoryPackHeader", "src/common/headers/directory_pack.rs"),
    ("manifestHeader", "ManifestPackHeader", "src/common/headers/manifest_pack.rs"),
    ("clusterHeader", "ClusterHeader", "src/common/headers/cluster.rs"),
]

# reader-only structures (the writer is elsewhere and is covered by extract_funcs.py)
READER_ONLY = [
    ("indexHeader", "IndexHeader", "src/reader/directory_pack/index.rs"),
]

# what the model was written from (kept when the source can no longer be translated)
PINNED = {
    "packHeader": [("magic", 4), ("app_vendor_id", 4), ("major_version", 1), ("minor_version", 1), ("uuid", 16), ("flags", 1), ("pad0", 5), ("file_size", 8), ("check_info_pos", 8), ("pad1", 12)],
    "packInfo": [("uuid", 16), ("pack_size", 8), ("check_info_pos", 8), ("pack_id", 2), ("pack_kind", 1), ("pack_group", 1), ("free_data_id", 2), ("pack_location", 214)],
    "packLocator": [("uuid", 16), ("pack_size", 8), ("pack_pos", 8)],
    "containerHeader": [("pack_locators_pos", 8), ("pack_count", 2), ("pad0", 26), ("free_data", 24)],
    "contentHeader": [("content_ptr_pos", 8), ("cluster_ptr_pos", 8), ("content_count", 4), ("cluster_count", 4), ("pad0", 12), ("free_data", 24)],
    "directoryHeader": [("index_ptr_pos", 8), ("entry_store_ptr_pos", 8), ("value_store_ptr_pos", 8), ("index_count", 4), ("entry_store_count", 4), ("value_store_count", 1), ("pad0", 3), ("free_data", 24)],
    "manifestHeader": [("pack_count", 2), ("value_store_posinfo", 8), ("pad0", 26), ("free_data", 24)],
    "clusterHeader": [("compression", 1), ("offset_size", 1), ("blob_count", 2)],
    "indexHeader": [("store_id", 4), ("entry_count", 4), ("entry_offset", 4), ("free_data", 4), ("index_property", 1), ("name", 0)],
}

BASE = {"u8": 1, "u16": 2, "u32": 4, "u64": 8}


def read(path):
    with open(os.path.join(REPO, path)) as f:
        return f.read()


def type_widths():
    """widths of the named types, from the source"""
    w = dict(BASE)
    notes = []
    # primitive wrappers: `impl SizedParsable for X { const SIZE: usize = N; }`
    for path, name in [("src/bases/types/size.rs", "Size"), ("src/bases/types/offset.rs", "Offset"),
                       ("src/bases/types/sized_offset.rs", "SizedOffset"), ("src/bases/types/vendor_id.rs", "VendorId"),
                       ("src/common/pack_kind.rs", "PackKind"), ("src/common/pack_kind.rs", "FullPackKind"),
                       ("src/bases/types/byte_size.rs", "ByteSize")]:
        try:
            src = read(path)
            m = re.search(r"impl SizedParsable for %s \{\s*const SIZE: usize = ([^;]+);" % name, src)
            expr = m.group(1).strip()
            if re.fullmatch(r"[0-9]+", expr):
                w[name] = int(expr)
            elif re.fullmatch(r"(\w+)::SIZE", expr):
                w[name] = ("alias", expr.split("::")[0])
            else:
                # e.g. `3 + PackKind::SIZE`
                tot = 0
                for part in expr.split("+"):
                    part = part.strip()
                    if part.isdigit():
                        tot += int(part)
                    else:
                        tot = ("sum", expr)
                        break
                w[name] = tot
        except Exception as e:  # noqa
            notes.append(f"{name}: {type(e).__name__}")
    # resolve aliases / sums
    for _ in range(3):
        for k, v in list(w.items()):
            if isinstance(v, tuple) and v[0] == "alias" and isinstance(w.get(v[1]), int):
                w[k] = w[v[1]]
            if isinstance(v, tuple) and v[0] == "sum":
                tot = 0
                ok = True
                for part in v[1].split("+"):
                    part = part.strip()
                    if part.isdigit():
                        tot += int(part)
                    else:
                        t = part.split("::")[0]
                        if isinstance(w.get(t), int):
                            tot += w[t]
                        else:
                            ok = False
                if ok:
                    w[k] = tot
    w = {k: v for k, v in w.items() if isinstance(v, int)}
    try:
        m = re.search(r"impl Serializable for CompressionType \{.*?ser\.write_(u8|u16|u32|u64)\(", read("src/common/compression_type.rs"), re.S)
        if m:
            w["CompressionType"] = BASE[m.group(1)]
    except Exception as e:  # noqa
        notes.append("CompressionType: " + type(e).__name__)
    w["Uuid"] = 16  # uuid crate: 16 bytes (bases/parsing.rs `impl SizedParsable for Uuid`)
    try:
        m = re.search(r"impl SizedParsable for Uuid \{\s*const SIZE: usize = ([0-9]+);", read("src/bases/parsing.rs") + read("src/bases/types/mod.rs"))
        if m:
            w["Uuid"] = int(m.group(1))
    except Exception:
        pass
    # specific! {u32, EntryStoreIdx(Idx), EntryStoreCount, "EntryStore"}
    try:
        for m in re.finditer(r"specific!\s*\{\s*(u8|u16|u32|u64),\s*(\w+)\(\w+\),\s*(\w+),", read("src/bases/types/specific_types.rs")):
            w[m.group(2)] = BASE[m.group(1)]
            w[m.group(3)] = BASE[m.group(1)]
    except Exception as e:  # noqa
        notes.append("specific!: " + type(e).__name__)
    try:
        for m in re.finditer(r"pub type (\w+) = FreeData<([0-9]+)>;", read("src/bases/types/free_data.rs")):
            w[m.group(1)] = int(m.group(2))
    except Exception as e:  # noqa
        notes.append("FreeData: " + type(e).__name__)
    return w, notes


def body_of(src, header_rx):
    """text between the braces of the first `fn` after the impl header"""
    m = re.search(header_rx, src)
    if not m:
        return None
    i = src.index("{", src.index("fn ", m.end()))
    depth = 0
    for j in range(i, len(src)):
        if src[j] == "{":
            depth += 1
        elif src[j] == "}":
            depth -= 1
            if depth == 0:
                return src[i + 1:j]
    return None


def struct_fields(src, name):
    m = re.search(r"struct %s \{(.*?)\n\}" % name, src, re.S)
    if not m:
        return None
    out = {}
    for fm in re.finditer(r"(?:pub(?:\([a-z]+\))?\s+)?(\w+):\s*([\w<>]+),", m.group(1)):
        out[fm.group(1)] = fm.group(2)
    return out


def statements(body):
    # drop comments, split on ';'
    body = re.sub(r"//[^\n]*", "", body)
    body = re.sub(r"\[0(?:_u8)?;\s*([0-9]+)\]", r"[ZEROS \1]", body)   # `[0_u8; N]` holds a `;`
    return [re.sub(r"\s+", " ", s).strip() for s in body.split(";") if s.strip()]


def writer_layout(body, fields, widths):
    out = []
    pads = 0
    for s in statements(body):
        if s in ("let mut written = 0", "Ok(written)"):
            continue
        m = re.fullmatch(r"written \+= self\.(\w+)\.serialize\(ser\)\?", s)
        if m:
            out.append((m.group(1), widths[fields[m.group(1)]]))
            continue
        m = re.fullmatch(r"written \+= (\w+)\(self\.(\w+)\)\.serialize\(ser\)\?", s)
        if m:
            out.append((m.group(2), widths[m.group(1)]))
            continue
        m = re.fullmatch(r"written \+= ser\.write_(u8|u16|u32|u64)\((.*)\)\?", s)
        if m:
            fm = re.search(r"self\.(\w+)", m.group(2))
            out.append((fm.group(1) if fm else "const", BASE[m.group(1)]))
            continue
        m = re.fullmatch(r"written \+= ser\.write_data\(&\[ZEROS ([0-9]+)\]\)\?", s)
        if m:
            out.append((f"pad{pads}", int(m.group(1))))
            pads += 1
            continue
        m = re.fullmatch(r"written \+= PString::serialize_string_padded\(self\.(\w+)\.as_str\(\), ([0-9]+), ser\)\?", s)
        if m:
            out.append((m.group(1), 1 + int(m.group(2))))
            continue
        raise ValueError("writer statement not understood: " + s)
    return out


def reader_layout(body, widths):
    out = []
    pads = 0
    sts = statements(body)
    k = 0
    while k < len(sts):
        s = sts[k].lstrip("} ").strip()   # a statement following the closing brace of an `if` block
        k += 1
        if not s:
            continue
        if s.startswith("Ok(") or s.startswith("if (major_version") or s.startswith("return Err") or s.startswith("}") or s.startswith(".into()"):
            # the tail of the function (struct literal), the version gate
            if s.startswith("Ok("):
                break
            continue
        m = re.fullmatch(r"let (\w+) = (\w+)::parse\(parser\)\?", s)
        if m:
            name, ty = m.group(1), m.group(2)
            if ty == "PString":
                # padded string: the next statement skips the rest of the field
                nxt = sts[k] if k < len(sts) else ""
                pm = re.fullmatch(r"parser\.skip\(([0-9]+) - %s\.len\(\)\)\?" % name, nxt)
                if not pm:
                    # an unpadded p-string (variable length): width 0 in the table; must be the last field
                    if nxt.startswith("Ok("):
                        out.append((name, 0))
                        continue
                    raise ValueError("p-string without its padding skip: " + nxt)
                k += 1
                out.append((name, 1 + int(pm.group(1))))
            else:
                out.append((name, widths[ty]))
            continue
        m = re.fullmatch(r"let (\w+) = \w+::<(u8|u16|u32|u64)>::parse\(parser\)\?(?:\.into\(\))?", s)
        if m:
            out.append((m.group(1), BASE[m.group(2)]))
            continue
        m = re.fullmatch(r"let (\w+) = .*parser\.read_(u8|u16|u32|u64)\(\)\?.*", s)
        if m:
            out.append((m.group(1), BASE[m.group(2)]))
            continue
        m = re.fullmatch(r"parser\.skip\(([0-9]+)\)\?", s)
        if m:
            out.append((f"pad{pads}", int(m.group(1))))
            pads += 1
            continue
        raise ValueError("reader statement not understood: " + s)
    return out


def lean_list(l):
    return "[" + ", ".join(f'("{n}", {w})' for n, w in l) + "]"


def main():
    status = {}
    widths, notes = type_widths()
    lines = [
        "/- GENERATED by tools/extract_layouts.py from /repo/src on every run. Do not edit.",
        "   Writer (`Serializable::serialize`) and reader (`Parsable::parse`) layouts of the fixed-layout",
        "   structures, as (field name, width in bytes); paddings are numbered `pad0`, `pad1`, ….  -/",
        "namespace Jubako.Generated",
        "",
    ]
    for lname, sname, path in TARGETS:
        st = "extracted"
        ser = par = PINNED[lname]
        try:
            src = read(path)
            fields = struct_fields(src, sname)
            wb = body_of(src, r"impl Serializable for %s \{" % sname)
            rb = body_of(src, r"impl Parsable for %s \{" % sname)
            ser = writer_layout(wb, fields, widths)
            par = reader_layout(rb, widths)
            if ser != PINNED[lname] or par != PINNED[lname]:
                st = "extracted-changed"
        except Exception as e:  # noqa
            st = "not-derived:" + (str(e) or type(e).__name__)[:160]
            ser = par = PINNED[lname]
        status[lname] = {"status": st, "file": path, "writer": ser, "reader": par}
        lines.append(f"def {lname}Ser : List (String × Nat) := {lean_list(ser)}")
        lines.append(f"def {lname}Par : List (String × Nat) := {lean_list(par)}")
        lines.append("")
    for lname, sname, path in READER_ONLY:
        st = "extracted"
        par = PINNED[lname]
        try:
            src = read(path)
            rb = body_of(src, r"impl Parsable for %s \{" % sname)
            par = reader_layout(rb, widths)
            if par != PINNED[lname]:
                st = "extracted-changed"
        except Exception as e:  # noqa
            st = "not-derived:" + (str(e) or type(e).__name__)[:160]
            par = PINNED[lname]
        status[lname] = {"status": st, "file": path, "reader": par}
        lines.append(f"def {lname}Par : List (String × Nat) := {lean_list(par)}")
        lines.append("")
    lines.append("end Jubako.Generated")
    text = "\n".join(lines) + "\n"
    os.makedirs(os.path.dirname(OUT), exist_ok=True)
    old = open(OUT).read() if os.path.exists(OUT) else None
    if old != text:
        with open(OUT, "w") as f:
            f.write(text)
    if notes:
        status["_type_width_notes"] = notes
    json.dump(status, sys.stdout, indent=1)
    print()


if __name__ == "__main__":
    main()
