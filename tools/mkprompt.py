#!/usr/bin/env python3
"""tools/mkprompt.py <ID> <base> [<focus file>]  -> prompt text for a seeding sub-agent (property text + own worktree only)"""
import json, re, sys, os
pid, base = sys.argv[1], sys.argv[2]
V = os.path.normpath(os.path.join(os.path.dirname(os.path.abspath(__file__)), ".."))
t = open(f"{V}/seeded/PROMPT.template.txt").read()
p = [json.loads(l) for l in open(f"{V}/properties.jsonl") if json.loads(l)["id"] == pid][0]
txt = f"[{p['id']}] {p['title']}\n\nStatement: {p['statement']}\n\nQuantifier: {p['quantifier']['text']}"
t = t.replace("<property id, title, statement and quantifier text copied from properties.jsonl>", txt)
t = t.replace("/tmp/mut/<ID>", f"{base}/{pid}").replace("<ID>", pid)
if len(sys.argv) > 3:
    for l in open(sys.argv[3]):
        m = re.match(rf"- {pid}: (.*)", l)
        if m:
            t += f"\nWHERE: put the defect in this part of the code: {m.group(1)}\n"
print(t)
