#!/bin/bash
# every seeded change against the check of its own property (quick tier): refreshes seeded/*/result.json
cd /verif
for d in seeded/C*-*/; do
  id=$(basename "$d")
  python3 tools/seeded.py "$id" > "seeded/$id/last_run.log" 2>&1
  echo "$id detected_by=$(python3 -c "import json;print(','.join(json.load(open('seeded/$id/result.json'))['detected_by']))")"
done
git -C /repo status --porcelain
