#!/bin/bash
# confirm a candidate seeded change in its scratch worktree:  confirm_seeded.sh <worktree> <outdir> [extra cargo test args]
# checks: patch applies to a clean tree, builds, the pinned suite passes with it, the demo fails with it and passes without it
W=$1; O=$2; shift 2
export CARGO_NET_OFFLINE=true
# the pinned integration test writes fixed names under temp_dir(): give every worktree its own
export TMPDIR="$W/target/tmp"; mkdir -p "$TMPDIR"
cd "$W" || exit 2
git checkout -- . ; git clean -fdq tests examples
L="$O/confirm.log"; : > "$L"
git apply "$O/patch.diff" || { echo "patch-does-not-apply" | tee -a "$L"; exit 1; }
echo "files touched: $(git diff --stat | tail -1)" >> "$L"
cargo build --offline >> "$L" 2>&1 || { echo "build-fails" | tee -a "$L"; exit 1; }
cargo test --workspace --no-fail-fast --offline > "$O/suite.log" 2>&1; src=$?
grep "^test result" "$O/suite.log" >> "$L"
echo "suite_with_patch_rc=$src" | tee -a "$L"
for d in "$O"/demo/*.rs; do
  n=$(basename "$d" .rs); cp "$d" tests/
  cargo test --offline --test "$n" "$@" 2>&1 | cat > "$O/demo_with_patch_$n.log"; a=${PIPESTATUS[0]}   # through a pipe: a demo may limit file sizes
  git checkout -- src
  cargo test --offline --test "$n" "$@" 2>&1 | cat > "$O/demo_without_patch_$n.log"; b=${PIPESTATUS[0]}
  git apply "$O/patch.diff"
  rm "tests/$n.rs"
  echo "demo=$n with_patch_rc=$a without_patch_rc=$b" | tee -a "$L"
done
git checkout -- . ; git clean -fdq tests examples
